package main

// C07 — only advertised terminal features are used; fallbacks are faithful.

import (
	"fmt"
	"go/ast"
	"go/token"
	"go/types"
	"sort"
	"strings"

	"golang.org/x/tools/go/cfg"
)

func init() { register("C07", false, runC07) }

// sgrParams splits an SGR parameter string "38:2:%d:%d:%d" / "1;4:3" into parameters with sub-parameters.
func sgrParams(ps string) [][]string {
	var out [][]string
	if ps == "" {
		return [][]string{{""}}
	}
	for _, p := range strings.Split(ps, ";") {
		out = append(out, strings.Split(p, ":"))
	}
	return out
}

// seqClass classifies a sequence: class name, required capability guard keys (all must dominate the site), baseline?
type seqReq struct {
	class    string
	need     []string // guard keys that must be in force
	baseline bool
	rgbForm  bool // direct-colour SGR: handled by C07.b
}

func classifyForGating(s Seq) []seqReq {
	cap := func(n string) string { return "+Vaxis.caps." + n }
	switch s.Kind {
	case "TEXT":
		return []seqReq{{class: "text", baseline: true}}
	case "C0":
		return []seqReq{{class: "C0", baseline: true}}
	case "ESC":
		if s.Inter == "" && (s.Final == "=" || s.Final == ">") {
			return []seqReq{{class: "keypad mode", baseline: true}}
		}
		return []seqReq{{class: "ESC " + s.Inter + s.Final}}
	case "CSI":
		switch {
		case s.Private == "?" && (s.Final == "h" || s.Final == "l") && s.Inter == "":
			switch s.Params {
			case "1", "25", "1002", "1003", "1004", "1006", "1049", "2004":
				return []seqReq{{class: "DECSET " + s.Params, baseline: true}}
			case "2026":
				return []seqReq{{class: "DECSET 2026", need: []string{cap("synchronizedUpdate")}}}
			case "2027":
				return []seqReq{{class: "DECSET 2027", need: []string{cap("unicodeCore")}}}
			case "2031":
				return []seqReq{{class: "DECSET 2031", need: []string{cap("colorThemeUpdates")}}}
			case "2048":
				return []seqReq{{class: "DECSET 2048", need: []string{cap("inBandResize")}}}
			case "8452":
				return []seqReq{{class: "DECSET 8452", need: []string{cap("sixels")}}}
			}
			return []seqReq{{class: "DECSET " + s.Params}}
		case s.Private == "?" && s.Final == "n" && s.Params == "996":
			return []seqReq{{class: "DSR 996", need: []string{cap("colorThemeUpdates")}}}
		case (s.Private == ">" || s.Private == "<") && s.Final == "u":
			return []seqReq{{class: "kitty keyboard", need: []string{cap("kittyKeyboard")}}}
		case s.Private == "" && s.Inter == "" && s.Final == "H":
			return []seqReq{{class: "CUP", baseline: true}}
		case s.Private == "" && s.Inter == "" && s.Final == "J":
			return []seqReq{{class: "ED", baseline: true}}
		case s.Private == "" && s.Inter == "" && s.Final == "n" && s.Params == "6":
			return []seqReq{{class: "DSR 6", baseline: true}}
		case s.Private == "" && s.Inter == "" && s.Final == "c":
			return []seqReq{{class: "DA1", baseline: true}}
		case s.Private == "" && s.Inter == " " && s.Final == "q":
			return []seqReq{{class: "DECSCUSR", baseline: true}}
		case s.Private == "" && s.Inter == "" && s.Final == "t" && (s.Params == "14" || s.Params == "18"):
			return []seqReq{{class: "XTWINOPS report", need: []string{cap("reportSizeChars"), cap("reportSizePixels")}}}
		case s.Private == "" && s.Inter == "" && s.Final == "m":
			var out []seqReq
			for _, p := range sgrParams(s.Params) {
				head := p[0]
				switch {
				case head == "" || head == "0":
					out = append(out, seqReq{class: "SGR reset", baseline: true})
				case head == "4" && len(p) > 1:
					out = append(out, seqReq{class: "SGR 4:n", need: []string{cap("styledUnderlines")}})
				case head == "58" || head == "59":
					r := seqReq{class: "SGR " + head, need: []string{cap("styledUnderlines")}}
					if len(p) > 1 && p[1] == "2" {
						r.rgbForm = true
					}
					out = append(out, r)
				case head == "38" || head == "48":
					r := seqReq{class: "SGR " + head, baseline: true}
					if len(p) > 1 && p[1] == "2" {
						r.rgbForm = true
					}
					out = append(out, r)
				default:
					out = append(out, seqReq{class: "SGR basic", baseline: true})
				}
			}
			// legacy form 38;2;r;g;b: the ';' splitting above yields head 38 followed by "2"
			ps := strings.Split(s.Params, ";")
			if len(ps) >= 2 && (ps[0] == "38" || ps[0] == "48") && ps[1] == "2" {
				out = []seqReq{{class: "SGR " + ps[0] + " legacy", baseline: true, rgbForm: true}}
			} else if len(ps) >= 2 && (ps[0] == "38" || ps[0] == "48") && ps[1] == "5" {
				out = []seqReq{{class: "SGR " + ps[0] + " legacy", baseline: true}}
			}
			return out
		}
		return []seqReq{{class: "CSI " + s.Private + s.Params + s.Inter + s.Final}}
	case "OSC":
		switch s.OSCSel {
		case "8", "22":
			return []seqReq{{class: "OSC " + s.OSCSel, baseline: true}}
		case "66":
			return []seqReq{{class: "OSC 66", need: []string{cap("explicitWidth")}}}
		case "176":
			return []seqReq{{class: "OSC 176", need: []string{cap("osc176")}}}
		case "4":
			return []seqReq{{class: "OSC 4", need: []string{cap("osc4")}}}
		case "10":
			return []seqReq{{class: "OSC 10", need: []string{cap("osc10")}}}
		case "11":
			return []seqReq{{class: "OSC 11", need: []string{cap("osc11")}}}
		}
		return []seqReq{{class: "OSC " + s.OSCSel}}
	case "APC":
		return []seqReq{{class: "APC"}}
	case "DCS":
		return []seqReq{{class: "DCS"}}
	}
	return []seqReq{{class: s.Kind}}
}

// functions whose writes are made at the application's explicit request (not feature use by the library)
var c07AppRequested = map[string]string{
	"vaxis.(*Vaxis).Notify":        "application-requested notification",
	"vaxis.(*Vaxis).SetTitle":      "application-requested title",
	"vaxis.(*Vaxis).SetAppID":      "application-requested app id",
	"vaxis.(*Vaxis).ClipboardPush": "application-requested clipboard write",
	"vaxis.(*Vaxis).ClipboardPop":  "application-requested clipboard read",
	"vaxis.(*Vaxis).Bell":          "application-requested bell",
	"vaxis.(*KittyImage).Draw":     "kitty image constructed by the application or selected by NewImage (C07.a2)",
	"vaxis.(*KittyImage).Destroy":  "kitty image constructed by the application or selected by NewImage (C07.a2)",
	"vaxis.(*Sixel).Draw":          "sixel image constructed by the application or selected by NewImage (C07.a2)",
}

func runC07(c *Ctx) {
	c01Normalise(c)
	c.Clauses = []string{
		"C07.a every emitted sequence outside the probe is baseline xterm vocabulary, application-requested, or dominated by the capability flag of its feature; NewImage selects kitty/sixel only under the matching protocol level, which is raised only by the matching reply",
		"C07.b direct-colour SGR forms are reachable only with caps.rgb: on the !rgb path the parameters are replaced by asIndex().Params(), and asIndex never returns an RGB colour",
		"C07.c reply -> event -> capability flag -> gate chain uses the same feature at every link",
		"C07.d Can* accessors return exactly their flag; capability flags are written only by the start-up code",
		"C07.e palette table equals the xterm 6x6x6 cube + grey ramp; asIndex adds 16 and scans the whole table",
		"C07.f channel differences in asIndex are computed in a signed/float type",
		"C07.g width method decision table (RenderedWidth, NewStyledString) over all 8 flag combinations",
	}
	c.NotDec = []string{"that the returned palette index is the argmin of the weighted distance for every one of 2^24 colours (numeric)"}
	c.expect("C07.a", 100)
	c.expect("C07.b", 6)
	c.expect("C07.c", 15)
	c.expect("C07.d", 10)
	c.expect("C07.e", 3)
	c.expect("C07.f", 3)
	c.expect("C07.g", 16)

	pk := c.P.Pkg("vaxis")
	info := pk.TypesInfo
	ems := ExtractEmissions(c.P, c.P.FuncsIn("vaxis"), vaxisTerminalSink)
	passThrough := map[string]string{
		"vaxis.(*writer).Write":             "payload pass-through of the buffered writer",
		"vaxis.(*writer).WriteString":       "payload pass-through of the buffered writer",
		"vaxis.(*writer).Printf":            "payload pass-through of the buffered writer",
		"vaxis.(*writer).WriteStringLocked": "payload pass-through of the writer",
		"vaxis.(*writer).Flush":             "flush of the buffer",
		"vaxis.(*Vaxis).render":             "cell grapheme",
	}
	for _, e := range ems {
		base := e.FnName
		if i := strings.Index(base, "$"); i >= 0 {
			base = base[:i]
		}
		if !e.Resolved {
			why, ok := passThrough[base]
			if ok && base == "vaxis.(*Vaxis).render" && !c07IsGraphemeArg(e.Fn.Pkg.TypesInfo, e.ArgExpr, 0) {
				// the one payload render passes through is the text of a cell; anything else it writes must be a template
				ok = false
			}
			if !ok {
				why, ok = c07AppRequested[base]
			}
			if !ok && isWriterBufBytes(e.Fn.Pkg.TypesInfo, e.ArgExpr) {
				// whichever function of the writer does it: the buffered frame is handed to the terminal
				why, ok = "flush of the buffer", true
			}
			key := fmt.Sprintf("%s/pass-through %s", e.FnName, types.ExprString(e.ArgExpr))
			if ok {
				c.okTrivial("C07.a", key, e.Call.Pos(), "documented pass-through sink: %s", why)
			} else {
				c.undecided("C07.a", key, e.Call.Pos(), "sink argument does not evaluate to a template set and the site is not a documented pass-through: %s", e.Why)
			}
			continue
		}
		if phaseOf(e.FnName) == "probe" {
			c.okTrivial("C07.a", fmt.Sprintf("%s/probe %q", e.FnName, strings.Join(e.Templates, "|")), e.Call.Pos(), "start-up query phase")
			continue
		}
		for _, t := range e.Templates {
			for _, s := range parseSeqs(t) {
				if s.Inter == "UNTERMINATED" {
					c.bad("C07.a", fmt.Sprintf("%s/%q terminated", e.FnName, s.Raw), e.Call.Pos(), "control string %q is not terminated by ST or BEL", s.Raw)
					continue
				}
				for _, r := range classifyForGating(s) {
					key := fmt.Sprintf("%s/%s %q", e.FnName, r.class, s.Raw)
					if why, ok := c07AppRequested[base]; ok {
						c.okTrivial("C07.a", key, e.Call.Pos(), "%s", why)
						continue
					}
					missing := []string{}
					for _, n := range r.need {
						if !containsStr(e.GuardKeys, n) {
							missing = append(missing, n)
						}
					}
					switch {
					case len(r.need) > 0 && len(missing) == 0:
						c.ok("C07.a", key, e.Call.Pos(), "gated by %v", r.need)
					case len(r.need) > 0:
						c.bad("C07.a", key, e.Call.Pos(), "%q is written without the capability test %v dominating the write (guards in force: %v): the feature is used on terminals that did not advertise it", s.Raw, missing, e.GuardKeys)
					case r.baseline:
						c.okTrivial("C07.a", key, e.Call.Pos(), "baseline xterm vocabulary")
					default:
						c.bad("C07.a", key, e.Call.Pos(), "%q is neither baseline vocabulary, nor gated by a capability, nor part of the start-up queries", s.Raw)
					}
				}
			}
		}
	}
	c07ImageSelection(c, info)
	c07RGBFallback(c, info, ems)
	c07Chain(c, info, ems)
	c07Accessors(c, info)
	c07Palette(c, info)
	c07WidthDecision(c, info)
}

// c07IsGraphemeArg: e is the Grapheme field of a cell (possibly converted, or through a local defined once as it).
func c07IsGraphemeArg(info *types.Info, e ast.Expr, depth int) bool {
	if depth > 4 {
		return false
	}
	switch t := unparen(e).(type) {
	case *ast.SelectorExpr:
		if s := info.Selections[t]; s != nil && s.Kind() == types.FieldVal && t.Sel.Name == "Grapheme" {
			return true
		}
	case *ast.Ident:
		if o := info.ObjectOf(t); o != nil {
			if src := singleDefOf(info, o); src != nil {
				return c07IsGraphemeArg(info, src, depth+1)
			}
		}
	case *ast.CallExpr:
		if tv, ok := info.Types[t.Fun]; ok && tv.IsType() && len(t.Args) == 1 {
			return c07IsGraphemeArg(info, t.Args[0], depth+1)
		}
	}
	return false
}

// NewImage selects the kitty / sixel encoders only under the matching graphics protocol level,
// and that level is assigned only under the matching capability event (or the explicit env override).
func c07ImageSelection(c *Ctx, info *types.Info) {
	fi := c.P.Func("vaxis.(*Vaxis).NewImage")
	if fi == nil {
		c.undecided("C07.a", "vaxis.(*Vaxis).NewImage", 0, "NewImage not found")
		return
	}
	g := c.P.Graph(fi)
	for _, want := range []struct{ ctor, level string }{{"NewKittyGraphic", "kitty"}, {"NewSixel", "sixelGraphics"}} {
		hits := g.Calls(func(fn *types.Func, _ *ast.CallExpr) bool { return fn != nil && fn.Name() == want.ctor })
		for _, h := range hits {
			gk := guardKeys(g, h.Loc)
			c.check(containsStr(gk, "Vaxis.graphicsProtocol=="+constOfPkg(c, want.level)), "C07.a", fi.Name+"/"+want.ctor+" only at protocol level "+want.level, h.Node.Pos(),
				"selected only when the protocol level says so", fmt.Sprintf("%s is selected without graphicsProtocol == %s (guards %v)", want.ctor, want.level, gk))
		}
		if len(hits) == 0 {
			c.undecided("C07.a", fi.Name+"/"+want.ctor, fi.Decl.Pos(), "constructor call not found in NewImage")
		}
	}
	// assignments of graphicsProtocol in New
	nw := c.P.Func("vaxis.New")
	if nw == nil {
		return
	}
	// (in New itself or in a function of the package it reaches during start-up)
	type site struct {
		h  Hit
		fi *FuncInfo
	}
	var sites []site
	for _, sfi := range c07StartupFuncs(c, nw) {
		for _, h := range c.P.Graph(sfi).Find(func(n ast.Node) bool {
			as, ok := n.(*ast.AssignStmt)
			return ok && len(as.Lhs) == 1 && lhsPath(info, as.Lhs[0]) == "Vaxis.graphicsProtocol"
		}) {
			sites = append(sites, site{h, sfi})
		}
	}
	for _, st := range sites {
		h := st.h
		as := h.Node.(*ast.AssignStmt)
		val := types.ExprString(as.Rhs[0])
		// by value: the level may arrive through a constant of another name or a substituted parameter
		if v, isC := constInt(info, as.Rhs[0]); isC {
			for _, nm := range []string{"kitty", "sixelGraphics"} {
				if fmt.Sprint(v) == constOfPkg(c, nm) {
					val = nm
				}
			}
		}
		if val != "kitty" && val != "sixelGraphics" {
			continue
		}
		// enclosing construct: type-switch case of the capability event, or the VAXIS_GRAPHICS override
		okCtx := false
		ctx := ""
		par := c.P.Parents(nw.Pkg)
		for cur := ast.Node(as); cur != nil; cur = par[cur] {
			if cc, ok := cur.(*ast.CaseClause); ok {
				for _, e := range cc.List {
					s := types.ExprString(e)
					if s == "kittyGraphics" && val == "kitty" || s == "capabilitySixel" && val == "sixelGraphics" {
						okCtx, ctx = true, "reply event "+s
					}
					if v, isStr := constString(info, e); isStr && (v == "kitty" && val == "kitty" || v == "sixel" && val == "sixelGraphics") {
						okCtx, ctx = true, "explicit VAXIS_GRAPHICS override"
					}
				}
			}
		}
		c.check(okCtx, "C07.a", "vaxis.New/graphicsProtocol = "+val+" only on the matching reply", as.Pos(), ctx, "graphicsProtocol is raised to "+val+" outside the matching capability event")
	}
}

func c07RGBFallback(c *Ctx, info *types.Info, ems []*Emission) {
	// every direct-colour emission in render uses parameters ps that, on the !rgb path, were replaced by asIndex().Params()
	fi := c.P.Func("vaxis.(*Vaxis).render")
	if fi == nil {
		c.undecided("C07.b", "vaxis.(*Vaxis).render", 0, "render not found")
		return
	}
	n := 0
	for _, e := range ems {
		if e.FnName != fi.Name || !e.Resolved {
			continue
		}
		isRGB := false
		for _, t := range e.Templates {
			for _, s := range parseSeqs(t) {
				for _, r := range classifyForGating(s) {
					if r.rgbForm {
						isRGB = true
					}
				}
			}
		}
		if !isRGB {
			continue
		}
		n++
		key := fmt.Sprintf("%s/direct colour %q only with caps.rgb", e.FnName, e.Templates[0])
		// the parameter variable: first index expression argument ps[0]
		var psObj types.Object
		for _, a := range e.Call.Args {
			if ix, ok := unparen(a).(*ast.IndexExpr); ok {
				if id, ok := ix.X.(*ast.Ident); ok {
					psObj = info.ObjectOf(id)
				}
			}
		}
		if psObj == nil {
			c.undecided("C07.b", key, e.Call.Pos(), "cannot identify the parameter slice of the direct-colour emission")
			continue
		}
		// provenance: under !caps.rgb every value of the parameter slice that can reach the emission comes from
		// asIndex().Params() (directly, or through a helper whose returns are judged the same way)
		g := c.P.Graph(fi)
		okDef, why := false, "the emission cannot be located in the flow graph"
		if el, okL := g.Locate(e.Call); okL {
			okDef, why = c07Provenance(c, fi, el, psObj, 0)
		}
		c.check(okDef, "C07.b", key, e.Call.Pos(), "parameters are replaced by asIndex().Params() whenever !caps.rgb", "a direct colour can be written without RGB support: "+why)
	}
	if n == 0 {
		c.undecided("C07.b", fi.Name+"/direct-colour emissions", fi.Decl.Pos(), "no direct-colour emission found in render")
	}
	// asIndex never returns an RGB colour
	ai := c.P.Func("vaxis.Color.asIndex")
	if ai == nil {
		c.undecided("C07.b", "vaxis.Color.asIndex", 0, "asIndex not found")
		return
	}
	g := c.P.Graph(ai)
	recv := info.Defs[ai.Decl.Recv.List[0].Names[0]]
	for i, h := range g.Find(func(n ast.Node) bool { _, ok := n.(*ast.ReturnStmt); return ok }) {
		rs := h.Node.(*ast.ReturnStmt)
		key := fmt.Sprintf("vaxis.Color.asIndex/return#%d %s is not RGB", i+1, types.ExprString(rs.Results[0]))
		r := unparen(rs.Results[0])
		ok := false
		why := ""
		switch t := r.(type) {
		case *ast.Ident:
			if info.ObjectOf(t) == recv {
				// must be under c&rgb == 0
				gk := guardKeys(g, h.Loc)
				for _, k := range gk {
					if k == fmt.Sprintf("c&%s==0", constOfPkg(c, "rgb")) || strings.Contains(k, "&rgb==0") {
						ok = true
					}
				}
				why = fmt.Sprintf("receiver returned under %v", gk)
			}
		case *ast.CallExpr:
			if fn := calleeOf(info, t); fn != nil && fn.Name() == "IndexColor" {
				ok = true
			}
			if tv, isT := info.Types[t.Fun]; isT && tv.IsType() && len(t.Args) == 1 {
				if v, isC := constInt(info, t.Args[0]); isC && v == 0 {
					ok = true
				}
			}
		}
		c.check(ok, "C07.b", key, rs.Pos(), "an index colour, the default colour, or the receiver when it is not RGB", "asIndex can return a colour that is not known to be non-RGB ("+why+")")
	}
}

// c07Provenance decides, for the slice variable obj used at location at in fi: on every path on which
// caps.rgb is false, the value of obj at `at` is the Params() of an asIndex() colour; and all values that can
// reach `at` (on any path) are Params() of one and the same colour. Definitions by a call of a repository
// function are judged at that function's return statements (depth-limited).
func c07Provenance(c *Ctx, fi *FuncInfo, at Loc, obj types.Object, depth int) (bool, string) {
	info := fi.Pkg.TypesInfo
	g := c.P.Graph(fi)
	if depth > 3 {
		return false, "helper chain too deep"
	}
	// a parameter carries a value we cannot see
	if fi.Decl.Type.Params != nil {
		for _, f := range fi.Decl.Type.Params.List {
			for _, nm := range f.Names {
				if info.Defs[nm] == obj {
					return false, fmt.Sprintf("%s is a parameter of %s: its provenance is not visible", obj.Name(), fi.Name)
				}
			}
		}
	}
	type def struct {
		node ast.Node
		rhs  ast.Expr // nil: zero value
	}
	var defs []def
	inspectNoLit(fi.Decl.Body, func(x ast.Node) bool {
		switch t := x.(type) {
		case *ast.AssignStmt:
			for i, l := range t.Lhs {
				if id, ok := l.(*ast.Ident); ok && info.ObjectOf(id) == obj {
					if len(t.Lhs) == len(t.Rhs) && (t.Tok == token.ASSIGN || t.Tok == token.DEFINE) {
						defs = append(defs, def{t, t.Rhs[i]})
					} else {
						defs = append(defs, def{t, &ast.BadExpr{}})
					}
				}
			}
		case *ast.ValueSpec:
			for i, nm := range t.Names {
				if info.Defs[nm] == obj {
					if i < len(t.Values) {
						defs = append(defs, def{t, t.Values[i]})
					} else {
						defs = append(defs, def{t, nil})
					}
				}
			}
		case *ast.RangeStmt:
			for _, l := range []ast.Expr{t.Key, t.Value} {
				if id, ok := l.(*ast.Ident); ok && info.ObjectOf(id) == obj {
					defs = append(defs, def{t, &ast.BadExpr{}})
				}
			}
		}
		return true
	})
	if len(defs) == 0 {
		return false, fmt.Sprintf("no definition of %s found", obj.Name())
	}
	isDef := func(n ast.Node) bool {
		for _, d := range defs {
			if d.node == n {
				return true
			}
		}
		return false
	}
	sigma := map[string]bool{"Vaxis.caps.rgb": false}
	// the assumption is void if the function writes the flag
	wr := false
	inspectNoLit(fi.Decl.Body, func(x ast.Node) bool {
		if as, ok := x.(*ast.AssignStmt); ok {
			for _, l := range as.Lhs {
				if lhsPath(info, l) == "Vaxis.caps.rgb" {
					wr = true
				}
			}
		}
		return true
	})
	if wr {
		sigma = map[string]bool{}
	}
	colours := map[string]bool{}
	for _, d := range defs {
		dl, ok := g.Locate(d.node)
		if !ok {
			return false, fmt.Sprintf("definition of %s at line %d is not in the flow graph", obj.Name(), c.P.Fset.Position(d.node.Pos()).Line)
		}
		reachAny := g.reachesUnder(dl, at, isDef, nil)
		if !reachAny {
			continue
		}
		// the definition reaches the emission without RGB support if it is itself executed on such a path (its own
		// dominating guards: `if caps.rgb { ps = c.Params() } else { ... }`) and then flows to the emission
		reachNoRGB := g.reachesUnder(dl, at, isDef, sigma)
		if reachNoRGB && len(sigma) > 0 {
			if holds, _ := g.reachableUnder(dl, sigma); !holds {
				reachNoRGB = false
			}
		}
		if d.rhs == nil {
			continue // zero value: an empty slice selects no direct-colour form
		}
		if x := c07ParamsRecv(info, d.rhs, true); x != "" {
			colours[canonExprOrString(info, d.rhs, true)] = true
			continue
		}
		if x := c07ParamsRecv(info, d.rhs, false); x != "" {
			colours[canonExprOrString(info, d.rhs, false)] = true
			// `if !caps.rgb { c = c.asIndex() }; ps := c.Params()`: the colour itself was replaced by its palette form
			if reachNoRGB {
				if okC, _ := c07ColourIndexed(c, fi, dl, d.rhs, sigma); okC {
					continue
				}
			}
			if reachNoRGB {
				return false, fmt.Sprintf("%s = %s reaches the emission on a path where caps.rgb is false", obj.Name(), types.ExprString(d.rhs))
			}
			continue
		}
		// a helper of the repository: judge its return statements
		if call, ok := unparen(d.rhs).(*ast.CallExpr); ok {
			if hf := c.P.FuncOfObj(calleeOf(info, call)); hf != nil && hf.Decl.Body != nil {
				if !reachNoRGB {
					continue // only reaches with RGB support: any parameters are fine
				}
				hg := c.P.Graph(hf)
				hinfo := hf.Pkg.TypesInfo
				nret := 0
				for _, h := range hg.Find(func(n ast.Node) bool { _, ok := n.(*ast.ReturnStmt); return ok }) {
					rs := h.Node.(*ast.ReturnStmt)
					if len(rs.Results) != 1 {
						return false, fmt.Sprintf("helper %s: unsupported return form", hf.Name)
					}
					nret++
					// a return that is itself unreachable without RGB support needs nothing
					if holds, _ := hg.reachableUnder(h.Loc, sigma); !holds {
						continue
					}
					r := unparen(rs.Results[0])
					if c07ParamsRecv(hinfo, r, true) != "" {
						continue
					}
					if id, ok := r.(*ast.Ident); ok {
						if id.Name == "nil" {
							continue
						}
						if ok2, why := c07Provenance(c, hf, h.Loc, hinfo.ObjectOf(id), depth+1); !ok2 {
							return false, fmt.Sprintf("helper %s: %s", hf.Name, why)
						}
						continue
					}
					return false, fmt.Sprintf("helper %s returns %s, which is not known to be the parameters of an index colour when caps.rgb is false", hf.Name, types.ExprString(r))
				}
				if nret == 0 {
					return false, fmt.Sprintf("helper %s has no return statement", hf.Name)
				}
				colours["helper:"+hf.Name+"("+canonArgs(info, call)+")"] = true
				continue
			}
		}
		if reachNoRGB {
			return false, fmt.Sprintf("%s = %s reaches the emission without RGB support and is not asIndex().Params()", obj.Name(), exprStr(d.rhs))
		}
	}
	if len(colours) > 1 {
		return false, fmt.Sprintf("the parameters that reach the emission belong to different colours %v: the fallback is not the index form of the same colour", sortedKeys(colours))
	}
	return true, ""
}

// c07ColourIndexed: rhs is X.Params() with X a local colour variable; on every path without RGB support the
// value of X at location at was produced by `X = X.asIndex()` (the palette form of the same colour).
func c07ColourIndexed(c *Ctx, fi *FuncInfo, at Loc, rhs ast.Expr, sigma map[string]bool) (bool, string) {
	info := fi.Pkg.TypesInfo
	g := c.P.Graph(fi)
	call, ok := unparen(rhs).(*ast.CallExpr)
	if !ok {
		return false, ""
	}
	sel, ok := call.Fun.(*ast.SelectorExpr)
	if !ok {
		return false, ""
	}
	id, ok := unparen(sel.X).(*ast.Ident)
	if !ok {
		return false, "the colour is not a local variable"
	}
	obj := info.ObjectOf(id)
	if v, isVar := obj.(*types.Var); !isVar || v.Parent() == nil || v.Pkg() == nil || v.Parent() == v.Pkg().Scope() {
		return false, "the colour is not a local variable"
	}
	if fi.Decl.Type.Params != nil {
		for _, f := range fi.Decl.Type.Params.List {
			for _, nm := range f.Names {
				if info.Defs[nm] == obj {
					return false, "the colour is a parameter"
				}
			}
		}
	}
	type def struct {
		node ast.Node
		rhs  ast.Expr
	}
	var defs []def
	escaped := false
	inspectNoLit(fi.Decl.Body, func(x ast.Node) bool {
		switch t := x.(type) {
		case *ast.AssignStmt:
			for i, l := range t.Lhs {
				if lid, ok := l.(*ast.Ident); ok && info.ObjectOf(lid) == obj {
					if len(t.Lhs) == len(t.Rhs) && (t.Tok == token.ASSIGN || t.Tok == token.DEFINE) {
						defs = append(defs, def{t, t.Rhs[i]})
					} else {
						defs = append(defs, def{t, nil})
					}
				}
			}
		case *ast.ValueSpec:
			for i, nm := range t.Names {
				if info.Defs[nm] == obj {
					if i < len(t.Values) {
						defs = append(defs, def{t, t.Values[i]})
					} else {
						defs = append(defs, def{t, nil})
					}
				}
			}
		case *ast.RangeStmt:
			for _, l := range []ast.Expr{t.Key, t.Value} {
				if lid, ok := l.(*ast.Ident); ok && info.ObjectOf(lid) == obj {
					defs = append(defs, def{t, nil})
				}
			}
		case *ast.UnaryExpr:
			if t.Op == token.AND {
				if lid, ok := unparen(t.X).(*ast.Ident); ok && info.ObjectOf(lid) == obj {
					escaped = true
				}
			}
		}
		return true
	})
	if escaped || len(defs) == 0 {
		return false, "the colour variable has its address taken or no visible definition"
	}
	isDef := func(n ast.Node) bool {
		for _, d := range defs {
			if d.node == n {
				return true
			}
		}
		return false
	}
	n := 0
	for _, d := range defs {
		dl, ok := g.Locate(d.node)
		if !ok {
			return false, "a definition of the colour is not in the flow graph"
		}
		// does this definition reach `at` on a path without RGB support?
		reach := dl == at || g.reachesUnder(dl, at, isDef, sigma)
		if reach && len(sigma) > 0 {
			if holds, _ := g.reachableUnder(dl, sigma); !holds {
				reach = false
			}
		}
		if !reach {
			continue
		}
		n++
		// must be <same variable>.asIndex()
		okForm := false
		if d.rhs != nil {
			if c2, ok := unparen(d.rhs).(*ast.CallExpr); ok && len(c2.Args) == 0 {
				if fn := calleeOf(info, c2); fn != nil && repoName(fn) == "vaxis.Color.asIndex" {
					if s2, ok := c2.Fun.(*ast.SelectorExpr); ok {
						if rid, ok := unparen(s2.X).(*ast.Ident); ok && info.ObjectOf(rid) == obj {
							okForm = true
						}
					}
				}
			}
		}
		if !okForm {
			return false, fmt.Sprintf("%s = %s reaches it without RGB support", obj.Name(), exprStr(d.rhs))
		}
	}
	return n > 0, ""
}

func exprStr(e ast.Expr) string {
	if e == nil {
		return "<zero value>"
	}
	if _, ok := e.(*ast.BadExpr); ok {
		return "<multi-value or range>"
	}
	return types.ExprString(e)
}

// canonExprOrString: the colour X of X.Params() / X.asIndex().Params(), canonically.
func canonExprOrString(info *types.Info, e ast.Expr, viaIndex bool) string {
	call := unparen(e).(*ast.CallExpr)
	x := unparen(call.Fun.(*ast.SelectorExpr).X)
	if viaIndex {
		x = unparen(x.(*ast.CallExpr).Fun.(*ast.SelectorExpr).X)
	}
	if s := canonExpr(info, x); s != "" {
		return s
	}
	return types.ExprString(x)
}

func canonArgs(info *types.Info, call *ast.CallExpr) string {
	var parts []string
	for _, a := range call.Args {
		if s := canonExpr(info, a); s != "" {
			parts = append(parts, s)
		} else {
			parts = append(parts, types.ExprString(a))
		}
	}
	return strings.Join(parts, ",")
}

// c07ParamsRecv: e is X.Params() (viaIndex=false) or X.asIndex().Params() (viaIndex=true); returns canonical X.
func c07ParamsRecv(info *types.Info, e ast.Expr, viaIndex bool) string {
	call, ok := unparen(e).(*ast.CallExpr)
	if !ok {
		return ""
	}
	sel, ok := call.Fun.(*ast.SelectorExpr)
	if !ok || sel.Sel.Name != "Params" {
		return ""
	}
	x := unparen(sel.X)
	if viaIndex {
		c2, ok := x.(*ast.CallExpr)
		if !ok {
			return ""
		}
		s2, ok := c2.Fun.(*ast.SelectorExpr)
		if !ok || s2.Sel.Name != "asIndex" {
			return ""
		}
		x = unparen(s2.X)
	} else if _, isCall := x.(*ast.CallExpr); isCall {
		return ""
	}
	return types.ExprString(x)
}

// c07StartupFuncs: New and the functions of package vaxis it reaches by static calls.
func c07StartupFuncs(c *Ctx, nw *FuncInfo) []*FuncInfo {
	var startup []*FuncInfo
	reach := staticReach(c.P, nw)
	for _, fi := range c.P.FuncsIn("vaxis") {
		if fi != nw && reach[fi.Name] && fi.Decl.Body != nil {
			startup = append(startup, fi)
		}
	}
	sort.Slice(startup, func(i, j int) bool { return startup[i].Name < startup[j].Name })
	return append([]*FuncInfo{nw}, startup...)
}

func c07Chain(c *Ctx, info *types.Info, ems []*Emission) {
	// step 1: New's type switch: event type -> capability flags set
	nw := c.P.Func("vaxis.New")
	hs := c.P.Func("vaxis.(*Vaxis).handleSequence")
	if nw == nil || hs == nil {
		c.undecided("C07.c", "vaxis.New/handleSequence", 0, "not found")
		return
	}
	evCaps := map[string][]string{}
	// the dispatch on the reply event may sit in New itself or in a function of the package New calls (directly
	// or not) during start-up
	for _, sfi := range c07StartupFuncs(c, nw) {
		ast.Inspect(sfi.Decl.Body, func(n ast.Node) bool {
			ts, ok := n.(*ast.TypeSwitchStmt)
			if !ok {
				return true
			}
			for _, cl := range ts.Body.List {
				cc := cl.(*ast.CaseClause)
				var flags []string
				for _, s := range cc.Body {
					ast.Inspect(s, func(m ast.Node) bool {
						if as, ok := m.(*ast.AssignStmt); ok && len(as.Lhs) == 1 && len(as.Rhs) == 1 {
							p := lhsPath(info, as.Lhs[0])
							if strings.HasPrefix(p, "Vaxis.caps.") {
								if tv := info.Types[as.Rhs[0]]; tv.Value != nil && tv.Value.String() == "true" {
									flags = append(flags, strings.TrimPrefix(p, "Vaxis.caps."))
								}
							}
						}
						// a helper (function, method or local closure) that is handed the address of the flag
						// and stores true through it
						if call, ok := m.(*ast.CallExpr); ok {
							for _, p := range c07FlagsSetThrough(c, sfi, call) {
								flags = append(flags, p)
							}
						}
						return true
					})
				}
				for _, e := range cc.List {
					evCaps[types.ExprString(e)] = append(evCaps[types.ExprString(e)], flags...)
				}
			}
			return true
		})
	}
	// step 2: post sites in handleSequence (and sendQueries for COLORTERM), helpers included
	posts := c07Posts(c, func(ev string) bool { _, is := evCaps[ev]; return is && ev != "" })
	// step 3: reference — reply context each capability event must come from, the flag it must set,
	// and the sequence class it gates.
	hex := func(s string) string { return fmt.Sprintf("%q", fmt.Sprintf("%X", s)) }
	fin := func(r rune) string { return fmt.Sprintf("CSI.Final==%d", r) }
	type link struct {
		ev      string
		flag    string
		ctx     [][]string // alternatives: each a set of guard keys that must all be present
		gates   string     // gated class name in classifyForGating ("" = none)
		comment string
	}
	links := []link{
		{"synchronizedUpdates", "synchronizedUpdate", [][]string{{fin('y'), "CSI.Parameters[0][0]==2026", "CSI.Parameters[1][0]∈{1,2}"}}, "DECSET 2026", "DECRPM 2026 with value 1|2"},
		{"unicodeCoreCap", "unicodeCore", [][]string{{fin('y'), "CSI.Parameters[0][0]==2027", "CSI.Parameters[1][0]∈{1,2}"}}, "DECSET 2027", "DECRPM 2027 with value 1|2"},
		{"notifyColorChange", "colorThemeUpdates", [][]string{{fin('y'), "CSI.Parameters[0][0]==2031", "CSI.Parameters[1][0]∈{1,2}"}}, "DECSET 2031", "DECRPM 2031 with value 1|2"},
		{"capabilitySixel", "sixels", [][]string{{fin('c'), "CSI.Intermediate[0]==63", "CSI.Parameters[*][0]==4"}, {fin('S'), "CSI.Intermediate[0]==63", "CSI.Parameters[0][0]==2", "CSI.Parameters[1][0]==0"}}, "DECSET 8452", "DA1 attribute 4 / XTSMGRAPHICS"},
		{"kittyKeyboard", "kittyKeyboard", [][]string{{fin('u'), "CSI.Intermediate[0]==63"}}, "kitty keyboard", "CSI ? u reply"},
		{"kittyGraphics", "kittyGraphics", [][]string{{"+strings.HasPrefix(APC.Data, \"G\")"}}, "", "APC G reply"},
		{"truecolor", "rgb", [][]string{{"DCS.Final==114", "DCS.Intermediate[0]==43", "strings.Split(string(DCS.Data), \"=\")[0]==" + hex("RGB")}, {"os.Getenv(\"COLORTERM\")∈{\"truecolor\",\"24bit\"}"}}, "", "XTGETTCAP RGB / COLORTERM"},
		{"styledUnderlines", "styledUnderlines", [][]string{{"DCS.Final==114", "DCS.Intermediate[0]==43", "strings.Split(string(DCS.Data), \"=\")[0]==" + hex("Smulx")}, {"DCS.Final==124", "DCS.Intermediate[0]==33", "string(DCS.Data)==" + hex("~VTE")}}, "SGR 4:n", "XTGETTCAP Smulx / VTE tertiary DA"},
		{"capabilityOsc4", "osc4", [][]string{{"+strings.HasPrefix(string(OSC.Payload), \"4\")"}}, "OSC 4", "OSC 4 reply"},
		{"capabilityOsc10", "osc10", [][]string{{"+strings.HasPrefix(string(OSC.Payload), \"10\")"}}, "OSC 10", "OSC 10 reply"},
		{"capabilityOsc11", "osc11", [][]string{{"+strings.HasPrefix(string(OSC.Payload), \"11\")"}}, "OSC 11", "OSC 11 reply"},
		{"textAreaPix", "reportSizePixels", [][]string{{fin('t'), "CSI.Parameters[0][0]==4"}}, "XTWINOPS report", "CSI 4;h;w t"},
		{"textAreaChar", "reportSizeChars", [][]string{{fin('t'), "CSI.Parameters[0][0]==8"}}, "XTWINOPS report", "CSI 8;h;w t"},
		{"inBandResizeEvents", "inBandResize", [][]string{{fin('t'), "CSI.Parameters[0][0]==48"}}, "DECSET 2048", "CSI 48;... t"},
		{"appID", "osc176", [][]string{{"+strings.HasPrefix(string(OSC.Payload), \"176\")"}}, "OSC 176", "OSC 176 reply"},
	}
	// a post site whose context the guard keys do not recognise is judged by effect (c07k.go): handleSequence is
	// evaluated over a grid of concrete sequences and the events it posts are compared with the reference decoding
	var grid *c07kGridResult
	byEffect := func(ev string, pos token.Pos) (bool, string) {
		if sq := c.P.Func("vaxis.(*Vaxis).sendQueries"); sq != nil && pos >= sq.Decl.Pos() && pos <= sq.Decl.End() {
			return false, ""
		}
		if grid == nil {
			grid = c07kGrid(c)
		}
		if grid.why != "" || grid.bad[ev] != "" || grid.hit[ev] == 0 {
			return false, grid.bad[ev]
		}
		return true, fmt.Sprintf("decided by evaluating handleSequence on %d concrete sequences around the reply forms and the constants of the decoder: %s is posted for its reply (%d of them) and for no other sequence", grid.runs, ev, grid.hit[ev])
	}
	for _, l := range links {
		// event sets exactly its flag
		flags := evCaps[l.ev]
		c.check(len(flags) == 1 && flags[0] == l.flag, "C07.c", fmt.Sprintf("vaxis.New/event %s sets caps.%s", l.ev, l.flag), nw.Decl.Pos(),
			"reply event establishes exactly the capability it reports", fmt.Sprintf("event %s (%s) sets %v, must set exactly caps.%s", l.ev, l.comment, flags, l.flag))
		// every post site of the event is in one of its reply contexts
		n := 0
		for _, p := range posts {
			if p.ev != l.ev {
				continue
			}
			n++
			okCtx := false
			for _, alt := range l.ctx {
				all := true
				for _, k := range alt {
					if !c07HasKey(p.gk, k) {
						all = false
					}
				}
				if all {
					okCtx = true
				}
			}
			key := fmt.Sprintf("vaxis.(*Vaxis).handleSequence/%s posted only for its reply (%s)", l.ev, l.comment)
			if okCtx {
				c.ok("C07.c", key, p.pos, "context %v", p.gk)
			} else if good, how := byEffect(l.ev, p.pos); good {
				c.ok("C07.c", key, p.pos, "context %v is not a guard-key form of the reply; %s", p.gk, how)
			} else {
				if how != "" {
					how = " (" + how + ")"
				}
				c.bad("C07.c", key, p.pos, "capability event %s is posted in context %v, which is not the reply %s: another reply establishes this capability%s", l.ev, p.gk, l.comment, how)
			}
		}
		if n == 0 {
			key := fmt.Sprintf("vaxis.(*Vaxis).handleSequence/%s posted", l.ev)
			if good, how := byEffect(l.ev, hs.Decl.Pos()); good {
				c.ok("C07.c", key, hs.Decl.Pos(), "no post site names %s; %s", l.ev, how)
			} else {
				if how != "" {
					c.bad("C07.c", key, hs.Decl.Pos(), "no post site names %s, and by evaluation over concrete sequences it is not posted exactly for its reply (%s): %s", l.ev, l.comment, how)
				} else {
					c.bad("C07.c", key, hs.Decl.Pos(), "no reply posts %s: the capability can never be established", l.ev)
				}
			}
		}
	}
}

// c07FlagsSetThrough: the capability flags whose address is passed to a callee (declared function/method of the
// package, or a local closure defined once) that assigns true through the corresponding pointer parameter.
func c07FlagsSetThrough(c *Ctx, fi *FuncInfo, call *ast.CallExpr) []string {
	info := fi.Pkg.TypesInfo
	var params *ast.FieldList
	var body *ast.BlockStmt
	cinfo := info
	if fn := calleeOf(info, call); fn != nil {
		hf := c.P.FuncOfObj(fn)
		if hf == nil || hf.Decl.Body == nil || hf.Pkg != fi.Pkg {
			return nil
		}
		params, body = hf.Decl.Type.Params, hf.Decl.Body
	} else if id, ok := unparen(call.Fun).(*ast.Ident); ok {
		src := singleDefOf(info, info.ObjectOf(id))
		lit, isLit := unparen(src).(*ast.FuncLit)
		if src == nil || !isLit {
			return nil
		}
		params, body = lit.Type.Params, lit.Body
	} else {
		return nil
	}
	if params == nil || call.Ellipsis.IsValid() {
		return nil
	}
	var out []string
	i := 0
	for _, f := range params.List {
		names := f.Names
		if len(names) == 0 {
			i++
			continue
		}
		for _, nm := range names {
			if i >= len(call.Args) {
				return out
			}
			arg := unparen(call.Args[i])
			i++
			u, ok := arg.(*ast.UnaryExpr)
			if !ok || u.Op != token.AND {
				continue
			}
			path := canonPath(info, u.X)
			if !strings.HasPrefix(path, "Vaxis.caps.") {
				continue
			}
			pobj := cinfo.Defs[nm]
			// the parameter is never reassigned, and some statement of the body is `*param = true`
			reassigned, sets := false, false
			ast.Inspect(body, func(n ast.Node) bool {
				as, ok := n.(*ast.AssignStmt)
				if !ok {
					return true
				}
				for k, l := range as.Lhs {
					if lid, ok := unparen(l).(*ast.Ident); ok && cinfo.ObjectOf(lid) == pobj {
						reassigned = true
					}
					if st, ok := unparen(l).(*ast.StarExpr); ok && len(as.Lhs) == len(as.Rhs) {
						if lid, ok := unparen(st.X).(*ast.Ident); ok && cinfo.ObjectOf(lid) == pobj {
							if tv := cinfo.Types[as.Rhs[k]]; tv.Value != nil && tv.Value.String() == "true" {
								sets = true
							}
						}
					}
				}
				return true
			})
			if sets && !reassigned {
				out = append(out, strings.TrimPrefix(path, "Vaxis.caps."))
			}
		}
	}
	return out
}

// c07HasKey: want is among the guard keys; a membership key x∈{a,b} matches whatever the order of the values.
func c07HasKey(gk []string, want string) bool {
	if containsStr(gk, want) {
		return true
	}
	i := strings.Index(want, "∈{")
	if i < 0 || !strings.HasSuffix(want, "}") {
		return false
	}
	set := func(k string) (string, string) {
		j := strings.Index(k, "∈{")
		if j < 0 || !strings.HasSuffix(k, "}") {
			return "", ""
		}
		vals := strings.Split(k[j+len("∈{"):len(k)-1], ",")
		sort.Strings(vals)
		return k[:j], strings.Join(vals, ",")
	}
	wl, wv := set(want)
	for _, k := range gk {
		if l, v := set(k); l != "" && l == wl && v == wv {
			return true
		}
	}
	return false
}

func c07Accessors(c *Ctx, info *types.Info) {
	want := map[string]string{
		"CanRGB": "Vaxis.caps.rgb", "CanKittyGraphics": "Vaxis.caps.kittyGraphics", "CanSixel": "Vaxis.caps.sixels",
		"CanReportColor": "Vaxis.caps.osc4", "CanReportForegroundColor": "Vaxis.caps.osc10", "CanReportBackgroundColor": "Vaxis.caps.osc11",
		"CanDisplayGraphics": "Vaxis.caps.sixels||Vaxis.caps.kittyGraphics", "CanSetAppID": "Vaxis.caps.osc176",
		"CanUnicodeCore": "Vaxis.caps.unicodeCore", "CanExplicitWidth": "Vaxis.caps.explicitWidth",
	}
	names := []string{}
	for n := range want {
		names = append(names, n)
	}
	sort.Strings(names)
	for _, n := range names {
		fi := c.P.Func("vaxis.(*Vaxis)." + n)
		if fi == nil {
			c.undecided("C07.d", "vaxis.(*Vaxis)."+n, 0, "accessor not found")
			continue
		}
		got := ""
		if len(fi.Decl.Body.List) == 1 {
			if rs, ok := fi.Decl.Body.List[0].(*ast.ReturnStmt); ok && len(rs.Results) == 1 {
				got = canonExpr(info, rs.Results[0])
			}
		}
		alt := want[n]
		if n == "CanDisplayGraphics" && got == "Vaxis.caps.kittyGraphics||Vaxis.caps.sixels" {
			alt = got
		}
		c.check(got == alt, "C07.d", fi.Name+"/returns "+want[n], fi.Decl.Pos(), "reports exactly the established capability", fmt.Sprintf("returns %q, must report %s", got, want[n]))
	}
}

func c07Palette(c *Ctx, info *types.Info) {
	pk := c.P.Pkg("vaxis")
	var lit *ast.CompositeLit
	var litPos token.Pos
	for _, f := range pk.Syntax {
		for _, d := range f.Decls {
			gd, ok := d.(*ast.GenDecl)
			if !ok || gd.Tok != token.VAR {
				continue
			}
			for _, sp := range gd.Specs {
				vs := sp.(*ast.ValueSpec)
				for i, n := range vs.Names {
					if n.Name == "colorIndex" && i < len(vs.Values) {
						lit, _ = vs.Values[i].(*ast.CompositeLit)
						litPos = n.Pos()
					}
				}
			}
		}
	}
	if lit == nil {
		c.undecided("C07.e", "vaxis.colorIndex", 0, "palette table literal not found")
		return
	}
	var want []int64
	lv := []int64{0x00, 0x5F, 0x87, 0xAF, 0xD7, 0xFF}
	for _, r := range lv {
		for _, g := range lv {
			for _, b := range lv {
				want = append(want, r<<16|g<<8|b)
			}
		}
	}
	for i := int64(0); i < 24; i++ {
		v := 8 + 10*i
		want = append(want, v<<16|v<<8|v)
	}
	bad := ""
	if len(lit.Elts) != len(want) {
		bad = fmt.Sprintf("table has %d entries, the xterm palette 16..255 has %d", len(lit.Elts), len(want))
	} else {
		for i, el := range lit.Elts {
			v, ok := constInt(info, el)
			if !ok || v != want[i] {
				bad = fmt.Sprintf("entry %d (palette index %d) is %#06x, xterm's is %#06x", i, i+16, v, want[i])
				break
			}
		}
	}
	c.check(bad == "", "C07.e", "vaxis.colorIndex/equals xterm palette 16..255", litPos, "240 entries equal the 6x6x6 cube over {00,5F,87,AF,D7,FF} and the 8+10i grey ramp", bad)
	// asIndex: whole-table scan, offset 16
	ai := c.P.Func("vaxis.Color.asIndex")
	if ai == nil {
		return
	}
	okScan, why := c07WholeTableScan(c, ai, info)
	c.check(okScan, "C07.e", "vaxis.Color.asIndex/scans the whole palette table", ai.Decl.Pos(), "one loop over colorIndex, no entry skipped", "nearest-colour search does not cover the whole table: "+why)
	// returned index = position + 16
	okOff := true
	n := 0
	ast.Inspect(ai.Decl.Body, func(x ast.Node) bool {
		call, ok := x.(*ast.CallExpr)
		if !ok {
			return true
		}
		if fn := calleeOf(info, call); fn != nil && fn.Name() == "IndexColor" && len(call.Args) == 1 {
			n++
			t, k := linForm(info, stripConv(info, call.Args[0]))
			if k != 16 || t.Disp == "" {
				okOff = false
			}
		}
		return true
	})
	c.check(okOff && n > 0, "C07.e", "vaxis.Color.asIndex/index = table position + 16", ai.Decl.Pos(), "offset 16", "the palette index is not table position + 16")

	// C07.f signed differences
	nsub := 0
	// asIndex and the functions of the package it calls to compute the distance (a distance helper)
	bodies := []*FuncInfo{ai}
	for depth, frontier := 0, []*FuncInfo{ai}; depth < 2 && len(frontier) > 0; depth++ {
		var next []*FuncInfo
		for _, f := range frontier {
			ast.Inspect(f.Decl.Body, func(x ast.Node) bool {
				if call, ok := x.(*ast.CallExpr); ok {
					if hf := c.P.FuncOfObj(calleeOf(info, call)); hf != nil && hf.Pkg == ai.Pkg && hf.Decl.Body != nil {
						dup := false
						for _, b := range bodies {
							if b == hf {
								dup = true
							}
						}
						if !dup {
							bodies = append(bodies, hf)
							next = append(next, hf)
						}
					}
				}
				return true
			})
		}
		frontier = next
	}
	for _, bf := range bodies {
		ast.Inspect(bf.Decl.Body, func(x ast.Node) bool {
			b, ok := x.(*ast.BinaryExpr)
			if !ok || b.Op != token.SUB {
				return true
			}
			t := info.TypeOf(b)
			bt, ok := t.Underlying().(*types.Basic)
			if !ok {
				return true
			}
			nsub++
			key := fmt.Sprintf("vaxis.Color.asIndex/difference %s computed in a signed type", types.ExprString(b))
			if bt.Info()&types.IsUnsigned != 0 {
				c.bad("C07.f", key, b.Pos(), "the channel difference %s has unsigned type %s: it wraps modulo 256 when the palette entry is darker than the colour, so the weighted distance is wrong (RGB(1,1,1) maps to 232 instead of 16)", types.ExprString(b), bt.Name())
			} else {
				c.ok("C07.f", key, b.Pos(), "type %s", bt.Name())
			}
			return true
		})
	}
	if nsub < 3 {
		c.undecided("C07.f", "vaxis.Color.asIndex/three channel differences", ai.Decl.Pos(), "expected three channel differences, found %d", nsub)
	}
}

// c07WholeTableScan: asIndex has exactly one loop; it visits every entry of the palette table (a range over the
// table, or an index loop from 0 while i < len(table) by steps of 1 that reads table[i]); and in every iteration
// the candidate's distance is compared before the iteration can end (no `continue`/`break` that skips an entry
// or the rest of the table without having looked at its distance).
func c07WholeTableScan(c *Ctx, ai *FuncInfo, info *types.Info) (bool, string) {
	isTable := func(e ast.Expr) bool {
		id, ok := unparen(e).(*ast.Ident)
		if !ok {
			return false
		}
		o := info.ObjectOf(id)
		if src := singleDefOf(info, o); src != nil {
			if id2, ok := unparen(src).(*ast.Ident); ok {
				o = info.ObjectOf(id2)
			}
		}
		v, ok := o.(*types.Var)
		return ok && v.Pkg() != nil && v.Parent() == v.Pkg().Scope() && v.Name() == "colorIndex"
	}
	var loops []ast.Stmt
	ast.Inspect(ai.Decl.Body, func(n ast.Node) bool {
		switch n.(type) {
		case *ast.RangeStmt, *ast.ForStmt:
			loops = append(loops, n.(ast.Stmt))
		}
		return true
	})
	if len(loops) == 0 {
		return false, "no loop over the table"
	}
	if len(loops) != 1 {
		return false, fmt.Sprintf("%d loops in asIndex", len(loops))
	}
	var body *ast.BlockStmt
	var idxObj types.Object // the position variable: comparisons on it are not comparisons of distances
	switch l := loops[0].(type) {
	case *ast.RangeStmt:
		if !isTable(l.X) {
			return false, "the scan ranges over " + types.ExprString(l.X)
		}
		body = l.Body
		if id, ok := l.Key.(*ast.Ident); ok && id.Name != "_" {
			idxObj = info.ObjectOf(id)
		}
	case *ast.ForStmt:
		body = l.Body
		// for i := 0; i < len(table); i++ / i += 1
		var iv types.Object
		if as, ok := l.Init.(*ast.AssignStmt); ok && len(as.Lhs) == 1 && len(as.Rhs) == 1 {
			if id, ok := as.Lhs[0].(*ast.Ident); ok {
				if v, isC := constInt(info, as.Rhs[0]); isC && v == 0 {
					iv = info.ObjectOf(id)
				}
			}
		}
		if iv == nil {
			return false, "the index loop does not start at entry 0"
		}
		idxObj = iv
		isIV := func(e ast.Expr) bool { id, ok := unparen(e).(*ast.Ident); return ok && info.ObjectOf(id) == iv }
		isLenTable := func(e ast.Expr) bool {
			call, ok := unparen(e).(*ast.CallExpr)
			if ok {
				if id, ok := call.Fun.(*ast.Ident); ok && id.Name == "len" && len(call.Args) == 1 && isTable(call.Args[0]) {
					return true
				}
			}
			// the table is an array or a literal of known length: the constant bound equal to it
			if v, isC := constInt(info, e); isC {
				if tv := c.P.Pkg("vaxis").Types.Scope().Lookup("colorIndex"); tv != nil {
					if lit := c.P.ReadOnlyTable(tv.(*types.Var)); lit != nil && int64(len(lit.Elts)) == v {
						return true
					}
				}
			}
			return false
		}
		okCond := false
		if be, ok := unparen(l.Cond).(*ast.BinaryExpr); ok {
			switch {
			case (be.Op == token.LSS || be.Op == token.NEQ) && isIV(be.X) && isLenTable(be.Y):
				okCond = true
			case (be.Op == token.GTR || be.Op == token.NEQ) && isIV(be.Y) && isLenTable(be.X):
				okCond = true
			}
		}
		if !okCond {
			return false, "the index loop does not run to the end of the table (condition " + types.ExprString(l.Cond) + ")"
		}
		okPost := false
		switch p := l.Post.(type) {
		case *ast.IncDecStmt:
			okPost = p.Tok == token.INC && isIV(p.X)
		case *ast.AssignStmt:
			if len(p.Lhs) == 1 && len(p.Rhs) == 1 && isIV(p.Lhs[0]) {
				if v, isC := constInt(info, p.Rhs[0]); isC && v == 1 && p.Tok == token.ADD_ASSIGN {
					okPost = true
				}
				if be, ok := unparen(p.Rhs[0]).(*ast.BinaryExpr); ok && p.Tok == token.ASSIGN && be.Op == token.ADD {
					if v, isC := constInt(info, be.Y); isC && v == 1 && isIV(be.X) {
						okPost = true
					}
					if v, isC := constInt(info, be.X); isC && v == 1 && isIV(be.Y) {
						okPost = true
					}
				}
			}
		}
		if !okPost {
			return false, "the index loop does not step through the table one entry at a time"
		}
		// the index is not modified in the body, and the entry read is table[i]
		reads, writes := false, false
		ast.Inspect(l.Body, func(n ast.Node) bool {
			switch t := n.(type) {
			case *ast.AssignStmt:
				for _, lh := range t.Lhs {
					if isIV(lh) {
						writes = true
					}
				}
			case *ast.IncDecStmt:
				if isIV(t.X) {
					writes = true
				}
			case *ast.IndexExpr:
				if isTable(t.X) && isIV(t.Index) {
					reads = true
				}
			}
			return true
		})
		if writes {
			return false, "the loop index is modified inside the loop"
		}
		if !reads {
			return false, "the loop does not read the table entry at its index"
		}
	}
	// every iteration compares the candidate's distance before it can end
	g := c.P.Graph(ai)
	isDistCmp := func(n ast.Node) bool {
		be, ok := n.(*ast.BinaryExpr)
		if !ok {
			return false
		}
		switch be.Op {
		case token.LSS, token.LEQ, token.GTR, token.GEQ:
		default:
			return false
		}
		isNum := func(e ast.Expr) bool {
			bt, ok := info.TypeOf(e).Underlying().(*types.Basic)
			return ok && bt.Info()&(types.IsFloat|types.IsInteger) != 0
		}
		if !isNum(be.X) || !isNum(be.Y) {
			return false
		}
		// a comparison that involves a value computed in the loop body from the entry (not the bare index)
		_, xc := constInt(info, be.X)
		_, yc := constInt(info, be.Y)
		if xc || yc {
			return false
		}
		if idxObj != nil && (objsIn(info, be.X)[idxObj] || objsIn(info, be.Y)[idxObj]) {
			return false
		}
		return true
	}
	var bodyBlk *cfg.Block
	for _, b := range g.Blocks {
		if (b.Kind == cfg.KindForBody || b.Kind == cfg.KindRangeBody) && b.Stmt == loops[0] {
			bodyBlk = b
		}
	}
	if bodyBlk == nil {
		return false, "the loop body is not in the flow graph"
	}
	start := Loc{bodyBlk, -1}
	if g.reachesNextIteration(start, isDistCmp, loops[0]) {
		return false, "an iteration can end before the entry's distance is compared (an entry is skipped)"
	}
	// leaving the loop early (break) without having compared the current entry skips the rest of the table
	skipsRest := false
	seen := map[*cfg.Block]bool{}
	var visit func(l Loc)
	visit = func(l Loc) {
		if l.Idx == 0 {
			if seen[l.B] {
				return
			}
			seen[l.B] = true
			if (l.B.Kind == cfg.KindForDone || l.B.Kind == cfg.KindRangeDone) && l.B.Stmt == loops[0] {
				skipsRest = true
				return
			}
		}
		for i := l.Idx; i < len(l.B.Nodes); i++ {
			if containsNode(l.B.Nodes[i], isDistCmp) {
				return
			}
		}
		for _, s := range l.B.Succs {
			visit(Loc{s, 0})
		}
	}
	visit(Loc{bodyBlk, 0})
	if skipsRest {
		return false, "the loop can be left (break) before the current entry's distance is compared"
	}
	_ = body
	return true, ""
}

func stripConv(info *types.Info, e ast.Expr) ast.Expr {
	for {
		e = unparen(e)
		call, ok := e.(*ast.CallExpr)
		if !ok || len(call.Args) != 1 {
			return e
		}
		if tv, ok := info.Types[call.Fun]; ok && tv.IsType() {
			e = call.Args[0]
			continue
		}
		return e
	}
}

func c07WidthDecision(c *Ctx, info *types.Info) {
	type site struct {
		g      *FG
		loc    Loc
		method string
	}
	collect := func(name string) ([]site, *FuncInfo) {
		fi := c.P.Func(name)
		if fi == nil {
			return nil, nil
		}
		g := c.P.Graph(fi)
		var out []site
		for _, h := range g.Calls(func(fn *types.Func, _ *ast.CallExpr) bool { return fn != nil && fn.Name() == "gwidth" }) {
			call := h.Node.(*ast.CallExpr)
			if len(call.Args) == 2 {
				out = append(out, site{g, h.Loc, types.ExprString(call.Args[1])})
			}
		}
		return out, fi
	}
	for _, fn := range []struct {
		name     string
		implicit string // method used when no gwidth call is selected
	}{{"vaxis.(*Vaxis).RenderedWidth", ""}, {"vaxis.(*Vaxis).NewStyledString", "unicodeStd"}} {
		sites, fi := collect(fn.name)
		if fi == nil || len(sites) == 0 {
			c.undecided("C07.g", fn.name, 0, "function or gwidth calls not found")
			continue
		}
		// if some call passes a non-constant method, decide by interpreting the function under each assignment
		needInterp := false
		for _, s := range sites {
			if s.method != "wcwidth" && s.method != "noZWJ" && s.method != "unicodeStd" {
				needInterp = true
			}
		}
		for m := 0; m < 8; m++ {
			u, e, z := m&1 != 0, m&2 != 0, m&4 != 0
			sigma := map[string]bool{"Vaxis.caps.unicodeCore": u, "Vaxis.caps.explicitWidth": e, "Vaxis.caps.noZWJ": z}
			want := "wcwidth"
			if u || e {
				want = "unicodeStd"
			} else if z {
				want = "noZWJ"
			}
			var sel []string
			if needInterp {
				// each call site by itself: the method argument and the conditions on it are evaluated under the
				// capability assignment (a helper that chooses the method is interpreted with that assignment)
				if got, ok := c07SitesUnder(c, fi, sigma); ok {
					sel = got
				} else {
					got, prob := c07InterpWidth(c, fi, sigma)
					if prob != "" {
						c.undecided("C07.g", fmt.Sprintf("%s/unicodeCore=%v explicitWidth=%v noZWJ=%v -> %s", fn.name, u, e, z, want), fi.Decl.Pos(), "the width method is passed through a variable and the function cannot be interpreted: %s", prob)
						continue
					}
					sel = got
				}
			} else {
				for _, s := range sites {
					if holds, _ := s.g.reachableUnder(s.loc, sigma); holds {
						sel = append(sel, s.method)
					}
				}
			}
			got := fn.implicit
			if len(sel) == 1 {
				got = sel[0]
			} else if len(sel) > 1 {
				got = strings.Join(sel, "+")
			}
			key := fmt.Sprintf("%s/unicodeCore=%v explicitWidth=%v noZWJ=%v -> %s", fn.name, u, e, z, want)
			c.check(got == want, "C07.g", key, fi.Decl.Pos(), "width method matches the established capabilities", fmt.Sprintf("measures with %q, the capabilities call for %s", got, want))
		}
	}
}

// constOfPkg returns the folded value of a package-level constant of package vaxis as printed in guard keys.
func constOfPkg(c *Ctx, name string) string {
	if o, ok := c.P.Pkg("vaxis").Types.Scope().Lookup(name).(*types.Const); ok {
		return o.Val().String()
	}
	return name
}

// extraGuards: guard keys in gk that are not in force at statement d1.
func extraGuards(c *Ctx, fi *FuncInfo, d1 ast.Node, gk []string) []string {
	g := c.P.Graph(fi)
	l1, ok := g.Locate(d1)
	if !ok {
		return gk
	}
	base := guardKeys(g, l1)
	var out []string
	for _, k := range gk {
		if !containsStr(base, k) {
			out = append(out, k)
		}
	}
	return out
}

// c07ValueUnder: the integer value of e under the capability assignment sigma: a constant, a local defined once
// by such a value, or the result of a helper of the package that depends on the capability flags only.
func c07ValueUnder(c *Ctx, fi *FuncInfo, e ast.Expr, sigma map[string]bool, depth int) (int64, bool) {
	info := fi.Pkg.TypesInfo
	e = unparen(e)
	if depth > 4 {
		return 0, false
	}
	if v, ok := constInt(info, e); ok {
		return v, true
	}
	switch t := e.(type) {
	case *ast.Ident:
		if src := singleDefOf(info, info.ObjectOf(t)); src != nil {
			return c07ValueUnder(c, fi, src, sigma, depth+1)
		}
	case *ast.CallExpr:
		if tv, ok := info.Types[t.Fun]; ok && tv.IsType() && len(t.Args) == 1 {
			return c07ValueUnder(c, fi, t.Args[0], sigma, depth+1)
		}
		fn := calleeOf(info, t)
		hf := c.P.FuncOfObj(fn)
		if hf == nil || hf.Pkg != fi.Pkg || hf.Decl.Body == nil || hf == fi {
			return 0, false
		}
		hinfo := hf.Pkg.TypesInfo
		m := &Machine{info: hinfo, prog: c.P, fields: map[string]val{}, tracked: func(*types.Var) bool { return false }}
		m.resolve = func(x ast.Expr) (val, bool) {
			if v, ok := sigma[canonExpr(hinfo, x)]; ok {
				return val{k: vBool, b: v}, true
			}
			return val{}, false
		}
		m.onCall = func(m *Machine, fn2 *types.Func, call *ast.CallExpr, args []val) (val, bool) {
			if h2 := c.P.FuncOfObj(fn2); h2 != nil && h2.Pkg == fi.Pkg && h2.Decl.Body != nil && h2 != hf {
				if sig, _ := fn2.Type().(*types.Signature); sig != nil && sig.Results().Len() == 1 {
					ret := m.callDecl(h2.Decl, args)
					if len(ret) == 1 {
						return ret[0], true
					}
				}
			}
			return val{}, true
		}
		var args []val
		for _, a := range t.Args {
			if v, ok := c07ValueUnder(c, fi, a, sigma, depth+1); ok {
				args = append(args, val{k: vInt, i: v})
			} else {
				args = append(args, val{})
			}
		}
		ret := m.callDecl(hf.Decl, args)
		if len(m.problems) == 0 && len(ret) == 1 && ret[0].k == vInt {
			return ret[0].i, true
		}
	}
	return 0, false
}

// c07SitesUnder: the width methods of the gwidth calls of fi that can be reached under sigma, each call site
// judged by its own guards; comparisons of a computable value (the chosen method) are decided first.
// ok=false: some site's method or guard cannot be evaluated this way.
func c07SitesUnder(c *Ctx, fi *FuncInfo, sigma map[string]bool) ([]string, bool) {
	info := fi.Pkg.TypesInfo
	g := c.P.Graph(fi)
	names := map[int64]string{}
	for _, n := range []string{"wcwidth", "noZWJ", "unicodeStd"} {
		if o, ok := fi.Pkg.Types.Scope().Lookup(n).(*types.Const); ok {
			if v, ok2 := constToInt(types.TypeAndValue{Value: o.Val()}); ok2 {
				names[v] = n
			}
		}
	}
	var out []string
	for _, h := range g.Calls(func(fn *types.Func, _ *ast.CallExpr) bool { return fn != nil && fn.Name() == "gwidth" }) {
		call := h.Node.(*ast.CallExpr)
		if len(call.Args) != 2 {
			return nil, false
		}
		mv, ok := c07ValueUnder(c, fi, call.Args[1], sigma, 0)
		if !ok || names[mv] == "" {
			return nil, false
		}
		// decide the comparisons in the site's guards whose operands are computable
		s2 := map[string]bool{}
		for k, v := range sigma {
			s2[k] = v
		}
		for _, gd := range g.Guards(h.Loc) {
			if gd.Cond == nil || gd.Cond.Expr == nil {
				continue
			}
			exprs := []ast.Expr{gd.Cond.Expr}
			if gd.Cond.Tag != nil {
				// switch tag { case v: } — a comparison tag == v
				a, okA := c07ValueUnder(c, fi, gd.Cond.Tag, sigma, 0)
				b, okB := c07ValueUnder(c, fi, gd.Cond.Expr, sigma, 0)
				if okA && okB {
					if (a == b) != gd.Pol {
						s2["⊥"] = true
					}
				}
				continue
			}
			for _, x := range exprs {
				ast.Inspect(x, func(n ast.Node) bool {
					be, ok := n.(*ast.BinaryExpr)
					if !ok {
						return true
					}
					switch be.Op {
					case token.EQL, token.NEQ, token.LSS, token.LEQ, token.GTR, token.GEQ:
						a, okA := c07ValueUnder(c, fi, be.X, sigma, 0)
						b, okB := c07ValueUnder(c, fi, be.Y, sigma, 0)
						if okA && okB {
							var r bool
							switch be.Op {
							case token.EQL:
								r = a == b
							case token.NEQ:
								r = a != b
							case token.LSS:
								r = a < b
							case token.LEQ:
								r = a <= b
							case token.GTR:
								r = a > b
							case token.GEQ:
								r = a >= b
							}
							s2[canonExpr(info, be)] = r
						}
					}
					return true
				})
			}
		}
		if s2["⊥"] {
			continue
		}
		holds, known := g.reachableUnder(h.Loc, s2)
		_ = known
		if holds {
			out = append(out, names[mv])
		}
	}
	return out, true
}

// c07InterpWidth runs fi concretely with the capability flags of sigma and returns the method
// constants passed to gwidth.
func c07InterpWidth(c *Ctx, fi *FuncInfo, sigma map[string]bool) ([]string, string) {
	info := fi.Pkg.TypesInfo
	names := map[int64]string{}
	for _, n := range []string{"wcwidth", "noZWJ", "unicodeStd"} {
		if o, ok := fi.Pkg.Types.Scope().Lookup(n).(*types.Const); ok {
			if v, ok2 := constToInt(types.TypeAndValue{Value: o.Val()}); ok2 {
				names[v] = n
			}
		}
	}
	var got []string
	m := &Machine{info: info, prog: c.P, fields: map[string]val{}, tracked: func(*types.Var) bool { return false }}
	m.resolve = func(e ast.Expr) (val, bool) {
		if v, ok := sigma[canonExpr(info, e)]; ok {
			return val{k: vBool, b: v}, true
		}
		return val{}, false
	}
	m.onCall = func(m *Machine, fn *types.Func, call *ast.CallExpr, args []val) (val, bool) {
		if fn.Name() == "gwidth" && len(args) == 2 {
			if args[1].k == vInt {
				got = append(got, names[args[1].i])
			} else {
				m.problem("gwidth called with a non-constant method")
			}
			return val{}, true
		}
		// a helper of the package that computes a value the decision may depend on (the width method, a
		// capability predicate) is interpreted with the same capability assignment
		if hf := c.P.FuncOfObj(fn); hf != nil && hf.Pkg == fi.Pkg && hf.Decl.Body != nil && hf != fi {
			if sig, _ := fn.Type().(*types.Signature); sig != nil && sig.Results().Len() == 1 {
				switch bt := sig.Results().At(0).Type().Underlying().(type) {
				case *types.Basic:
					if bt.Info()&(types.IsInteger|types.IsBoolean) != 0 {
						ret := m.callDecl(hf.Decl, args)
						if len(ret) == 1 {
							return ret[0], true
						}
						return val{}, true
					}
				}
			}
		}
		return val{}, true // other calls (logging) have no effect on the decision
	}
	m.callDecl(fi.Decl, []val{{}})
	if len(m.problems) > 0 {
		return nil, strings.Join(m.problems, "; ")
	}
	return got, ""
}

type c07Def struct {
	node  ast.Node
	rhs   ast.Expr // nil: zero value or not a single expression
	isDef func(ast.Node) bool
}

// c07LocalDefs: the statements of fi that define the local variable obj (nil if obj is not a local of fi, is a
// parameter, or has its address taken).
func c07LocalDefs(fi *FuncInfo, obj types.Object) []c07Def {
	info := fi.Pkg.TypesInfo
	v, isVar := obj.(*types.Var)
	if !isVar || v.IsField() || v.Parent() == nil || v.Pkg() == nil || v.Parent() == v.Pkg().Scope() {
		return nil
	}
	var defs []c07Def
	escaped := false
	inspectNoLit(fi.Decl.Body, func(x ast.Node) bool {
		switch t := x.(type) {
		case *ast.AssignStmt:
			for i, l := range t.Lhs {
				if id, ok := l.(*ast.Ident); ok && info.ObjectOf(id) == obj {
					if len(t.Lhs) == len(t.Rhs) && (t.Tok == token.ASSIGN || t.Tok == token.DEFINE) {
						defs = append(defs, c07Def{node: t, rhs: t.Rhs[i]})
					} else {
						defs = append(defs, c07Def{node: t})
					}
				}
			}
		case *ast.ValueSpec:
			for i, nm := range t.Names {
				if info.Defs[nm] == obj {
					if i < len(t.Values) {
						defs = append(defs, c07Def{node: t, rhs: t.Values[i]})
					} else {
						defs = append(defs, c07Def{node: t})
					}
				}
			}
		case *ast.UnaryExpr:
			if t.Op == token.AND {
				if id, ok := unparen(t.X).(*ast.Ident); ok && info.ObjectOf(id) == obj {
					escaped = true
				}
			}
		}
		return true
	})
	if escaped {
		return nil
	}
	isDef := func(n ast.Node) bool {
		for _, d := range defs {
			if d.node == n {
				return true
			}
		}
		return false
	}
	for i := range defs {
		defs[i].isDef = isDef
	}
	return defs
}

type c07Post struct {
	ev  string
	gk  []string
	pos token.Pos
}

// c07Posts: the sites that post an event accepted by want, in handleSequence, sendQueries and the same-package
// functions they call (the keys in force at the call site are in force inside the callee; canonical paths are
// anchored by type, so a sequence handed to a helper keeps its name).
func c07Posts(c *Ctx, want func(ev string) bool) []c07Post {
	var posts []c07Post
	visited := map[*FuncInfo]bool{}
	var collect func(fi *FuncInfo, outer []string, depth int)
	collect = func(fi *FuncInfo, outer []string, depth int) {
		if fi == nil || fi.Decl.Body == nil || depth > 3 || visited[fi] {
			return
		}
		visited[fi] = true
		info := fi.Pkg.TypesInfo
		g := c.P.Graph(fi)
		for _, h := range g.Calls(func(fn *types.Func, _ *ast.CallExpr) bool { return fn != nil }) {
			call := h.Node.(*ast.CallExpr)
			fn := calleeOf(info, call)
			if fn == nil {
				continue
			}
			if fn.Name() == "PostEventBlocking" || fn.Name() == "PostEvent" {
				if len(call.Args) != 1 {
					continue
				}
				evOf := func(x ast.Expr) string {
					switch a := unparen(x).(type) {
					case *ast.CompositeLit:
						return types.ExprString(a.Type)
					case *ast.CallExpr:
						if tv, ok := info.Types[a.Fun]; ok && tv.IsType() {
							return types.ExprString(a.Fun)
						}
					}
					return ""
				}
				ev := evOf(call.Args[0])
				if want(ev) {
					gk := append(append([]string{}, outer...), guardKeys(g, h.Loc)...)
					sort.Strings(gk)
					posts = append(posts, c07Post{ev, gk, call.Pos()})
				}
				// the event is held in a local variable (`supported = synchronizedUpdates{}` in one branch, one
				// shared post afterwards): every assignment that can reach the post is a post of that event, in
				// the context of the assignment and of the post together
				if id, ok := unparen(call.Args[0]).(*ast.Ident); ok && ev == "" {
					for _, d := range c07LocalDefs(fi, info.ObjectOf(id)) {
						dev := ""
						if d.rhs != nil {
							dev = evOf(d.rhs)
						}
						if !want(dev) {
							continue
						}
						dl, okL := g.Locate(d.node)
						if !okL || !g.reachesUnder(dl, h.Loc, d.isDef, nil) {
							continue
						}
						gk := append(append([]string{}, outer...), guardKeys(g, h.Loc)...)
						for _, k := range guardKeys(g, dl) {
							if !containsStr(gk, k) {
								gk = append(gk, k)
							}
						}
						sort.Strings(gk)
						posts = append(posts, c07Post{dev, gk, call.Pos()})
					}
				}
				continue
			}
			if cf := c.P.FuncOfObj(fn); cf != nil && cf.Pkg == fi.Pkg && cf != fi {
				collect(cf, append(append([]string{}, outer...), guardKeys(g, h.Loc)...), depth+1)
			}
		}
	}
	collect(c.P.Func("vaxis.(*Vaxis).handleSequence"), nil, 0)
	collect(c.P.Func("vaxis.(*Vaxis).sendQueries"), nil, 0)
	return posts
}
