package main

// c15norm4 — table-driven loops and dead loops (part of the C15 normalisation, c15norm.go).
//
// "Replace duplicated blocks by a small table of (data, data, event) rows driven by one loop" is undone here:
//
//	rows := [...]struct{ from, other []hitResult; event vaxis.Event }{
//		{from: m.lastHits, other: hits, event: MouseLeave{}},
//		{from: hits, other: m.lastHits, event: MouseEnter{}},
//	}
//	for _, tr := range rows { BODY(tr.from, tr.other, tr.event) }
//
// becomes
//
//	tr_from_row1 := m.lastHits; tr_other_row1 := hits; var tr_event_row1 vaxis.Event = MouseLeave{}; ... (row 2)
//	{ BODY(tr_from_row1, tr_other_row1, tr_event_row1) }
//	{ BODY(tr_from_row2, tr_other_row2, tr_event_row2) }
//
// The row expressions are still evaluated once, at the place and in the order the literal evaluated them (each is
// bound to a local of the field's type); the later propagation of single-definition pure locals puts them back into
// the body where nothing can have changed them in between. The rewrite is done only when it is exact:
//   - the table is a composite literal of array/slice type without index keys and with at most 8 rows, written in the
//     range clause itself or bound to a local with that single definition in the same statement list and no other use;
//   - rows of struct type are struct literals; the loop variable is only read, field by field (never assigned, never
//     taken the address of, never used as a whole); the index variable is only read;
//   - the body has no break/continue that binds to this loop, no goto, defer, go or function literals (labels declared in it are renamed per copy), and the
//     loop itself carries no label.
//
// Dead loops: `for .. := range X` where X is (a conversion of) nil or an empty composite literal runs zero times and
// evaluating X has no effect: the statement is dropped. (This is what is left of a membership loop when a helper
// is called with "nothing to exclude".)

import (
	"fmt"
	"go/ast"
	"go/parser"
	"go/token"
	"go/types"
	"strconv"

	"golang.org/x/tools/go/ast/astutil"
	"golang.org/x/tools/go/packages"
)

const c15MaxTableRows = 8

func c15UnrollTables(c *Ctx, pk *packages.Package) map[*ast.File]bool {
	changed := map[*ast.File]bool{}
	info := pk.TypesInfo
	for _, f := range pk.Syntax {
		for _, d := range f.Decls {
			fd, ok := d.(*ast.FuncDecl)
			if !ok || fd.Body == nil || c15NormSkip[shortPkg(pk.PkgPath)+"."+funcDeclName(fd)] {
				continue
			}
			u := &c15Unroller{c: c, pk: pk, info: info, file: f, fd: fd}
			hasGoto := false
			ast.Inspect(fd.Body, func(n ast.Node) bool {
				if b, ok := n.(*ast.BranchStmt); ok && b.Tok == token.GOTO {
					hasGoto = true
				}
				return true
			})
			if hasGoto {
				continue
			}
			u.block(fd.Body)
			if u.changed {
				c15DropUnusedLabels(fd.Body)
				changed[f] = true
				for _, n := range u.notes {
					c.info("normalised: %s", n)
				}
			}
		}
	}
	return changed
}

type c15Unroller struct {
	c       *Ctx
	pk      *packages.Package
	info    *types.Info
	file    *ast.File
	fd      *ast.FuncDecl
	changed bool
	notes   []string
	names   map[string]bool
	defs    *c15Defs
	nuses   map[types.Object]int
}

func (u *c15Unroller) block(n ast.Node) {
	ast.Inspect(n, func(m ast.Node) bool {
		switch t := m.(type) {
		case *ast.FuncLit:
			return false
		case *ast.BlockStmt:
			t.List = u.list(t.List)
		case *ast.CaseClause:
			t.Body = u.list(t.Body)
		case *ast.CommClause:
			t.Body = u.list(t.Body)
		}
		return true
	})
}

func (u *c15Unroller) list(list []ast.Stmt) []ast.Stmt {
	var out []ast.Stmt
	for i := 0; i < len(list); i++ {
		st := list[i]
		inner := st
		if ls, ok := st.(*ast.LabeledStmt); ok {
			inner = ls.Stmt
		}
		rs, ok := inner.(*ast.RangeStmt)
		if !ok {
			out = append(out, st)
			continue
		}
		if u.deadRange(rs) {
			// a label on the loop can only be referenced from inside it
			u.changed = true
			u.notes = append(u.notes, fmt.Sprintf("loop over an empty list dropped in %s", u.fd.Name.Name))
			continue
		}
		if inner != st {
			out = append(out, st) // labelled: left alone
			continue
		}
		pre, blocks, defStmt, ok := u.unroll(rs, list[:i])
		if !ok {
			out = append(out, st)
			continue
		}
		if defStmt != nil {
			// the definition of the table (earlier in this list) is replaced by the row locals
			var nout []ast.Stmt
			for _, o := range out {
				if o == defStmt {
					nout = append(nout, pre...)
					continue
				}
				nout = append(nout, o)
			}
			out = append(nout, blocks...)
		} else {
			out = append(out, &ast.BlockStmt{List: append(pre, blocks...)})
		}
		u.changed = true
		u.notes = append(u.notes, fmt.Sprintf("table-driven loop unrolled in %s (%d rows)", u.fd.Name.Name, len(blocks)))
	}
	return out
}

func c15StripConvNil(info *types.Info, e ast.Expr) ast.Expr {
	for {
		e = unparen(e)
		call, ok := e.(*ast.CallExpr)
		if !ok || len(call.Args) != 1 {
			return e
		}
		if tv, ok := info.Types[call.Fun]; !ok || !tv.IsType() {
			return e
		}
		e = call.Args[0]
	}
}

func (u *c15Unroller) deadRange(rs *ast.RangeStmt) bool {
	x := c15StripConvNil(u.info, rs.X)
	t := u.info.TypeOf(rs.X)
	if t == nil {
		return false
	}
	switch t.Underlying().(type) {
	case *types.Slice, *types.Map:
	default:
		return false
	}
	if isNilExpr(u.info, x) {
		return true
	}
	if cl, ok := x.(*ast.CompositeLit); ok && len(cl.Elts) == 0 {
		if _, isSlice := t.Underlying().(*types.Slice); isSlice {
			return true
		}
	}
	return false
}

// fresh returns an identifier that does not occur in the file.
func (u *c15Unroller) fresh(base string) string {
	if u.names == nil {
		u.names = map[string]bool{}
		ast.Inspect(u.file, func(n ast.Node) bool {
			if id, ok := n.(*ast.Ident); ok {
				u.names[id.Name] = true
			}
			return true
		})
	}
	name := base
	for k := 2; u.names[name]; k++ {
		name = base + "x" + strconv.Itoa(k)
	}
	u.names[name] = true
	return name
}

func (u *c15Unroller) typeExpr(t types.Type) ast.Expr {
	in := &c15Inliner{pk: u.pk, info: u.info, curFile: u.file}
	ts, ok := in.typeString(t)
	if !ok {
		return nil
	}
	e, err := parser.ParseExpr(ts)
	if err != nil {
		return nil
	}
	return e
}

// unroll: pre = the row locals, blocks = one block per row.
func (u *c15Unroller) unroll(rs *ast.RangeStmt, before []ast.Stmt) (pre, blocks []ast.Stmt, defStmt ast.Stmt, ok bool) {
	info := u.info
	if rs.Tok != token.DEFINE && (rs.Key != nil || rs.Value != nil) {
		return
	}
	if u.defs == nil {
		u.defs = c15DefsOf(info, u.fd.Body)
		u.nuses = map[types.Object]int{}
		ast.Inspect(u.fd.Body, func(n ast.Node) bool {
			if id, ok := n.(*ast.Ident); ok {
				if o := info.Uses[id]; o != nil {
					u.nuses[o]++
				}
			}
			return true
		})
	}
	// the table
	var lit *ast.CompositeLit
	switch x := unparen(rs.X).(type) {
	case *ast.CompositeLit:
		lit = x
	case *ast.Ident:
		obj, _ := info.Uses[x].(*types.Var)
		if obj == nil || obj.IsField() || obj.Parent() == nil || obj.Parent() == u.pk.Types.Scope() {
			return
		}
		if u.defs.count[obj] != 1 || u.nuses[obj] != 1 {
			return
		}
		for _, st := range before {
			switch t := st.(type) {
			case *ast.AssignStmt:
				if t.Tok == token.DEFINE && len(t.Lhs) == 1 && len(t.Rhs) == 1 {
					if id, isID := t.Lhs[0].(*ast.Ident); isID && info.Defs[id] == obj {
						lit, _ = unparen(t.Rhs[0]).(*ast.CompositeLit)
						defStmt = st
					}
				}
			case *ast.DeclStmt:
				if gd, isGD := t.Decl.(*ast.GenDecl); isGD && gd.Tok == token.VAR && len(gd.Specs) == 1 {
					if vs := gd.Specs[0].(*ast.ValueSpec); len(vs.Names) == 1 && len(vs.Values) == 1 && vs.Type == nil && info.Defs[vs.Names[0]] == obj {
						lit, _ = unparen(vs.Values[0]).(*ast.CompositeLit)
						defStmt = st
					}
				}
			}
		}
	}
	if lit == nil || len(lit.Elts) == 0 || len(lit.Elts) > c15MaxTableRows {
		return
	}
	var elemT types.Type
	switch t := info.TypeOf(lit).Underlying().(type) {
	case *types.Array:
		elemT = t.Elem()
	case *types.Slice:
		elemT = t.Elem()
	default:
		return
	}
	for _, el := range lit.Elts {
		if _, isKV := el.(*ast.KeyValueExpr); isKV {
			return
		}
	}
	// the body: nothing that binds to this loop, nothing that cannot be duplicated
	if !c15BodyDuplicable(rs.Body) {
		return
	}
	// the loop variables
	var keyObj, valObj types.Object
	if id, isID := rs.Key.(*ast.Ident); isID && id.Name != "_" {
		keyObj = info.Defs[id]
	} else if rs.Key != nil && !isID {
		return
	}
	if id, isID := rs.Value.(*ast.Ident); isID && id.Name != "_" {
		valObj = info.Defs[id]
	} else if rs.Value != nil && !isID {
		return
	}
	written := c15AssignedObjs(info, rs.Body)
	if (keyObj != nil && written[keyObj]) || (valObj != nil && written[valObj]) {
		return
	}
	st, isStruct := elemT.Underlying().(*types.Struct)
	// uses of the value variable
	usedField := map[int]bool{}
	fieldSel := map[*ast.SelectorExpr]int{}
	wholeUse := false
	if valObj != nil {
		selX := map[*ast.Ident]bool{}
		ast.Inspect(rs.Body, func(n ast.Node) bool {
			if sel, isSel := n.(*ast.SelectorExpr); isSel {
				if id, isID := unparen(sel.X).(*ast.Ident); isID && info.Uses[id] == valObj && isStruct {
					if s := info.Selections[sel]; s != nil && s.Kind() == types.FieldVal && len(s.Index()) == 1 {
						usedField[s.Index()[0]] = true
						fieldSel[sel] = s.Index()[0]
						selX[id] = true
					}
				}
			}
			return true
		})
		ast.Inspect(rs.Body, func(n ast.Node) bool {
			if id, isID := n.(*ast.Ident); isID && info.Uses[id] == valObj && !selX[id] {
				wholeUse = true
			}
			return true
		})
		// no field of the copy is written or has its address taken
		ast.Inspect(rs.Body, func(n ast.Node) bool {
			bad := func(e ast.Expr) {
				if o := rootObj(info, e); o != nil && o == valObj {
					wholeUse = true
				}
			}
			switch t := n.(type) {
			case *ast.AssignStmt:
				for _, l := range t.Lhs {
					bad(l)
				}
			case *ast.IncDecStmt:
				bad(t.X)
			case *ast.UnaryExpr:
				if t.Op == token.AND {
					bad(t.X)
				}
			}
			return true
		})
	}
	if isStruct && wholeUse {
		return
	}
	base := "row"
	if valObj != nil {
		base = valObj.Name()
	}
	for ri, el := range lit.Elts {
		rowName := map[int]string{} // field index -> local (struct rows)
		whole := ""
		if isStruct {
			rl, isLit := unparen(el).(*ast.CompositeLit)
			if !isLit {
				return nil, nil, nil, false
			}
			given := map[int]bool{}
			for pi, fe := range rl.Elts {
				fidx := pi
				val := fe
				if kv, isKV := fe.(*ast.KeyValueExpr); isKV {
					kid, isID := kv.Key.(*ast.Ident)
					if !isID {
						return nil, nil, nil, false
					}
					fidx = -1
					for k := 0; k < st.NumFields(); k++ {
						if st.Field(k).Name() == kid.Name {
							fidx = k
						}
					}
					val = kv.Value
				}
				if fidx < 0 || fidx >= st.NumFields() {
					return nil, nil, nil, false
				}
				given[fidx] = true
				name := u.fresh(fmt.Sprintf("%s_%s_row%d", base, st.Field(fidx).Name(), ri+1))
				rowName[fidx] = name
				decl := u.bind(name, st.Field(fidx).Type(), val)
				if decl == nil {
					return nil, nil, nil, false
				}
				pre = append(pre, decl, &ast.AssignStmt{Lhs: []ast.Expr{ast.NewIdent("_")}, Tok: token.ASSIGN, Rhs: []ast.Expr{ast.NewIdent(name)}})
			}
			for fidx := range usedField {
				if given[fidx] {
					continue
				}
				te := u.typeExpr(st.Field(fidx).Type())
				if te == nil {
					return nil, nil, nil, false
				}
				name := u.fresh(fmt.Sprintf("%s_%s_row%d", base, st.Field(fidx).Name(), ri+1))
				rowName[fidx] = name
				pre = append(pre, &ast.DeclStmt{Decl: &ast.GenDecl{Tok: token.VAR, Specs: []ast.Spec{&ast.ValueSpec{Names: []*ast.Ident{ast.NewIdent(name)}, Type: te}}}},
					&ast.AssignStmt{Lhs: []ast.Expr{ast.NewIdent("_")}, Tok: token.ASSIGN, Rhs: []ast.Expr{ast.NewIdent(name)}})
			}
		} else {
			whole = u.fresh(fmt.Sprintf("%s_row%d", base, ri+1))
			val := el
			if cl, isLit := unparen(el).(*ast.CompositeLit); isLit && cl.Type == nil {
				return nil, nil, nil, false // elided element type: the literal cannot stand alone
			}
			decl := u.bind(whole, elemT, val)
			if decl == nil {
				return nil, nil, nil, false
			}
			pre = append(pre, decl, &ast.AssignStmt{Lhs: []ast.Expr{ast.NewIdent("_")}, Tok: token.ASSIGN, Rhs: []ast.Expr{ast.NewIdent(whole)}})
		}
		// the body for this row
		body := c15Copy(rs.Body, nil).(*ast.BlockStmt)
		// c15Copy drops positions and builds new nodes: the selectors/identifiers to replace are found by walking both
		// trees in step
		var origNodes, copyNodes []ast.Node
		collect := func(root ast.Node, out *[]ast.Node) {
			ast.Inspect(root, func(n ast.Node) bool {
				switch n.(type) {
				case nil:
					return true
				case *ast.CommentGroup, *ast.Comment:
					return false // (c15Copy drops comments)
				}
				*out = append(*out, n)
				return true
			})
		}
		collect(rs.Body, &origNodes)
		collect(body, &copyNodes)
		if len(origNodes) != len(copyNodes) {
			return nil, nil, nil, false
		}
		replace := map[ast.Node]ast.Expr{}
		for k, on := range origNodes {
			switch t := on.(type) {
			case *ast.SelectorExpr:
				if fidx, isF := fieldSel[t]; isF {
					replace[copyNodes[k]] = ast.NewIdent(rowName[fidx])
				}
			case *ast.Ident:
				if o := info.Uses[t]; o != nil {
					if o == keyObj {
						replace[copyNodes[k]] = &ast.CallExpr{Fun: ast.NewIdent("int"), Args: []ast.Expr{&ast.BasicLit{Kind: token.INT, Value: strconv.Itoa(ri)}}}
					} else if o == valObj && whole != "" {
						replace[copyNodes[k]] = ast.NewIdent(whole)
					}
				}
			}
		}
		if keyObj != nil {
			if _, shadowed := u.pk.Types.Scope().Innermost(rs.Pos()).LookupParent("int", rs.Pos()); shadowed != types.Universe.Lookup("int") {
				return nil, nil, nil, false
			}
		}
		// labels declared in the body get a name of their own in every copy
		lblName := map[string]string{}
		ast.Inspect(body, func(n ast.Node) bool {
			if ls, isL := n.(*ast.LabeledStmt); isL {
				lblName[ls.Label.Name] = u.fresh(fmt.Sprintf("%s_row%d", ls.Label.Name, ri+1))
			}
			return true
		})
		ast.Inspect(body, func(n ast.Node) bool {
			switch t := n.(type) {
			case *ast.LabeledStmt:
				t.Label.Name = lblName[t.Label.Name]
			case *ast.BranchStmt:
				if t.Label != nil {
					if nn, isIn := lblName[t.Label.Name]; isIn {
						t.Label.Name = nn
					}
				}
			}
			return true
		})
		res := astutil.Apply(body, func(cur *astutil.Cursor) bool {
			if r, isR := replace[cur.Node()]; isR {
				cur.Replace(r)
				return false
			}
			return true
		}, nil)
		blocks = append(blocks, res.(*ast.BlockStmt))
	}
	return pre, blocks, defStmt, true
}

// bind declares name (of type t) with the value of e:  name := e  when e has exactly that type, else  var name T = e.
func (u *c15Unroller) bind(name string, t types.Type, e ast.Expr) ast.Stmt {
	val := c15Copy(e, nil).(ast.Expr)
	tv, ok := u.info.Types[e]
	if ok && tv.Value == nil && !tv.IsNil() && tv.Type != nil && types.Identical(tv.Type, t) {
		if cl, isLit := unparen(e).(*ast.CompositeLit); !isLit || cl.Type != nil {
			return &ast.AssignStmt{Lhs: []ast.Expr{ast.NewIdent(name)}, Tok: token.DEFINE, Rhs: []ast.Expr{val}}
		}
	}
	if cl, isLit := unparen(e).(*ast.CompositeLit); isLit && cl.Type == nil {
		return nil // elided type inside the row: cannot stand alone
	}
	te := u.typeExpr(t)
	if te == nil {
		return nil
	}
	return &ast.DeclStmt{Decl: &ast.GenDecl{Tok: token.VAR, Specs: []ast.Spec{&ast.ValueSpec{Names: []*ast.Ident{ast.NewIdent(name)}, Type: te, Values: []ast.Expr{val}}}}}
}

// c15BodyDuplicable: the loop body can be repeated once per row outside a loop.
func c15BodyDuplicable(body *ast.BlockStmt) bool {
	ok := true
	var visit func(n ast.Node, inLoop, inBreakable bool)
	visit = func(n ast.Node, inLoop, inBreakable bool) {
		ast.Inspect(n, func(m ast.Node) bool {
			if m == nil || m == n || !ok {
				return ok
			}
			switch t := m.(type) {
			case *ast.FuncLit, *ast.DeferStmt, *ast.GoStmt:
				ok = false
			case *ast.ForStmt, *ast.RangeStmt:
				visit(t, true, true)
				return false
			case *ast.SwitchStmt, *ast.TypeSwitchStmt, *ast.SelectStmt:
				visit(t, inLoop, true)
				return false
			case *ast.BranchStmt:
				switch t.Tok {
				case token.BREAK:
					if t.Label == nil && !inBreakable {
						ok = false
					}
				case token.CONTINUE:
					if t.Label == nil && !inLoop {
						ok = false
					}
				case token.GOTO, token.FALLTHROUGH:
					if t.Tok == token.GOTO {
						ok = false
					}
				}
			}
			return ok
		})
	}
	visit(body, false, false)
	return ok
}

// c15DropUnusedLabels unwraps labelled statements whose label no branch statement names any more ("label declared and
// not used" is a compile error).
func c15DropUnusedLabels(body *ast.BlockStmt) {
	used := map[string]bool{}
	ast.Inspect(body, func(n ast.Node) bool {
		if b, ok := n.(*ast.BranchStmt); ok && b.Label != nil {
			used[b.Label.Name] = true
		}
		return true
	})
	fix := func(list []ast.Stmt) {
		for i, st := range list {
			for {
				ls, ok := st.(*ast.LabeledStmt)
				if !ok || used[ls.Label.Name] {
					break
				}
				st = ls.Stmt
			}
			list[i] = st
		}
	}
	ast.Inspect(body, func(n ast.Node) bool {
		switch t := n.(type) {
		case *ast.BlockStmt:
			fix(t.List)
		case *ast.CaseClause:
			fix(t.Body)
		case *ast.CommClause:
			fix(t.Body)
		}
		return true
	})
}
