package main

// C09.k — a binding matches an event WITH associated text only if Ctrl, Alt, Super, Hyper and Meta are
// identical on both sides: the full product of modifier subsets.
//
// C09.d proves the modifier-identity clause from the shape of Key.Matches and, where the shape is not
// the one it follows, searches for a counterexample by interpretation. That search (matchWitnesses)
// toggled ONE of the five modifiers at a time. A rule that forgives a PAIR of modifiers at once — seed
// C09_b_r11: "AltGr", an event with Ctrl and Alt and text '@' matches the binding '@' — has no
// single-bit witness: removing only Ctrl or only Alt from the binding still fails the comparison. The
// missing dimension is the product (subset on the event) x (subset on the binding).
//
// The condition, by concrete interpretation (c09vm) of Key.Matches and Key.MatchString:
//
//   for every event of a family with associated Text (text equal to the key, text of the shifted key,
//   text of another layout level such as AltGr+q = '@', non-ASCII text, a base-layout code), every
//   subset E of {Ctrl, Alt, Super, Hyper, Meta} and Shift on/off on the event, every binding key of the
//   family around the event (the runes of the text, key / shifted / base codes and their case forms),
//   every subset B of the five and Shift on/off on the binding, and lock bits on neither side, on the
//   event, on the binding:
//        Matches(key, B) == true   =>   E == B
//   and the same for MatchString("<names of B>+<text>") (names as documented: Ctrl Alt Super Hyper Meta);
//   non-vacuity: the binding (text rune, exactly the event's modifiers) does match (documented rule 2).
//
// Shift and the lock bits are quantified over but not constrained here (C09.h and C09.i/C09.d judge
// them). Only results of interpretation are compared, so the condition is independent of how Matches is
// written (helpers, tables, switch/if, early returns). It is necessary for "a binding matches a key
// event only if their Ctrl, Alt, Super, Hyper and Meta modifiers are identical".
//
// The same enumeration completes the counterexample search of C09.d (matchWitnesses appends its
// witnesses), so the fallback of C09.d no longer claims more than it evaluated.

import (
	"fmt"
	"sort"
	"strings"
	"unicode"
	"unicode/utf8"
)

type c09fiveCase struct {
	label    string
	n        int
	problems []string
	errs     []string
}

type c09fiveRes struct {
	cases []*c09fiveCase
	why   string // non-empty: could not run at all
}

func init() { registerExtra("C09", c09FiveProduct) }

// fiveProduct evaluates the product once per run (C09.d's fallback and C09.k share it).
func (e *c09env) fiveProduct() *c09fiveRes {
	if e.fiveRes != nil {
		return e.fiveRes
	}
	res := &c09fiveRes{}
	e.fiveRes = res
	names := []string{"ModCtrl", "ModAlt", "ModSuper", "ModHyper", "ModMeta"}
	words := []string{"Ctrl", "Alt", "Super", "Hyper", "Meta"}
	var bits []int64
	for _, n := range append(append([]string{}, names...), "ModShift", "ModCapsLock", "ModNumLock") {
		v, ok := e.named[n]
		if !ok {
			res.why = "constant " + n + " not found"
			return res
		}
		bits = append(bits, v)
	}
	five := bits[:5]
	shift, locks := bits[5], bits[6]|bits[7]
	mask := func(sub int) int64 {
		var m int64
		for i, b := range five {
			if sub&(1<<uint(i)) != 0 {
				m |= b
			}
		}
		return m
	}
	bindStr := func(sub int, text string) string {
		var p []string
		for i, w := range words {
			if sub&(1<<uint(i)) != 0 {
				p = append(p, w)
			}
		}
		return strings.Join(append(p, text), e.sepOr("+"))
	}
	events := []struct {
		label string
		k     c09Key
	}{
		{"text of another layout level ('q' producing \"@\")", c09Key{Keycode: 'q', Text: "@"}},
		{"text equal to the key ('a' producing \"a\")", c09Key{Keycode: 'a', Text: "a"}},
		{"text of the shifted key ('a'/'A' producing \"A\")", c09Key{Keycode: 'a', Shifted: 'A', Text: "A"}},
		{"graphic non-letter (';'/':' producing \":\")", c09Key{Keycode: ';', Shifted: ':', Text: ":"}},
		{"digit with a third level ('8'/'*' producing \"{\")", c09Key{Keycode: '8', Shifted: '*', Text: "{"}},
		{"non-ASCII text ('e' producing \"€\")", c09Key{Keycode: 'e', Text: "€"}},
		{"other script with a base-layout code ('ф'/'Ф', base 'a')", c09Key{Keycode: 1092, Shifted: 1060, Base: 'a', Text: "ф"}},
	}
	lockVariants := [][2]int64{{0, 0}, {locks, 0}, {0, locks}}
	for _, ev := range events {
		cs := &c09fiveCase{label: ev.label}
		res.cases = append(res.cases, cs)
		keys := map[int64]bool{}
		for _, v := range []int64{ev.k.Keycode, ev.k.Shifted, ev.k.Base} {
			if v != 0 {
				keys[v] = true
				keys[int64(unicode.ToUpper(rune(v)))] = true
				keys[int64(unicode.ToLower(rune(v)))] = true
			}
		}
		for _, r := range ev.k.Text {
			keys[int64(r)] = true
			keys[int64(unicode.ToLower(r))] = true
			keys[int64(unicode.ToUpper(r))] = true
		}
		var ks []int64
		for k := range keys {
			ks = append(ks, k)
		}
		sort.Slice(ks, func(i, j int) bool { return ks[i] < ks[j] })
		textRune, sz := utf8.DecodeRuneInString(ev.k.Text)
		single := sz == len(ev.k.Text)
		addErr := func(er string) {
			if len(cs.errs) < 3 {
				cs.errs = append(cs.errs, er)
			}
		}
		for es := 0; es < 32; es++ {
			for _, esh := range []int64{0, shift} {
				for li, lv := range lockVariants {
					evm := ev.k
					evm.Mods = mask(es) | esh | lv[0]
					if single && li == 0 {
						// non-vacuity: the chord's own text binding with exactly its modifiers (documented rule 2)
						cs.n++
						r, er := e.matches(evm, int64(textRune), evm.Mods)
						if er != "" {
							addErr(er)
						} else if !r && len(cs.problems) < 3 {
							cs.problems = append(cs.problems, fmt.Sprintf("Matches(%s, mods %#x) is false on the event %s although text and modifiers are identical", e.keyLabel(int64(textRune)), evm.Mods, evm))
						}
					}
					for _, key := range ks {
						for bs := 0; bs < 32; bs++ {
							if li != 0 && bs == es {
								continue // identical subsets: nothing to refute; the lock clause is C09.d / C09.i
							}
							for _, bsh := range []int64{0, shift} {
								bm := mask(bs) | bsh | lv[1]
								cs.n++
								r, er := e.matches(evm, key, bm)
								if er != "" {
									addErr(er)
									continue
								}
								if r && bs != es && len(cs.problems) < 3 {
									cs.problems = append(cs.problems, fmt.Sprintf("Matches(%s, mods %#x) is true on the event %s although their Ctrl/Alt/Super/Hyper/Meta differ (event %#x, binding %#x)", e.keyLabel(key), bm, evm, mask(es), mask(bs)))
								}
							}
						}
					}
				}
			}
			if !single || ev.k.Text == e.sepOr("+") {
				continue
			}
			evm := ev.k
			evm.Mods = mask(es)
			for bs := 0; bs < 32; bs++ {
				s := bindStr(bs, ev.k.Text)
				cs.n++
				r, er := e.matchString(evm, s)
				if er != "" {
					addErr("MatchString: " + er)
					continue
				}
				switch {
				case r && bs != es && len(cs.problems) < 3:
					cs.problems = append(cs.problems, fmt.Sprintf("MatchString(%q) is true on the event %s although their Ctrl/Alt/Super/Hyper/Meta differ (event %#x)", s, evm, mask(es)))
				case !r && bs == es && len(cs.problems) < 3:
					cs.problems = append(cs.problems, fmt.Sprintf("MatchString(%q) is false on the event %s although text and modifiers are identical", s, evm))
				}
			}
		}
	}
	return res
}

func (e *c09env) sepOr(def string) string {
	if e.sep != "" {
		return e.sep
	}
	return def
}

func c09FiveProduct(c *Ctx) {
	c.Clauses = append(c.Clauses, "C09.k a binding matches an event with associated text only if Ctrl/Alt/Super/Hyper/Meta are identical, over the full product: for events with Text (text equal to the key, of the shifted key, of a third layout level, non-ASCII, with base-layout code), every subset of the five modifiers and Shift on the event, every binding key around the event, every subset and Shift on the binding, lock bits on neither/either side: Matches true implies identical subsets, likewise MatchString(\"<names>+<text>\"); the text binding with exactly the event's modifiers matches")
	c.expect("C09.k", 7)
	e := c09lastEnv
	if e == nil || e.c != c || e.vm == nil {
		return // runC09 stopped early and said why
	}
	pos := e.fMatch.Decl.Pos()
	res := e.fiveProduct()
	if res.why != "" {
		c.undecided("C09.k", "five/constants", pos, "%s", res.why)
		return
	}
	for _, cs := range res.cases {
		e.report("C09.k", "five/subset product: "+cs.label, pos, cs.n, cs.problems, cs.errs, "no binding with a different Ctrl/Alt/Super/Hyper/Meta subset matches; the exact text binding matches")
	}
}
