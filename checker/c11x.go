package main

// c11x — rule C11.m: a cluster that is not placed ends the output of the text helper.
//
// The text helpers place the grapheme clusters of their segments left to right, "advancing by each cluster's display
// width". The column of a placed cluster is therefore the sum of the widths of ALL clusters before it on the row.
// A helper that takes a cluster, neither places a cell for it nor starts a new row (it did not fit, it was
// filtered, ...) and then goes on to place a LATER cluster has put that later cluster at a column that does not
// account for the one it skipped: text appears directly after text it does not follow, and what is shown depends on
// where the segment boundaries fall. Necessary condition, judged on the paths of the function (whatever the loops
// look like and however the exit is spelled: return, labelled break, goto, a flag tested by the outer loop):
//
//   m  Print / PrintTruncate / Println / Wrap: on every path, once an iteration of a cluster loop has taken a
//      cluster and reached the next iteration (of that loop or of a loop around it) without a SetCell call and
//      without moving the cursor to column 0 of the next row, no later iteration that takes a cluster executes a
//      SetCell call. (A cell placed without taking another cluster — the truncation mark written after the loops —
//      stands in for the cluster that did not fit and is no placement of a later cluster.)
//
// Cluster loop: a loop that takes the next Character of a sequence once per iteration (the body of a `range` over a
// []Character with a value variable, or a node that reads an element of a []Character by index, directly in that
// loop) and has a SetCell call somewhere in its body. Wrap's measuring loop places nothing and is not one.
//
// The path search is the field-sensitive symbolic evaluation of c11fields.go. A dropped cluster is a mark on the
// path; because loops are judged on a generic iteration (paths end at the back edge), a path that arrives at a loop
// head over a back edge with a fresh mark is continued from that very state (flags and counters as they are on that
// path) through one more generic iteration of the loop, once per loop and mark.

import (
	"fmt"
	"go/ast"
	"go/token"
	"go/types"

	"golang.org/x/tools/go/cfg"
)

func init() { registerExtra("C11", c11NoPlacementAfterDrop) }

// c11Clu: the cluster the current iteration of the cluster loop with head `loop` has taken; (c, r) is the cursor then.
type c11Clu struct {
	loop *cfg.Block
	c, r c11Lin
	pos  token.Pos
}

// c11Drop: a cluster was taken and not placed. covered: the loops whose generic iteration already runs with the mark.
type c11Drop struct {
	pos     token.Pos
	c, r    c11Lin
	covered map[*cfg.Block]bool
}

func (d *c11Drop) with(b *cfg.Block) *c11Drop {
	if d.covered[b] {
		return d
	}
	n := &c11Drop{pos: d.pos, c: d.c, r: d.r, covered: map[*cfg.Block]bool{b: true}}
	for k := range d.covered {
		n.covered[k] = true
	}
	return n
}

func c11IsCharacter(t types.Type) bool {
	if t == nil {
		return false
	}
	if pt, ok := t.Underlying().(*types.Pointer); ok {
		t = pt.Elem()
	}
	return typeName(t) == modPath+".Character"
}

// c11CharacterSeq: t is a slice / array (or pointer to array) of Character.
func c11CharacterSeq(t types.Type) bool {
	if t == nil {
		return false
	}
	u := t.Underlying()
	if pt, ok := u.(*types.Pointer); ok {
		u = pt.Elem().Underlying()
	}
	switch s := u.(type) {
	case *types.Slice:
		return c11IsCharacter(s.Elem())
	case *types.Array:
		return c11IsCharacter(s.Elem())
	}
	return false
}

// c11NaturalLoops: for every target h of a back edge t -> h (depth-first search from the entry block), h and the
// blocks that reach such a t without passing through h — the body of the loop itself, not of the loops around it
// (c11LoopBody gives every block on a cycle through h, which for a nested loop includes the enclosing loops).
func c11NaturalLoops(g *FG) map[*cfg.Block]map[*cfg.Block]bool {
	out := map[*cfg.Block]map[*cfg.Block]bool{}
	if len(g.Blocks) == 0 {
		return out
	}
	preds := map[*cfg.Block][]*cfg.Block{}
	for _, b := range g.Blocks {
		for _, s := range b.Succs {
			preds[s] = append(preds[s], b)
		}
	}
	colour := map[*cfg.Block]int{}
	var dfs func(b *cfg.Block)
	dfs = func(b *cfg.Block) {
		colour[b] = 1
		for _, s := range b.Succs {
			switch colour[s] {
			case 0:
				dfs(s)
			case 1:
				// back edge b -> s
				body := out[s]
				if body == nil {
					body = map[*cfg.Block]bool{s: true}
					out[s] = body
				}
				work := []*cfg.Block{b}
				for len(work) > 0 {
					t := work[len(work)-1]
					work = work[:len(work)-1]
					if body[t] {
						continue
					}
					body[t] = true
					work = append(work, preds[t]...)
				}
			}
		}
		colour[b] = 2
	}
	dfs(g.Blocks[0])
	return out
}

func c11NoPlacementAfterDrop(c *Ctx) {
	c.Clauses = append(c.Clauses, "C11.m text helpers place no later cluster after a cluster that was taken but neither placed nor turned into a new row (a cluster that does not fit ends the output; a later cluster is never placed at a column that skips it), on every path")
	c.expect("C11.m", 4)
	pk := c.P.Pkg("vaxis")
	if pk == nil {
		c.undecided("C11.m", "vaxis", 0, "package not found")
		return
	}
	info := pk.TypesInfo
	for _, short := range []string{"Print", "PrintTruncate", "Println", "Wrap"} {
		fi := c.P.Func("vaxis.Window." + short)
		key := "vaxis.Window." + short + "/no cluster is placed after a cluster that was not placed"
		if fi == nil {
			c.undecided("C11.m", key, 0, "function not found")
			continue
		}
		fd := fi.Decl
		g := c.P.Graph(fi)
		sets := g.Calls(func(fn *types.Func, call *ast.CallExpr) bool {
			return fn != nil && repoName(fn) == "vaxis.Window.SetCell" && len(call.Args) >= 2
		})
		if len(sets) == 0 || fd.Recv == nil || len(fd.Recv.List) != 1 || len(fd.Recv.List[0].Names) != 1 {
			c.undecided("C11.m", key, fd.Pos(), "no SetCell call with a column and a row (or an unnamed receiver) in %s", fi.Name)
			continue
		}

		// ---- loops, innermost loop of every block
		heads := c11LoopHeads(g)
		bodies := map[*cfg.Block]map[*cfg.Block]bool{}
		for h, body := range c11NaturalLoops(g) {
			if heads[h] {
				bodies[h] = body
			}
		}
		for h := range heads {
			if bodies[h] == nil {
				bodies[h] = map[*cfg.Block]bool{h: true}
			}
		}
		innermost := func(b *cfg.Block) *cfg.Block {
			var best *cfg.Block
			for h, body := range bodies {
				if body[b] && (best == nil || len(body) < len(bodies[best])) {
					best = h
				}
			}
			return best
		}
		// ---- where a loop takes its next cluster
		takeBlock := map[*cfg.Block]*cfg.Block{} // range body -> its loop head
		takeNode := map[Loc]*cfg.Block{}         // node that reads seq[i] -> innermost loop head
		takers := map[*cfg.Block]bool{}
		for _, b := range g.Blocks {
			if !b.Live {
				continue
			}
			if b.Kind == cfg.KindRangeBody {
				if rs, ok := b.Stmt.(*ast.RangeStmt); ok && c11CharacterSeq(info.TypeOf(rs.X)) {
					if id, ok := rs.Value.(*ast.Ident); ok && id.Name != "_" {
						// the loop head is the range.loop block: the predecessor whose Stmt is the same statement
						for h := range heads {
							if h.Kind == cfg.KindRangeLoop && h.Stmt == b.Stmt {
								takeBlock[b] = h
								takers[h] = true
							}
						}
					}
				}
			}
			for i, n := range b.Nodes {
				reads := false
				inspectNoLit(n, func(m ast.Node) bool {
					if ix, ok := m.(*ast.IndexExpr); ok && c11IsCharacter(info.TypeOf(ix)) && c11CharacterSeq(info.TypeOf(ix.X)) {
						reads = true
					}
					return !reads
				})
				if reads {
					if h := innermost(b); h != nil {
						takeNode[Loc{b, i}] = h
						takers[h] = true
					}
				}
			}
		}
		// cluster loops: take a cluster per iteration and have a placement in their body
		cluster := map[*cfg.Block]bool{}
		var curCall = map[*cfg.Block]*ast.CallExpr{} // the cursor of a cluster loop: the arguments of a SetCell in it
		byLoc := map[Loc][]*ast.CallExpr{}
		for _, h := range sets {
			call := h.Node.(*ast.CallExpr)
			byLoc[h.Loc] = append(byLoc[h.Loc], call)
			for lh := range takers {
				if bodies[lh][h.Loc.B] {
					cluster[lh] = true
					if curCall[lh] == nil || call.Pos() < curCall[lh].Pos() {
						curCall[lh] = call
					}
				}
			}
		}
		if len(cluster) == 0 {
			c.undecided("C11.m", key, fd.Pos(), "no loop of %s takes the next Character of a sequence per iteration and places cells: the rule cannot see which iterations consume a cluster", fi.Name)
			continue
		}

		recvObj := info.Defs[fd.Recv.List[0].Names[0]]
		ex := c11NewExec(c.P, info, fi.Pkg.Types)
		ex.fields = true
		ex.maxSteps = 3000000
		recvRoot := fmt.Sprintf("%p", recvObj)
		ex.disp[recvRoot] = recvObj.Name()
		ex.owned[recvRoot] = true
		fr := &c11Frame{g: g, fd: fd, assigned: c11Assigned(info, fd.Body), addr: c11AddrEscaping(info, c.P.Parents(pk), fd.Body),
			heads: heads, loopFix: true, backs: map[*cfg.Block]*[]*c11State{}}

		taken, drops, continued := 0, 0, 0
		bad := ""
		var badPos token.Pos
		take := func(st *c11State, lh *cfg.Block, pos token.Pos) {
			if !cluster[lh] || st.clu != nil {
				return
			}
			call := curCall[lh]
			st.clu = &c11Clu{loop: lh, c: ex.evalInt(st, call.Args[0]), r: ex.evalInt(st, call.Args[1]), pos: pos}
			if ex.quiet == 0 {
				taken++
			}
		}
		fr.onBlock = func(st *c11State, b *cfg.Block) {
			if lh, ok := takeBlock[b]; ok {
				take(st, lh, b.Stmt.Pos())
			}
		}
		fr.onNode = func(st *c11State, l Loc, n ast.Node) {
			if lh, ok := takeNode[l]; ok {
				take(st, lh, n.Pos())
			}
			for _, call := range byLoc[l] {
				if st.drop != nil && st.clu != nil && ex.quiet == 0 && bad == "" {
					bad = fmt.Sprintf("a path takes a cluster with the cursor at (%s, %s) [%s], reaches the next iteration without a SetCell call and without starting a new row, and a later iteration takes another cluster and places a cell at (%s, %s)",
						ex.linString(st.drop.c), ex.linString(st.drop.r), c.P.Pos(st.drop.pos), ex.linString(ex.evalInt(st, call.Args[0])), ex.linString(ex.evalInt(st, call.Args[1])))
					badPos = call.Pos()
				}
				st.clu = nil
			}
		}
		fr.onStop = func(st *c11State, b *cfg.Block) {
			if cl := st.clu; cl != nil {
				if b != cl.loop && bodies[cl.loop][b] {
					// a loop inside the iteration (the cluster is still being handled)
				} else {
					st.clu = nil
					call := curCall[cl.loop]
					c1, r1 := ex.evalInt(st, call.Args[0]), ex.evalInt(st, call.Args[1])
					newRow := c1.equal(c11Const(0)) && r1.add(cl.r, -1).equal(c11Const(1))
					if !newRow && st.drop == nil {
						st.drop = &c11Drop{pos: cl.pos, c: cl.c, r: cl.r, covered: map[*cfg.Block]bool{}}
						if ex.quiet == 0 {
							drops++
						}
					}
				}
			}
			d := st.drop
			if d == nil {
				return
			}
			if !st.inLoop[b] {
				// entered from outside: the generic iteration of b runs with the mark
				st.drop = d.with(b)
				return
			}
			if d.covered[b] || ex.quiet > 0 {
				return
			}
			// back at the head of b with a mark the generic iteration of b did not have: go on from this very state
			ns := st.clone()
			ns.drop = d.with(b)
			for h := range heads {
				if bodies[b][h] {
					delete(ns.inLoop, h)
				}
			}
			for blk := range bodies[b] {
				delete(ns.visits, blk)
			}
			ns.skipHead = nil
			continued++
			ex.run(ns, fr, b, 0, nil)
		}
		ex.run(c11NewState(), fr, g.Blocks[0], 0, nil)
		switch {
		case ex.overflow:
			c.undecided("C11.m", key, fd.Pos(), "too many paths for the symbolic evaluation of %s", fi.Name)
		case bad != "":
			c.bad("C11.m", key, badPos, "%s: the later cluster is not at the column given by the widths of the clusters before it (a cluster that does not fit must end the output)", bad)
		case taken == 0:
			c.undecided("C11.m", key, fd.Pos(), "no feasible path takes a cluster in %s", fi.Name)
		default:
			c.ok("C11.m", key, fd.Pos(), "no iteration places a cluster after an iteration that took a cluster and neither placed a cell nor started a new row (%d cluster loop(s), %d dropped cluster(s) followed to the end of the function)", len(cluster), drops)
		}
		_ = continued
	}
}
