package main

// c15norm3 — local closures in the helper inliner (c15norm.go).
//
// "Introduce a local closure for a repeated tail" is the in-function variant of "extract function":
//
//	settle := func(cmd Command) bool { app.handleCommand(cmd); ...; return consumed }
//	...
//	if settle(cmd) { return nil }
//
// A call of such a closure is inlined like a call of a declared helper when
//   - the variable is a local of the current function with exactly one definition (`f := func..` or `var f = func..`),
//     is never assigned again, never has its address taken, and the literal satisfies the structural restrictions of
//     simpleHelper (no defer/go/nested literals/named results/variadics, small);
//   - every free identifier of the literal's body denotes, at the call site, the object it denotes inside the literal
//     (nothing is shadowed in between). A Go closure captures variables by reference, so the spliced body reads and
//     writes the very same variables the call would.
// When every use of the variable was an inlined call, the definition is dropped (it would be "declared and not used").
// The feature is switched on per run (c15InlineClosures): the global pre-pass leaves closures alone.

import (
	"go/ast"
	"go/token"
	"go/types"
)

// c15InlineClosures switches closure inlining on for the normalisation passes started while it is set.
var c15InlineClosures = false

type c15Closure struct {
	obj  types.Object
	lit  *ast.FuncLit
	def  ast.Stmt // the defining statement
	fn   *types.Func
	fd   *ast.FuncDecl
	uses int // identifier uses in the current function
	done int // calls inlined
}

// closuresOf indexes the single-definition closure variables of the current function.
func (in *c15Inliner) closuresOf(fd *ast.FuncDecl) map[types.Object]*c15Closure {
	out := map[types.Object]*c15Closure{}
	if fd == nil || fd.Body == nil {
		return out
	}
	info := in.info
	note := func(id *ast.Ident, rhs ast.Expr, st ast.Stmt) {
		lit, ok := unparen(rhs).(*ast.FuncLit)
		if !ok || id.Name == "_" {
			return
		}
		obj, _ := info.Defs[id].(*types.Var)
		if obj == nil {
			return
		}
		sig, _ := info.TypeOf(lit).(*types.Signature)
		if sig == nil {
			return
		}
		fn := types.NewFunc(lit.Pos(), in.pk.Types, id.Name, sig)
		sfd := &ast.FuncDecl{Name: ast.NewIdent(id.Name), Type: lit.Type, Body: lit.Body}
		out[obj] = &c15Closure{obj: obj, lit: lit, def: st, fn: fn, fd: sfd}
	}
	ast.Inspect(fd.Body, func(n ast.Node) bool {
		switch t := n.(type) {
		case *ast.AssignStmt:
			if t.Tok == token.DEFINE && len(t.Lhs) == 1 && len(t.Rhs) == 1 {
				if id, ok := t.Lhs[0].(*ast.Ident); ok {
					note(id, t.Rhs[0], t)
				}
			}
		case *ast.DeclStmt:
			if gd, ok := t.Decl.(*ast.GenDecl); ok && gd.Tok == token.VAR && len(gd.Specs) == 1 {
				if vs, ok := gd.Specs[0].(*ast.ValueSpec); ok && len(vs.Names) == 1 && len(vs.Values) == 1 && vs.Type == nil {
					note(vs.Names[0], vs.Values[0], t)
				}
			}
		}
		return true
	})
	if len(out) == 0 {
		return out
	}
	// disqualify: assigned again, address taken, inc/dec, ranged into
	kill := func(e ast.Expr) {
		if id, ok := unparen(e).(*ast.Ident); ok {
			if o := info.Uses[id]; o != nil {
				delete(out, o)
			}
		}
	}
	ast.Inspect(fd.Body, func(n ast.Node) bool {
		switch t := n.(type) {
		case *ast.AssignStmt:
			for _, l := range t.Lhs {
				kill(l) // (the defining identifier is in Defs, not Uses)
			}
		case *ast.IncDecStmt:
			kill(t.X)
		case *ast.RangeStmt:
			if t.Key != nil {
				kill(t.Key)
			}
			if t.Value != nil {
				kill(t.Value)
			}
		case *ast.UnaryExpr:
			if t.Op == token.AND {
				kill(t.X)
			}
		}
		return true
	})
	ast.Inspect(fd.Body, func(n ast.Node) bool {
		if id, ok := n.(*ast.Ident); ok {
			if cl := out[info.Uses[id]]; cl != nil {
				cl.uses++
			}
		}
		return true
	})
	return out
}

// closureCallee resolves `f(...)` where f is a single-definition closure variable of the current function.
func (in *c15Inliner) closureCallee(call *ast.CallExpr) (*types.Func, *ast.FuncDecl) {
	if !in.closures || in.curDecl == nil {
		return nil, nil
	}
	id, ok := unparen(call.Fun).(*ast.Ident)
	if !ok {
		return nil, nil
	}
	obj := in.info.Uses[id]
	if obj == nil {
		return nil, nil
	}
	if in.clFor != in.curDecl {
		in.clFor, in.clDefs = in.curDecl, in.closuresOf(in.curDecl)
	}
	cl := in.clDefs[obj]
	if cl == nil {
		return nil, nil
	}
	// the call must lie outside the literal (no recursion through the variable) and behind it
	if call.Pos() >= cl.lit.Pos() && call.Pos() < cl.lit.End() {
		return nil, nil
	}
	if !call.Pos().IsValid() || !cl.lit.Pos().IsValid() {
		return nil, nil
	}
	// every free identifier of the body means the same thing at the call site
	scope := in.pk.Types.Scope().Innermost(call.Pos())
	if scope == nil {
		return nil, nil
	}
	same := true
	skip := map[*ast.Ident]bool{}
	ast.Inspect(cl.lit, func(n ast.Node) bool {
		switch t := n.(type) {
		case *ast.SelectorExpr:
			skip[t.Sel] = true
		case *ast.KeyValueExpr:
			// struct literal keys are field names
			if k, ok := t.Key.(*ast.Ident); ok {
				if v, isVar := in.info.Uses[k].(*types.Var); isVar && v.IsField() {
					skip[k] = true
				}
			}
		case *ast.Ident:
			if skip[t] || t.Name == "_" {
				return true
			}
			o := in.info.Uses[t]
			if o == nil {
				return true
			}
			if o.Pos().IsValid() && o.Pos() >= cl.lit.Pos() && o.Pos() < cl.lit.End() {
				return true // declared inside the literal: renamed by the inliner
			}
			if _, found := scope.LookupParent(t.Name, call.Pos()); found != o {
				same = false
			}
		}
		return same
	})
	if !same {
		return nil, nil
	}
	in.fileOf[cl.fd] = in.curFile
	in.clOfFn[cl.fn] = cl
	return cl.fn, cl.fd
}

// closureInlined is told that a call of fn was replaced.
func (in *c15Inliner) closureInlined(fn *types.Func) {
	if cl := in.clOfFn[fn]; cl != nil {
		cl.done++
	}
}

// dropDeadClosures removes the definitions of closures all of whose uses were inlined calls.
func (in *c15Inliner) dropDeadClosures(fd *ast.FuncDecl) {
	if in.clFor != fd || len(in.clDefs) == 0 {
		return
	}
	drop := map[ast.Stmt]bool{}
	for _, cl := range in.clDefs {
		if cl.done > 0 && cl.done == cl.uses {
			drop[cl.def] = true
		}
	}
	if len(drop) > 0 {
		c15DropStmts(fd.Body, drop)
		in.changed[in.curFile] = true
	}
}
