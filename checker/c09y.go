package main

// C09.j — the answers of Key.MatchString and Key.String do not depend on earlier calls.
//
// The property states what a chord matches; it gives no role to what was asked before. A memo that is keyed by
// less than everything the answer depends on (seeds C09_a_r4, C09_a_r5, C09_b_r3: a sync.Map of parsed bindings
// keyed by the lower-cased string, although the key part of a binding is case sensitive: after
// MatchString("Ctrl+a") the binding "Ctrl+A" is answered from the entry of "ctrl+a") makes the answer depend on
// the history of calls.
//
// The interpreter (c09vm) therefore models state that survives a call: package variables that are assigned,
// Go maps and sync.Map values that are written (sync.Mutex / RWMutex / Once are modelled as far as a
// single-threaded run needs). Every rule of C09 evaluates each call from the initial state (written state is
// re-initialised between runs); this rule evaluates pairs:
//
//   for events k1, k2 and binding strings s1, s2 that are related (equal, or equal after case folding and
//   reordering of the modifier names — the strings a memo could confuse), MatchString(k2, s2) evaluated after
//   MatchString(k1, s1) equals MatchString(k2, s2) evaluated from the initial state; likewise String(k2) after
//   String(k1), and MatchString(k2, s2) after String(k1).
//
// When no interpreted call leaves written state behind, there is nothing a later call could read and the
// obligation is discharged by that observation (the interpreter is deterministic).

import (
	"fmt"
	"go/ast"
	"go/types"
	"sort"
	"strings"
)

type c09syncmap struct {
	m map[string]any
	w int
}

func c09syncName(t types.Type) string {
	if p, ok := t.(*types.Pointer); ok {
		t = p.Elem()
	}
	n, ok := t.(*types.Named)
	if !ok || n.Obj().Pkg() == nil || n.Obj().Pkg().Path() != "sync" {
		return ""
	}
	return n.Obj().Name()
}

func c09syncZero(t types.Type) (any, bool) {
	switch c09syncName(t) {
	case "Map":
		return &c09syncmap{m: map[string]any{}}, true
	case "Mutex", "RWMutex":
		return &c09struct{typ: t, f: map[string]any{}}, true
	case "Once":
		return &c09struct{typ: t, f: map[string]any{"done": false}}, true
	}
	return nil, false
}

func (vm *c09vm) ownGlobal(o *types.Var) bool {
	return o.Pkg() == vm.pk.Types && o.Parent() == vm.pk.Types.Scope()
}

func (vm *c09vm) markDirty(o *types.Var) {
	if vm.gdirty == nil {
		vm.gdirty = map[types.Object]bool{}
	}
	vm.gdirty[o] = true
}

// markRoot marks the package variable a store goes into (x.f = v, x[i] = v, x.f[i].g = v with x a package variable).
func (vm *c09vm) markRoot(fr *c09frame, x ast.Expr) {
	for {
		switch e := unparen(x).(type) {
		case *ast.SelectorExpr:
			x = e.X
			continue
		case *ast.IndexExpr:
			x = e.X
			continue
		case *ast.StarExpr:
			x = e.X
			continue
		case *ast.Ident:
			if o, ok := vm.info.ObjectOf(e).(*types.Var); ok {
				if _, local := fr.env[o]; !local && vm.ownGlobal(o) {
					vm.markDirty(o)
				}
			}
		}
		return
	}
}

// dirty lists the package variables whose value was written since they were initialised.
func (vm *c09vm) dirty() []types.Object {
	var out []types.Object
	for o, v := range vm.globals {
		switch x := v.(type) {
		case *c09map:
			if x != nil && x.w > 0 {
				out = append(out, o)
				continue
			}
		case *c09syncmap:
			if x != nil && x.w > 0 {
				out = append(out, o)
				continue
			}
		}
		if vm.gdirty[o] {
			out = append(out, o)
		}
	}
	sort.Slice(out, func(i, j int) bool { return out[i].Name() < out[j].Name() })
	return out
}

// fresh re-initialises written package state: the next run starts from the program's initial state.
func (vm *c09vm) fresh() {
	dropped := vm.dirty()
	for _, o := range dropped {
		delete(vm.globals, o)
		vm.initReset(o) // a variable init() wrote: its init() functions run again before the next read
	}
	if len(dropped) > 0 {
		// what a sync.Once / OnceValue guarded may be among the dropped state: they have to run again
		// (when nothing was written there is nothing to drop, and what they computed is still the initial state)
		for _, o := range vm.ini.onces {
			o.f["done"] = false
		}
		for _, o := range vm.ini.oncevals {
			o.done, o.vals = false, nil
		}
		vm.ini.onces, vm.ini.oncevals = nil, nil
	}
	vm.gdirty = nil
}

func init() {
	sm := func(vm *c09vm, r any) *c09syncmap {
		m, ok := r.(*c09syncmap)
		if !ok || m == nil {
			vm.abort("sync.Map method on %T", r)
		}
		return m
	}
	c09natives["sync.Map.Load"] = func(vm *c09vm, r any, a []any) []any {
		v, ok := sm(vm, r).m[c09mapKey(a[0])]
		return []any{c09copy(v), ok}
	}
	c09natives["sync.Map.Store"] = func(vm *c09vm, r any, a []any) []any {
		m := sm(vm, r)
		m.m[c09mapKey(a[0])] = c09copy(a[1])
		m.w++
		return nil
	}
	c09natives["sync.Map.LoadOrStore"] = func(vm *c09vm, r any, a []any) []any {
		m := sm(vm, r)
		if v, ok := m.m[c09mapKey(a[0])]; ok {
			return []any{c09copy(v), true}
		}
		m.m[c09mapKey(a[0])] = c09copy(a[1])
		m.w++
		return []any{c09copy(a[1]), false}
	}
	c09natives["sync.Map.Swap"] = func(vm *c09vm, r any, a []any) []any {
		m := sm(vm, r)
		v, ok := m.m[c09mapKey(a[0])]
		m.m[c09mapKey(a[0])] = c09copy(a[1])
		m.w++
		return []any{c09copy(v), ok}
	}
	c09natives["sync.Map.LoadAndDelete"] = func(vm *c09vm, r any, a []any) []any {
		m := sm(vm, r)
		v, ok := m.m[c09mapKey(a[0])]
		delete(m.m, c09mapKey(a[0]))
		m.w++
		return []any{c09copy(v), ok}
	}
	c09natives["sync.Map.Delete"] = func(vm *c09vm, r any, a []any) []any {
		m := sm(vm, r)
		delete(m.m, c09mapKey(a[0]))
		m.w++
		return nil
	}
	nop := func(vm *c09vm, r any, a []any) []any { return nil }
	for _, n := range []string{"Mutex.Lock", "Mutex.Unlock", "RWMutex.Lock", "RWMutex.Unlock", "RWMutex.RLock", "RWMutex.RUnlock"} {
		c09natives["sync."+n] = nop
	}
	c09natives["sync.Mutex.TryLock"] = func(vm *c09vm, r any, a []any) []any { return []any{true} }
	c09natives["sync.Once.Do"] = func(vm *c09vm, r any, a []any) []any {
		o, ok := r.(*c09struct)
		if !ok || o == nil {
			vm.abort("sync.Once method on %T", r)
		}
		if done, _ := o.f["done"].(bool); done {
			return nil
		}
		o.f["done"] = true
		vm.ini.onces = append(vm.ini.onces, o) // re-armed when the written state is re-initialised (fresh)
		if _, ok := vm.callValue(a[0], func() []any { return nil }); !ok {
			vm.abort("sync.Once.Do of a function value the interpreter cannot follow")
		}
		return nil
	}
	registerExtra("C09", c09HistoryIndependence)
}

func c09HistoryIndependence(c *Ctx) {
	c.Clauses = append(c.Clauses, "C09.j the answers of Key.MatchString and Key.String do not depend on earlier calls: for events and binding strings a memo could confuse (equal, or equal after case folding and reordering of modifier names), a call evaluated after another call gives the answer it gives from the initial state (package variables, maps and sync.Map values written by the interpreted code are modelled); discharged directly when no call leaves written state behind")
	c.expect("C09.j", 1)
	e := c09lastEnv
	if e == nil || e.c != c || e.vm == nil {
		return // runC09 stopped early and said why
	}
	vm := e.vm
	pos := e.fMStr.Decl.Pos()
	const key = "history/MatchString and String answer as from the initial state"
	for _, n := range []string{"ModShift", "ModAlt", "ModCtrl", "KeyUp", "KeyEnter", "KeyF01"} {
		if _, ok := e.named[n]; !ok {
			c.undecided("C09.j", key, pos, "constant %s not found", n)
			return
		}
	}
	sh, alt, ctl := e.named["ModShift"], e.named["ModAlt"], e.named["ModCtrl"]
	up, enter, f1 := e.named["KeyUp"], e.named["KeyEnter"], e.named["KeyF01"]
	events := []c09Key{
		{Keycode: 'a', Text: "a"},
		{Keycode: 'a', Shifted: 'A', Mods: sh, Text: "A"},
		{Keycode: 'a', Mods: ctl},
		{Keycode: 'a', Shifted: 'A', Mods: ctl | sh},
		{Keycode: 'a', Mods: ctl | alt},
		{Keycode: 'j', Mods: ctl},
		{Keycode: up}, {Keycode: up, Mods: ctl}, {Keycode: up, Mods: sh | alt},
		{Keycode: enter}, {Keycode: enter, Mods: alt}, {Keycode: f1, Mods: ctl},
	}
	// binding strings: the String() of every event and the spellings a user may write for the same tokens
	seen := map[string]bool{}
	var strs []string
	add := func(s string) {
		if s != "" && !seen[s] {
			seen[s] = true
			strs = append(strs, s)
		}
	}
	var errs []string
	for _, k := range events {
		s, er := e.str(k)
		if er != "" {
			errs = append(errs, er)
			continue
		}
		sep := "+"
		toks := strings.Split(s, sep)
		add(s)
		add(strings.ToLower(s))
		add(strings.ToUpper(s))
		last := toks[len(toks)-1]
		if len(toks) > 1 {
			mods := append([]string{}, toks[:len(toks)-1]...)
			for i, j := 0, len(mods)-1; i < j; i, j = i+1, j-1 {
				mods[i], mods[j] = mods[j], mods[i]
			}
			add(strings.Join(append(mods, last), sep))
			add(strings.Join(append(append([]string{}, toks[:len(toks)-1]...), strings.ToUpper(last)), sep))
			add(strings.Join(append(append([]string{}, toks[:len(toks)-1]...), strings.ToLower(last)), sep))
			add(strings.ToLower(strings.Join(toks[:len(toks)-1], sep)) + sep + last)
		}
	}
	if len(errs) > 0 {
		c.undecided("C09.j", key, pos, "cannot interpret: %s", errs[0])
		return
	}
	norm := func(s string) string {
		t := strings.Split(strings.ToLower(s), "+")
		if len(t) > 1 {
			sort.Strings(t[:len(t)-1])
		}
		return strings.Join(t, "+")
	}
	// 1. from the initial state: every single call; does any leave written state behind?
	type call struct {
		k   c09Key
		s   string // "" = String()
		res string
	}
	var calls []call
	stateful := map[string]bool{}
	run := func(k c09Key, s string) (string, string) {
		if s == "" {
			return e.str(k)
		}
		b, er := e.matchString(k, s)
		return fmt.Sprint(b), er
	}
	vm.keep = false
	for _, k := range events {
		for _, s := range append([]string{""}, strs...) {
			r, er := run(k, s)
			if er != "" {
				c.undecided("C09.j", key, pos, "cannot interpret: %s", er)
				vm.fresh()
				return
			}
			for _, o := range vm.dirty() {
				stateful[o.Name()] = true
			}
			calls = append(calls, call{k, s, r})
		}
	}
	vm.fresh()
	if len(stateful) == 0 {
		c.ok("C09.j", key, pos, "%d calls of MatchString/String interpreted (%d events x %d binding strings): none leaves a written package variable, map or sync.Map behind, so no call can observe an earlier one", len(calls), len(events), len(strs))
		return
	}
	// 2. pairs a memo could confuse
	var names []string
	for n := range stateful {
		names = append(names, n)
	}
	sort.Strings(names)
	var problems []string
	n := 0
	defer func() { vm.keep = false; vm.fresh() }()
	for _, first := range calls {
		for _, second := range calls {
			related := first.s == second.s || (first.s != "" && second.s != "" && norm(first.s) == norm(second.s))
			if !related {
				continue
			}
			vm.keep = false
			vm.fresh()
			if _, er := run(first.k, first.s); er != "" { // from the initial state (fresh() ran), state kept afterwards
				c.undecided("C09.j", key, pos, "cannot interpret: %s", er)
				return
			}
			vm.keep = true
			got, er := run(second.k, second.s)
			vm.keep = false
			if er != "" {
				c.undecided("C09.j", key, pos, "cannot interpret: %s", er)
				return
			}
			n++
			if got != second.res && len(problems) < 6 {
				what := func(x call) string {
					if x.s == "" {
						return fmt.Sprintf("String() of %s", x.k)
					}
					return fmt.Sprintf("MatchString(%q) on %s", x.s, x.k)
				}
				problems = append(problems, fmt.Sprintf("%s answers %s from the initial state but %s after %s", what(second), second.res, got, what(first)))
			}
		}
	}
	if len(problems) > 0 {
		c.bad("C09.j", key, pos, "state that survives a call (%s) changes later answers: %s", strings.Join(names, ", "), strings.Join(problems, "; "))
		return
	}
	c.ok("C09.j", key, pos, "state survives calls (%s) but %d ordered pairs of related calls answer as from the initial state", strings.Join(names, ", "), n)
}
