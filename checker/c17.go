package main

// C17 — line editors (vxfw/textfield.TextField, widgets/textinput.Model).
//
// Structural clauses (CFG data-flow, all inputs):
//   a  TextField: the cached grapheme count n equals graphemes(Value) at every return of every exported
//      function of the package (n = count(Value) or n = 0 with Value = ""), n is not read while stale,
//      nobody outside the package stores Value
//   b  textinput.Model: 0 <= cursor <= len(content) at every return of every function that stores cursor
//      or content (the two-sided clamp covers every store; no return escapes it)
//   c  TextField.HandleEvent: a call that can change Value is preceded by a snapshot of Value and every
//      path from it returns checkChanged(cmd, snapshot); checkChanged skips OnChange only when the value
//      is unchanged or the handler is nil and passes the new value; the Enter arm calls OnSubmit(Value)
//      before any reset unless the handler is nil
//   d  every loop that steps Model.offset has a loop-invariant bound on the stepped variable
//
// Semantic clauses (the source is interpreted by the small AST interpreter below over a bounded domain of
// editor states; nothing of /repo is compiled or executed; uniseg/strings.Builder/slices.Insert/Key.String/
// Key.Matches/Window are replaced by models listed in the assumptions):
//   e  TextField: one step of every key binding and of every exported editing method from every state of
//      the domain gives the state of an ideal grapheme line editor (Value, cursor, n) and the right callbacks
//   f  textinput.Model.Update: same for every case label of the key switch, text, paste brackets, release
//   g  Draw: terminates for every width of the domain; when the text fits (with the scroll margin) the drawn
//      cursor column is the display width of the text before the cursor

import (
	"fmt"
	"go/ast"
	"go/constant"
	"go/token"
	"go/types"
	"math"
	"os"
	"sort"
	"strings"
	"unicode"
	"unicode/utf8"

	"golang.org/x/tools/go/cfg"
	"golang.org/x/tools/go/packages"
)

func init() { register("C17", false, runC17) }

// ---------------------------------------------------------------------------
// Part 1: a small AST interpreter (values: ints, bools, strings, slices with
// shared backing arrays, structs, pointers, functions, tuples, opaque).
// ---------------------------------------------------------------------------

type c17K uint8

const (
	c17Nil c17K = iota
	c17Int
	c17Bool
	c17Str
	c17Slc
	c17Stc
	c17Ptr
	c17Fun
	c17Tup
	c17Opq
)

type c17V struct {
	k   c17K
	i   int64
	s   string
	sl  *c17Slice
	st  *c17Struct
	ptr *c17V
	fn  *c17Fn
	tup []c17V
	typ types.Type // dynamic type of struct values (type switches)
}

type c17Slice struct {
	arr       *[]c17V
	off, n, c int
}

type c17Struct struct{ f map[string]*c17V }

type c17Fn struct {
	static *types.Func
	recv   *c17V
	native func(m *c17M, args []c17V) c17V
	name   string
	// function literal (closure): the literal, the package it was written in and the variables in scope where it
	// was evaluated (cells are shared with the defining frame: captured by reference)
	lit    *ast.FuncLit
	litPkg *packages.Package
	env    map[types.Object]*c17V
	// method expression T.m / (*T).m: the first argument is the receiver
	mexpr bool
}

func c17I(i int64) c17V         { return c17V{k: c17Int, i: i} }
func c17S(s string) c17V        { return c17V{k: c17Str, s: s} }
func c17Opaque(why string) c17V { return c17V{k: c17Opq, s: why} }
func c17B(b bool) c17V {
	if b {
		return c17V{k: c17Bool, i: 1}
	}
	return c17V{k: c17Bool}
}

func (v c17V) clone() c17V {
	switch v.k {
	case c17Stc:
		if v.st != nil {
			ns := &c17Struct{f: make(map[string]*c17V, len(v.st.f))}
			for k, c := range v.st.f {
				cv := c.clone()
				ns.f[k] = &cv
			}
			v.st = ns
		}
	case c17Tup:
		nt := make([]c17V, len(v.tup))
		for i := range v.tup {
			nt[i] = v.tup[i].clone()
		}
		v.tup = nt
	}
	return v
}

func (v c17V) String() string {
	switch v.k {
	case c17Nil:
		return "nil"
	case c17Int:
		return fmt.Sprint(v.i)
	case c17Bool:
		return fmt.Sprint(v.i != 0)
	case c17Str:
		return fmt.Sprintf("%q", v.s)
	case c17Slc:
		var p []string
		for _, e := range v.elems() {
			p = append(p, e.String())
		}
		return "[" + strings.Join(p, " ") + "]"
	case c17Stc:
		var ks []string
		for k := range v.st.f {
			ks = append(ks, k)
		}
		sort.Strings(ks)
		var p []string
		for _, k := range ks {
			p = append(p, k+":"+v.st.f[k].String())
		}
		return "{" + strings.Join(p, " ") + "}"
	case c17Ptr:
		return "&" + v.ptr.String()
	case c17Fun:
		return "func"
	case c17Tup:
		var p []string
		for _, e := range v.tup {
			p = append(p, e.String())
		}
		return "(" + strings.Join(p, ", ") + ")"
	}
	return "<" + v.s + ">"
}

func (v c17V) elems() []c17V {
	if v.k != c17Slc || v.sl == nil || v.sl.arr == nil {
		return nil
	}
	return (*v.sl.arr)[v.sl.off : v.sl.off+v.sl.n]
}

func c17NewSlice(vals []c17V) c17V {
	arr := make([]c17V, len(vals))
	copy(arr, vals)
	return c17V{k: c17Slc, sl: &c17Slice{arr: &arr, n: len(vals), c: len(vals)}}
}

type c17Native func(m *c17M, recv *c17V, args []c17V) c17V

type c17Abort struct{ kind, msg string } // kind: panic | unsupported | steps

type c17M struct {
	c       *Ctx
	steps   int
	max     int
	depth   int
	natives map[string]c17Native
	log     []string
	decls   map[*types.Func]*FuncInfo
	pkgVars map[types.Object]*c17V
	keys    *c17Keys
}

type c17Frame struct {
	pkg     *packages.Package
	info    *types.Info
	env     map[types.Object]*c17V
	defers  []func()
	results []c17V
	named   []types.Object
}

type c17Ctl uint8

const (
	c17Next c17Ctl = iota
	c17Break
	c17Continue
	c17Return
)

func c17NewMachine(c *Ctx) *c17M {
	m := &c17M{c: c, max: 20000, natives: map[string]c17Native{}, decls: map[*types.Func]*FuncInfo{}, pkgVars: map[types.Object]*c17V{}}
	for _, fi := range c.P.AllFuncs() {
		m.decls[fi.Obj] = fi
	}
	return m
}

func (m *c17M) unsupported(format string, a ...any) {
	panic(&c17Abort{kind: "unsupported", msg: fmt.Sprintf(format, a...)})
}
func (m *c17M) rtPanic(format string, a ...any) {
	panic(&c17Abort{kind: "panic", msg: fmt.Sprintf(format, a...)})
}
func (m *c17M) tick() {
	m.steps++
	if m.steps > m.max {
		panic(&c17Abort{kind: "steps", msg: fmt.Sprintf("no return within %d interpreted steps", m.max)})
	}
}

// run executes f, converting interpreter aborts into a value.
func (m *c17M) run(f func()) (ab *c17Abort) {
	m.steps, m.depth = 0, 0
	defer func() {
		if r := recover(); r != nil {
			if a, ok := r.(*c17Abort); ok {
				ab = a
				return
			}
			ab = &c17Abort{kind: "unsupported", msg: fmt.Sprintf("interpreter fault: %v", r)}
		}
	}()
	f()
	return nil
}

func (m *c17M) zero(t types.Type, depth int) c17V {
	if depth > 8 {
		return c17Opaque("deep zero value")
	}
	switch u := t.Underlying().(type) {
	case *types.Basic:
		switch {
		case u.Info()&types.IsInteger != 0:
			return c17I(0)
		case u.Info()&types.IsBoolean != 0:
			return c17B(false)
		case u.Info()&types.IsString != 0:
			return c17S("")
		case u.Kind() == types.UntypedNil:
			return c17V{}
		}
		return c17Opaque("zero " + t.String())
	case *types.Struct:
		st := &c17Struct{f: map[string]*c17V{}}
		for i := 0; i < u.NumFields(); i++ {
			z := m.zero(u.Field(i).Type(), depth+1)
			st.f[u.Field(i).Name()] = &z
		}
		return c17V{k: c17Stc, st: st, typ: t}
	case *types.Slice:
		return c17V{k: c17Slc, sl: &c17Slice{}}
	case *types.Pointer, *types.Signature, *types.Interface, *types.Map, *types.Chan:
		return c17V{}
	}
	return c17Opaque("zero " + t.String())
}

func (m *c17M) newFrame(pk *packages.Package) *c17Frame {
	return &c17Frame{pkg: pk, info: pk.TypesInfo, env: map[types.Object]*c17V{}}
}

// callDecl interprets a declared function. recv is the value bound to the receiver name.
func (m *c17M) callDecl(fi *FuncInfo, recv *c17V, args []c17V) []c17V {
	fd := fi.Decl
	if fd.Body == nil {
		m.unsupported("%s has no body", fi.Name)
	}
	fr := m.newFrame(fi.Pkg)
	if fd.Recv != nil && len(fd.Recv.List) == 1 && len(fd.Recv.List[0].Names) == 1 && recv != nil {
		rv := *recv
		fr.env[fr.info.Defs[fd.Recv.List[0].Names[0]]] = &rv
	}
	return m.callBody(fr, fi.Name, fd.Type, fd.Body, args)
}

// callLit interprets a function literal in the environment it captured.
func (m *c17M) callLit(fn *c17Fn, args []c17V) []c17V {
	fr := m.newFrame(fn.litPkg)
	for o, cell := range fn.env {
		fr.env[o] = cell
	}
	return m.callBody(fr, "function literal", fn.lit.Type, fn.lit.Body, args)
}

// callBody binds parameters and named results in fr, runs the body and the deferred calls.
func (m *c17M) callBody(fr *c17Frame, name string, ft *ast.FuncType, body *ast.BlockStmt, args []c17V) []c17V {
	m.depth++
	defer func() { m.depth-- }()
	if m.depth > 40 {
		m.unsupported("call depth exceeded in %s", name)
	}
	i := 0
	for _, f := range ft.Params.List {
		if len(f.Names) == 0 {
			i++
			continue
		}
		for _, n := range f.Names {
			var v c17V
			if i < len(args) {
				v = args[i].clone()
			}
			if o := fr.info.Defs[n]; o != nil {
				fr.env[o] = &v
			}
			i++
		}
	}
	if ft.Results != nil {
		for _, f := range ft.Results.List {
			for _, n := range f.Names {
				o := fr.info.Defs[n]
				if o == nil {
					continue
				}
				z := m.zero(o.Type(), 0)
				fr.env[o] = &z
				fr.named = append(fr.named, o)
			}
		}
	}
	ctl := m.execList(fr, body.List)
	if ctl != c17Return && len(fr.named) > 0 {
		fr.results = nil
	}
	if fr.results == nil && len(fr.named) > 0 {
		for _, o := range fr.named {
			fr.results = append(fr.results, fr.env[o].clone())
		}
	}
	for j := len(fr.defers) - 1; j >= 0; j-- {
		fr.defers[j]()
	}
	return fr.results
}

func (m *c17M) execList(fr *c17Frame, list []ast.Stmt) c17Ctl {
	for _, s := range list {
		if ctl := m.exec(fr, s); ctl != c17Next {
			return ctl
		}
	}
	return c17Next
}

func (m *c17M) cond(fr *c17Frame, e ast.Expr) bool {
	v := m.eval(fr, e)
	if v.k != c17Bool {
		m.unsupported("branch on a value the interpreter cannot compute: %s (%s)", types.ExprString(e), v)
	}
	return v.i != 0
}

func (m *c17M) exec(fr *c17Frame, s ast.Stmt) c17Ctl {
	m.tick()
	switch s := s.(type) {
	case *ast.BlockStmt:
		return m.execList(fr, s.List)
	case *ast.EmptyStmt:
		return c17Next
	case *ast.ExprStmt:
		m.eval(fr, s.X)
		return c17Next
	case *ast.DeclStmt:
		gd, ok := s.Decl.(*ast.GenDecl)
		if !ok {
			m.unsupported("declaration %T", s.Decl)
		}
		if gd.Tok == token.VAR {
			for _, sp := range gd.Specs {
				vs := sp.(*ast.ValueSpec)
				if len(vs.Values) == 1 && len(vs.Names) > 1 {
					rv := m.eval(fr, vs.Values[0])
					if rv.k != c17Tup || len(rv.tup) != len(vs.Names) {
						m.unsupported("multi-value var declaration")
					}
					for i, n := range vs.Names {
						v := rv.tup[i].clone()
						fr.env[fr.info.Defs[n]] = &v
					}
					continue
				}
				for i, n := range vs.Names {
					o := fr.info.Defs[n]
					if o == nil {
						if i < len(vs.Values) {
							m.eval(fr, vs.Values[i])
						}
						continue
					}
					var v c17V
					if i < len(vs.Values) {
						v = m.eval(fr, vs.Values[i]).clone()
					} else {
						v = m.zero(o.Type(), 0)
					}
					fr.env[o] = &v
				}
			}
		}
		return c17Next
	case *ast.AssignStmt:
		m.assign(fr, s)
		return c17Next
	case *ast.IncDecStmt:
		cell := m.lval(fr, s.X)
		op := token.ADD
		if s.Tok == token.DEC {
			op = token.SUB
		}
		*cell = m.arith(op, *cell, c17I(1), fr.info.TypeOf(s.X), s.X)
		return c17Next
	case *ast.ReturnStmt:
		fr.results = []c17V{}
		if len(s.Results) == 1 {
			v := m.eval(fr, s.Results[0])
			if v.k == c17Tup {
				fr.results = append(fr.results, v.clone().tup...)
			} else {
				fr.results = append(fr.results, v.clone())
			}
		} else if len(s.Results) > 1 {
			for _, r := range s.Results {
				fr.results = append(fr.results, m.eval(fr, r).clone())
			}
		} else if len(fr.named) > 0 {
			fr.results = nil
		}
		return c17Return
	case *ast.IfStmt:
		if s.Init != nil {
			m.exec(fr, s.Init)
		}
		if m.cond(fr, s.Cond) {
			return m.execList(fr, s.Body.List)
		}
		if s.Else != nil {
			return m.exec(fr, s.Else)
		}
		return c17Next
	case *ast.ForStmt:
		if s.Init != nil {
			m.exec(fr, s.Init)
		}
		for {
			m.tick()
			if s.Cond != nil && !m.cond(fr, s.Cond) {
				return c17Next
			}
			ctl := m.execList(fr, s.Body.List)
			if ctl == c17Break {
				return c17Next
			}
			if ctl == c17Return {
				return ctl
			}
			if s.Post != nil {
				m.exec(fr, s.Post)
			}
		}
	case *ast.RangeStmt:
		return m.execRange(fr, s)
	case *ast.SwitchStmt:
		return m.execSwitch(fr, s)
	case *ast.TypeSwitchStmt:
		return m.execTypeSwitch(fr, s)
	case *ast.BranchStmt:
		if s.Label != nil {
			m.unsupported("labelled %s", s.Tok)
		}
		switch s.Tok {
		case token.BREAK:
			return c17Break
		case token.CONTINUE:
			return c17Continue
		}
		m.unsupported("branch statement %s", s.Tok)
	case *ast.DeferStmt:
		thunk := m.prepCall(fr, s.Call)
		fr.defers = append(fr.defers, func() { thunk() })
		return c17Next
	}
	m.unsupported("statement %T", s)
	return c17Next
}

func (m *c17M) execRange(fr *c17Frame, s *ast.RangeStmt) c17Ctl {
	x := m.eval(fr, s.X)
	bind := func(e ast.Expr, v c17V) {
		if e == nil {
			return
		}
		if id, ok := e.(*ast.Ident); ok && id.Name == "_" {
			return
		}
		if s.Tok == token.DEFINE {
			if id, ok := e.(*ast.Ident); ok {
				if o := fr.info.Defs[id]; o != nil {
					nv := v.clone()
					fr.env[o] = &nv
					return
				}
			}
		}
		*m.lval(fr, e) = v.clone()
	}
	body := func() (c17Ctl, bool) {
		m.tick()
		ctl := m.execList(fr, s.Body.List)
		if ctl == c17Break {
			return c17Next, true
		}
		if ctl == c17Return {
			return ctl, true
		}
		return c17Next, false
	}
	switch x.k {
	case c17Slc:
		n := x.sl.n
		for i := 0; i < n; i++ {
			bind(s.Key, c17I(int64(i)))
			if s.Value != nil {
				bind(s.Value, (*x.sl.arr)[x.sl.off+i])
			}
			if ctl, stop := body(); stop {
				return ctl
			}
		}
		return c17Next
	case c17Str:
		for i, r := range x.s {
			bind(s.Key, c17I(int64(i)))
			bind(s.Value, c17I(int64(r)))
			if ctl, stop := body(); stop {
				return ctl
			}
		}
		return c17Next
	}
	m.unsupported("range over %s", x)
	return c17Next
}

func (m *c17M) execCaseBody(fr *c17Frame, body []ast.Stmt) c17Ctl {
	for _, st := range body {
		if br, ok := st.(*ast.BranchStmt); ok && br.Tok == token.FALLTHROUGH {
			m.unsupported("fallthrough")
		}
	}
	ctl := m.execList(fr, body)
	if ctl == c17Break {
		return c17Next
	}
	return ctl
}

func (m *c17M) execSwitch(fr *c17Frame, s *ast.SwitchStmt) c17Ctl {
	if s.Init != nil {
		m.exec(fr, s.Init)
	}
	var tag c17V
	if s.Tag != nil {
		tag = m.eval(fr, s.Tag)
		if tag.k == c17Opq {
			m.unsupported("switch on a value the interpreter cannot compute: %s", types.ExprString(s.Tag))
		}
	}
	var def *ast.CaseClause
	for _, cl := range s.Body.List {
		cc := cl.(*ast.CaseClause)
		if cc.List == nil {
			def = cc
			continue
		}
		for _, e := range cc.List {
			hit := false
			if s.Tag == nil {
				hit = m.cond(fr, e)
			} else {
				v := m.eval(fr, e)
				eq, ok := c17Equal(tag, v)
				if !ok {
					m.unsupported("case comparison %s", types.ExprString(e))
				}
				hit = eq
			}
			if hit {
				return m.execCaseBody(fr, cc.Body)
			}
		}
	}
	if def != nil {
		return m.execCaseBody(fr, def.Body)
	}
	return c17Next
}

func (m *c17M) execTypeSwitch(fr *c17Frame, s *ast.TypeSwitchStmt) c17Ctl {
	if s.Init != nil {
		m.exec(fr, s.Init)
	}
	var xe ast.Expr
	switch a := s.Assign.(type) {
	case *ast.AssignStmt:
		xe = a.Rhs[0].(*ast.TypeAssertExpr).X
	case *ast.ExprStmt:
		xe = a.X.(*ast.TypeAssertExpr).X
	}
	v := m.eval(fr, xe)
	if v.k == c17Opq {
		m.unsupported("type switch on an unknown value")
	}
	var def *ast.CaseClause
	run := func(cc *ast.CaseClause) c17Ctl {
		if o := fr.info.Implicits[cc]; o != nil {
			nv := v.clone()
			fr.env[o] = &nv
		}
		return m.execCaseBody(fr, cc.Body)
	}
	for _, cl := range s.Body.List {
		cc := cl.(*ast.CaseClause)
		if cc.List == nil {
			def = cc
			continue
		}
		for _, te := range cc.List {
			if id, ok := te.(*ast.Ident); ok && id.Name == "nil" {
				if v.k == c17Nil {
					return run(cc)
				}
				continue
			}
			t := fr.info.TypeOf(te)
			if t == nil || v.typ == nil {
				continue
			}
			if types.Identical(v.typ, t) || (types.IsInterface(t) && types.AssignableTo(v.typ, t)) {
				return run(cc)
			}
		}
	}
	if def != nil {
		return run(def)
	}
	return c17Next
}

func (m *c17M) assign(fr *c17Frame, s *ast.AssignStmt) {
	define := s.Tok == token.DEFINE
	if len(s.Lhs) == 2 && len(s.Rhs) == 1 {
		// v, ok := x.(T)
		if ta, isTA := unparen(s.Rhs[0]).(*ast.TypeAssertExpr); isTA && ta.Type != nil {
			x := m.eval(fr, ta.X)
			t := fr.info.TypeOf(ta.Type)
			if x.k == c17Opq || t == nil || (x.typ == nil && x.k != c17Nil) {
				m.unsupported("type assertion on %s", x)
			}
			hit := x.typ != nil && (types.Identical(x.typ, t) || (types.IsInterface(t) && types.AssignableTo(x.typ, t)))
			val := x
			if !hit {
				val = m.zero(t, 0)
			}
			m.store(fr, s.Lhs[0], val, define)
			m.store(fr, s.Lhs[1], c17B(hit), define)
			return
		}
	}
	if len(s.Lhs) > 1 && len(s.Rhs) == 1 {
		rv := m.eval(fr, s.Rhs[0])
		if rv.k != c17Tup || len(rv.tup) != len(s.Lhs) {
			m.unsupported("multi-value assignment from %s", types.ExprString(s.Rhs[0]))
		}
		for i, l := range s.Lhs {
			m.store(fr, l, rv.tup[i], define)
		}
		return
	}
	if s.Tok == token.ASSIGN || define {
		vals := make([]c17V, len(s.Rhs))
		for i, r := range s.Rhs {
			vals[i] = m.eval(fr, r).clone()
		}
		for i, l := range s.Lhs {
			m.store(fr, l, vals[i], define)
		}
		return
	}
	ops := map[token.Token]token.Token{token.ADD_ASSIGN: token.ADD, token.SUB_ASSIGN: token.SUB, token.MUL_ASSIGN: token.MUL,
		token.QUO_ASSIGN: token.QUO, token.REM_ASSIGN: token.REM, token.AND_ASSIGN: token.AND, token.OR_ASSIGN: token.OR,
		token.XOR_ASSIGN: token.XOR, token.AND_NOT_ASSIGN: token.AND_NOT, token.SHL_ASSIGN: token.SHL, token.SHR_ASSIGN: token.SHR}
	op, ok := ops[s.Tok]
	if !ok || len(s.Lhs) != 1 {
		m.unsupported("assignment operator %s", s.Tok)
	}
	rv := m.eval(fr, s.Rhs[0])
	cell := m.lval(fr, s.Lhs[0])
	*cell = m.arith(op, *cell, rv, fr.info.TypeOf(s.Lhs[0]), s.Lhs[0])
}

func (m *c17M) store(fr *c17Frame, lhs ast.Expr, v c17V, define bool) {
	if id, ok := unparen(lhs).(*ast.Ident); ok {
		if id.Name == "_" {
			return
		}
		if define {
			if o := fr.info.Defs[id]; o != nil {
				nv := v.clone()
				fr.env[o] = &nv
				return
			}
		}
	}
	*m.lval(fr, lhs) = v.clone()
}

// lval returns the cell denoted by an addressable expression.
func (m *c17M) lval(fr *c17Frame, e ast.Expr) *c17V {
	switch e := unparen(e).(type) {
	case *ast.Ident:
		o := fr.info.ObjectOf(e)
		if c, ok := fr.env[o]; ok {
			return c
		}
		if c := m.pkgVar(o); c != nil {
			return c
		}
		m.unsupported("variable %s has no value", e.Name)
	case *ast.SelectorExpr:
		if sel, ok := fr.info.Selections[e]; ok {
			if sel.Kind() != types.FieldVal {
				m.unsupported("method value %s used as a location", types.ExprString(e))
			}
			var base *c17V
			if m.addressable(fr, e.X) {
				base = m.lval(fr, e.X)
			} else {
				tmp := m.eval(fr, e.X)
				base = &tmp
			}
			return m.walkFields(base, fr.info.TypeOf(e.X), sel.Index(), e)
		}
		if c := m.pkgVar(fr.info.ObjectOf(e.Sel)); c != nil {
			return c
		}
		m.unsupported("package-level %s", types.ExprString(e))
	case *ast.IndexExpr:
		x := m.eval(fr, e.X)
		idx := m.eval(fr, e.Index)
		if x.k != c17Slc || idx.k != c17Int {
			m.unsupported("index expression %s", types.ExprString(e))
		}
		if idx.i < 0 || idx.i >= int64(x.sl.n) {
			m.rtPanic("index out of range [%d] with length %d in %s", idx.i, x.sl.n, types.ExprString(e))
		}
		return &(*x.sl.arr)[x.sl.off+int(idx.i)]
	case *ast.StarExpr:
		p := m.eval(fr, e.X)
		if p.k == c17Nil {
			m.rtPanic("nil pointer dereference in %s", types.ExprString(e))
		}
		if p.k != c17Ptr {
			m.unsupported("dereference of %s", p)
		}
		return p.ptr
	}
	m.unsupported("assignment target %s", types.ExprString(e))
	return nil
}

func (m *c17M) addressable(fr *c17Frame, e ast.Expr) bool {
	switch e := unparen(e).(type) {
	case *ast.Ident:
		_, isVar := fr.info.ObjectOf(e).(*types.Var)
		return isVar
	case *ast.SelectorExpr:
		if sel, ok := fr.info.Selections[e]; ok {
			return sel.Kind() == types.FieldVal
		}
		_, isVar := fr.info.ObjectOf(e.Sel).(*types.Var)
		return isVar
	case *ast.IndexExpr:
		_, isSlice := fr.info.TypeOf(e.X).Underlying().(*types.Slice)
		return isSlice
	case *ast.StarExpr:
		return true
	}
	return false
}

// walkFields follows a field index path from base (whose static type is t), dereferencing pointers.
func (m *c17M) walkFields(base *c17V, t types.Type, path []int, at ast.Expr) *c17V {
	cur := base
	for _, idx := range path {
		if p, ok := t.Underlying().(*types.Pointer); ok {
			t = p.Elem()
		}
		if cur.k == c17Ptr {
			cur = cur.ptr
		}
		if cur.k == c17Nil {
			m.rtPanic("nil pointer dereference in %s", types.ExprString(at))
		}
		st, ok := t.Underlying().(*types.Struct)
		if !ok || cur.k != c17Stc {
			m.unsupported("field access on %s in %s", cur, types.ExprString(at))
		}
		f := st.Field(idx)
		cell, ok := cur.st.f[f.Name()]
		if !ok {
			z := m.zero(f.Type(), 0)
			cell = &z
			cur.st.f[f.Name()] = cell
		}
		cur, t = cell, f.Type()
	}
	return cur
}

func (m *c17M) pkgVar(o types.Object) *c17V {
	v, ok := o.(*types.Var)
	if !ok || v.Pkg() == nil || v.IsField() || v.Parent() != v.Pkg().Scope() {
		return nil
	}
	if c, ok := m.pkgVars[o]; ok {
		return c
	}
	pk := m.c.P.Pkgs[v.Pkg().Path()]
	if pk == nil {
		oq := c17Opaque("variable " + v.Pkg().Name() + "." + v.Name())
		m.pkgVars[o] = &oq
		return &oq
	}
	for _, f := range pk.Syntax {
		for _, d := range f.Decls {
			gd, ok := d.(*ast.GenDecl)
			if !ok || gd.Tok != token.VAR {
				continue
			}
			for _, sp := range gd.Specs {
				vs := sp.(*ast.ValueSpec)
				for i, n := range vs.Names {
					if pk.TypesInfo.Defs[n] != o {
						continue
					}
					var val c17V
					if len(vs.Values) == len(vs.Names) {
						val = m.eval(m.newFrame(pk), vs.Values[i]).clone()
					} else if len(vs.Values) == 0 {
						val = m.zero(o.Type(), 0)
					} else {
						m.unsupported("initialiser of %s", n.Name)
					}
					m.pkgVars[o] = &val
					return &val
				}
			}
		}
	}
	return nil
}

func c17Equal(a, b c17V) (eq, ok bool) {
	if a.k == c17Opq || b.k == c17Opq {
		return false, false
	}
	if a.k == c17Nil || b.k == c17Nil {
		o := a
		if a.k == c17Nil {
			o = b
		}
		switch o.k {
		case c17Nil:
			return true, true
		case c17Slc:
			return o.sl == nil || o.sl.arr == nil, true
		case c17Ptr, c17Fun, c17Stc, c17Int, c17Str, c17Bool:
			return false, true
		}
		return false, false
	}
	if a.k != b.k {
		return false, false
	}
	switch a.k {
	case c17Int, c17Bool:
		return a.i == b.i, true
	case c17Str:
		return a.s == b.s, true
	case c17Ptr:
		return a.ptr == b.ptr, true
	case c17Stc:
		if len(a.st.f) != len(b.st.f) {
			return false, false
		}
		for k, av := range a.st.f {
			bv, ok := b.st.f[k]
			if !ok {
				return false, false
			}
			e, ok := c17Equal(*av, *bv)
			if !ok {
				return false, false
			}
			if !e {
				return false, true
			}
		}
		return true, true
	}
	return false, false
}

func c17Wrap(t types.Type, x int64) int64 {
	if t == nil {
		return x
	}
	b, ok := t.Underlying().(*types.Basic)
	if !ok {
		return x
	}
	switch b.Kind() {
	case types.Uint8:
		return x & 0xff
	case types.Uint16:
		return x & 0xffff
	case types.Uint32:
		return x & 0xffffffff
	case types.Uint, types.Uint64, types.Uintptr:
		if x < 0 {
			return math.MaxInt64 // "wrapped around": larger than every length of the domain
		}
	case types.Int8:
		return int64(int8(x))
	case types.Int16:
		return int64(int16(x))
	case types.Int32:
		return int64(int32(x))
	}
	return x
}

func (m *c17M) arith(op token.Token, x, y c17V, t types.Type, at ast.Expr) c17V {
	if x.k == c17Opq || y.k == c17Opq {
		return c17Opaque("arithmetic on unknown")
	}
	if x.k == c17Str && y.k == c17Str && op == token.ADD {
		return c17S(x.s + y.s)
	}
	if x.k != c17Int || y.k != c17Int {
		m.unsupported("operator %s on %s and %s in %s", op, x, y, types.ExprString(at))
	}
	var r int64
	switch op {
	case token.ADD:
		r = x.i + y.i
		if x.i > 0 && y.i > 0 && r < 0 {
			r = math.MaxInt64
		}
	case token.SUB:
		r = x.i - y.i
	case token.MUL:
		r = x.i * y.i
	case token.QUO:
		if y.i == 0 {
			m.rtPanic("integer divide by zero in %s", types.ExprString(at))
		}
		r = x.i / y.i
	case token.REM:
		if y.i == 0 {
			m.rtPanic("integer divide by zero in %s", types.ExprString(at))
		}
		r = x.i % y.i
	case token.AND:
		r = x.i & y.i
	case token.OR:
		r = x.i | y.i
	case token.XOR:
		r = x.i ^ y.i
	case token.AND_NOT:
		r = x.i &^ y.i
	case token.SHL:
		r = x.i << uint(y.i)
	case token.SHR:
		r = x.i >> uint(y.i)
	default:
		m.unsupported("operator %s", op)
	}
	return c17I(c17Wrap(t, r))
}

func (m *c17M) eval(fr *c17Frame, e ast.Expr) c17V {
	if tv, ok := fr.info.Types[e]; ok && tv.Value != nil {
		switch tv.Value.Kind() {
		case constant.Int:
			if i, ok := constant.Int64Val(tv.Value); ok {
				return c17I(i)
			}
		case constant.Bool:
			return c17B(constant.BoolVal(tv.Value))
		case constant.String:
			return c17S(constant.StringVal(tv.Value))
		}
		return c17Opaque("constant " + tv.Value.String())
	}
	switch e := e.(type) {
	case *ast.ParenExpr:
		return m.eval(fr, e.X)
	case *ast.Ident:
		o := fr.info.ObjectOf(e)
		switch o := o.(type) {
		case *types.Nil:
			return c17V{}
		case *types.Var:
			if c, ok := fr.env[o]; ok {
				return *c
			}
			if c := m.pkgVar(o); c != nil {
				return *c
			}
			m.unsupported("variable %s has no value", e.Name)
		case *types.Func:
			return c17V{k: c17Fun, fn: &c17Fn{static: o, name: fullName(o)}}
		}
		m.unsupported("identifier %s", e.Name)
	case *ast.SelectorExpr:
		if sel, ok := fr.info.Selections[e]; ok {
			switch sel.Kind() {
			case types.FieldVal:
				return *m.lval(fr, e)
			case types.MethodVal:
				fn := sel.Obj().(*types.Func)
				return c17V{k: c17Fun, fn: &c17Fn{static: fn, name: fullName(fn), recv: m.recvFor(fr, e, fn)}}
			}
			if fn, ok := sel.Obj().(*types.Func); ok && sel.Kind() == types.MethodExpr && !types.IsInterface(sel.Recv()) {
				return c17V{k: c17Fun, fn: &c17Fn{static: fn, name: fullName(fn), mexpr: true}}
			}
			m.unsupported("method expression %s", types.ExprString(e))
		}
		switch o := fr.info.ObjectOf(e.Sel).(type) {
		case *types.Var:
			if c := m.pkgVar(o); c != nil {
				return *c
			}
		case *types.Func:
			return c17V{k: c17Fun, fn: &c17Fn{static: o, name: fullName(o)}}
		}
		return c17Opaque(types.ExprString(e))
	case *ast.StarExpr:
		return *m.lval(fr, e)
	case *ast.IndexExpr:
		x := m.eval(fr, e.X)
		if x.k == c17Str {
			idx := m.eval(fr, e.Index)
			if idx.k != c17Int {
				m.unsupported("string index")
			}
			if idx.i < 0 || idx.i >= int64(len(x.s)) {
				m.rtPanic("index out of range [%d] with length %d in %s", idx.i, len(x.s), types.ExprString(e))
			}
			return c17I(int64(x.s[idx.i]))
		}
		return *m.lval(fr, e)
	case *ast.SliceExpr:
		return m.evalSlice(fr, e)
	case *ast.CompositeLit:
		return m.evalComposite(fr, e)
	case *ast.UnaryExpr:
		if e.Op == token.AND {
			if cl, ok := unparen(e.X).(*ast.CompositeLit); ok {
				v := m.evalComposite(fr, cl)
				return c17V{k: c17Ptr, ptr: &v}
			}
			return c17V{k: c17Ptr, ptr: m.lval(fr, e.X)}
		}
		x := m.eval(fr, e.X)
		if x.k == c17Opq {
			return x
		}
		switch e.Op {
		case token.NOT:
			if x.k == c17Bool {
				return c17B(x.i == 0)
			}
		case token.SUB:
			if x.k == c17Int {
				return c17I(c17Wrap(fr.info.TypeOf(e), -x.i))
			}
		case token.ADD:
			if x.k == c17Int {
				return x
			}
		case token.XOR:
			if x.k == c17Int {
				return c17I(c17Wrap(fr.info.TypeOf(e), ^x.i))
			}
		}
		m.unsupported("unary %s on %s", e.Op, x)
	case *ast.BinaryExpr:
		return m.evalBinary(fr, e)
	case *ast.CallExpr:
		return m.prepCall(fr, e)()
	case *ast.TypeAssertExpr:
		x := m.eval(fr, e.X)
		t := fr.info.TypeOf(e.Type)
		if x.typ != nil && t != nil && (types.Identical(x.typ, t) || (types.IsInterface(t) && types.AssignableTo(x.typ, t))) {
			return x
		}
		if x.k == c17Opq || x.typ == nil {
			m.unsupported("type assertion on %s", x)
		}
		m.rtPanic("interface conversion failed in %s", types.ExprString(e))
	case *ast.FuncLit:
		env := make(map[types.Object]*c17V, len(fr.env))
		for o, cell := range fr.env {
			env[o] = cell
		}
		return c17V{k: c17Fun, fn: &c17Fn{name: "function literal", lit: e, litPkg: fr.pkg, env: env}}
	}
	m.unsupported("expression %T", e)
	return c17V{}
}

func (m *c17M) evalBinary(fr *c17Frame, e *ast.BinaryExpr) c17V {
	if e.Op == token.LAND || e.Op == token.LOR {
		x := m.eval(fr, e.X)
		if x.k != c17Bool {
			m.unsupported("operand of %s is not computable: %s", e.Op, types.ExprString(e.X))
		}
		if e.Op == token.LAND && x.i == 0 {
			return c17B(false)
		}
		if e.Op == token.LOR && x.i != 0 {
			return c17B(true)
		}
		y := m.eval(fr, e.Y)
		if y.k != c17Bool {
			m.unsupported("operand of %s is not computable: %s", e.Op, types.ExprString(e.Y))
		}
		return y
	}
	x, y := m.eval(fr, e.X), m.eval(fr, e.Y)
	switch e.Op {
	case token.EQL, token.NEQ:
		eq, ok := c17Equal(x, y)
		if !ok {
			return c17Opaque("comparison of " + types.ExprString(e))
		}
		return c17B(eq == (e.Op == token.EQL))
	case token.LSS, token.LEQ, token.GTR, token.GEQ:
		if x.k == c17Opq || y.k == c17Opq {
			return c17Opaque("comparison of " + types.ExprString(e))
		}
		var c int
		switch {
		case x.k == c17Int && y.k == c17Int:
			switch {
			case x.i < y.i:
				c = -1
			case x.i > y.i:
				c = 1
			}
		case x.k == c17Str && y.k == c17Str:
			c = strings.Compare(x.s, y.s)
		default:
			m.unsupported("ordering of %s and %s", x, y)
		}
		switch e.Op {
		case token.LSS:
			return c17B(c < 0)
		case token.LEQ:
			return c17B(c <= 0)
		case token.GTR:
			return c17B(c > 0)
		}
		return c17B(c >= 0)
	}
	return m.arith(e.Op, x, y, fr.info.TypeOf(e), e)
}

func (m *c17M) evalSlice(fr *c17Frame, e *ast.SliceExpr) c17V {
	if e.Slice3 {
		m.unsupported("3-index slice")
	}
	x := m.eval(fr, e.X)
	bound := func(b ast.Expr, def int) int {
		if b == nil {
			return def
		}
		v := m.eval(fr, b)
		if v.k != c17Int {
			m.unsupported("slice bound %s", types.ExprString(b))
		}
		if v.i > math.MaxInt32 {
			return math.MaxInt32
		}
		if v.i < math.MinInt32 {
			return math.MinInt32
		}
		return int(v.i)
	}
	switch x.k {
	case c17Str:
		lo, hi := bound(e.Low, 0), bound(e.High, len(x.s))
		if lo < 0 || hi > len(x.s) || lo > hi {
			m.rtPanic("slice bounds out of range [%d:%d] with length %d in %s", lo, hi, len(x.s), types.ExprString(e))
		}
		return c17S(x.s[lo:hi])
	case c17Slc:
		lo, hi := bound(e.Low, 0), bound(e.High, x.sl.n)
		if lo < 0 || hi > x.sl.c || lo > hi {
			m.rtPanic("slice bounds out of range [%d:%d] with capacity %d in %s", lo, hi, x.sl.c, types.ExprString(e))
		}
		return c17V{k: c17Slc, sl: &c17Slice{arr: x.sl.arr, off: x.sl.off + lo, n: hi - lo, c: x.sl.c - lo}, typ: x.typ}
	}
	m.unsupported("slicing of %s", x)
	return c17V{}
}

func (m *c17M) evalComposite(fr *c17Frame, e *ast.CompositeLit) c17V {
	t := fr.info.TypeOf(e)
	if t == nil {
		m.unsupported("composite literal without type")
	}
	switch u := t.Underlying().(type) {
	case *types.Struct:
		v := m.zero(t, 0)
		for i, el := range e.Elts {
			name := ""
			val := el
			if kv, ok := el.(*ast.KeyValueExpr); ok {
				id, ok := kv.Key.(*ast.Ident)
				if !ok {
					m.unsupported("struct literal key")
				}
				name, val = id.Name, kv.Value
			} else {
				name = u.Field(i).Name()
			}
			nv := m.eval(fr, val).clone()
			v.st.f[name] = &nv
		}
		return v
	case *types.Slice:
		var vals []c17V
		for _, el := range e.Elts {
			if _, ok := el.(*ast.KeyValueExpr); ok {
				m.unsupported("keyed slice literal")
			}
			vals = append(vals, m.eval(fr, el).clone())
		}
		r := c17NewSlice(vals)
		r.typ = t
		return r
	}
	m.unsupported("composite literal of %s", t)
	return c17V{}
}

func (m *c17M) convert(t types.Type, v c17V) c17V {
	if v.k == c17Opq {
		return v
	}
	switch u := t.Underlying().(type) {
	case *types.Basic:
		switch {
		case u.Info()&types.IsInteger != 0:
			if v.k == c17Int {
				return c17I(c17Wrap(t, v.i))
			}
		case u.Info()&types.IsString != 0:
			switch v.k {
			case c17Str:
				return v
			case c17Int:
				return c17S(string(rune(v.i)))
			case c17Slc:
				var sb strings.Builder
				isByte := false
				if v.typ != nil {
					if st, ok := v.typ.Underlying().(*types.Slice); ok {
						if b, ok := st.Elem().Underlying().(*types.Basic); ok && b.Kind() == types.Uint8 {
							isByte = true
						}
					}
				}
				for _, el := range v.elems() {
					if el.k != c17Int {
						m.unsupported("string conversion of %s", v)
					}
					if isByte {
						sb.WriteByte(byte(el.i))
					} else {
						sb.WriteRune(rune(el.i))
					}
				}
				return c17S(sb.String())
			}
		}
	case *types.Slice:
		if v.k == c17Str {
			eb, _ := u.Elem().Underlying().(*types.Basic)
			var vals []c17V
			if eb != nil && eb.Kind() == types.Int32 {
				for _, r := range v.s {
					vals = append(vals, c17I(int64(r)))
				}
			} else if eb != nil && eb.Kind() == types.Uint8 {
				for i := 0; i < len(v.s); i++ {
					vals = append(vals, c17I(int64(v.s[i])))
				}
			} else {
				m.unsupported("conversion of string to %s", t)
			}
			r := c17NewSlice(vals)
			r.typ = t
			return r
		}
		if v.k == c17Slc || v.k == c17Nil {
			return v
		}
	case *types.Struct:
		if v.k == c17Stc {
			v.typ = t
			return v
		}
	case *types.Interface, *types.Pointer, *types.Signature:
		return v
	}
	m.unsupported("conversion of %s to %s", v, t)
	return v
}

func (m *c17M) appendVals(s c17V, vs []c17V) c17V {
	if s.k == c17Nil {
		s = c17V{k: c17Slc, sl: &c17Slice{}}
	}
	if s.k != c17Slc {
		m.unsupported("append to %s", s)
	}
	src := make([]c17V, len(vs))
	for i := range vs {
		src[i] = vs[i].clone()
	}
	need := s.sl.n + len(src)
	if need <= s.sl.c && s.sl.arr != nil {
		for i, v := range src {
			(*s.sl.arr)[s.sl.off+s.sl.n+i] = v
		}
		return c17V{k: c17Slc, sl: &c17Slice{arr: s.sl.arr, off: s.sl.off, n: need, c: s.sl.c}, typ: s.typ}
	}
	nc := 2 * s.sl.c
	if nc < need {
		nc = need
	}
	arr := make([]c17V, nc)
	copy(arr, s.elems())
	copy(arr[s.sl.n:], src)
	return c17V{k: c17Slc, sl: &c17Slice{arr: &arr, n: need, c: nc}, typ: s.typ}
}

func (m *c17M) builtin(fr *c17Frame, name string, call *ast.CallExpr) c17V {
	arg := func(i int) c17V { return m.eval(fr, call.Args[i]) }
	switch name {
	case "len", "cap":
		v := arg(0)
		switch v.k {
		case c17Str:
			return c17I(int64(len(v.s)))
		case c17Slc:
			if name == "cap" {
				return c17I(int64(v.sl.c))
			}
			return c17I(int64(v.sl.n))
		case c17Nil:
			return c17I(0)
		}
		m.unsupported("%s of %s", name, v)
	case "append":
		s := arg(0)
		var vs []c17V
		if call.Ellipsis.IsValid() {
			if len(call.Args) != 2 {
				m.unsupported("append with spread")
			}
			sp := arg(1)
			switch sp.k {
			case c17Slc:
				vs = append(vs, sp.elems()...)
			case c17Nil:
			default:
				m.unsupported("append of %s...", sp)
			}
		} else {
			for i := 1; i < len(call.Args); i++ {
				vs = append(vs, arg(i))
			}
		}
		r := m.appendVals(s, vs)
		if r.typ == nil {
			r.typ = fr.info.TypeOf(call)
		}
		return r
	case "make":
		t := fr.info.TypeOf(call.Args[0])
		st, ok := t.Underlying().(*types.Slice)
		if !ok {
			m.unsupported("make(%s)", t)
		}
		n, c := 0, 0
		if len(call.Args) > 1 {
			v := arg(1)
			if v.k != c17Int || v.i < 0 || v.i > 1<<16 {
				m.unsupported("make length %s", v)
			}
			n, c = int(v.i), int(v.i)
		}
		if len(call.Args) > 2 {
			v := arg(2)
			if v.k != c17Int || v.i < int64(n) || v.i > 1<<16 {
				m.unsupported("make capacity %s", v)
			}
			c = int(v.i)
		}
		arr := make([]c17V, c)
		for i := range arr {
			arr[i] = m.zero(st.Elem(), 0)
		}
		return c17V{k: c17Slc, sl: &c17Slice{arr: &arr, n: n, c: c}, typ: t}
	case "copy":
		d, s := arg(0), arg(1)
		if d.k != c17Slc || s.k != c17Slc {
			m.unsupported("copy(%s, %s)", d, s)
		}
		n := d.sl.n
		if s.sl.n < n {
			n = s.sl.n
		}
		tmp := make([]c17V, n)
		for i := 0; i < n; i++ {
			tmp[i] = s.elems()[i].clone()
		}
		copy(d.elems(), tmp)
		return c17I(int64(n))
	case "panic":
		m.rtPanic("panic(%s)", arg(0))
	case "min", "max":
		r := arg(0)
		for i := 1; i < len(call.Args); i++ {
			v := arg(i)
			if r.k != c17Int || v.k != c17Int {
				m.unsupported("%s of non-integers", name)
			}
			if (name == "min" && v.i < r.i) || (name == "max" && v.i > r.i) {
				r = v
			}
		}
		return r
	case "new":
		z := m.zero(fr.info.TypeOf(call.Args[0]), 0)
		return c17V{k: c17Ptr, ptr: &z}
	}
	m.unsupported("builtin %s", name)
	return c17V{}
}

// recvFor evaluates the receiver of the method call/value sel for method fn.
func (m *c17M) recvFor(fr *c17Frame, sel *ast.SelectorExpr, fn *types.Func) *c17V {
	s := fr.info.Selections[sel]
	var base *c17V
	if m.addressable(fr, sel.X) {
		base = m.lval(fr, sel.X)
	} else {
		tmp := m.eval(fr, sel.X)
		base = &tmp
	}
	idx := s.Index()
	cell := m.walkFields(base, fr.info.TypeOf(sel.X), idx[:len(idx)-1], sel)
	sig := fn.Type().(*types.Signature)
	_, wantPtr := sig.Recv().Type().(*types.Pointer)
	v := *cell
	if wantPtr {
		if v.k == c17Ptr || v.k == c17Nil {
			return &v
		}
		return &c17V{k: c17Ptr, ptr: cell}
	}
	if v.k == c17Ptr {
		vv := v.ptr.clone()
		return &vv
	}
	if v.k == c17Nil {
		if _, isPtr := fr.info.TypeOf(sel.X).Underlying().(*types.Pointer); isPtr {
			m.rtPanic("nil pointer dereference calling %s", types.ExprString(sel))
		}
	}
	vv := v.clone()
	return &vv
}

// prepCall evaluates the function designator and the arguments now and returns the thunk that performs the call.
func (m *c17M) prepCall(fr *c17Frame, call *ast.CallExpr) func() c17V {
	info := fr.info
	fun := unparen(call.Fun)
	if tv, ok := info.Types[fun]; ok && tv.IsType() {
		if len(call.Args) != 1 {
			m.unsupported("conversion with %d arguments", len(call.Args))
		}
		v := m.eval(fr, call.Args[0])
		if v.k == c17Slc && v.typ == nil {
			v.typ = info.TypeOf(call.Args[0])
		}
		r := m.convert(tv.Type, v)
		return func() c17V { return r }
	}
	if id, ok := fun.(*ast.Ident); ok {
		if b, ok := info.Uses[id].(*types.Builtin); ok {
			r := m.builtin(fr, b.Name(), call)
			return func() c17V { return r }
		}
	}
	var target *c17Fn
	var sig *types.Signature
	fn := calleeOf(info, call)
	if fn != nil {
		sig = fn.Type().(*types.Signature)
		target = &c17Fn{static: fn, name: fullName(fn)}
		if sig.Recv() != nil {
			sel, ok := fun.(*ast.SelectorExpr)
			if !ok {
				m.unsupported("method call form %s", types.ExprString(fun))
			}
			sl, isSel := info.Selections[sel]
			if !isSel {
				m.unsupported("method expression %s", types.ExprString(fun))
			}
			if sl.Kind() == types.MethodExpr {
				// T.m(recv, args...) / (*T).m(recv, args...)
				if types.IsInterface(sl.Recv()) {
					m.unsupported("interface method expression %s", types.ExprString(fun))
				}
				target.mexpr = true
				if fs, ok := info.TypeOf(fun).Underlying().(*types.Signature); ok {
					sig = fs // the receiver is the first parameter
				}
			} else if types.IsInterface(sig.Recv().Type()) {
				rv := m.eval(fr, sel.X)
				if rv.typ == nil {
					m.unsupported("interface method call %s on %s", types.ExprString(fun), rv)
				}
				obj, _, _ := types.LookupFieldOrMethod(rv.typ, true, fn.Pkg(), fn.Name())
				cfn, ok := obj.(*types.Func)
				if !ok {
					m.unsupported("no method %s on %s", fn.Name(), rv.typ)
				}
				target = &c17Fn{static: cfn, name: fullName(cfn)}
				r := rv.clone()
				if _, wantPtr := cfn.Type().(*types.Signature).Recv().Type().(*types.Pointer); wantPtr && r.k != c17Ptr {
					r = c17V{k: c17Ptr, ptr: &rv}
				}
				target.recv = &r
			} else {
				target.recv = m.recvFor(fr, sel, fn)
			}
		}
	} else {
		fv := m.eval(fr, fun)
		if fv.k == c17Nil {
			m.rtPanic("call of nil function %s", types.ExprString(fun))
		}
		if fv.k != c17Fun {
			m.unsupported("call of %s", types.ExprString(fun))
		}
		target = fv.fn
		sig, _ = info.TypeOf(fun).Underlying().(*types.Signature)
	}
	var args []c17V
	spread := false
	if len(call.Args) == 1 {
		if tt, ok := info.TypeOf(call.Args[0]).(*types.Tuple); ok && tt.Len() > 1 {
			spread = true
		}
	}
	if spread {
		v := m.eval(fr, call.Args[0])
		if v.k != c17Tup {
			m.unsupported("argument spread of %s", v)
		}
		args = v.clone().tup
	} else {
		for _, a := range call.Args {
			v := m.eval(fr, a).clone()
			if v.k == c17Slc && v.typ == nil {
				v.typ = info.TypeOf(a)
			}
			args = append(args, v)
		}
	}
	if sig != nil && sig.Variadic() {
		fixed := sig.Params().Len() - 1
		if !call.Ellipsis.IsValid() {
			var rest []c17V
			if len(args) > fixed {
				rest = args[fixed:]
			}
			packed := c17NewSlice(rest)
			packed.typ = sig.Params().At(fixed).Type()
			args = append(append([]c17V{}, args[:fixed]...), packed)
		}
	}
	return func() c17V { return m.invoke(target, args, sig) }
}

func (m *c17M) invoke(target *c17Fn, args []c17V, sig *types.Signature) c17V {
	m.tick()
	pack := func(res []c17V) c17V {
		switch len(res) {
		case 0:
			return c17V{}
		case 1:
			return res[0]
		}
		return c17V{k: c17Tup, tup: res}
	}
	if target.native != nil {
		return target.native(m, args)
	}
	if target.lit != nil {
		return pack(m.callLit(target, args))
	}
	if target.static == nil {
		m.unsupported("call target %s", target.name)
	}
	if target.mexpr {
		// method expression: the first argument is the receiver
		if len(args) == 0 {
			m.unsupported("method expression %s called without a receiver", target.name)
		}
		rv := args[0]
		msig, _ := target.static.Type().(*types.Signature)
		if msig == nil || msig.Recv() == nil {
			m.unsupported("method expression %s", target.name)
		}
		if _, wantPtr := msig.Recv().Type().(*types.Pointer); !wantPtr && rv.k == c17Ptr {
			rv = rv.ptr.clone()
		}
		target = &c17Fn{static: target.static, name: target.name, recv: &rv}
		args = args[1:]
		sig = msig
	}
	if nat, ok := m.natives[target.name]; ok {
		return nat(m, target.recv, args)
	}
	fn := target.static
	fi := m.decls[fn]
	if fi == nil {
		fi = m.decls[fn.Origin()]
	}
	if fi == nil || fi.Decl.Body == nil {
		if s2, ok := fn.Type().(*types.Signature); ok {
			sig = s2
		}
		var res []c17V
		for i := 0; sig != nil && i < sig.Results().Len(); i++ {
			res = append(res, c17Opaque("result of "+target.name))
		}
		return pack(res)
	}
	return pack(m.callDecl(fi, target.recv, args))
}

// ---------------------------------------------------------------------------
// Part 2: models of the library calls the editors make, and the ideal editor.
// ---------------------------------------------------------------------------

// c17Clusters segments the test alphabet into grapheme clusters: a base rune
// followed by any number of U+0301 / U+FE0F (UAX #29 GB9: do not break before Extend); two regional
// indicators form one flag (GB12/GB13); controls and format characters (C0, U+00AD, U+200B, U+2060,
// U+FEFF) are clusters of their own (GB4/GB5) of display width 0, as is a combining mark without a base.
func c17Clusters(s string) []string {
	var out []string
	isRI := func(r rune) bool { return r >= 0x1F1E6 && r <= 0x1F1FF }
	for _, r := range s {
		// GB4/GB5: a Control (C0, U+00AD, U+200B, U+2060, U+FEFF) is a cluster of its own; nothing attaches to it
		if (r == 0x301 || r == 0xFE0F) && len(out) > 0 && !c17IsControl(out[len(out)-1]) {
			out[len(out)-1] += string(r)
			continue
		}
		// GB12/GB13: regional indicators pair up into flags
		if isRI(r) && len(out) > 0 {
			if last := []rune(out[len(out)-1]); len(last) == 1 && isRI(last[0]) {
				out[len(out)-1] += string(r)
				continue
			}
		}
		out = append(out, string(r))
	}
	return out
}

// c17IsControl: the cluster is a single character of Grapheme_Cluster_Break=Control (test alphabet only).
func c17IsControl(cl string) bool {
	r, n := utf8.DecodeRuneInString(cl)
	if n != len(cl) {
		return false
	}
	return r < 0x20 || r == 0x7F || r == 0xAD || r == 0x200B || r == 0x2060 || r == 0xFEFF
}

func c17ClusterWidth(cl string) int {
	r, _ := utf8.DecodeRuneInString(cl)
	// zero-width graphemes: controls / format characters and a combining mark with no base
	if c17IsControl(cl) || r == 0x301 || r == 0xFE0F {
		return 0
	}
	if (r >= 0x2E80 && r <= 0x9FFF) || (r >= 0x1F1E6 && r <= 0x1F1FF) {
		return 2
	}
	return 1
}

func c17WidthOf(cls []string) int {
	w := 0
	for _, c := range cls {
		w += c17ClusterWidth(c)
	}
	return w
}

func c17IsWord(cl string) bool {
	if utf8.RuneCountInString(cl) != 1 {
		return false
	}
	r, _ := utf8.DecodeRuneInString(cl)
	return unicode.IsLetter(r) || unicode.IsNumber(r)
}

// c17Ed is the ideal line editor over grapheme clusters.
type c17Ed struct {
	cl  []string
	cur int
}

func (e c17Ed) text() string { return strings.Join(e.cl, "") }

func (e c17Ed) apply(op, arg string) c17Ed {
	cl := append([]string{}, e.cl...)
	cur := e.cur
	n := len(cl)
	back := func(i int) int {
		for i > 0 && !c17IsWord(cl[i-1]) {
			i--
		}
		for i > 0 && c17IsWord(cl[i-1]) {
			i--
		}
		return i
	}
	switch op {
	case "home":
		cur = 0
	case "end":
		cur = n
	case "right":
		if cur < n {
			cur++
		}
	case "left":
		if cur > 0 {
			cur--
		}
	case "delRight":
		if cur < n {
			cl = append(cl[:cur], cl[cur+1:]...)
		}
	case "delLeft":
		if cur > 0 {
			cl = append(cl[:cur-1], cl[cur:]...)
			cur--
		}
	case "killEnd":
		cl = cl[:cur]
	case "killStart":
		cl = cl[cur:]
		cur = 0
	case "insert":
		// the text is re-segmented: inserted code points may extend the cluster before the cursor
		before := strings.Join(e.cl[:cur], "") + arg
		cl = c17Clusters(before + strings.Join(e.cl[cur:], ""))
		cur = len(c17Clusters(before))
	case "wordFwd":
		for cur < n && !c17IsWord(cl[cur]) {
			cur++
		}
		for cur < n && c17IsWord(cl[cur]) {
			cur++
		}
	case "wordBack":
		cur = back(cur)
	case "killWordBack":
		j := back(cur)
		cl = append(append([]string{}, cl[:j]...), e.cl[cur:]...)
		cur = j
	case "reset":
		cl, cur = nil, 0
	case "none":
	}
	return c17Ed{cl: cl, cur: cur}
}

var c17OpText = map[string]string{"home": "cursor to start", "end": "cursor to end", "right": "cursor right one grapheme", "left": "cursor left one grapheme",
	"delRight": "delete the grapheme right of the cursor", "delLeft": "delete the grapheme left of the cursor", "killEnd": "delete to end of line",
	"killStart": "delete to start of line", "wordFwd": "cursor forward one word", "wordBack": "cursor backward one word",
	"killWordBack": "delete the word left of the cursor", "insert": "insert at the cursor", "submit": "submit", "none": "no change"}

type c17Types struct {
	vx        *packages.Package
	keyT      types.Type
	charT     types.Type
	windowT   types.Type
	pasteEndT types.Type
}

func c17Named(pk *packages.Package, name string) types.Type {
	if pk == nil {
		return nil
	}
	if tn, ok := pk.Types.Scope().Lookup(name).(*types.TypeName); ok {
		return tn.Type()
	}
	return nil
}

func c17Const(pk *packages.Package, name string) (int64, bool) {
	if pk == nil {
		return 0, false
	}
	cn, ok := pk.Types.Scope().Lookup(name).(*types.Const)
	if !ok || cn.Val().Kind() != constant.Int {
		return 0, false
	}
	return constant.Int64Val(cn.Val())
}

func (m *c17M) mkChar(ty *c17Types, cl string) c17V {
	v := m.zero(ty.charT, 0)
	*v.st.f["Grapheme"] = c17S(cl)
	*v.st.f["Width"] = c17I(int64(c17ClusterWidth(cl)))
	return v
}

func (m *c17M) mkChars(ty *c17Types, s string) c17V {
	var vals []c17V
	for _, cl := range c17Clusters(s) {
		vals = append(vals, m.mkChar(ty, cl))
	}
	r := c17NewSlice(vals)
	r.typ = types.NewSlice(ty.charT)
	return r
}

func c17Hidden(v *c17V, name string) *c17V {
	if v == nil {
		return nil
	}
	if v.k == c17Ptr {
		v = v.ptr
	}
	if v.k != c17Stc {
		return nil
	}
	c, ok := v.st.f[name]
	if !ok {
		z := c17V{}
		c = &z
		v.st.f[name] = c
	}
	return c
}

func (m *c17M) installModels(ty *c17Types) {
	nat := m.natives
	nat["github.com/rivo/uniseg.FirstGraphemeClusterInString"] = func(m *c17M, _ *c17V, a []c17V) c17V {
		if len(a) != 2 || a[0].k != c17Str {
			m.unsupported("FirstGraphemeClusterInString arguments")
		}
		cls := c17Clusters(a[0].s)
		if len(cls) == 0 {
			return c17V{k: c17Tup, tup: []c17V{c17S(""), c17S(""), c17I(0), a[1]}}
		}
		return c17V{k: c17Tup, tup: []c17V{c17S(cls[0]), c17S(a[0].s[len(cls[0]):]), c17I(int64(c17ClusterWidth(cls[0]))), c17I(0)}}
	}
	nat["strings.Builder.WriteString"] = func(m *c17M, r *c17V, a []c17V) c17V {
		b := c17Hidden(r, "$buf")
		if b == nil || len(a) != 1 || a[0].k != c17Str {
			m.unsupported("strings.Builder.WriteString")
		}
		*b = c17S(b.s + a[0].s)
		return c17V{k: c17Tup, tup: []c17V{c17I(int64(len(a[0].s))), {}}}
	}
	nat["strings.Builder.WriteRune"] = func(m *c17M, r *c17V, a []c17V) c17V {
		b := c17Hidden(r, "$buf")
		if b == nil || len(a) != 1 || a[0].k != c17Int {
			m.unsupported("strings.Builder.WriteRune")
		}
		*b = c17S(b.s + string(rune(a[0].i)))
		return c17V{k: c17Tup, tup: []c17V{c17I(int64(utf8.RuneLen(rune(a[0].i)))), {}}}
	}
	nat["strings.Builder.String"] = func(m *c17M, r *c17V, a []c17V) c17V {
		b := c17Hidden(r, "$buf")
		if b == nil {
			m.unsupported("strings.Builder.String")
		}
		return c17S(b.s)
	}
	nat["strings.Builder.Len"] = func(m *c17M, r *c17V, a []c17V) c17V {
		b := c17Hidden(r, "$buf")
		if b == nil {
			m.unsupported("strings.Builder.Len")
		}
		return c17I(int64(len(b.s)))
	}
	nat["strings.Builder.Reset"] = func(m *c17M, r *c17V, a []c17V) c17V {
		if b := c17Hidden(r, "$buf"); b != nil {
			*b = c17S("")
		}
		return c17V{}
	}
	nat["golang.org/x/exp/slices.Insert"] = c17SlicesInsert
	nat["slices.Insert"] = c17SlicesInsert
	uni := func(name string, f func(rune) bool) {
		nat["unicode."+name] = func(m *c17M, _ *c17V, a []c17V) c17V {
			if len(a) != 1 || a[0].k != c17Int {
				m.unsupported("unicode.%s argument", name)
			}
			return c17B(f(rune(a[0].i)))
		}
	}
	uni("IsLetter", unicode.IsLetter)
	uni("IsNumber", unicode.IsNumber)
	uni("IsDigit", unicode.IsDigit)
	uni("IsSpace", unicode.IsSpace)
	uni("IsUpper", unicode.IsUpper)
	uni("IsLower", unicode.IsLower)
	uni("IsGraphic", unicode.IsGraphic)
	uni("IsPunct", unicode.IsPunct)
	uni("IsPrint", unicode.IsPrint)
	nat[modPath+".Characters"] = func(m *c17M, _ *c17V, a []c17V) c17V {
		if len(a) != 1 || a[0].k != c17Str {
			m.unsupported("vaxis.Characters argument")
		}
		return m.mkChars(ty, a[0].s)
	}
	nat[modPath+".Key.String"] = func(m *c17M, r *c17V, a []c17V) c17V {
		l := c17Hidden(r, "$label")
		if l == nil || l.k != c17Str {
			m.unsupported("Key.String of a key the driver did not label")
		}
		return *l
	}
	nat[modPath+".Key.Matches"] = func(m *c17M, r *c17V, a []c17V) c17V {
		if r == nil || r.k != c17Stc || len(a) != 2 || a[0].k != c17Int {
			m.unsupported("Key.Matches arguments")
		}
		var mods int64
		for _, e := range a[1].elems() {
			mods |= e.i
		}
		var locks int64
		for _, ln := range []string{"ModCapsLock", "ModNumLock"} {
			if v, ok := c17Const(ty.vx, ln); ok {
				locks |= v
			}
		}
		return c17B(r.st.f["Keycode"].i == a[0].i && r.st.f["Modifiers"].i&^locks == mods&^locks)
	}
	nat[modPath+".Key.MatchString"] = func(m *c17M, r *c17V, a []c17V) c17V {
		if r == nil || r.k != c17Stc || len(a) != 1 || a[0].k != c17Str || m.keys == nil {
			m.unsupported("Key.MatchString arguments")
		}
		code, mods, ok := m.keys.parse(a[0].s)
		var locks int64
		for _, ln := range []string{"ModCapsLock", "ModNumLock"} {
			if v, ok := c17Const(ty.vx, ln); ok {
				locks |= v
			}
		}
		return c17B(ok && r.st.f["Keycode"].i == code && r.st.f["Modifiers"].i&^locks == mods)
	}
	noop := func(m *c17M, _ *c17V, a []c17V) c17V { return c17V{} }
	nat[modPath+".Window.SetCell"] = noop
	nat[modPath+".Window.SetStyle"] = noop
	nat[modPath+".Window.Fill"] = noop
	nat[modPath+".Window.Clear"] = noop
	nat[modPath+".Window.ShowCursor"] = func(m *c17M, _ *c17V, a []c17V) c17V {
		if len(a) < 2 || a[0].k != c17Int || a[1].k != c17Int {
			m.unsupported("ShowCursor arguments")
		}
		m.log = append(m.log, fmt.Sprintf("cursor %d,%d", a[0].i, a[1].i))
		return c17V{}
	}
}

func c17SlicesInsert(m *c17M, _ *c17V, a []c17V) c17V {
	if len(a) != 3 || a[1].k != c17Int {
		m.unsupported("slices.Insert arguments")
	}
	s, vs := a[0], a[2]
	if s.k == c17Nil {
		s = c17V{k: c17Slc, sl: &c17Slice{}}
	}
	if s.k != c17Slc {
		m.unsupported("slices.Insert on %s", s)
	}
	n, i := s.sl.n, int(a[1].i)
	if a[1].i < 0 || a[1].i > int64(n) {
		m.rtPanic("slices.Insert: slice bounds out of range [%d:] with length %d", a[1].i, n)
	}
	var all []c17V
	for _, e := range s.elems()[:i] {
		all = append(all, e.clone())
	}
	for _, e := range vs.elems() {
		all = append(all, e.clone())
	}
	for _, e := range s.elems()[i:] {
		all = append(all, e.clone())
	}
	if len(all) <= s.sl.c && s.sl.arr != nil {
		copy((*s.sl.arr)[s.sl.off:], all)
		return c17V{k: c17Slc, sl: &c17Slice{arr: s.sl.arr, off: s.sl.off, n: len(all), c: s.sl.c}, typ: s.typ}
	}
	r := c17NewSlice(all)
	r.typ = s.typ
	return r
}

// c17Call interprets fi on a receiver with arguments and returns results, callback log and abort.
func (m *c17M) c17Call(fi *FuncInfo, recv c17V, args ...c17V) (ret []c17V, log []string, ab *c17Abort) {
	m.log = nil
	ab = m.run(func() { ret = m.callDecl(fi, &recv, args) })
	return ret, m.log, ab
}

func c17FieldNames(t types.Type) map[string]bool {
	out := map[string]bool{}
	if t == nil {
		return out
	}
	if st, ok := t.Underlying().(*types.Struct); ok {
		for i := 0; i < st.NumFields(); i++ {
			out[st.Field(i).Name()] = true
		}
	}
	return out
}

// c17Verdict accumulates the outcome of the runs of one obligation.
type c17Verdict struct {
	runs    int
	witness string // first mismatch
	undec   string // first unsupported construct
}

func (v *c17Verdict) abort(ab *c17Abort, ctx string) bool {
	if ab == nil {
		return false
	}
	switch ab.kind {
	case "unsupported":
		if v.undec == "" {
			v.undec = ab.msg + " (" + ctx + ")"
		}
	case "panic":
		v.fail("%s: run-time panic: %s", ctx, ab.msg)
	default:
		v.fail("%s: %s", ctx, ab.msg)
	}
	return true
}

func (v *c17Verdict) fail(format string, a ...any) {
	if v.witness == "" {
		v.witness = fmt.Sprintf(format, a...)
	}
}

func (v *c17Verdict) record(c *Ctx, rule, key string, pos token.Pos, okText string) {
	switch {
	case v.witness != "":
		c.bad(rule, key, pos, "%s", v.witness)
	case v.undec != "":
		c.undecided(rule, key, pos, "the interpreter does not support a construct on this path: %s", v.undec)
	case v.runs == 0:
		c.undecided(rule, key, pos, "no run was made")
	default:
		c.ok(rule, key, pos, "%s (%d interpreted runs agree with the ideal editor)", okText, v.runs)
	}
}

// c17Keys builds key events the way the decoder would (Keycode, Modifiers, Text, EventType) and knows the
// textual form Key.String() gives them: modifier prefixes in String()'s order, then the key's name from the
// library's own keyNames table (read from the source), else the rune.
type c17Keys struct {
	m        *c17M
	ty       *c17Types
	names    map[int64]string
	byName   map[string]int64
	mods     []c17Mod
	fromRepo bool
}

type c17Mod struct {
	name string
	bit  int64
}

func c17NewKeys(m *c17M, ty *c17Types) *c17Keys {
	k := &c17Keys{m: m, ty: ty, names: map[int64]string{}, byName: map[string]int64{}}
	for _, mn := range []string{"Meta", "Hyper", "Super", "Ctrl", "Alt", "Shift"} {
		if v, ok := c17Const(ty.vx, "Mod"+mn); ok {
			k.mods = append(k.mods, c17Mod{mn, v})
		}
	}
	// the library's table
	if tv, ok := ty.vx.Types.Scope().Lookup("keyNames").(*types.Var); ok {
		var tbl c17V
		if ab := m.run(func() {
			if cell := m.pkgVar(tv); cell != nil {
				tbl = *cell
			}
		}); ab == nil && tbl.k == c17Slc {
			for _, e := range tbl.elems() {
				if e.k != c17Stc {
					continue
				}
				code, name, okc, okn := int64(0), "", false, false
				for _, f := range e.st.f {
					switch f.k {
					case c17Int:
						code, okc = f.i, true
					case c17Str:
						name, okn = f.s, true
					}
				}
				if okc && okn {
					if _, dup := k.names[code]; !dup {
						k.names[code] = name
					}
					if _, dup := k.byName[strings.ToLower(name)]; !dup {
						k.byName[strings.ToLower(name)] = code
					}
				}
			}
			k.fromRepo = len(k.names) > 0
		}
	}
	if !k.fromRepo {
		for cn, name := range map[string]string{"KeyHome": "Home", "KeyEnd": "End", "KeyLeft": "Left", "KeyRight": "Right", "KeyUp": "Up", "KeyDown": "Down",
			"KeyDelete": "Delete", "KeyBackspace": "BackSpace", "KeyEnter": "Enter", "KeyTab": "Tab", "KeyEsc": "Escape"} {
			if v, ok := c17Const(ty.vx, cn); ok {
				k.names[v] = name
				k.byName[strings.ToLower(name)] = v
			}
		}
	}
	return k
}

func (k *c17Keys) format(code, mods int64) string {
	var sb strings.Builder
	for _, md := range k.mods {
		if mods&md.bit != 0 {
			sb.WriteString(md.name + "+")
		}
	}
	if n, ok := k.names[code]; ok {
		return sb.String() + n
	}
	// Key.String prints no prefix for the lock modifiers; with CapsLock it prints the upper-case rune
	if caps, ok := c17Const(k.ty.vx, "ModCapsLock"); ok && mods&caps != 0 {
		return sb.String() + string(unicode.ToUpper(rune(code)))
	}
	return sb.String() + string(rune(code))
}

// parse reads "Ctrl+a", "BackSpace", "Ctrl+Right" (the syntax of Key.String() and MatchString).
func (k *c17Keys) parse(label string) (code, mods int64, ok bool) {
	parts := strings.Split(label, "+")
	key := parts[len(parts)-1]
	pre := parts[:len(parts)-1]
	if key == "" && len(pre) > 0 && pre[len(pre)-1] == "" {
		key, pre = "+", pre[:len(pre)-1]
	}
	for _, p := range pre {
		found := false
		for _, md := range k.mods {
			if strings.EqualFold(md.name, p) {
				mods |= md.bit
				found = true
			}
		}
		if !found {
			return 0, 0, false
		}
	}
	if utf8.RuneCountInString(key) == 1 {
		r, _ := utf8.DecodeRuneInString(key)
		return int64(r), mods, true
	}
	if c, ok := k.byName[strings.ToLower(key)]; ok {
		return c, mods, true
	}
	return 0, 0, false
}

func (k *c17Keys) mk(code, mods int64, text string, evType int64) c17V {
	v := k.m.zero(k.ty.keyT, 0)
	*v.st.f["Keycode"] = c17I(code)
	*v.st.f["Modifiers"] = c17I(mods)
	*v.st.f["Text"] = c17S(text)
	*v.st.f["EventType"] = c17I(evType)
	lv := c17S(k.format(code, mods))
	v.st.f["$label"] = &lv
	return v
}

// constBindings lists the (key, modifiers) pairs a function tests with Key.Matches / Key.MatchString / a
// switch over Key.String() using constant arguments (used only to find bindings outside the reference table).
func (k *c17Keys) constBindings(fi *FuncInfo) (out []c17Binding) {
	info := fi.Pkg.TypesInfo
	seen := map[[2]int64]bool{}
	add := func(code, mods int64) {
		if !seen[[2]int64{code, mods}] {
			seen[[2]int64{code, mods}] = true
			out = append(out, c17Binding{code: code, mods: mods})
		}
	}
	strConst := func(e ast.Expr) (string, bool) {
		if tv, ok := info.Types[e]; ok && tv.Value != nil && tv.Value.Kind() == constant.String {
			return constant.StringVal(tv.Value), true
		}
		return "", false
	}
	ast.Inspect(fi.Decl.Body, func(n ast.Node) bool {
		switch t := n.(type) {
		case *ast.CallExpr:
			fn := calleeOf(info, t)
			if fn == nil {
				return true
			}
			switch repoName(fn) {
			case "vaxis.Key.Matches":
				if len(t.Args) == 0 {
					return true
				}
				code, ok := constInt(info, t.Args[0])
				var mods int64
				for _, a := range t.Args[1:] {
					v, ok2 := constInt(info, a)
					ok = ok && ok2
					mods |= v
				}
				if ok {
					add(code, mods)
				}
			case "vaxis.Key.MatchString":
				if len(t.Args) == 1 {
					if s, ok := strConst(t.Args[0]); ok {
						if code, mods, ok := k.parse(s); ok {
							add(code, mods)
						}
					}
				}
			}
		case *ast.SwitchStmt:
			if t.Tag == nil {
				return true
			}
			call, ok := unparen(t.Tag).(*ast.CallExpr)
			if !ok {
				return true
			}
			if fn := calleeOf(info, call); fn == nil || repoName(fn) != "vaxis.Key.String" {
				return true
			}
			for _, cl := range t.Body.List {
				for _, e := range cl.(*ast.CaseClause).List {
					if s, ok := strConst(e); ok {
						if code, mods, ok := k.parse(s); ok {
							add(code, mods)
						}
					}
				}
			}
		}
		return true
	})
	return out
}

// ---- TextField -------------------------------------------------------------

type c17Binding struct {
	code, mods int64
	op         string
}

func c17SemTextField(c *Ctx, m *c17M, ty *c17Types) {
	const rule = "C17.e"
	const pkgName = "vxfw/textfield"
	pk := c.P.Pkg(pkgName)
	tfT := c17Named(pk, "TextField")
	he := c.P.Func(pkgName + ".(*TextField).HandleEvent")
	fields := c17FieldNames(tfT)
	if tfT == nil || he == nil || !fields["Value"] || !fields["cursor"] || !fields["n"] || !fields["OnChange"] || !fields["OnSubmit"] {
		c.undecided(rule, pkgName+".TextField", token.NoPos, "TextField, its fields Value/cursor/n/OnChange/OnSubmit or HandleEvent not found")
		return
	}
	vx := ty.vx
	kc := func(n string) int64 { v, _ := c17Const(vx, n); return v }
	ctrl := kc("ModCtrl")
	ref := []c17Binding{
		{'a', ctrl, "home"}, {kc("KeyHome"), 0, "home"}, {'e', ctrl, "end"}, {kc("KeyEnd"), 0, "end"},
		{'f', ctrl, "right"}, {kc("KeyRight"), 0, "right"}, {'b', ctrl, "left"}, {kc("KeyLeft"), 0, "left"},
		{'d', ctrl, "delRight"}, {kc("KeyDelete"), 0, "delRight"}, {'h', ctrl, "delLeft"}, {kc("KeyBackspace"), 0, "delLeft"},
		{'k', ctrl, "killEnd"}, {kc("KeyEnter"), 0, "submit"},
	}
	keys := m.keys
	code := keys.constBindings(he) // only to find bindings outside the reference table
	values := []string{"", "a", "ab", "abc", "a世c", "e\u0301b", "a\u200bb"}
	if c.Tier == "thorough" {
		values = append(values, "abcdefgh", "世e\u0301世x", "  ab  ", "e\u0301e\u0301e\u0301")
	}
	newTF := func(val string, cur int, hooks bool) c17V {
		obj := m.zero(tfT, 0)
		*obj.st.f["Value"] = c17S(val)
		*obj.st.f["cursor"] = c17I(int64(cur))
		*obj.st.f["n"] = c17I(int64(len(c17Clusters(val))))
		if hooks {
			*obj.st.f["OnChange"] = c17V{k: c17Fun, fn: &c17Fn{name: "OnChange", native: func(m *c17M, a []c17V) c17V {
				m.log = append(m.log, "OnChange("+a[0].String()+")")
				return c17V{k: c17Tup, tup: []c17V{c17Opaque("cmd"), {}}}
			}}}
			*obj.st.f["OnSubmit"] = c17V{k: c17Fun, fn: &c17Fn{name: "OnSubmit", native: func(m *c17M, a []c17V) c17V {
				m.log = append(m.log, "OnSubmit("+a[0].String()+")")
				return c17V{k: c17Tup, tup: []c17V{c17Opaque("cmd"), {}}}
			}}}
		}
		return c17V{k: c17Ptr, ptr: &obj}
	}
	mkKey := keys.mk
	state := func(p c17V) string {
		o := p.ptr.st.f
		return fmt.Sprintf("Value=%s cursor=%s n=%s", o["Value"], o["cursor"], o["n"])
	}
	// compare the object with the ideal editor state; invOnly checks only n and the cursor range
	cmp := func(p c17V, want c17Ed, invOnly bool) string {
		o := p.ptr.st.f
		val, cur, n := o["Value"], o["cursor"], o["n"]
		if val.k != c17Str || cur.k != c17Int || n.k != c17Int {
			return "state is not computable: " + state(p)
		}
		cnt := int64(len(c17Clusters(val.s)))
		switch {
		case n.i != cnt:
			return fmt.Sprintf("cached count n=%d but Value %q has %d graphemes", n.i, val.s, cnt)
		case cur.i < 0 || cur.i > cnt:
			return fmt.Sprintf("cursor=%d outside the text (%d graphemes)", cur.i, cnt)
		}
		if invOnly {
			return ""
		}
		if val.s != want.text() || cur.i != int64(want.cur) {
			return fmt.Sprintf("got Value=%q cursor=%d, the ideal editor has %q cursor=%d", val.s, cur.i, want.text(), want.cur)
		}
		return ""
	}
	eachState := func(f func(val string, cur int, hooks bool)) {
		for _, val := range values {
			for cur := 0; cur <= len(c17Clusters(val)); cur++ {
				f(val, cur, true)
				f(val, cur, false)
			}
		}
	}
	runKey := func(v *c17Verdict, key c17V, desc, op, arg string) {
		eachState(func(val string, cur int, hooks bool) {
			p := newTF(val, cur, hooks)
			ctx := fmt.Sprintf("Value=%q cursor=%d, %s", val, cur, desc)
			_, log, ab := m.c17Call(he, p, key, c17I(0))
			v.runs++
			if v.abort(ab, ctx) {
				return
			}
			start := c17Ed{cl: c17Clusters(val), cur: cur}
			switch op {
			case "submit":
				if d := cmp(p, start, true); d != "" {
					v.fail("%s: %s", ctx, d)
				}
				want := []string{}
				if hooks {
					want = []string{"OnSubmit(" + c17S(val).String() + ")"}
				}
				if strings.Join(log, ";") != strings.Join(want, ";") {
					v.fail("%s: callbacks %v, expected %v (OnSubmit exactly once with the line as it was when Enter was pressed)", ctx, log, want)
				}
				return
			case "":
				if d := cmp(p, start, true); d != "" {
					v.fail("%s: %s", ctx, d)
				}
			default:
				want := start.apply(op, arg)
				if d := cmp(p, want, false); d != "" {
					v.fail("%s: %s", ctx, d)
				}
			}
			// OnChange exactly when the value changed
			now := p.ptr.st.f["Value"]
			want := []string{}
			if hooks && now.k == c17Str && now.s != val {
				want = []string{"OnChange(" + now.String() + ")"}
			}
			if strings.Join(log, ";") != strings.Join(want, ";") {
				v.fail("%s: callbacks %v, expected %v (OnChange exactly when the value changes, with the new value)", ctx, log, want)
			}
		})
	}
	press, _ := c17Const(vx, "EventPress")
	release, okRel := c17Const(vx, "EventRelease")
	for _, b := range ref {
		name := keys.format(b.code, b.mods)
		key := fmt.Sprintf("%s/%s = %s", he.Name, name, c17OpText[b.op])
		v := &c17Verdict{}
		runKey(v, mkKey(b.code, b.mods, "", press), "key "+name, b.op, "")
		v.record(c, rule, key, he.Decl.Pos(), name+" performs: "+c17OpText[b.op])
	}
	for _, b := range code {
		known := false
		for _, r := range ref {
			if r.code == b.code && r.mods == b.mods {
				known = true
			}
		}
		if known {
			continue
		}
		name := keys.format(b.code, b.mods)
		v := &c17Verdict{}
		runKey(v, mkKey(b.code, b.mods, "", press), "key "+name, "", "")
		v.record(c, rule, fmt.Sprintf("%s/%s keeps n and the cursor within the text", he.Name, name), he.Decl.Pos(), "binding outside the reference table: invariants only")
	}
	// typed text
	{
		v := &c17Verdict{}
		for _, txt := range []string{"x", "世", "e\u0301", "xy", "\U0001F1FA\U0001F1F8"} {
			r, _ := utf8.DecodeRuneInString(txt)
			runKey(v, mkKey(int64(r), 0, txt, press), fmt.Sprintf("typed %q", txt), "insert", txt)
		}
		// CapsLock / NumLock are reported as modifiers on every key while the lock is on (kitty protocol): still typed text
		for _, lk := range c17LockVariants(vx) {
			runKey(v, mkKey('x', lk.mods, lk.text, press), fmt.Sprintf("typed %q with %s", lk.text, lk.name), "insert", lk.text)
		}
		v.record(c, rule, he.Name+"/typed text appears once at the cursor", he.Decl.Pos(), "narrow, wide and multi-codepoint text is inserted at the cursor and the cursor advances by its graphemes")
	}
	{
		v := &c17Verdict{}
		runKey(v, mkKey(0x301, 0, "\u0301", press), "typed U+0301 (combining acute, delivered as its own key)", "insert", "\u0301")
		v.record(c, rule, he.Name+"/typed text that extends the grapheme before the cursor", he.Decl.Pos(), "a combining mark joins the previous grapheme and the cursor stays within the text")
	}
	if okRel {
		v := &c17Verdict{}
		runKey(v, mkKey('x', 0, "x", release), "release of x", "none", "")
		v.record(c, rule, he.Name+"/key release changes nothing", he.Decl.Pos(), "release events are ignored")
	}
	// C17.h: which key event types are keystrokes. A held key is delivered as one press followed by repeat events
	// (kitty protocol); every repeat is a keystroke of its own, a release is none.
	if repeat, ok := c17Const(vx, "EventRepeat"); ok {
		v := &c17Verdict{}
		for _, b := range ref {
			runKey(v, mkKey(b.code, b.mods, "", repeat), "repeat event of "+keys.format(b.code, b.mods), b.op, "")
		}
		for _, txt := range []string{"x", "世", "e\u0301"} {
			r, _ := utf8.DecodeRuneInString(txt)
			runKey(v, mkKey(int64(r), 0, txt, repeat), fmt.Sprintf("repeat event typing %q", txt), "insert", txt)
		}
		v.record(c, "C17.h", he.Name+"/a repeated key (EventRepeat) is a keystroke: same step as a press", he.Decl.Pos(), "every binding and typed text acts on a repeat event exactly as on a press")
	}
	if okRel {
		v := &c17Verdict{}
		for _, b := range ref {
			runKey(v, mkKey(b.code, b.mods, "", release), "release event of "+keys.format(b.code, b.mods), "none", "")
		}
		v.record(c, "C17.h", he.Name+"/a released key (EventRelease) is not a keystroke", he.Decl.Pos(), "no binding edits, moves the cursor, or fires a callback on a release event")
	}
	// exported editing methods
	type api struct {
		name string
		op   string
		args func(n int) [][]c17V
		arg  string
	}
	none := func(int) [][]c17V { return [][]c17V{nil} }
	apis := []api{
		{"DeleteCharRightOfCursor", "delRight", none, ""},
		{"DeleteCharLeftOfCursor", "delLeft", none, ""},
		{"DeleteCursorToEndOfLine", "killEnd", none, ""},
		{"Reset", "reset", none, ""},
		{"InsertStringAtCursor", "insert", func(int) [][]c17V {
			return [][]c17V{{c17S("x")}, {c17S("世")}, {c17S("e\u0301")}, {c17S("xy")}, {c17S("")}}
		}, ""},
		{"CursorTo", "cursorTo", func(n int) [][]c17V {
			var out [][]c17V
			for i := 0; i <= n+2; i++ {
				out = append(out, []c17V{c17I(int64(i))})
			}
			return out
		}, ""},
	}
	for _, a := range apis {
		fi := c.P.Func(pkgName + ".(*TextField)." + a.name)
		if fi == nil {
			continue // the method set is the widget's own; a method that does not exist has nothing to get wrong
		}
		v := &c17Verdict{}
		eachState(func(val string, cur int, hooks bool) {
			if !hooks {
				return
			}
			for _, args := range a.args(len(c17Clusters(val))) {
				p := newTF(val, cur, false)
				ctx := fmt.Sprintf("Value=%q cursor=%d, %s(%s)", val, cur, a.name, c17V{k: c17Tup, tup: args}.String())
				_, _, ab := m.c17Call(fi, p, args...)
				v.runs++
				if v.abort(ab, ctx) {
					continue
				}
				start := c17Ed{cl: c17Clusters(val), cur: cur}
				var want c17Ed
				switch a.op {
				case "insert":
					want = start.apply("insert", args[0].s)
				case "cursorTo":
					want = start
					want.cur = int(args[0].i)
					if want.cur > len(start.cl) {
						want.cur = len(start.cl)
					}
				default:
					want = start.apply(a.op, "")
				}
				if d := cmp(p, want, false); d != "" {
					v.fail("%s: %s", ctx, d)
				}
			}
		})
		v.record(c, rule, fi.Name+"/one step equals the ideal editor", fi.Decl.Pos(), a.name+" leaves Value, cursor and n as the ideal editor would")
	}
	// the counting helper really counts clusters (used by rule a)
}

// c17CountingFuncs returns the package functions func(string) <integer> that the interpreter evaluates to
// the number of grapheme clusters on every string of the domain.
func c17CountingFuncs(c *Ctx, m *c17M, pkgName string) map[*types.Func]bool {
	out := map[*types.Func]bool{}
	for _, fi := range c.P.FuncsIn(pkgName) {
		sig := fi.Obj.Type().(*types.Signature)
		if sig.Recv() != nil || sig.Params().Len() != 1 || sig.Results().Len() != 1 || sig.Variadic() {
			continue
		}
		pb, ok := sig.Params().At(0).Type().Underlying().(*types.Basic)
		rb, ok2 := sig.Results().At(0).Type().Underlying().(*types.Basic)
		if !ok || !ok2 || pb.Info()&types.IsString == 0 || rb.Info()&types.IsInteger == 0 {
			continue
		}
		good := true
		for _, s := range []string{"", "a", "ab", "a世c", "e\u0301b", "e\u0301", "世世世世", "a\U0001F1FA\U0001F1F8b"} {
			var ret []c17V
			ab := m.run(func() { ret = m.callDecl(fi, nil, []c17V{c17S(s)}) })
			if ab != nil || len(ret) != 1 || ret[0].k != c17Int || ret[0].i != int64(len(c17Clusters(s))) {
				good = false
				break
			}
		}
		if good {
			out[fi.Obj] = true
		}
	}
	return out
}

// ---- textinput.Model ---------------------------------------------------------

func c17SemTextInput(c *Ctx, m *c17M, ty *c17Types) {
	const rule = "C17.f"
	const pkgName = "widgets/textinput"
	pk := c.P.Pkg(pkgName)
	mT := c17Named(pk, "Model")
	up := c.P.Func(pkgName + ".(*Model).Update")
	fields := c17FieldNames(mT)
	if mT == nil || up == nil || !fields["content"] || !fields["cursor"] || !fields["paste"] {
		c.undecided(rule, pkgName+".Model", token.NoPos, "Model, its fields content/cursor/paste or Update not found")
		return
	}
	vx := ty.vx
	keys := m.keys
	kc := func(n string) int64 { v, _ := c17Const(vx, n); return v }
	ctrl, alt := kc("ModCtrl"), kc("ModAlt")
	// reference bindings by physical key; the case labels they must reach are what Key.String() gives them
	ref := []c17Binding{
		{'a', ctrl, "home"}, {kc("KeyHome"), 0, "home"}, {'e', ctrl, "end"}, {kc("KeyEnd"), 0, "end"},
		{'f', ctrl, "right"}, {kc("KeyRight"), 0, "right"}, {'b', ctrl, "left"}, {kc("KeyLeft"), 0, "left"},
		{'f', alt, "wordFwd"}, {kc("KeyRight"), ctrl, "wordFwd"}, {'b', alt, "wordBack"}, {kc("KeyLeft"), ctrl, "wordBack"},
		{'d', ctrl, "delRight"}, {kc("KeyDelete"), 0, "delRight"}, {'k', ctrl, "killEnd"}, {'u', ctrl, "killStart"},
		{'h', ctrl, "delLeft"}, {kc("KeyBackspace"), 0, "delLeft"}, {'w', ctrl, "killWordBack"},
	}
	code := keys.constBindings(up) // only to find bindings outside the reference table
	contents := []string{"", "a", "ab", "a b", "ab cd", " a", "a  b ", "世b", "e\u0301b", "ab,cd", "a\u200bb"}
	if c.Tier == "thorough" {
		contents = append(contents, "abc def ghi", "a,b;c d", "世 世e\u0301", "  ", "1a 2b", "a\tb")
	}
	newModel := func(content string, cur int) c17V {
		obj := m.zero(mT, 0)
		*obj.st.f["content"] = m.mkChars(ty, content)
		*obj.st.f["cursor"] = c17I(int64(cur))
		return c17V{k: c17Ptr, ptr: &obj}
	}
	press, _ := c17Const(vx, "EventPress")
	release, _ := c17Const(vx, "EventRelease")
	paste, okPaste := c17Const(vx, "EventPaste")
	// mkKey builds the event for a label in Key.String() syntax ("Ctrl+x", "x")
	mkKey := func(label, text string, evType int64) c17V {
		code, mods, ok := keys.parse(label)
		if !ok {
			r, _ := utf8.DecodeRuneInString(label)
			code, mods = int64(r), 0
		}
		return keys.mk(code, mods, text, evType)
	}
	graphemes := func(p c17V) ([]string, bool) {
		ct := p.ptr.st.f["content"]
		if ct.k != c17Slc && ct.k != c17Nil {
			return nil, false
		}
		var out []string
		for _, e := range ct.elems() {
			if e.k != c17Stc || e.st.f["Grapheme"].k != c17Str {
				return nil, false
			}
			g := e.st.f["Grapheme"].s
			w := e.st.f["Width"]
			if w.k != c17Int || w.i != int64(c17ClusterWidth(g)) {
				return nil, false
			}
			out = append(out, g)
		}
		return out, true
	}
	cmp := func(p c17V, want c17Ed, invOnly bool) string {
		got, ok := graphemes(p)
		cur := p.ptr.st.f["cursor"]
		if !ok || cur.k != c17Int {
			return "state is not computable: content=" + p.ptr.st.f["content"].String()
		}
		if cur.i < 0 || cur.i > int64(len(got)) {
			return fmt.Sprintf("cursor=%d outside the text (%d graphemes)", cur.i, len(got))
		}
		if invOnly {
			return ""
		}
		if strings.Join(got, "|") != strings.Join(want.cl, "|") || cur.i != int64(want.cur) {
			return fmt.Sprintf("got %q cursor=%d, the ideal editor has %q cursor=%d", strings.Join(got, ""), cur.i, want.text(), want.cur)
		}
		return ""
	}
	eachState := func(f func(content string, cur int)) {
		for _, ct := range contents {
			for cur := 0; cur <= len(c17Clusters(ct)); cur++ {
				f(ct, cur)
			}
		}
	}
	runOne := func(v *c17Verdict, ev c17V, desc, op, arg string) {
		eachState(func(ct string, cur int) {
			p := newModel(ct, cur)
			ctx := fmt.Sprintf("content=%q cursor=%d, %s", ct, cur, desc)
			_, _, ab := m.c17Call(up, p, ev)
			v.runs++
			if v.abort(ab, ctx) {
				return
			}
			start := c17Ed{cl: c17Clusters(ct), cur: cur}
			if op == "" {
				if d := cmp(p, start, true); d != "" {
					v.fail("%s: %s", ctx, d)
				}
				return
			}
			if d := cmp(p, start.apply(op, arg), false); d != "" {
				v.fail("%s: %s", ctx, d)
			}
		})
	}
	for _, b := range ref {
		l := keys.format(b.code, b.mods)
		key := fmt.Sprintf("%s/%s = %s", up.Name, l, c17OpText[b.op])
		v := &c17Verdict{}
		runOne(v, keys.mk(b.code, b.mods, "", press), "key "+l, b.op, "")
		v.record(c, rule, key, up.Decl.Pos(), l+" performs: "+c17OpText[b.op])
	}
	for _, b := range code {
		known := false
		for _, r := range ref {
			if r.code == b.code && r.mods == b.mods {
				known = true
			}
		}
		if known {
			continue
		}
		l := keys.format(b.code, b.mods)
		v := &c17Verdict{}
		runOne(v, keys.mk(b.code, b.mods, "", press), "key "+l, "", "")
		v.record(c, rule, fmt.Sprintf("%s/%s keeps the cursor within the text", up.Name, l), up.Decl.Pos(), "binding outside the reference table: invariant only")
	}
	{
		v := &c17Verdict{}
		for _, txt := range []string{"x", "世", "e\u0301", "xy", "\U0001F1FA\U0001F1F8"} {
			runOne(v, mkKey(txt, txt, press), fmt.Sprintf("typed %q", txt), "insert", txt)
		}
		runOne(v, mkKey("Shift+X", "X", press), `typed "X" with Shift`, "insert", "X")
		// CapsLock / NumLock are reported as modifiers on every key while the lock is on (kitty protocol): still typed text
		for _, lk := range c17LockVariants(vx) {
			runOne(v, keys.mk('x', lk.mods, lk.text, press), fmt.Sprintf("typed %q with %s", lk.text, lk.name), "insert", lk.text)
		}
		v.record(c, rule, up.Name+"/typed text appears once at the cursor", up.Decl.Pos(), "narrow, wide and multi-codepoint text is inserted at the cursor and the cursor advances by its graphemes")
	}
	{
		v := &c17Verdict{}
		// chords with Ctrl, Alt or Super that are not bindings type nothing, with or without a lock modifier
		// (Ctrl+z / Alt+z / Super+z are in no table; if one becomes a binding it is judged as a binding instead)
		bound := map[[2]int64]bool{}
		for _, b := range append(append([]c17Binding{}, ref...), code...) {
			bound[[2]int64{b.code, b.mods}] = true
		}
		for _, mn := range []string{"ModCtrl", "ModAlt", "ModSuper"} {
			mod, ok := c17Const(vx, mn)
			if !ok || bound[[2]int64{'z', mod}] {
				continue
			}
			runOne(v, keys.mk('z', mod, "z", press), "chord "+keys.format('z', mod)+" carrying the text \"z\"", "none", "")
			for _, lk := range c17LockVariants(vx) {
				if lk.mods&kc("ModShift") != 0 {
					continue
				}
				runOne(v, keys.mk('z', mod|lk.mods, "z", press), "chord "+keys.format('z', mod)+" with "+lk.name+" carrying the text \"z\"", "none", "")
			}
		}
		runOne(v, mkKey("\u0301", "\u0301", press), "typed U+0301", "", "")
		runOne(v, mkKey("x", "x", release), "release of x", "none", "")
		v.record(c, rule, up.Name+"/release changes nothing, chords type nothing", up.Decl.Pos(), "release ignored; unbound Ctrl/Alt/Super chords carrying text insert nothing")
	}
	// C17.h: which key event types are keystrokes (press and repeat; release is none; paste is buffered, see above)
	if repeat, ok := c17Const(vx, "EventRepeat"); ok {
		v := &c17Verdict{}
		for _, b := range ref {
			runOne(v, keys.mk(b.code, b.mods, "", repeat), "repeat event of "+keys.format(b.code, b.mods), b.op, "")
		}
		for _, txt := range []string{"x", "世", "e\u0301"} {
			r, _ := utf8.DecodeRuneInString(txt)
			runOne(v, keys.mk(int64(r), 0, txt, repeat), fmt.Sprintf("repeat event typing %q", txt), "insert", txt)
		}
		v.record(c, "C17.h", up.Name+"/a repeated key (EventRepeat) is a keystroke: same step as a press", up.Decl.Pos(), "every binding and typed text acts on a repeat event exactly as on a press")
	}
	if _, ok := c17Const(vx, "EventRelease"); ok {
		v := &c17Verdict{}
		for _, b := range ref {
			runOne(v, keys.mk(b.code, b.mods, "", release), "release event of "+keys.format(b.code, b.mods), "none", "")
		}
		v.record(c, "C17.h", up.Name+"/a released key (EventRelease) is not a keystroke", up.Decl.Pos(), "no binding edits or moves the cursor on a release event")
	}
	// paste brackets: (PasteStart,) keys of type paste accumulate, the end event inserts the text once at the cursor and
	// advances the cursor by its grapheme clusters (not runes, not bytes), a second end event inserts nothing, and a
	// second paste (buffer reuse) behaves like the first. Payloads carry wide, multi-codepoint and flag graphemes, also
	// split over several keys; every cursor position of every content of the domain is a start state.
	if okPaste && ty.pasteEndT != nil && fields["paste"] {
		const flag = "\U0001F1FA\U0001F1F8"
		payloads := [][]string{
			{"x世", "y"},
			{"e\u0301"},
			{"e", "\u0301"}, // one grapheme delivered as two pasted keys
			{"a", "e\u0301", "世"},
			{flag},
			{"e\u0301" + flag + "z"},
			{"世e\u0301"},
		}
		end := m.zero(ty.pasteEndT, 0)
		end.typ = ty.pasteEndT
		var startEv *c17V
		if st := c17Named(vx, "PasteStartEvent"); st != nil {
			ev := m.zero(st, 0)
			ev.typ = st
			startEv = &ev
		}
		v := &c17Verdict{}
		for pi, pl := range payloads {
			second := payloads[(pi+1)%len(payloads)]
			eachState(func(ct string, cur int) {
				p := newModel(ct, cur)
				ctx := fmt.Sprintf("content=%q cursor=%d, paste of %q", ct, cur, strings.Join(pl, ""))
				ed := c17Ed{cl: c17Clusters(ct), cur: cur}
				step := func(ev c17V, want c17Ed, what string) bool {
					_, _, ab := m.c17Call(up, p, ev)
					v.runs++
					if v.abort(ab, ctx+" ("+what+")") {
						return false
					}
					if d := cmp(p, want, false); d != "" {
						v.fail("%s (%s): %s", ctx, what, d)
						return false
					}
					return true
				}
				pasteOnce := func(keys []string, tag string) bool {
					if startEv != nil && !step(*startEv, ed, tag+"paste start must not edit") {
						return false
					}
					for _, k := range keys {
						r, _ := utf8.DecodeRuneInString(k)
						if !step(mkKey(string(r), k, paste), ed, tag+"a pasted key must not edit before the paste ends") {
							return false
						}
					}
					ed = ed.apply("insert", strings.Join(keys, ""))
					return step(end, ed, tag+"paste end inserts the text once and advances the cursor by its graphemes") &&
						step(end, ed, tag+"a second paste end inserts nothing")
				}
				if !pasteOnce(pl, "") {
					return
				}
				ed = ed.apply("insert", "z")
				if !step(mkKey("z", "z", press), ed, "the character typed after the paste lands at the cursor") {
					return
				}
				if !pasteOnce(second, fmt.Sprintf("second paste of %q: ", strings.Join(second, ""))) {
					return
				}
				ed = ed.apply("insert", "q")
				step(mkKey("q", "q", press), ed, "the character typed after the second paste lands at the cursor")
			})
		}
		v.record(c, rule, up.Name+"/paste brackets insert the pasted text exactly once", up.Decl.Pos(), "pasted keys accumulate, PasteEndEvent inserts them once at the cursor, advances by graphemes and clears the buffer; a second paste behaves the same")
	}
	// SetContent, String, CursorPosition
	if sc := c.P.Func(pkgName + ".(*Model).SetContent"); sc != nil {
		v := &c17Verdict{}
		strFn := c.P.Func(pkgName + ".(*Model).String")
		posFn := c.P.Func(pkgName + ".(*Model).CursorPosition")
		eachState(func(ct string, cur int) {
			for _, nw := range []string{"", "q", "世e\u0301z"} {
				p := newModel(ct, cur)
				ctx := fmt.Sprintf("content=%q cursor=%d, SetContent(%q)", ct, cur, nw)
				_, _, ab := m.c17Call(sc, p, c17S(nw))
				v.runs++
				if v.abort(ab, ctx) {
					continue
				}
				got, ok := graphemes(p)
				if !ok || strings.Join(got, "|") != strings.Join(c17Clusters(nw), "|") {
					v.fail("%s: content is %s", ctx, p.ptr.st.f["content"])
					continue
				}
				if d := cmp(p, c17Ed{}, true); d != "" {
					v.fail("%s: %s", ctx, d)
				}
				if strFn != nil {
					ret, _, ab := m.c17Call(strFn, p)
					if !v.abort(ab, ctx+", String()") && (len(ret) != 1 || ret[0].k != c17Str || ret[0].s != nw) {
						v.fail("%s: String() = %v", ctx, ret)
					}
				}
				if posFn != nil {
					ret, _, ab := m.c17Call(posFn, p)
					if !v.abort(ab, ctx+", CursorPosition()") && (len(ret) != 1 || ret[0].k != c17Int || ret[0].i != p.ptr.st.f["cursor"].i) {
						v.fail("%s: CursorPosition() = %v, cursor = %s", ctx, ret, p.ptr.st.f["cursor"])
					}
				}
			}
		})
		v.record(c, rule, sc.Name+"/content replaced, cursor within the new text, String and CursorPosition agree", sc.Decl.Pos(), "SetContent installs the graphemes of its argument and leaves the cursor inside them")
	}
}

// ---- Draw ----------------------------------------------------------------------

func c17SemDraw(c *Ctx, m *c17M, ty *c17Types) {
	const rule = "C17.g"
	// textinput.Model.Draw
	{
		const pkgName = "widgets/textinput"
		pk := c.P.Pkg(pkgName)
		mT := c17Named(pk, "Model")
		dr := c.P.Func(pkgName + ".(*Model).Draw")
		fields := c17FieldNames(mT)
		if mT == nil || dr == nil || ty.windowT == nil || !fields["content"] || !fields["cursor"] || !fields["prompt"] {
			c.undecided(rule, pkgName+".(*Model).Draw", token.NoPos, "Model.Draw or the fields content/cursor/prompt not found")
		} else {
			margin := int64(4)
			if v, ok := c17Const(pk, "scrolloff"); ok && v >= 0 {
				margin = v
			}
			term, col := &c17Verdict{}, &c17Verdict{}
			// zero-width graphemes at the start, in the middle, doubled and at the end: the cursor column counts width, not graphemes
			drawContents, maxW := []string{"", "ab", "a世c", "abcdefgh", "a\u200bbc", "\u200bab", "ab\u2060", "\u0301ab", "a\x01\ufeffb", "世\u00ade\u0301"}, 16
			if c.Tier == "thorough" {
				drawContents, maxW = append(drawContents, "abcdefghijklmnopqrst", "世世世世世世", "e\u0301e\u0301 x"), 32
			}
			for _, prompt := range []string{"", "> "} {
				for _, ct := range drawContents {
					cls := c17Clusters(ct)
					for cur := 0; cur <= len(cls); cur++ {
						for w := 1; w <= maxW; w++ {
							obj := m.zero(mT, 0)
							*obj.st.f["content"] = m.mkChars(ty, ct)
							*obj.st.f["prompt"] = m.mkChars(ty, prompt)
							*obj.st.f["cursor"] = c17I(int64(cur))
							p := c17V{k: c17Ptr, ptr: &obj}
							win := m.zero(ty.windowT, 0)
							*win.st.f["Width"] = c17I(int64(w))
							*win.st.f["Height"] = c17I(1)
							ctx := fmt.Sprintf("prompt=%q content=%q cursor=%d, Draw on a window %d columns wide", prompt, ct, cur, w)
							_, log, ab := m.c17Call(dr, p, win)
							term.runs++
							if ab != nil {
								if ab.kind == "steps" {
									term.fail("%s: Draw does not return (%s)", ctx, ab.msg)
								} else {
									term.abort(ab, ctx)
								}
								continue
							}
							pw := c17WidthOf(c17Clusters(prompt))
							if int64(pw+c17WidthOf(cls))+margin < int64(w) {
								col.runs++
								want := fmt.Sprintf("cursor %d,0", pw+c17WidthOf(cls[:cur]))
								if strings.Join(log, ";") != want {
									col.fail("%s: drawn %v, expected [%s] (prompt width plus the width of the text before the cursor)", ctx, log, want)
								}
							}
						}
					}
				}
			}
			term.record(c, rule, dr.Name+"/returns for every window width", dr.Decl.Pos(), fmt.Sprintf("Draw terminates for widths 1..%d", maxW))
			col.record(c, rule, dr.Name+"/cursor column when the text fits", dr.Decl.Pos(), "cursor drawn at prompt width + width of the text before the cursor")
		}
	}
	// textfield.TextField.Draw
	{
		const pkgName = "vxfw/textfield"
		pk := c.P.Pkg(pkgName)
		tfT := c17Named(pk, "TextField")
		dr := c.P.Func(pkgName + ".(*TextField).Draw")
		vxfw := c.P.Pkg("vxfw")
		ctxT := c17Named(vxfw, "DrawContext")
		if tfT == nil || dr == nil || ctxT == nil {
			c.undecided(rule, pkgName+".(*TextField).Draw", token.NoPos, "TextField.Draw or vxfw.DrawContext not found")
			return
		}
		v := &c17Verdict{}
		for _, val := range []string{"", "ab", "a世c", "e\u0301b世", "a\u200bbc", "\u200bab", "ab\u2060", "\u0301ab", "a\x01\ufeffb", "世\u00ade\u0301"} {
			cls := c17Clusters(val)
			for cur := 0; cur <= len(cls); cur++ {
				for w := 0; w <= 8; w++ {
					obj := m.zero(tfT, 0)
					*obj.st.f["Value"] = c17S(val)
					*obj.st.f["cursor"] = c17I(int64(cur))
					*obj.st.f["n"] = c17I(int64(len(cls)))
					p := c17V{k: c17Ptr, ptr: &obj}
					dc := m.zero(ctxT, 0)
					mx := c17Hidden(&dc, "Max")
					if mx.k != c17Stc {
						v.undec = "DrawContext.Max is not a struct"
						continue
					}
					*c17Hidden(mx, "Width") = c17I(int64(w))
					*c17Hidden(mx, "Height") = c17I(1)
					*c17Hidden(&dc, "Characters") = c17V{k: c17Fun, fn: &c17Fn{name: "Characters", native: func(m *c17M, a []c17V) c17V { return m.mkChars(ty, a[0].s) }}}
					ctx := fmt.Sprintf("Value=%q cursor=%d, Draw with Max.Width %d", val, cur, w)
					ret, _, ab := m.c17Call(dr, p, dc)
					v.runs++
					if v.abort(ab, ctx) {
						continue
					}
					if w == 0 || c17WidthOf(cls) >= w {
						continue
					}
					var got *c17V
					if len(ret) == 2 && ret[0].k == c17Stc {
						if cs := ret[0].st.f["Cursor"]; cs != nil && cs.k == c17Ptr && cs.ptr.k == c17Stc {
							got = cs.ptr.st.f["Col"]
						}
					}
					want := int64(c17WidthOf(cls[:cur]))
					if got == nil || got.k != c17Int || got.i != want {
						v.fail("%s: surface cursor column %v, expected %d (width of the text before the cursor)", ctx, got, want)
					}
				}
			}
		}
		v.record(c, rule, dr.Name+"/cursor column when the text fits", dr.Decl.Pos(), "surface cursor at the width of the text before the cursor")
	}
}

// ---------------------------------------------------------------------------
// Part 3: structural clauses (CFG data-flow).
// ---------------------------------------------------------------------------

// c17Flow is a forward may-analysis over small integer states: every block entry
// carries the set of abstract states that can reach it.
type c17Flow struct {
	g    *FG
	node func(l Loc, n ast.Node, s int) []int
	edge func(from *cfg.Block, succ int, s int) (int, bool)
}

func (f *c17Flow) run(start Loc, init []int, atExit func(b *cfg.Block, s int)) {
	type item struct {
		b      *cfg.Block
		idx, s int
	}
	seen := map[[2]int]bool{}
	var work []item
	for _, s := range init {
		work = append(work, item{start.B, start.Idx, s})
	}
	for len(work) > 0 {
		it := work[len(work)-1]
		work = work[:len(work)-1]
		if it.idx == 0 {
			k := [2]int{int(it.b.Index), it.s}
			if seen[k] {
				continue
			}
			seen[k] = true
		}
		states := []int{it.s}
		for i := it.idx; i < len(it.b.Nodes); i++ {
			next := map[int]bool{}
			for _, s := range states {
				for _, ns := range f.node(Loc{it.b, i}, it.b.Nodes[i], s) {
					next[ns] = true
				}
			}
			states = states[:0]
			for s := range next {
				states = append(states, s)
			}
			sort.Ints(states)
		}
		if len(it.b.Succs) == 0 {
			if f.g.isNormalExit(it.b) {
				for _, s := range states {
					atExit(it.b, s)
				}
			}
			continue
		}
		for si, succ := range it.b.Succs {
			for _, s := range states {
				ns, ok := s, true
				if f.edge != nil && len(it.b.Succs) == 2 && it.b.Succs[0] != it.b.Succs[1] {
					ns, ok = f.edge(it.b, si, s)
				}
				if ok {
					work = append(work, item{succ, 0, ns})
				}
			}
		}
	}
}

// c17FieldOf: is e a selector of the struct field fv? Returns the selector.
func c17FieldOf(info *types.Info, e ast.Expr, fv *types.Var) *ast.SelectorExpr {
	sel, ok := unparen(e).(*ast.SelectorExpr)
	if !ok || fv == nil {
		return nil
	}
	if s, ok := info.Selections[sel]; ok && s.Kind() == types.FieldVal && s.Obj() == fv {
		return sel
	}
	return nil
}

func c17StructField(t types.Type, name string) *types.Var {
	if t == nil {
		return nil
	}
	st, ok := t.Underlying().(*types.Struct)
	if !ok {
		return nil
	}
	for i := 0; i < st.NumFields(); i++ {
		if st.Field(i).Name() == name {
			return st.Field(i)
		}
	}
	return nil
}

func c17ExitPos(b *cfg.Block, fallback token.Pos) token.Pos {
	if len(b.Nodes) > 0 {
		return b.Nodes[len(b.Nodes)-1].Pos()
	}
	return fallback
}

func c17StripConv(info *types.Info, e ast.Expr) ast.Expr {
	for {
		e = unparen(e)
		call, ok := e.(*ast.CallExpr)
		if !ok || len(call.Args) != 1 {
			return e
		}
		if tv, ok := info.Types[call.Fun]; ok && tv.IsType() {
			e = call.Args[0]
			continue
		}
		return e
	}
}

// ---- rule a: TextField.n coherent with Value ---------------------------------

const (
	c17Coh    = 1 // n == graphemes(Value)
	c17NZero  = 2 // n known to be 0
	c17VEmpty = 4 // Value known to be ""
	c17Unk    = 8 // n assigned by an expression the rule does not understand
)

type c17A struct {
	c        *Ctx
	pk       *packages.Package
	info     *types.Info
	valueF   *types.Var
	nF       *types.Var
	counting map[*types.Func]bool
	funcs    map[*types.Func]*FuncInfo
	touches  map[*types.Func]bool // writes Value or n, directly or through package calls
	writesV  map[*types.Func]bool // may write Value
	readsN   map[*types.Func]bool
	summary  map[*types.Func]map[int]map[int]bool
	inProg   map[*types.Func]bool
	cyclic   bool
	staleRd  map[*types.Func][]string // reads of n while stale, per function (entry coherent)
	stalePos map[*types.Func]token.Pos
	exitPos  func(fi *FuncInfo, b *cfg.Block, st int)
}

func (a *c17A) direct(fi *FuncInfo) (writesV, writesN, readsN bool, callees []*types.Func) {
	lhs := map[ast.Expr]bool{}
	ast.Inspect(fi.Decl.Body, func(n ast.Node) bool {
		switch s := n.(type) {
		case *ast.AssignStmt:
			for _, l := range s.Lhs {
				if c17FieldOf(a.info, l, a.valueF) != nil {
					writesV = true
				}
				if sel := c17FieldOf(a.info, l, a.nF); sel != nil {
					writesN = true
					if s.Tok == token.ASSIGN {
						lhs[sel] = true
					}
				}
			}
		case *ast.IncDecStmt:
			if c17FieldOf(a.info, s.X, a.valueF) != nil {
				writesV = true
			}
			if c17FieldOf(a.info, s.X, a.nF) != nil {
				writesN = true
			}
		case *ast.UnaryExpr:
			if s.Op == token.AND {
				if c17FieldOf(a.info, s.X, a.valueF) != nil {
					writesV = true
				}
				if c17FieldOf(a.info, s.X, a.nF) != nil {
					writesN = true
				}
			}
		case *ast.CallExpr:
			if fn := calleeOf(a.info, s); fn != nil && a.funcs[fn] != nil {
				callees = append(callees, fn)
			}
		case *ast.SelectorExpr:
			if c17FieldOf(a.info, s, a.nF) != nil && !lhs[s] {
				readsN = true
			}
		}
		return true
	})
	return
}

func (a *c17A) closure() {
	a.touches, a.writesV, a.readsN = map[*types.Func]bool{}, map[*types.Func]bool{}, map[*types.Func]bool{}
	calls := map[*types.Func][]*types.Func{}
	for fn, fi := range a.funcs {
		wv, wn, rn, cs := a.direct(fi)
		a.writesV[fn], a.touches[fn], a.readsN[fn] = wv, wv || wn, rn
		calls[fn] = cs
	}
	for changed := true; changed; {
		changed = false
		for fn, cs := range calls {
			for _, cal := range cs {
				if a.writesV[cal] && !a.writesV[fn] {
					a.writesV[fn], changed = true, true
				}
				if a.touches[cal] && !a.touches[fn] {
					a.touches[fn], changed = true, true
				}
				if a.readsN[cal] && !a.readsN[fn] {
					a.readsN[fn], changed = true, true
				}
			}
		}
	}
}

// nodeEffect applies the stores of one CFG node (after its calls) to the state.
func (a *c17A) storeEffect(l Loc, n ast.Node, s int) int {
	// countOf: e is count(x) for a counting helper and a plain variable x
	countOf := func(e ast.Expr) types.Object {
		call, ok := c17StripConv(a.info, e).(*ast.CallExpr)
		if !ok || len(call.Args) != 1 {
			return nil
		}
		if fn := calleeOf(a.info, call); fn == nil || !a.counting[fn] {
			return nil
		}
		if id, ok := unparen(call.Args[0]).(*ast.Ident); ok {
			if v, ok := a.info.ObjectOf(id).(*types.Var); ok && !v.IsField() {
				return v
			}
		}
		return nil
	}
	// pairedBefore: the nearest earlier store in this block to Value / n is the matching half of
	// "Value = x ... n = count(x)" (either order) and x is not reassigned in between.
	pairedBefore := func(x types.Object, wantValueStore bool) bool {
		for j := l.Idx - 1; j >= 0; j-- {
			nj := l.B.Nodes[j]
			if assignsAny(a.info, nj, map[types.Object]bool{x: true}) {
				return false
			}
			touchCall := containsNode(nj, func(y ast.Node) bool {
				call, ok := y.(*ast.CallExpr)
				if !ok {
					return false
				}
				fn := calleeOf(a.info, call)
				return fn != nil && a.touches[fn]
			})
			if touchCall {
				return false
			}
			as, ok := nj.(*ast.AssignStmt)
			if !ok {
				continue
			}
			for i, lh := range as.Lhs {
				isV, isN := c17FieldOf(a.info, lh, a.valueF) != nil, c17FieldOf(a.info, lh, a.nF) != nil
				if !isV && !isN {
					continue
				}
				if as.Tok != token.ASSIGN || len(as.Rhs) != len(as.Lhs) {
					return false
				}
				if isV && wantValueStore {
					id, ok := unparen(as.Rhs[i]).(*ast.Ident)
					return ok && a.info.ObjectOf(id) == x
				}
				if isN && !wantValueStore {
					return countOf(as.Rhs[i]) == x
				}
				return false
			}
		}
		return false
	}
	apply := func(lhs ast.Expr, tok token.Token, rhs ast.Expr) {
		if c17FieldOf(a.info, lhs, a.valueF) != nil {
			if tok == token.ASSIGN && rhs != nil {
				if id, ok := unparen(rhs).(*ast.Ident); ok {
					if v, ok := a.info.ObjectOf(id).(*types.Var); ok && !v.IsField() && s&c17Coh == 0 && pairedBefore(v, false) {
						s = s&^(c17Unk|c17NZero|c17VEmpty) | c17Coh
						return
					}
				}
			}
			if tok == token.ASSIGN && rhs != nil {
				if tv, ok := a.info.Types[rhs]; ok && tv.Value != nil && tv.Value.Kind() == constant.String && constant.StringVal(tv.Value) == "" {
					s |= c17VEmpty
					if s&c17NZero != 0 {
						s |= c17Coh
					} else {
						s &^= c17Coh
					}
					return
				}
			}
			s &^= c17VEmpty | c17Coh | c17Unk
			return
		}
		sel := c17FieldOf(a.info, lhs, a.nF)
		if sel == nil {
			return
		}
		if tok == token.ASSIGN && rhs != nil {
			if v, ok := constInt(a.info, rhs); ok && v == 0 {
				s = s&^(c17Unk|c17Coh) | c17NZero
				if s&c17VEmpty != 0 {
					s |= c17Coh
				}
				return
			}
			if call, ok := c17StripConv(a.info, rhs).(*ast.CallExpr); ok && len(call.Args) == 1 {
				if fn := calleeOf(a.info, call); fn != nil && a.counting[fn] {
					if vs := c17FieldOf(a.info, call.Args[0], a.valueF); vs != nil && rootObj(a.info, vs) == rootObj(a.info, sel) {
						s = s&^(c17Unk|c17NZero) | c17Coh
						return
					}
				}
			}
			if x := countOf(rhs); x != nil && pairedBefore(x, true) {
				s = s&^(c17Unk|c17NZero) | c17Coh
				return
			}
		}
		s = s&^(c17Coh|c17NZero) | c17Unk
	}
	switch st := n.(type) {
	case *ast.AssignStmt:
		for i, l := range st.Lhs {
			var r ast.Expr
			if len(st.Rhs) == len(st.Lhs) {
				r = st.Rhs[i]
			}
			apply(l, st.Tok, r)
		}
	case *ast.IncDecStmt:
		apply(st.X, st.Tok, nil)
	}
	return s
}

// flowFunc runs the coherence analysis of one function from the given entry state.
// report: record reads of n while stale.
func (a *c17A) flowFunc(fi *FuncInfo, entry int, report bool) map[int]bool {
	g := a.c.P.Graph(fi)
	exits := map[int]bool{}
	if g == nil {
		exits[entry] = true
		return exits
	}
	var deferred [][]*types.Func // index -> list (outermost first); state carries index<<4
	deferred = append(deferred, nil)
	deferIdx := func(prev int, fn *types.Func) int {
		lst := append(append([]*types.Func{}, deferred[prev]...), fn)
		for i, d := range deferred {
			if len(d) == len(lst) {
				same := true
				for j := range d {
					if d[j] != lst[j] {
						same = false
					}
				}
				if same {
					return i
				}
			}
		}
		deferred = append(deferred, lst)
		return len(deferred) - 1
	}
	callEffect := func(fn *types.Func, bits int) []int {
		if !a.touches[fn] {
			return []int{bits}
		}
		var out []int
		if a.funcs[fn].Obj.Exported() && bits&c17Coh != 0 {
			// assume-guarantee at the API boundary: the callee's own obligation covers it
			return []int{c17Coh}
		}
		for s := range a.summarise(fn)[bits] {
			out = append(out, s)
		}
		return out
	}
	fl := &c17Flow{g: g}
	fl.node = func(l Loc, n ast.Node, s int) []int {
		bits, dfr := s&15, s>>4
		states := []int{bits}
		if ds, ok := n.(*ast.DeferStmt); ok {
			if fn := calleeOf(a.info, ds.Call); fn != nil && a.funcs[fn] != nil && a.touches[fn] {
				dfr = deferIdx(dfr, fn)
			}
			return []int{bits | dfr<<4}
		}
		// reads of n and calls, in source order
		lhsN := map[ast.Expr]bool{}
		if as, ok := n.(*ast.AssignStmt); ok && as.Tok == token.ASSIGN {
			for _, lh := range as.Lhs {
				if sel := c17FieldOf(a.info, lh, a.nF); sel != nil {
					lhsN[sel] = true
				}
			}
		}
		// compound updates of n (n -= 1) are read-modify-write: judged at the return, not as a stale read
		if as, ok := n.(*ast.AssignStmt); ok && as.Tok != token.ASSIGN {
			for _, lh := range as.Lhs {
				if sel := c17FieldOf(a.info, lh, a.nF); sel != nil {
					lhsN[sel] = true
				}
			}
		}
		if id, ok := n.(*ast.IncDecStmt); ok {
			if sel := c17FieldOf(a.info, id.X, a.nF); sel != nil {
				lhsN[sel] = true
			}
		}
		stale := func(what string, pos token.Pos) {
			if !report {
				return
			}
			for _, st := range states {
				if st&c17Coh == 0 {
					a.staleRd[fi.Obj] = append(a.staleRd[fi.Obj], what)
					if a.stalePos[fi.Obj] == token.NoPos {
						a.stalePos[fi.Obj] = pos
					}
					return
				}
			}
		}
		var visit func(x ast.Node)
		visit = func(x ast.Node) {
			inspectNoLit(x, func(y ast.Node) bool {
				switch t := y.(type) {
				case *ast.CallExpr:
					// arguments first
					for _, arg := range t.Args {
						visit(arg)
					}
					visit(t.Fun)
					if fn := calleeOf(a.info, t); fn != nil && a.funcs[fn] != nil {
						if a.readsN[fn] {
							estab := true // a callee that re-establishes n from any state does not depend on the stale value
							for _, st := range states {
								if st&c17Coh == 0 {
									for ex := range a.summarise(fn)[st] {
										if ex&c17Coh == 0 {
											estab = false
										}
									}
								}
							}
							if !estab {
								stale("calls "+fn.Name()+", which reads n", t.Pos())
							}
						}
						next := map[int]bool{}
						for _, st := range states {
							for _, ns := range callEffect(fn, st) {
								next[ns] = true
							}
						}
						states = states[:0]
						for st := range next {
							states = append(states, st)
						}
						sort.Ints(states)
					}
					return false
				case *ast.SelectorExpr:
					if c17FieldOf(a.info, t, a.nF) != nil && !lhsN[t] {
						stale("reads "+types.ExprString(t), t.Pos())
					}
				}
				return true
			})
		}
		visit(n)
		var out []int
		for _, st := range states {
			out = append(out, a.storeEffect(l, n, st)|dfr<<4)
		}
		return out
	}
	fl.run(g.Entry(), []int{entry & 15}, func(b *cfg.Block, s int) {
		states := []int{s & 15}
		lst := deferred[s>>4]
		for j := len(lst) - 1; j >= 0; j-- {
			next := map[int]bool{}
			for _, st := range states {
				for _, ns := range callEffect(lst[j], st) {
					next[ns] = true
				}
			}
			states = states[:0]
			for st := range next {
				states = append(states, st)
			}
		}
		for _, st := range states {
			exits[st] = true
			if st&c17Coh == 0 && a.exitPos != nil {
				a.exitPos(fi, b, st)
			}
		}
	})
	return exits
}

func (a *c17A) summarise(fn *types.Func) map[int]map[int]bool {
	if s, ok := a.summary[fn]; ok {
		return s
	}
	if a.inProg[fn] {
		a.cyclic = true
		out := map[int]map[int]bool{}
		for e := 0; e < 16; e++ {
			out[e] = map[int]bool{c17Unk: true}
		}
		return out
	}
	a.inProg[fn] = true
	out := map[int]map[int]bool{}
	for e := 0; e < 16; e++ {
		out[e] = a.flowFunc(a.funcs[fn], e, false)
	}
	a.inProg[fn] = false
	a.summary[fn] = out
	return out
}

func c17RuleA(c *Ctx, m *c17M) {
	const rule = "C17.a"
	const pkgName = "vxfw/textfield"
	pk := c.P.Pkg(pkgName)
	tfT := c17Named(pk, "TextField")
	valueF, nF := c17StructField(tfT, "Value"), c17StructField(tfT, "n")
	if pk == nil || valueF == nil || nF == nil {
		c.undecided(rule, pkgName+".TextField", token.NoPos, "TextField.Value / TextField.n not found")
		return
	}
	a := &c17A{c: c, pk: pk, info: pk.TypesInfo, valueF: valueF, nF: nF, funcs: map[*types.Func]*FuncInfo{},
		summary: map[*types.Func]map[int]map[int]bool{}, inProg: map[*types.Func]bool{}, staleRd: map[*types.Func][]string{}, stalePos: map[*types.Func]token.Pos{}}
	a.counting = c17CountingFuncs(c, m, pkgName)
	for _, fi := range c.P.FuncsIn(pkgName) {
		if fi.Decl.Body != nil {
			a.funcs[fi.Obj] = fi
		}
	}
	a.closure()
	if len(a.counting) == 0 {
		c.undecided(rule, pkgName+"/grapheme counting helper", tfT.(*types.Named).Obj().Pos(), "no function of the package evaluates to the number of grapheme clusters of its argument on the test strings; n = f(Value) cannot be recognised")
	} else {
		for fn := range a.counting {
			c.ok(rule, pkgName+"."+fn.Name()+"/returns the number of grapheme clusters", fn.Pos(), "interpreted on 8 strings (empty, narrow, wide, multi-codepoint, flag): equals the cluster count")
		}
	}
	for _, fi := range c.P.FuncsIn(pkgName) {
		if a.funcs[fi.Obj] == nil || !fi.Obj.Exported() {
			continue
		}
		if a.touches[fi.Obj] {
			var badPos token.Pos
			var badState = -1
			a.exitPos = func(f2 *FuncInfo, b *cfg.Block, st int) {
				if f2 == fi && badState < 0 {
					badPos, badState = c17ExitPos(b, fi.Decl.End()), st
				}
			}
			exits := a.flowFunc(fi, c17Coh, true)
			a.exitPos = nil
			key := fi.Name + "/n == graphemes(Value) at every return"
			allCoh, unk, stale := true, false, false
			for st := range exits {
				if st&c17Coh == 0 {
					allCoh = false
					if st&c17Unk != 0 {
						unk = true
					} else {
						stale = true
					}
				}
			}
			switch {
			case a.cyclic:
				c.undecided(rule, key, fi.Decl.Pos(), "recursive calls among the editing functions")
			case allCoh:
				c.ok(rule, key, fi.Decl.Pos(), "every store to Value is followed on every path by n = count(Value) (or n = 0 with Value = \"\")")
			case unk && !stale:
				// n is updated by an expression the data-flow cannot relate to Value (e.g. n -= 1):
				// fall back to interpreting the function from every state of the bounded domain
				runs, witness, undec := c17CoherentBySim(c, m, fi, tfT)
				switch {
				case witness != "":
					c.bad(rule, key, badPos, "n is updated incrementally and goes out of step with Value: %s", witness)
				case undec != "" || runs == 0:
					c.undecided(rule, key, badPos, "n is updated by an expression the rule cannot relate to Value (not n = count(Value), not n = 0 with Value = \"\") and the function cannot be interpreted: %s", undec)
				default:
					c.ok(rule, key, fi.Decl.Pos(), "n is updated incrementally; n == graphemes(Value) holds after each of %d interpreted runs from the bounded domain (decided for that domain only)", runs)
				}
			default:
				c.bad(rule, key, badPos, "a return is reachable after Value was stored without n being recomputed: the cached grapheme count is stale, later End / cursor clamps / deletions use the wrong length")
			}
		}
		if a.readsN[fi.Obj] || a.touches[fi.Obj] {
			if !a.touches[fi.Obj] {
				a.flowFunc(fi, c17Coh, true)
			}
			key := fi.Name + "/n is not read while stale"
			if rd := a.staleRd[fi.Obj]; len(rd) > 0 {
				c.bad(rule, key, a.stalePos[fi.Obj], "%s after Value was stored and before n was recomputed", rd[0])
			} else if a.readsN[fi.Obj] {
				c.ok(rule, key, fi.Decl.Pos(), "every read of n happens while n is coherent with Value")
			}
		}
	}
	// literals and stores outside the package
	external := 0
	for _, p := range c.P.All {
		pinfo := p.TypesInfo
		for _, file := range p.Syntax {
			ast.Inspect(file, func(n ast.Node) bool {
				switch t := n.(type) {
				case *ast.AssignStmt:
					if p == pk {
						return true
					}
					for _, l := range t.Lhs {
						if sel := c17FieldOf(pinfo, l, valueF); sel != nil {
							external++
							c.bad(rule, shortPkg(p.PkgPath)+"/stores TextField.Value outside the package", sel.Pos(), "Value is stored where n cannot be updated: the cached count goes stale")
						}
					}
				case *ast.CompositeLit:
					lt := pinfo.TypeOf(t)
					if lt == nil || !types.Identical(lt, tfT) {
						return true
					}
					var vExpr, nExpr ast.Expr
					for _, el := range t.Elts {
						if kv, ok := el.(*ast.KeyValueExpr); ok {
							if id, ok := kv.Key.(*ast.Ident); ok {
								switch pinfo.ObjectOf(id) {
								case valueF:
									vExpr = kv.Value
								case nF:
									nExpr = kv.Value
								}
							}
						} else {
							vExpr = el // positional literal: give up
							nExpr = el
						}
					}
					key := shortPkg(p.PkgPath) + "/TextField literal leaves Value and n coherent"
					emptyV := vExpr == nil
					if vExpr != nil {
						if tv, ok := pinfo.Types[vExpr]; ok && tv.Value != nil && tv.Value.Kind() == constant.String && constant.StringVal(tv.Value) == "" {
							emptyV = true
						}
					}
					switch {
					case emptyV && nExpr == nil:
						c.ok(rule, key, t.Pos(), "the literal leaves Value empty and n zero")
					case nExpr != nil:
						c.undecided(rule, key, t.Pos(), "the literal sets n explicitly")
					default:
						c.bad(rule, key, t.Pos(), "the literal sets Value but n stays 0")
					}
				}
				return true
			})
		}
	}
	if external == 0 {
		c.okTrivial(rule, "repository/no store to TextField.Value outside vxfw/textfield", token.NoPos, "no package of the repository assigns Value directly")
	}
}

// ---- rule b: textinput cursor within the content --------------------------------

const (
	c17Lo = 1 // cursor >= 0 known
	c17Hi = 2 // cursor <= len(content) known
)

type c17RB struct {
	c        *Ctx
	info     *types.Info
	cursorF  *types.Var
	contentF *types.Var
	touching map[*types.Func]bool
	funcs    map[*types.Func]*FuncInfo
	summary  map[*types.Func]map[int]map[int]bool
	inProg   map[*types.Func]bool
	// named locals with a single definition, resolved at the location being evaluated
	aliasOf map[*FuncInfo]map[types.Object]*c17Alias
	curFi   *FuncInfo
	curLoc  Loc
	mach    *c17M
	ty      *c17Types
	modelT  types.Type
	pk      *packages.Package
	sampled map[ast.Expr][3]bool
}

// sampleRange interprets the right-hand side of "x.cursor = rhs" for a grid of models (content length L in
// {0,1,2,4}, cursor from -2 to L+2) when rhs mentions nothing but the model itself and constants, and reports
// whether the result is always >= 0 and always <= L. ok=false: the expression cannot be interpreted that way.
func (b *c17RB) sampleRange(lhs, rhs ast.Expr) (lo, hi, ok bool) {
	if b.mach == nil || b.modelT == nil {
		return false, false, false
	}
	if r, done := b.sampled[rhs]; done {
		return r[0], r[1], r[2]
	}
	defer func() { b.sampled[rhs] = [3]bool{lo, hi, ok} }()
	root, isVar := rootObj(b.info, lhs).(*types.Var)
	if !isVar {
		return false, false, false
	}
	// rhs may mention only the model variable (and package-level names)
	clean := true
	ast.Inspect(rhs, func(n ast.Node) bool {
		if id, isID := n.(*ast.Ident); isID {
			if v, isV := b.info.ObjectOf(id).(*types.Var); isV && !v.IsField() && v != root && v.Parent() != v.Pkg().Scope() {
				clean = false
			}
		}
		return true
	})
	if !clean {
		return false, false, false
	}
	_, rootIsPtr := root.Type().Underlying().(*types.Pointer)
	lo, hi = true, true
	for _, L := range []int{0, 1, 2, 4} {
		for cur := -2; cur <= L+2; cur++ {
			obj := b.mach.zero(b.modelT, 0)
			*obj.st.f[b.contentF.Name()] = b.mach.mkChars(b.ty, strings.Repeat("a", L))
			*obj.st.f[b.cursorF.Name()] = c17I(int64(cur))
			fr := b.mach.newFrame(b.pk)
			cell := obj
			if rootIsPtr {
				cell = c17V{k: c17Ptr, ptr: &obj}
			}
			fr.env[root] = &cell
			var v c17V
			if ab := b.mach.run(func() { v = b.mach.eval(fr, rhs) }); ab != nil || v.k != c17Int {
				return false, false, false
			}
			if v.i < 0 {
				lo = false
			}
			if v.i > int64(L) {
				hi = false
			}
		}
	}
	return lo, hi, true
}

// c17Alias: x := e (single definition, never reassigned, address not taken) inside one function.
type c17Alias struct {
	expr  ast.Expr
	loc   Loc
	valid map[Loc]bool
}

// aliases finds the single-definition locals of fi.
func (b *c17RB) aliases(fi *FuncInfo) map[types.Object]*c17Alias {
	if b.aliasOf == nil {
		b.aliasOf = map[*FuncInfo]map[types.Object]*c17Alias{}
	}
	if m, ok := b.aliasOf[fi]; ok {
		return m
	}
	out := map[types.Object]*c17Alias{}
	b.aliasOf[fi] = out
	g := b.c.P.Graph(fi)
	if g == nil {
		return out
	}
	defs := map[types.Object]int{}
	note := func(e ast.Expr) {
		if id, ok := unparen(e).(*ast.Ident); ok {
			if o := b.info.ObjectOf(id); o != nil {
				defs[o]++
			}
		}
	}
	ast.Inspect(fi.Decl.Body, func(n ast.Node) bool {
		switch t := n.(type) {
		case *ast.AssignStmt:
			for _, l := range t.Lhs {
				note(l)
			}
		case *ast.IncDecStmt:
			note(t.X)
			note(t.X) // never an alias
		case *ast.RangeStmt:
			for _, l := range []ast.Expr{t.Key, t.Value} {
				if l != nil {
					note(l)
					note(l)
				}
			}
		case *ast.UnaryExpr:
			if t.Op == token.AND {
				note(t.X)
				note(t.X)
			}
		case *ast.ValueSpec:
			for _, nm := range t.Names {
				note(nm)
				if len(t.Values) == 0 {
					note(nm)
				}
			}
		}
		return true
	})
	for _, h := range g.Find(func(n ast.Node) bool {
		switch t := n.(type) {
		case *ast.AssignStmt:
			return t.Tok == token.DEFINE && len(t.Lhs) == len(t.Rhs)
		case *ast.ValueSpec:
			return len(t.Names) == len(t.Values)
		}
		return false
	}) {
		var names, vals []ast.Expr
		switch t := h.Node.(type) {
		case *ast.AssignStmt:
			names, vals = t.Lhs, t.Rhs
		case *ast.ValueSpec:
			for _, nm := range t.Names {
				names = append(names, nm)
			}
			vals = t.Values
		}
		for i, nm := range names {
			id, ok := unparen(nm).(*ast.Ident)
			if !ok {
				continue
			}
			if o, ok := b.info.ObjectOf(id).(*types.Var); ok && defs[o] == 1 && !o.IsField() {
				out[o] = &c17Alias{expr: vals[i], loc: h.Loc, valid: map[Loc]bool{}}
			}
		}
	}
	return out
}

// resolve: if e is a single-definition local whose defining expression still has the same value at the
// location being evaluated (no store to cursor/content and no helper call in between), return that expression.
func (b *c17RB) resolve(e ast.Expr) ast.Expr {
	id, ok := unparen(e).(*ast.Ident)
	if !ok || b.curFi == nil || b.curLoc.B == nil {
		return e
	}
	al := b.aliases(b.curFi)[b.info.ObjectOf(id)]
	if al == nil {
		return e
	}
	if v, ok := al.valid[b.curLoc]; ok {
		if v {
			return al.expr
		}
		return e
	}
	g := b.c.P.Graph(b.curFi)
	use := b.curLoc
	okv := true
	for _, x := range g.Find(func(n ast.Node) bool {
		switch t := n.(type) {
		case *ast.AssignStmt:
			for _, l := range t.Lhs {
				if c17FieldOf(b.info, l, b.cursorF) != nil || c17FieldOf(b.info, l, b.contentF) != nil {
					return true
				}
			}
		case *ast.IncDecStmt:
			return c17FieldOf(b.info, t.X, b.cursorF) != nil
		case *ast.CallExpr:
			fn := calleeOf(b.info, t)
			return fn != nil && b.touching[fn]
		}
		return false
	}) {
		if x.Loc == use {
			continue // the statement that uses the local reads it before it stores
		}
		after := x.Loc == al.loc || g.ReachesAvoiding(al.loc, x.Loc, nil)
		if x.B == al.loc.B && x.Idx > al.loc.Idx {
			after = true
		}
		before := g.ReachesAvoiding(x.Loc, use, nil) || (x.B == use.B && x.Idx < use.Idx)
		if after && before {
			okv = false
		}
	}
	al.valid[use] = okv
	if okv {
		return al.expr
	}
	return e
}

func (b *c17RB) lenOfContent(e ast.Expr) bool {
	call, ok := unparen(e).(*ast.CallExpr)
	if !ok || len(call.Args) != 1 {
		return false
	}
	id, ok := call.Fun.(*ast.Ident)
	if !ok {
		return false
	}
	if bi, ok := b.info.Uses[id].(*types.Builtin); !ok || bi.Name() != "len" {
		return false
	}
	return c17FieldOf(b.info, call.Args[0], b.contentF) != nil
}

// classify an integer expression relative to the cursor bounds: base is "zero", "len", "cursor" or "".
func (b *c17RB) form(e ast.Expr) (base string, k int64) {
	e = unparen(e)
	if v, ok := constInt(b.info, e); ok {
		return "zero", v
	}
	if r := b.resolve(e); r != e {
		return b.form(r)
	}
	if b.lenOfContent(e) {
		return "len", 0
	}
	if c17FieldOf(b.info, e, b.cursorF) != nil {
		return "cursor", 0
	}
	if be, ok := e.(*ast.BinaryExpr); ok && (be.Op == token.ADD || be.Op == token.SUB) {
		if v, ok := constInt(b.info, be.Y); ok {
			base, k := b.form(be.X)
			if base == "" {
				return "", 0
			}
			if be.Op == token.ADD {
				return base, k + v
			}
			return base, k - v
		}
		if v, ok := constInt(b.info, be.X); ok && be.Op == token.ADD {
			base, k := b.form(be.Y)
			if base == "" {
				return "", 0
			}
			return base, k + v
		}
	}
	return "", 0
}

func (b *c17RB) nonNegative(e ast.Expr) bool {
	e = unparen(b.resolve(e))
	if v, ok := constInt(b.info, e); ok {
		return v >= 0
	}
	if call, ok := e.(*ast.CallExpr); ok {
		if id, ok := call.Fun.(*ast.Ident); ok {
			if bi, ok := b.info.Uses[id].(*types.Builtin); ok && (bi.Name() == "len" || bi.Name() == "cap") {
				return true
			}
		}
	}
	if t := b.info.TypeOf(e); t != nil {
		if bt, ok := t.Underlying().(*types.Basic); ok && bt.Info()&types.IsUnsigned != 0 {
			return true
		}
	}
	return false
}

// store applies one store to the state; risky reports whether the store can take the cursor out of range.
func (b *c17RB) store(n ast.Node, s int) (int, bool) {
	risky := false
	setCursor := func(base string, k int64) {
		switch {
		case (base == "zero" || base == "len") && k == 0:
			s = c17Lo | c17Hi
		case base == "zero" && k > 0, base == "len" && k > 0:
			s, risky = s&^c17Hi|c17Lo, true
		case base == "zero" && k < 0:
			s, risky = s&^c17Lo|c17Hi, true
		case base == "len" && k < 0:
			s, risky = s&^c17Lo|c17Hi, true
		case base == "cursor" && k > 0:
			s, risky = s&^c17Hi, true
		case base == "cursor" && k < 0:
			s, risky = s&^c17Lo, true
		case base == "cursor":
		default:
			s, risky = 0, true
		}
	}
	step := func(up bool, e ast.Expr) {
		v, isConst := int64(0), false
		if e == nil {
			v, isConst = 1, true
		} else {
			v, isConst = constInt(b.info, e)
		}
		switch {
		case isConst && v == 0:
		case isConst && (v > 0) == up:
			s, risky = s&^c17Hi, true
		case isConst:
			s, risky = s&^c17Lo, true
		case e != nil && b.nonNegative(e) && up:
			s, risky = s&^c17Hi, true
		case e != nil && b.nonNegative(e):
			s, risky = s&^c17Lo, true
		default:
			s, risky = 0, true
		}
	}
	switch st := n.(type) {
	case *ast.AssignStmt:
		for i, l := range st.Lhs {
			if c17FieldOf(b.info, l, b.contentF) != nil {
				// content = content[:cursor] leaves len(content) == cursor
				if len(st.Rhs) == len(st.Lhs) && st.Tok == token.ASSIGN {
					if se, ok := unparen(st.Rhs[i]).(*ast.SliceExpr); ok && !se.Slice3 && c17FieldOf(b.info, se.X, b.contentF) != nil &&
						se.High != nil && c17FieldOf(b.info, se.High, b.cursorF) != nil {
						lowZero := se.Low == nil
						if v, ok := constInt(b.info, se.Low); se.Low != nil && ok && v == 0 {
							lowZero = true
						}
						if lowZero {
							s |= c17Hi
							continue
						}
					}
				}
				s, risky = s&^c17Hi, true
				continue
			}
			if c17FieldOf(b.info, l, b.cursorF) == nil {
				continue
			}
			var r ast.Expr
			if len(st.Rhs) == len(st.Lhs) {
				r = st.Rhs[i]
			}
			switch {
			case r == nil:
				s, risky = 0, true
			case st.Tok == token.ASSIGN || st.Tok == token.DEFINE:
				if base, k := b.form(r); base != "" {
					setCursor(base, k)
				} else if lo, hi, ok := b.sampleRange(l, r); ok {
					// cursor = f(cursor, len(content), …): a value-returning helper (clamp, min/max) evaluated on a grid
					s = 0
					if lo {
						s |= c17Lo
					}
					if hi {
						s |= c17Hi
					}
					risky = !(lo && hi)
				} else {
					setCursor("", 0)
				}
			case st.Tok == token.ADD_ASSIGN:
				step(true, r)
			case st.Tok == token.SUB_ASSIGN:
				step(false, r)
			default:
				s, risky = 0, true
			}
		}
	case *ast.IncDecStmt:
		if c17FieldOf(b.info, st.X, b.cursorF) != nil {
			step(st.Tok == token.INC, nil)
		}
	}
	return s, risky
}

// idsOf returns the term identities of cursor and len(content) inside fi (one Model value per function).
func (b *c17RB) idsOf(fi *FuncInfo) (cursorID, lenID string, multi bool) {
	ast.Inspect(fi.Decl.Body, func(n ast.Node) bool {
		if e, ok := n.(ast.Expr); ok {
			if sel := c17FieldOf(b.info, e, b.cursorF); sel != nil {
				id := termOf(b.info, sel).ID
				if cursorID != "" && cursorID != id {
					multi = true
				}
				cursorID = id
			}
			if sel := c17FieldOf(b.info, e, b.contentF); sel != nil {
				id := "len(" + termOf(b.info, sel).ID + ")"
				if lenID != "" && lenID != id {
					multi = true
				}
				lenID = id
			}
		}
		return true
	})
	return
}

// flow propagates the (lo, hi) knowledge through fi from start; calls to package functions that store
// cursor/content are replaced by their summaries, deferred ones are applied at the returns.
func (b *c17RB) flow(fi *FuncInfo, start Loc, init int, pending []*types.Func, atExit func(blk *cfg.Block, s int)) {
	g := b.c.P.Graph(fi)
	cursorID, lenID, _ := b.idsOf(fi)
	termBase := func(t Term) string {
		switch {
		case t.ID == "":
			return "zero"
		case cursorID != "" && t.ID == cursorID:
			return "cursor"
		case lenID != "" && t.ID == lenID:
			return "len"
		}
		return ""
	}
	var deferred [][]*types.Func
	deferred = append(deferred, nil)
	if len(pending) > 0 { // deferred calls already registered when the flow starts in mid-function
		deferred = append(deferred, pending)
		init |= 1 << 2
	}
	callEffect := func(fn *types.Func, bits int) []int {
		var out []int
		for st := range b.summarise(fn)[bits] {
			out = append(out, st)
		}
		sort.Ints(out)
		return out
	}
	fl := &c17Flow{g: g}
	fl.node = func(l Loc, n ast.Node, s int) []int {
		bits, dfr := s&3, s>>2
		if ds, ok := n.(*ast.DeferStmt); ok {
			if fn := calleeOf(b.info, ds.Call); fn != nil && b.touching[fn] {
				deferred = append(deferred, append(append([]*types.Func{}, deferred[dfr]...), fn))
				dfr = len(deferred) - 1
			}
			return []int{bits | dfr<<2}
		}
		states := []int{bits}
		inspectNoLit(n, func(y ast.Node) bool {
			if call, ok := y.(*ast.CallExpr); ok {
				if fn := calleeOf(b.info, call); fn != nil && b.touching[fn] {
					next := map[int]bool{}
					for _, st := range states {
						for _, ns := range callEffect(fn, st) {
							next[ns] = true
						}
					}
					states = states[:0]
					for st := range next {
						states = append(states, st)
					}
					sort.Ints(states)
				}
			}
			return true
		})
		var out []int
		for _, st := range states {
			b.curFi, b.curLoc = fi, l
			ns, _ := b.store(n, st)
			out = append(out, ns|dfr<<2)
		}
		return out
	}
	fl.edge = func(from *cfg.Block, succ int, s int) (int, bool) {
		cond := g.BranchCond(from)
		if cond == nil {
			return s, true
		}
		for _, at := range c17CondAtoms(b.info, cond, succ == 0) {
			if at.Kind != "lin" || at.K > 0 {
				continue
			}
			ab, bb := termBase(at.A), termBase(at.B)
			switch {
			case ab == "cursor" && (bb == "len" || bb == "zero"): // cursor <= len(content)+K or cursor <= K
				s |= c17Hi
			case bb == "cursor" && (ab == "zero" || ab == "len"): // K' <= cursor
				s |= c17Lo
			}
		}
		// the same through named locals (n := len(m.content); if m.cursor > n …): compare the operands directly
		b.curFi, b.curLoc = fi, Loc{from, len(from.Nodes) - 1}
		var walk func(e ast.Expr, pol bool)
		walk = func(e ast.Expr, pol bool) {
			switch t := unparen(e).(type) {
			case *ast.UnaryExpr:
				if t.Op == token.NOT {
					walk(t.X, !pol)
				}
			case *ast.BinaryExpr:
				switch t.Op {
				case token.LAND:
					if pol {
						walk(t.X, true)
						walk(t.Y, true)
					}
				case token.LOR:
					if !pol {
						walk(t.X, false)
						walk(t.Y, false)
					}
				case token.LSS, token.LEQ, token.GTR, token.GEQ, token.EQL:
					op := t.Op
					if !pol {
						if op == token.EQL {
							return
						}
						op = negOp(op)
					}
					xb, xk := b.form(t.X)
					yb, yk := b.form(t.Y)
					if xb == "" || yb == "" {
						return
					}
					// le(p, pk, q, qk): p+pk <= q+qk is known
					le := func(p string, pk int64, q string, qk int64) {
						d := qk - pk // p - q <= d
						if d > 0 {
							return
						}
						if p == "cursor" && (q == "len" || q == "zero") {
							s |= c17Hi
						}
						if q == "cursor" && (p == "zero" || p == "len") {
							s |= c17Lo
						}
					}
					switch op {
					case token.LSS:
						le(xb, xk+1, yb, yk)
					case token.LEQ:
						le(xb, xk, yb, yk)
					case token.GTR:
						le(yb, yk+1, xb, xk)
					case token.GEQ:
						le(yb, yk, xb, xk)
					case token.EQL:
						le(xb, xk, yb, yk)
						le(yb, yk, xb, xk)
					}
				}
			}
		}
		if cond.Tag == nil {
			walk(cond.Expr, succ == 0)
		}
		return s, true
	}
	fl.run(start, []int{init}, func(blk *cfg.Block, s int) {
		states := []int{s & 3}
		lst := deferred[s>>2]
		for j := len(lst) - 1; j >= 0; j-- {
			next := map[int]bool{}
			for _, st := range states {
				for _, ns := range callEffect(lst[j], st) {
					next[ns] = true
				}
			}
			states = states[:0]
			for st := range next {
				states = append(states, st)
			}
		}
		for _, st := range states {
			atExit(blk, st)
		}
	})
}

func (b *c17RB) summarise(fn *types.Func) map[int]map[int]bool {
	if sm, ok := b.summary[fn]; ok {
		return sm
	}
	out := map[int]map[int]bool{}
	if b.inProg[fn] || b.funcs[fn] == nil {
		for e := 0; e < 4; e++ {
			out[e] = map[int]bool{0: true}
		}
		return out
	}
	b.inProg[fn] = true
	fi := b.funcs[fn]
	for e := 0; e < 4; e++ {
		ex := map[int]bool{}
		b.flow(fi, b.c.P.Graph(fi).Entry(), e, nil, func(_ *cfg.Block, st int) { ex[st] = true })
		out[e] = ex
	}
	b.inProg[fn] = false
	b.summary[fn] = out
	return out
}

// c17CondAtoms is condAtoms with "x == c" style atoms included (already there) — kept as a seam for tagged switches.
func c17CondAtoms(info *types.Info, cond *Cond, pol bool) []Atom {
	return condAtoms(info, cond, pol)
}

func c17RuleB(c *Ctx, m *c17M, ty *c17Types) {
	const rule = "C17.b"
	const pkgName = "widgets/textinput"
	pk := c.P.Pkg(pkgName)
	mT := c17Named(pk, "Model")
	cursorF, contentF := c17StructField(mT, "cursor"), c17StructField(mT, "content")
	if pk == nil || cursorF == nil || contentF == nil {
		c.undecided(rule, pkgName+".Model", token.NoPos, "Model.cursor / Model.content not found")
		return
	}
	info := pk.TypesInfo
	b := &c17RB{c: c, info: info, cursorF: cursorF, contentF: contentF, touching: map[*types.Func]bool{}, funcs: map[*types.Func]*FuncInfo{},
		summary: map[*types.Func]map[int]map[int]bool{}, inProg: map[*types.Func]bool{}, mach: m, ty: ty, modelT: mT, pk: pk, sampled: map[ast.Expr][3]bool{}}
	stores := func(fi *FuncInfo) bool {
		found := false
		ast.Inspect(fi.Decl.Body, func(n ast.Node) bool {
			switch s := n.(type) {
			case *ast.AssignStmt:
				for _, l := range s.Lhs {
					if c17FieldOf(info, l, cursorF) != nil || c17FieldOf(info, l, contentF) != nil {
						found = true
					}
				}
			case *ast.IncDecStmt:
				if c17FieldOf(info, s.X, cursorF) != nil {
					found = true
				}
			case *ast.UnaryExpr:
				if s.Op == token.AND && (c17FieldOf(info, s.X, cursorF) != nil || c17FieldOf(info, s.X, contentF) != nil) {
					found = true
				}
			}
			return true
		})
		return found
	}
	// touching: stores cursor/content itself or through same-package callees (extracted helpers are
	// summarised in their calling context, never judged in isolation: the clamp may be in the caller)
	all := map[*types.Func]*FuncInfo{}
	calls := map[*types.Func][]*types.Func{}
	usedAsValue := map[*types.Func]bool{}
	for _, fi := range c.P.FuncsIn(pkgName) {
		if fi.Decl.Body != nil {
			all[fi.Obj] = fi
		}
	}
	for fn, fi := range all {
		callFun := map[ast.Expr]bool{}
		ast.Inspect(fi.Decl.Body, func(n ast.Node) bool {
			switch t := n.(type) {
			case *ast.CallExpr:
				callFun[unparen(t.Fun)] = true
				if cal := calleeOf(info, t); cal != nil && all[cal] != nil {
					calls[fn] = append(calls[fn], cal)
				}
			case *ast.Ident:
				if f, ok := info.Uses[t].(*types.Func); ok && all[f] != nil && !callFun[t] {
					usedAsValue[f] = true
				}
			case *ast.SelectorExpr:
				if f, ok := info.Uses[t.Sel].(*types.Func); ok && all[f] != nil {
					if callFun[t] {
						callFun[t.Sel] = true
					} else {
						usedAsValue[f] = true
					}
					return true
				}
			}
			return true
		})
		if stores(fi) {
			b.touching[fn] = true
		}
	}
	for changed := true; changed; {
		changed = false
		for fn, cs := range calls {
			for _, cal := range cs {
				if b.touching[cal] && !b.touching[fn] {
					b.touching[fn], changed = true, true
				}
			}
		}
	}
	var fns []*FuncInfo
	for _, fi := range c.P.FuncsIn(pkgName) {
		if b.touching[fi.Obj] {
			b.funcs[fi.Obj] = fi
			// entry points: the exported API (and functions that escape as values); helpers are covered through their callers
			if fi.Obj.Exported() || usedAsValue[fi.Obj] {
				fns = append(fns, fi)
			}
		}
	}
	if len(fns) == 0 {
		c.undecided(rule, pkgName+"/stores", token.NoPos, "no exported function stores Model.cursor or Model.content")
	}
	for _, fi := range fns {
		g := c.P.Graph(fi)
		_, _, multi := b.idsOf(fi)
		if multi {
			c.undecided(rule, fi.Name+"/one model", fi.Decl.Pos(), "the function handles more than one Model value")
			continue
		}
		describe := func(s int) string {
			switch s {
			case c17Hi:
				return "cursor may be negative"
			case c17Lo:
				return "cursor may exceed len(content)"
			}
			return "cursor may be negative or exceed len(content)"
		}
		// whole function from the invariant
		{
			var badPos token.Pos
			badState := -1
			b.flow(fi, g.Entry(), c17Lo|c17Hi, nil, func(blk *cfg.Block, s int) {
				if s != c17Lo|c17Hi && badState < 0 {
					badPos, badState = c17ExitPos(blk, fi.Decl.End()), s
				}
			})
			key := fi.Name + "/0 <= cursor <= len(content) at every return"
			if badState < 0 {
				c.ok(rule, key, fi.Decl.Pos(), "every return is reached with both bounds re-established")
			} else {
				c.bad(rule, key, badPos, "a return is reachable where %s: the next edit indexes or slices content with it", describe(badState))
			}
		}
		// every risky store (or call of a helper that can leave the range) separately
		helperCall := func(n ast.Node) *types.Func {
			var out *types.Func
			inspectNoLit(n, func(y ast.Node) bool {
				if call, ok := y.(*ast.CallExpr); ok {
					if fn := calleeOf(info, call); fn != nil && b.touching[fn] {
						for st := range b.summarise(fn)[c17Lo|c17Hi] {
							if st != c17Lo|c17Hi {
								out = fn
							}
						}
					}
				}
				return true
			})
			return out
		}
		for _, h := range g.Find(func(n ast.Node) bool {
			b.curFi, b.curLoc = fi, Loc{} // no location: named locals stay unresolved, the store counts as risky and is then flowed
			switch n.(type) {
			case *ast.DeferStmt:
				return false
			case *ast.AssignStmt, *ast.IncDecStmt:
				if _, risky := b.store(n, c17Lo|c17Hi); risky {
					return true
				}
			}
			if _, isStmt := n.(ast.Stmt); isStmt {
				return helperCall(n) != nil
			}
			return false
		}) {
			if h.Node != h.Top {
				continue
			}
			what := c17StmtText(info, h.Node)
			b.curFi, b.curLoc = fi, Loc{}
			if _, risky := b.store(h.Node, c17Lo|c17Hi); !risky {
				what = "the call of " + helperCall(h.Node).Name()
			}
			var badPos token.Pos
			badState := -1
			var pending []*types.Func
			for _, dh := range g.Find(func(n ast.Node) bool { _, ok := n.(*ast.DeferStmt); return ok }) {
				ds := dh.Node.(*ast.DeferStmt)
				if fn := calleeOf(info, ds.Call); fn != nil && b.touching[fn] && g.MustPrecede(func(n ast.Node) bool { return n == ds }, h.Loc) {
					pending = append(pending, fn)
				}
			}
			b.flow(fi, h.Loc, c17Lo|c17Hi, pending, func(blk *cfg.Block, s int) {
				if s != c17Lo|c17Hi && badState < 0 {
					badPos, badState = c17ExitPos(blk, fi.Decl.End()), s
				}
			})
			key := fmt.Sprintf("%s/after %s the bounds are restored before every return", fi.Name, what)
			if badState < 0 {
				c.ok(rule, key, h.Node.Pos(), "every path to a return passes the clamp (or an in-range store)")
			} else {
				c.bad(rule, key, h.Node.Pos(), "after this store a return (%s) is reachable where %s", c.P.Pos(badPos), describe(badState))
			}
		}
	}
}

// c17StmtText renders a simple statement with receiver names stripped (stable under renaming the receiver).
func c17StmtText(info *types.Info, n ast.Node) string {
	switch s := n.(type) {
	case *ast.AssignStmt:
		var l, r []string
		for _, e := range s.Lhs {
			l = append(l, types.ExprString(c17Strip(e)))
		}
		for _, e := range s.Rhs {
			r = append(r, c17ExprShape(e))
		}
		return strings.Join(l, ", ") + " " + s.Tok.String() + " " + strings.Join(r, ", ")
	case *ast.IncDecStmt:
		return types.ExprString(c17Strip(s.X)) + s.Tok.String()
	}
	return fmt.Sprintf("%T", n)
}

func c17ExprShape(e ast.Expr) string {
	switch t := unparen(e).(type) {
	case *ast.CallExpr:
		return types.ExprString(c17Strip(t.Fun)) + "(…)"
	case *ast.SliceExpr:
		return types.ExprString(c17Strip(t.X)) + "[…]"
	}
	s := types.ExprString(c17Strip(e))
	if len(s) > 40 {
		s = s[:40] + "…"
	}
	return s
}

// c17Strip removes the leading receiver/package identifier of access paths (m.cursor -> cursor).
func c17Strip(e ast.Expr) ast.Expr {
	switch t := e.(type) {
	case *ast.ParenExpr:
		return c17Strip(t.X)
	case *ast.BinaryExpr:
		return &ast.BinaryExpr{X: c17Strip(t.X), Op: t.Op, Y: c17Strip(t.Y)}
	case *ast.UnaryExpr:
		return &ast.UnaryExpr{Op: t.Op, X: c17Strip(t.X)}
	case *ast.SelectorExpr:
		if _, ok := t.X.(*ast.Ident); ok {
			return t.Sel
		}
		return &ast.SelectorExpr{X: c17Strip(t.X), Sel: t.Sel}
	case *ast.SliceExpr:
		return &ast.SliceExpr{X: c17Strip(t.X), Low: t.Low, High: t.High}
	case *ast.IndexExpr:
		return &ast.IndexExpr{X: c17Strip(t.X), Index: c17Strip(t.Index)}
	case *ast.CallExpr:
		args := make([]ast.Expr, len(t.Args))
		for i, a := range t.Args {
			args[i] = c17Strip(a)
		}
		return &ast.CallExpr{Fun: c17Strip(t.Fun), Args: args}
	}
	return e
}

// ---- rule c: change / submit callbacks -----------------------------------------

func c17RuleC(c *Ctx, writesV map[*types.Func]bool) {
	const rule = "C17.c"
	const pkgName = "vxfw/textfield"
	pk := c.P.Pkg(pkgName)
	tfT := c17Named(pk, "TextField")
	he := c.P.Func(pkgName + ".(*TextField).HandleEvent")
	valueF, onChangeF, onSubmitF := c17StructField(tfT, "Value"), c17StructField(tfT, "OnChange"), c17StructField(tfT, "OnSubmit")
	if he == nil || valueF == nil || onChangeF == nil || onSubmitF == nil {
		c.undecided(rule, pkgName+".(*TextField).HandleEvent", token.NoPos, "HandleEvent or the fields Value/OnChange/OnSubmit not found")
		return
	}
	info := pk.TypesInfo
	g := c.P.Graph(he)
	inDefer := map[*ast.CallExpr]bool{}
	for _, h := range g.Find(func(n ast.Node) bool { _, ok := n.(*ast.DeferStmt); return ok }) {
		inDefer[h.Node.(*ast.DeferStmt).Call] = true
	}
	isMutCall := func(n ast.Node) bool {
		call, ok := n.(*ast.CallExpr)
		if !ok || inDefer[call] {
			return false
		}
		fn := calleeOf(info, call)
		return fn != nil && writesV[fn]
	}
	isValueStore := func(n ast.Node) bool {
		switch s := n.(type) {
		case *ast.AssignStmt:
			for _, l := range s.Lhs {
				if c17FieldOf(info, l, valueF) != nil {
					return true
				}
			}
		}
		return false
	}
	isMutation := func(n ast.Node) bool { return isMutCall(n) || isValueStore(n) }
	// snapshots: x := recv.Value
	type snap struct {
		obj types.Object
		hit Hit
	}
	var snaps []snap
	for _, h := range g.Find(func(n ast.Node) bool {
		as, ok := n.(*ast.AssignStmt)
		if !ok || len(as.Lhs) != 1 || len(as.Rhs) != 1 {
			return false
		}
		_, isID := as.Lhs[0].(*ast.Ident)
		return isID && c17FieldOf(info, as.Rhs[0], valueF) != nil
	}) {
		as := h.Node.(*ast.AssignStmt)
		if o := info.ObjectOf(as.Lhs[0].(*ast.Ident)); o != nil {
			snaps = append(snaps, snap{o, h})
		}
	}
	// the submit arm: returns and edits guarded by Matches(KeyEnter)
	enter, okEnter := c17Const(c.P.Pkg("vaxis"), "KeyEnter")
	if !okEnter {
		c.undecided(rule, he.Name+"/Enter", he.Decl.Pos(), "vaxis.KeyEnter not found")
		return
	}
	isEnterCond := func(e ast.Expr) bool {
		found := false
		var walk func(x ast.Expr, neg bool)
		walk = func(x ast.Expr, neg bool) {
			switch t := unparen(x).(type) {
			case *ast.UnaryExpr:
				if t.Op == token.NOT {
					walk(t.X, !neg)
				}
			case *ast.BinaryExpr:
				if t.Op == token.LOR || t.Op == token.LAND {
					walk(t.X, neg)
					walk(t.Y, neg)
				}
			case *ast.CallExpr:
				if fn := calleeOf(info, t); fn != nil && repoName(fn) == "vaxis.Key.Matches" && len(t.Args) == 1 && !neg {
					if v, ok := constInt(info, t.Args[0]); ok && v == enter {
						found = true
					}
				}
			}
		}
		walk(e, false)
		return found
	}
	inSubmitArm := func(l Loc) bool {
		for _, gd := range g.Guards(l) {
			if gd.Pol && gd.Cond.Tag == nil && isEnterCond(gd.Cond.Expr) {
				return true
			}
		}
		return false
	}
	notifiers := map[*types.Func]bool{}
	muts := g.Find(isMutation)
	// does any return go through a package function that is handed a snapshot? If none does, the
	// notification is organised in a way this rule does not recognise (C17.e still decides it by interpretation).
	shapeKnown := false
	for _, h := range g.Find(func(n ast.Node) bool { _, ok := n.(*ast.ReturnStmt); return ok }) {
		rs := h.Node.(*ast.ReturnStmt)
		if len(rs.Results) != 1 {
			continue
		}
		if call, ok := unparen(rs.Results[0]).(*ast.CallExpr); ok {
			if fn := calleeOf(info, call); fn != nil && fn.Pkg() == pk.Types {
				for _, a := range call.Args {
					if id, ok := unparen(a).(*ast.Ident); ok {
						for _, sn := range snaps {
							if sn.obj == info.ObjectOf(id) {
								shapeKnown = true
							}
						}
					}
				}
			}
		}
	}
	if !shapeKnown {
		if fld, at := c17LossySnapshot(c, he, info, pk.Types, tfT, valueF, muts); fld != "" {
			// the snapshot handed to the function the edits return through is a projection of the line (the cached
			// grapheme count, the cursor index): two different values of the line share it, so no comparison against
			// it can fire "exactly when the value changes"
			c.bad(rule, he.Name+"/change check", at, "the edits of HandleEvent return through a function that is handed a snapshot of %s taken before the edit, not of Value: %s is a projection of the line (an edit that changes Value and leaves %s as it was - typed text that joins the grapheme before the cursor - is indistinguishable from no edit), so OnChange cannot fire exactly when the value changes", fld, fld, fld)
		} else {
			c.undecided(rule, he.Name+"/change check", he.Decl.Pos(), "no return of HandleEvent passes a snapshot of Value to a change-check function: the notification shape is not recognised")
		}
		muts = nil
	}
	for _, h := range muts {
		if inSubmitArm(h.Loc) {
			continue // the reset that follows a submit is not claimed to be a change (see NotDec)
		}
		what := c17StmtOrCall(info, h.Node)
		key := fmt.Sprintf("%s/%s is reported through the change check", he.Name, what)
		// a snapshot that reaches the mutation unmodified
		var use *snap
		for i := range snaps {
			sn := &snaps[i]
			isSnap := func(n ast.Node) bool { return n == sn.hit.Node }
			if !g.MustPrecede(isSnap, h.Loc) {
				continue
			}
			dirty := false
			for _, x := range muts {
				if x.Node != h.Node && g.ReachesAvoiding(sn.hit.Loc, x.Loc, nil) && g.ReachesAvoiding(x.Loc, h.Loc, nil) {
					dirty = true
				}
			}
			if !dirty {
				use = sn
				break
			}
		}
		if use == nil {
			c.bad(rule, key, h.Node.Pos(), "the value before the edit is not captured on every path to it: a change cannot be detected")
			continue
		}
		isRet := func(n ast.Node) bool {
			rs, ok := n.(*ast.ReturnStmt)
			if !ok || len(rs.Results) != 1 {
				return false
			}
			call, ok := unparen(rs.Results[0]).(*ast.CallExpr)
			if !ok {
				return false
			}
			fn := calleeOf(info, call)
			if fn == nil || fn.Pkg() != pk.Types {
				return false
			}
			for _, a := range call.Args {
				if id, ok := unparen(a).(*ast.Ident); ok && info.ObjectOf(id) == use.obj {
					notifiers[fn] = true
					return true
				}
			}
			return false
		}
		okFollow, exit := g.MustFollow(h.Loc, isRet)
		if okFollow {
			c.ok(rule, key, h.Node.Pos(), "snapshot %s taken before, and every path returns the change check on it", use.obj.Name())
		} else {
			c.bad(rule, key, h.Node.Pos(), "after this edit a return (%s) is reachable that does not go through the change check: OnChange is not called although the value changed", c.P.Pos(c17ExitPos(exit, he.Decl.End())))
		}
	}
	if len(muts) == 0 && shapeKnown {
		c.undecided(rule, he.Name+"/edits", he.Decl.Pos(), "HandleEvent performs no edit of Value")
	}
	// the change check itself
	for fn := range notifiers {
		fi := c.P.FuncOfObj(fn)
		if fi == nil {
			continue
		}
		c17CheckChanged(c, fi, info, valueF, onChangeF)
	}
	if len(notifiers) == 0 && shapeKnown {
		c.undecided(rule, he.Name+"/change check", he.Decl.Pos(), "no change-check function found")
	}
	// the submit arm
	isSubmitCall := func(n ast.Node) bool {
		call, ok := n.(*ast.CallExpr)
		return ok && c17FieldOf(info, call.Fun, onSubmitF) != nil
	}
	submitCalls := g.Find(isSubmitCall)
	for _, h := range submitCalls {
		call := h.Node.(*ast.CallExpr)
		key := he.Name + "/OnSubmit receives the line as it is when Enter is pressed"
		argOK := len(call.Args) == 1 && c17FieldOf(info, call.Args[0], valueF) != nil
		readAt := h.Loc // where the line is read: the call, or the snapshot passed to it
		if !argOK && len(call.Args) == 1 {
			if id, ok := unparen(call.Args[0]).(*ast.Ident); ok {
				for i := range snaps {
					sn := &snaps[i]
					if sn.obj == info.ObjectOf(id) && g.MustPrecede(func(n ast.Node) bool { return n == sn.hit.Node }, h.Loc) {
						argOK, readAt = true, sn.hit.Loc
					}
				}
			}
		}
		early := ""
		for _, x := range muts {
			if g.ReachesAvoiding(x.Loc, readAt, nil) || (x.B == readAt.B && x.Idx < readAt.Idx) {
				early = c17StmtOrCall(info, x.Node)
			}
		}
		switch {
		case !argOK:
			c.bad(rule, key, call.Pos(), "OnSubmit is not passed the current Value")
		case early != "":
			c.bad(rule, key, call.Pos(), "%s can run before OnSubmit reads Value: the handler receives an edited (reset) line", early)
		default:
			c.ok(rule, key, call.Pos(), "argument is Value and no edit precedes the call (a reset, if any, is deferred)")
		}
	}
	nArm := 0
	for _, h := range g.Find(func(n ast.Node) bool { _, ok := n.(*ast.ReturnStmt); return ok }) {
		if !inSubmitArm(h.Loc) {
			continue
		}
		nArm++
		rs := h.Node.(*ast.ReturnStmt)
		key := he.Name + "/Enter returns through OnSubmit unless the handler is nil"
		calls := false
		for _, r := range rs.Results {
			if containsNode(r, isSubmitCall) {
				calls = true
			}
		}
		if !calls && g.MustPrecede(isSubmitCall, h.Loc) {
			calls = true
		}
		recvT := Term{}
		nilKnown := false
		for _, at := range g.FactsAt(h.Loc) {
			if at.Kind == "nil" && at.Pol && strings.HasSuffix(at.A.ID, "."+onSubmitF.Name()) {
				nilKnown = true
				recvT = at.A
			}
		}
		_ = recvT
		switch {
		case calls:
			c.ok(rule, key, rs.Pos(), "the return calls OnSubmit")
		case nilKnown:
			c.ok(rule, key, rs.Pos(), "reached only when OnSubmit == nil")
		default:
			c.bad(rule, key, rs.Pos(), "Enter can return without calling a non-nil OnSubmit")
		}
	}
	if nArm == 0 || len(submitCalls) == 0 {
		c.bad(rule, he.Name+"/Enter arm calls OnSubmit", he.Decl.Pos(), "no return guarded by Matches(KeyEnter) calls OnSubmit (%d returns in the arm, %d OnSubmit calls)", nArm, len(submitCalls))
	}
}

// c17LossySnapshot: HandleEvent returns, after an edit of Value, a call of a package function whose only snapshot
// argument is a local taken BEFORE that edit from one of the receiver's integer bookkeeping fields of the
// property's state (the cached grapheme count n, the cursor index), and no argument carries the old Value (no
// string-typed argument at all). Such a function sees the new state and an integer about the old one; since
// Value -> n and Value -> cursor are many-to-one, it cannot tell every change from no change. Returns the field
// expression text and the position of the snapshot ("" when the shape is not this one).
func c17LossySnapshot(c *Ctx, he *FuncInfo, info *types.Info, pkT *types.Package, tfT types.Type, valueF *types.Var, muts []Hit) (string, token.Pos) {
	g := c.P.Graph(he)
	proj := map[*types.Var]bool{}
	for _, name := range []string{"n", "cursor"} {
		if f := c17StructField(tfT, name); f != nil {
			if b, ok := f.Type().Underlying().(*types.Basic); ok && b.Info()&types.IsInteger != 0 {
				proj[f] = true
			}
		}
	}
	if len(proj) == 0 {
		return "", token.NoPos
	}
	// locals defined once, from a projection field of the receiver
	type def struct {
		hit Hit
		txt string
	}
	defs := map[types.Object]def{}
	nDef := map[types.Object]int{}
	for _, h := range g.Find(func(n ast.Node) bool { _, ok := n.(*ast.AssignStmt); return ok }) {
		as := h.Node.(*ast.AssignStmt)
		for i, l := range as.Lhs {
			id, ok := l.(*ast.Ident)
			if !ok {
				continue
			}
			o := info.ObjectOf(id)
			if o == nil {
				continue
			}
			nDef[o]++
			if len(as.Lhs) != len(as.Rhs) {
				continue
			}
			for f := range proj {
				if c17FieldOf(info, c17StripConv(info, as.Rhs[i]), f) != nil {
					defs[o] = def{h, types.ExprString(c17StripConv(info, as.Rhs[i]))}
				}
			}
		}
	}
	for _, h := range g.Find(func(n ast.Node) bool { _, ok := n.(*ast.ReturnStmt); return ok }) {
		rs := h.Node.(*ast.ReturnStmt)
		if len(rs.Results) != 1 {
			continue
		}
		call, ok := unparen(rs.Results[0]).(*ast.CallExpr)
		if !ok {
			continue
		}
		fn := calleeOf(info, call)
		if fn == nil || fn.Pkg() != pkT {
			continue
		}
		var hitDef *def
		carriesString := false
		for _, a := range call.Args {
			if tv, ok := info.Types[a]; ok && tv.Type != nil {
				if b, ok := tv.Type.Underlying().(*types.Basic); ok && b.Info()&types.IsString != 0 {
					carriesString = true
				}
			}
			if id, ok := unparen(a).(*ast.Ident); ok {
				if o := info.ObjectOf(id); o != nil && nDef[o] == 1 {
					if d, ok := defs[o]; ok {
						d := d
						hitDef = &d
					}
				}
			}
		}
		if hitDef == nil || carriesString {
			continue
		}
		// the snapshot is taken before an edit that this return follows
		for _, mu := range muts {
			if g.ReachesAvoiding(hitDef.hit.Loc, mu.Loc, nil) && g.ReachesAvoiding(mu.Loc, h.Loc, nil) {
				return hitDef.txt, hitDef.hit.Node.Pos()
			}
			if hitDef.hit.B == mu.B && mu.B == h.B && hitDef.hit.Idx < mu.Idx && mu.Idx < h.Idx {
				return hitDef.txt, hitDef.hit.Node.Pos()
			}
		}
	}
	return "", token.NoPos
}

func c17StmtOrCall(info *types.Info, n ast.Node) string {
	if call, ok := n.(*ast.CallExpr); ok {
		if fn := calleeOf(info, call); fn != nil {
			return "call " + fn.Name()
		}
	}
	return "store " + c17StmtText(info, n)
}

// c17CheckChanged: the function that compares the value with the snapshot and calls OnChange.
func c17CheckChanged(c *Ctx, fi *FuncInfo, info *types.Info, valueF, onChangeF *types.Var) {
	const rule = "C17.c"
	g := c.P.Graph(fi)
	// the snapshot parameter: a string parameter
	var pre types.Object
	for _, f := range fi.Decl.Type.Params.List {
		for _, n := range f.Names {
			if o := info.Defs[n]; o != nil {
				if bt, ok := o.Type().Underlying().(*types.Basic); ok && bt.Info()&types.IsString != 0 {
					pre = o
				}
			}
		}
	}
	if pre == nil {
		c.undecided(rule, fi.Name+"/snapshot parameter", fi.Decl.Pos(), "no string parameter")
		return
	}
	preID := fmt.Sprintf("%p", pre)
	isValueTerm := func(t Term) bool {
		return strings.HasSuffix(t.ID, "."+valueF.Name()) && !strings.HasPrefix(t.ID, "expr:")
	}
	isChangeTerm := func(t Term) bool {
		return strings.HasSuffix(t.ID, "."+onChangeF.Name()) && !strings.HasPrefix(t.ID, "expr:")
	}
	relates := func(at Atom, kind string) bool {
		if at.Kind != kind || at.K != 0 {
			return false
		}
		return (isValueTerm(at.A) && at.B.ID == preID) || (isValueTerm(at.B) && at.A.ID == preID)
	}
	isCB := func(n ast.Node) bool {
		call, ok := n.(*ast.CallExpr)
		return ok && c17FieldOf(info, call.Fun, onChangeF) != nil
	}
	cbs := g.Find(isCB)
	if len(cbs) == 0 {
		c.bad(rule, fi.Name+"/OnChange is called", fi.Decl.Pos(), "the change check never calls OnChange")
		return
	}
	// neither the snapshot nor Value may be modified here
	mod := g.Find(func(n ast.Node) bool {
		switch s := n.(type) {
		case *ast.AssignStmt:
			for _, l := range s.Lhs {
				if c17FieldOf(info, l, valueF) != nil {
					return true
				}
				if id, ok := l.(*ast.Ident); ok && info.ObjectOf(id) == pre {
					return true
				}
			}
		}
		return false
	})
	if len(mod) > 0 {
		c.undecided(rule, fi.Name+"/compares the untouched snapshot", mod[0].Node.Pos(), "the change check modifies Value or the snapshot")
		return
	}
	for _, h := range cbs {
		call := h.Node.(*ast.CallExpr)
		facts := g.FactsAt(h.Loc)
		changed, nonNil := false, false
		for _, at := range facts {
			if relates(at, "ne") {
				changed = true
			}
			if at.Kind == "nil" && !at.Pol && isChangeTerm(at.A) {
				nonNil = true
			}
		}
		c.check(changed, rule, fi.Name+"/OnChange only when Value differs from the snapshot", call.Pos(),
			"guarded by Value != snapshot", "OnChange can be called although the value did not change (facts: "+atomsString(facts)+")")
		c.check(nonNil, rule, fi.Name+"/OnChange only when non-nil", call.Pos(), "guarded by OnChange != nil", "a nil OnChange can be called")
		c.check(len(call.Args) == 1 && c17FieldOf(info, call.Args[0], valueF) != nil, rule, fi.Name+"/OnChange receives the new Value", call.Pos(),
			"argument is the current Value", "OnChange is not passed the current Value")
	}
	// implies: the condition e having truth value pol implies "Value == snapshot or OnChange == nil"
	var implies func(e ast.Expr, pol bool) bool
	implies = func(e ast.Expr, pol bool) bool {
		e = unparen(e)
		if u, ok := e.(*ast.UnaryExpr); ok && u.Op == token.NOT {
			return implies(u.X, !pol)
		}
		if be, ok := e.(*ast.BinaryExpr); ok && (be.Op == token.LAND || be.Op == token.LOR) {
			if (be.Op == token.LAND) == pol { // both operands hold with polarity pol
				return implies(be.X, pol) || implies(be.Y, pol)
			}
			return implies(be.X, pol) && implies(be.Y, pol)
		}
		for _, at := range exprAtoms(info, e, pol) {
			if relates(at, "eq") || (at.Kind == "nil" && at.Pol && isChangeTerm(at.A)) {
				return true
			}
		}
		return false
	}
	for _, h := range g.Find(func(n ast.Node) bool { _, ok := n.(*ast.ReturnStmt); return ok }) {
		if g.MustPrecede(isCB, h.Loc) {
			continue
		}
		facts := g.FactsAt(h.Loc)
		okSkip := false
		why := ""
		for _, gd := range g.Guards(h.Loc) {
			if gd.Cond.Tag == nil && implies(gd.Cond.Expr, gd.Pol) {
				okSkip, why = true, "the value is unchanged or no handler is set ("+types.ExprString(gd.Cond.Expr)+")"
			}
		}
		for _, at := range facts {
			if relates(at, "eq") {
				okSkip, why = true, "Value == snapshot"
			}
			if at.Kind == "nil" && at.Pol && isChangeTerm(at.A) {
				okSkip, why = true, "OnChange == nil"
			}
		}
		key := fi.Name + "/return without OnChange only when unchanged or no handler"
		if okSkip {
			c.ok(rule, key, h.Node.Pos(), "reached only when %s", why)
		} else {
			c.bad(rule, key, h.Node.Pos(), "this return skips OnChange although the value may have changed and a handler may be set (facts: %s)", atomsString(facts))
		}
	}
}

// ---- rule d: loops stepping Model.offset are bounded ------------------------------

func c17RuleD(c *Ctx) {
	const rule = "C17.d"
	const pkgName = "widgets/textinput"
	pk := c.P.Pkg(pkgName)
	mT := c17Named(pk, "Model")
	offsetF := c17StructField(mT, "offset")
	if pk == nil || offsetF == nil {
		c.undecided(rule, pkgName+".Model.offset", token.NoPos, "Model.offset not found")
		return
	}
	info := pk.TypesInfo
	found := 0
	for _, fi := range c.P.FuncsIn(pkgName) {
		g := c.P.Graph(fi)
		if g == nil {
			continue
		}
		reach := func(from *cfg.Block) map[*cfg.Block]bool {
			seen := map[*cfg.Block]bool{}
			st := append([]*cfg.Block{}, from.Succs...)
			for len(st) > 0 {
				x := st[len(st)-1]
				st = st[:len(st)-1]
				if seen[x] {
					continue
				}
				seen[x] = true
				st = append(st, x.Succs...)
			}
			return seen
		}
		stepOf := func(n ast.Node, isTarget func(ast.Expr) bool) (dir int, ok bool) {
			switch s := n.(type) {
			case *ast.IncDecStmt:
				if isTarget(s.X) {
					if s.Tok == token.INC {
						return 1, true
					}
					return -1, true
				}
			case *ast.AssignStmt:
				if len(s.Lhs) != 1 || len(s.Rhs) != 1 || !isTarget(s.Lhs[0]) {
					return 0, false
				}
				switch s.Tok {
				case token.ADD_ASSIGN, token.SUB_ASSIGN:
					if v, ok := constInt(info, s.Rhs[0]); ok && v != 0 {
						if (v > 0) == (s.Tok == token.ADD_ASSIGN) {
							return 1, true
						}
						return -1, true
					}
					return 0, true
				case token.ASSIGN:
					t, k := linForm(info, s.Rhs[0])
					if t.ID == termOf(info, s.Lhs[0]).ID && k != 0 {
						if k > 0 {
							return 1, true
						}
						return -1, true
					}
					return 0, true
				}
				return 0, true
			}
			return 0, false
		}
		for _, h := range g.Find(func(n ast.Node) bool {
			_, ok := stepOf(n, func(e ast.Expr) bool { return c17FieldOf(info, e, offsetF) != nil })
			return ok
		}) {
			if h.Node != h.Top {
				continue
			}
			fromHere := reach(h.B)
			if !fromHere[h.B] {
				continue // not in a loop
			}
			found++
			scc := map[*cfg.Block]bool{}
			for b := range fromHere {
				if reach(b)[h.B] {
					scc[b] = true
				}
			}
			key := fmt.Sprintf("%s/loop stepping %s has a loop-invariant bound", fi.Name, c17StmtText(info, h.Node))
			// assignments inside the loop, by term
			assigned := func(id string) (steps []Hit, other bool) {
				for b := range scc {
					for i, n := range b.Nodes {
						inspectNoLit(n, func(y ast.Node) bool {
							var lhs []ast.Expr
							switch s := y.(type) {
							case *ast.AssignStmt:
								lhs = s.Lhs
							case *ast.IncDecStmt:
								lhs = []ast.Expr{s.X}
							case *ast.UnaryExpr:
								if s.Op == token.AND {
									lhs = []ast.Expr{s.X}
								}
							}
							for _, l := range lhs {
								lid := termOf(info, l).ID
								if lid == id {
									if _, ok := stepOf(y, func(e ast.Expr) bool { return termOf(info, e).ID == id }); ok {
										steps = append(steps, Hit{Loc: Loc{b, i}, Node: y, Top: n})
									} else {
										other = true
									}
								} else if strings.HasPrefix(id, lid+".") || strings.HasPrefix(lid, id+".") || strings.Contains(id, "("+lid+")") || strings.Contains(id, "("+lid+".") {
									other = true
								}
							}
							return true
						})
					}
				}
				return
			}
			invariant := func(t Term) bool {
				if t.ID == "" {
					return true
				}
				if strings.HasPrefix(t.ID, "expr:") {
					return false
				}
				steps, other := assigned(t.ID)
				return len(steps) == 0 && !other
			}
			bounded, why := false, ""
			// a step inside a range clause over a slice/array/string/map/int is bounded by the clause itself
			parents := c.P.Parents(pk)
			for cur := ast.Node(h.Node); cur != nil; cur = parents[cur] {
				if _, isFor := cur.(*ast.ForStmt); isFor {
					break
				}
				if _, isFn := cur.(*ast.FuncDecl); isFn {
					break
				}
				if rs, ok := cur.(*ast.RangeStmt); ok {
					switch info.TypeOf(rs.X).Underlying().(type) {
					case *types.Slice, *types.Array, *types.Basic, *types.Map, *types.Pointer:
						bounded, why = true, "the enclosing range clause over "+types.ExprString(c17Strip(rs.X))+" is evaluated once"
					}
					break
				}
			}
			for _, gd := range g.Guards(h.Loc) {
				if !scc[gd.From] {
					continue
				}
				for _, at := range condAtoms(info, gd.Cond, gd.Pol) {
					if at.Kind != "lin" {
						continue
					}
					for _, side := range []struct {
						v, bound Term
						dir      int
					}{{at.A, at.B, 1}, {at.B, at.A, -1}} {
						if side.v.ID == "" || strings.HasPrefix(side.v.ID, "expr:") || !invariant(side.bound) {
							continue
						}
						steps, other := assigned(side.v.ID)
						if other || len(steps) == 0 {
							continue
						}
						good := true
						for _, sh := range steps {
							d, _ := stepOf(sh.Node, func(e ast.Expr) bool { return termOf(info, e).ID == side.v.ID })
							if d != side.dir {
								good = false
							}
						}
						if !good {
							continue
						}
						// every trip round the loop takes a step
						succ := gd.From.Succs[1]
						if gd.Pol {
							succ = gd.From.Succs[0]
						}
						isStep := func(n ast.Node) bool {
							for _, sh := range steps {
								if sh.Node == n {
									return true
								}
							}
							return false
						}
						if g.ReachesAvoiding(Loc{succ, -1}, Loc{gd.From, 0}, isStep) {
							continue
						}
						bounded, why = true, at.String()
					}
				}
			}
			if bounded && strings.HasPrefix(why, "the enclosing range") {
				c.ok(rule, key, h.Node.Pos(), "%s", why)
			} else if bounded {
				c.ok(rule, key, h.Node.Pos(), "the loop continues only while %s, the bound is not assigned in the loop and every iteration steps towards it", why)
			} else {
				c.bad(rule, key, h.Node.Pos(), "no condition of the loop bounds the stepped value by something the loop leaves unchanged: when the window is too narrow for the exit test to become false the loop never ends")
			}
		}
	}
	if found == 0 {
		c.okTrivial(rule, pkgName+"/no loop steps Model.offset", token.NoPos, "offset is not adjusted in a loop")
	}
}

// ---------------------------------------------------------------------------

func runC17(c *Ctx) {
	c.Clauses = []string{
		"C17.a TextField: n == graphemes(Value) at every return of every exported function (n = count(Value), or n = 0 with Value = \"\"); n never read while stale; no store to Value outside the package; literals coherent; the counting helper counts clusters",
		"C17.b textinput: 0 <= cursor <= len(content) at every return of every function storing cursor/content; every out-of-range-capable store is re-clamped before every return",
		"C17.c TextField.HandleEvent: each edit has a snapshot before it and returns through the change check; the check calls OnChange(Value) exactly when Value != snapshot and the handler is set; Enter calls OnSubmit(Value) before any reset unless nil",
		"C17.d every loop stepping Model.offset continues only under a bound by a loop-invariant term and steps on every iteration",
		"C17.e TextField (interpreted, bounded states x every binding and exported editing method): one step equals the ideal grapheme editor in Value, cursor and n; OnChange/OnSubmit fire exactly as specified",
		"C17.f textinput.Update (interpreted, bounded states x every case label, text, paste brackets, release, SetContent/String/CursorPosition): one step equals the ideal grapheme editor",
		"C17.h key event types (interpreted): in TextField.HandleEvent and textinput.Update a repeat event (EventRepeat) of every reference binding and of typed text performs the same step as a press; a release event of every binding changes nothing and fires no callback (paste-type keys are buffered, C17.f)",
		"C17.g Draw (interpreted): returns for every window width 1..16; when the text fits (with the scroll margin) the drawn cursor column is the display width of the text before the cursor",
	}
	c.NotDec = []string{
		"equality with the ideal editor outside the bounded domain (strings longer than 8 clusters, other scripts, ZWJ / regional-indicator sequences)",
		"insertions whose last cluster merges with the cluster after the cursor",
		"the drawn cursor column while the widget scrolls",
		"whether the reset on Enter should count as a change for OnChange",
	}
	c.Assume = append(c.Assume,
		"models used by the interpreter: uniseg.FirstGraphemeClusterInString and vaxis.Characters segment the test alphabet as base rune + U+0301* (UAX #29 GB9) with CJK width 2; strings.Builder, slices.Insert and append behave as documented; Key.Matches(k, mods) is true exactly for the pressed (Keycode, Modifiers) (rule 1 of its doc); Key.String() yields the case label of the pressed key; Window.SetCell/Fill are effect-free for the editor state",
		"the entry invariant of every editing step is the property's own invariant (n coherent, cursor within the text): single steps from all invariant states cover histories by induction within the bounded domain")
	// minima count what must exist whatever the code shape: a = counting helper + HandleEvent coherence + no external store;
	// b = Update and SetContent at their returns; c = the OnChange guard triple + one edit + the submit arm; e, f, g are driven
	// by the reference tables of this file, not by the shape of the code
	c.expect("C17.a", 3)
	c.expect("C17.b", 2)
	c.expect("C17.c", 5)
	c.expect("C17.d", 1)
	c.expect("C17.e", 20)
	c.expect("C17.f", 20)
	c.expect("C17.g", 3)
	if _, ok := c17Const(c.P.Pkg("vaxis"), "EventRepeat"); ok {
		c.expect("C17.h", 4)
	}

	vx := c.P.Pkg("vaxis")
	ty := &c17Types{vx: vx, keyT: c17Named(vx, "Key"), charT: c17Named(vx, "Character"), windowT: c17Named(vx, "Window"), pasteEndT: c17Named(vx, "PasteEndEvent")}
	if vx == nil || ty.keyT == nil || ty.charT == nil {
		c.undecided("C17.e", "vaxis.Key / vaxis.Character", token.NoPos, "types not found")
		return
	}
	kf, cf := c17FieldNames(ty.keyT), c17FieldNames(ty.charT)
	if !kf["Keycode"] || !kf["Modifiers"] || !kf["Text"] || !kf["EventType"] || !cf["Grapheme"] || !cf["Width"] {
		c.undecided("C17.e", "vaxis.Key / vaxis.Character fields", token.NoPos, "Key.Keycode/Modifiers/Text/EventType or Character.Grapheme/Width not found")
		return
	}
	m := c17NewMachine(c)
	m.installModels(ty)
	m.keys = c17NewKeys(m, ty)
	if !m.keys.fromRepo {
		c.info("vaxis.keyNames could not be read from the source; built-in key names used")
	}

	c17RuleA(c, m)
	c17RuleB(c, m, ty)
	// writers of Value for rule c
	writesV := map[*types.Func]bool{}
	if pk := c.P.Pkg("vxfw/textfield"); pk != nil {
		tfT := c17Named(pk, "TextField")
		a := &c17A{c: c, pk: pk, info: pk.TypesInfo, valueF: c17StructField(tfT, "Value"), nF: c17StructField(tfT, "n"), funcs: map[*types.Func]*FuncInfo{}}
		if a.valueF != nil && a.nF != nil {
			for _, fi := range c.P.FuncsIn("vxfw/textfield") {
				if fi.Decl.Body != nil {
					a.funcs[fi.Obj] = fi
				}
			}
			a.closure()
			writesV = a.writesV
		}
	}
	c17SemTextField(c, m, ty)
	c17SemTextInput(c, m, ty)
	c17SemDraw(c, m, ty)
	// The data-flow rules c and d recognise particular code shapes. Where a shape is not the one they understand
	// (helpers taking function values, a submit arm moved into a method, a loop bounded by a range clause …) the
	// behaviour itself is still decided by the interpreted rules e and g; a structural verdict is reported as a
	// violation only when the interpretation does not vouch for the behaviour.
	semOK := func(rule, part string) bool {
		n := 0
		for _, o := range c.Obs {
			if o.Rule == rule && strings.Contains(o.Key, part) {
				n++
				if o.Status != Discharged {
					return false
				}
			}
		}
		return n > 0
	}
	vouch := func(rule string, from int, by string) {
		for _, o := range c.Obs[from:] {
			if o.Rule == rule && o.Status != Discharged {
				o.Reason = "code shape not recognised by the data-flow rule (" + o.Reason + "); " + by
				o.Status = Discharged
			}
		}
	}
	mark := len(c.Obs)
	c17RuleC(c, writesV)
	if semOK("C17.e", ".HandleEvent/") {
		vouch("C17.c", mark, "decided by C17.e: every binding from every state of the bounded domain fires OnChange / OnSubmit exactly as specified")
	}
	mark = len(c.Obs)
	c17RuleD(c)
	if semOK("C17.g", ".Draw/returns for every window width") {
		vouch("C17.d", mark, "decided by C17.g: Draw returns for every window width of the domain")
	}
	if os.Getenv("VXCHECK_C17_DUMP") != "" {
		for _, o := range c.Obs {
			fmt.Printf("DUMP %-10s %s  [%s] %s\n", o.Status, o.Key, o.Pos, o.Reason)
		}
	}
}

// c17CoherentBySim interprets a TextField method from every state of the bounded domain (arguments
// synthesised for string and integer parameters) and checks n == graphemes(Value) afterwards.
func c17CoherentBySim(c *Ctx, m *c17M, fi *FuncInfo, tfT types.Type) (runs int, witness, undec string) {
	sig := fi.Obj.Type().(*types.Signature)
	if sig.Recv() == nil || sig.Variadic() {
		return 0, "", "not a method"
	}
	rt := sig.Recv().Type()
	if p, ok := rt.(*types.Pointer); ok {
		rt = p.Elem()
	}
	if !types.Identical(rt, tfT) {
		return 0, "", "receiver is not TextField"
	}
	// argument tuples
	tuples := [][]c17V{nil}
	for i := 0; i < sig.Params().Len(); i++ {
		bt, ok := sig.Params().At(i).Type().Underlying().(*types.Basic)
		var opts []c17V
		switch {
		case ok && bt.Info()&types.IsString != 0:
			opts = []c17V{c17S(""), c17S("x"), c17S("世"), c17S("e\u0301"), c17S("xy")}
		case ok && bt.Info()&types.IsInteger != 0:
			opts = []c17V{c17I(0), c17I(1), c17I(2), c17I(5)}
		default:
			return 0, "", "parameter of type " + sig.Params().At(i).Type().String()
		}
		var next [][]c17V
		for _, t := range tuples {
			for _, o := range opts {
				next = append(next, append(append([]c17V{}, t...), o))
			}
		}
		tuples = next
	}
	// the last states are those in which deleting one grapheme joins its neighbours (c17x.go): an incremental
	// update such as n -= 1 is right on the others and wrong there
	for _, val := range append([]string{"", "a", "ab", "abc", "a世c", "e\u0301b"}, c17JoinStates...) {
		cls := c17Clusters(val)
		for cur := 0; cur <= len(cls); cur++ {
			for _, args := range tuples {
				obj := m.zero(tfT, 0)
				*obj.st.f["Value"] = c17S(val)
				*obj.st.f["cursor"] = c17I(int64(cur))
				*obj.st.f["n"] = c17I(int64(len(cls)))
				p := c17V{k: c17Ptr, ptr: &obj}
				_, _, ab := m.c17Call(fi, p, args...)
				runs++
				ctx := fmt.Sprintf("Value=%q cursor=%d, %s%s", val, cur, fi.Obj.Name(), c17V{k: c17Tup, tup: args}.String())
				if ab != nil {
					if ab.kind == "unsupported" {
						return runs, "", ab.msg
					}
					return runs, ctx + ": " + ab.msg, ""
				}
				v, n := obj.st.f["Value"], obj.st.f["n"]
				if v.k != c17Str || n.k != c17Int {
					return runs, "", "state not computable"
				}
				if n.i != int64(len(c17Clusters(v.s))) {
					return runs, fmt.Sprintf("%s: n=%d but Value %q has %d graphemes", ctx, n.i, v.s, len(c17Clusters(v.s))), ""
				}
			}
		}
	}
	return runs, "", ""
}

type c17Lock struct {
	name string
	mods int64
	text string
}

// c17LockVariants: the modifier sets a kitty-protocol terminal reports for an ordinary "x" key while a lock is on.
func c17LockVariants(vx *packages.Package) []c17Lock {
	caps, okC := c17Const(vx, "ModCapsLock")
	num, okN := c17Const(vx, "ModNumLock")
	shift, okS := c17Const(vx, "ModShift")
	var out []c17Lock
	if okC {
		out = append(out, c17Lock{"CapsLock", caps, "X"})
	}
	if okN {
		out = append(out, c17Lock{"NumLock", num, "x"})
	}
	if okC && okN {
		out = append(out, c17Lock{"CapsLock+NumLock", caps | num, "X"})
	}
	if okC && okS {
		out = append(out, c17Lock{"Shift+CapsLock", shift | caps, "x"})
	}
	return out
}
