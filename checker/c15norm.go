package main

// c15norm — source normalisation shared by C15 and C16: calls to small helper
// functions of the same package (the result of "extract method/function"
// refactorings) are inlined into their callers, the changed files are printed,
// re-parsed and the affected packages re-type-checked. The rules then see the
// statement sequences they know, whatever way the code was cut into helpers.
//
// The rewrite is purely syntactic and conservative: a call is inlined only if
//   * the callee is a declared function/method of the same package with a body, is not one of the
//     functions the rules look up by name (anchors), is not exported, is not (mutually) recursive,
//     has no defer/go/closures/named results/variadics, and is small;
//   * the call stands alone as a statement, is the only right-hand side of an assignment /
//     short declaration / return, is the (possibly negated) condition of an if, or is the init statement
//     `if a, b := h(...); cond { T } else { E }` of an if (c15norm2.go: every return of h continues with the
//     branch its values select);
//   * h(g(...)) with g returning one value per parameter binds the values to fresh parameter locals in one statement;
//   * arguments that are plain identifiers / constants are substituted, all others are bound to
//     fresh locals in evaluation order; all locals and labels of the callee get fresh names;
//   * `return` inside the callee becomes result assignment + leaving a labelled one-shot switch
//     (or nothing at all when the only return is the last statement); in a condition position
//     each `return true/false` continues with the caller's then/else branch (path preserving).
// Anything else is left as it is (the call stays). Nothing is executed.

import (
	"bytes"
	"fmt"
	"go/ast"
	"go/parser"
	"go/printer"
	"go/token"
	"go/types"
	"os"
	"reflect"
	"sort"
	"strconv"
	"strings"

	"golang.org/x/tools/go/packages"
)

type c15Inliner struct {
	c        *Ctx
	pk       *packages.Package
	info     *types.Info
	decls    map[*types.Func]*ast.FuncDecl
	fileOf   map[*ast.FuncDecl]*ast.File
	anchor   func(fd *ast.FuncDecl) bool
	counter  *int
	changed  map[*ast.File]bool
	curFile  *ast.File
	curFn    *types.Func
	notes    []string
	origOf   map[ast.Expr]ast.Expr
	stack    []*c15Encl
	curGraph *FG
	curDecl  *ast.FuncDecl
	wrap     map[ast.Stmt]string // statements that must get a label
	// local closures (c15norm3.go)
	closures bool
	clFor    *ast.FuncDecl
	clDefs   map[types.Object]*c15Closure
	clOfFn   map[*types.Func]*c15Closure
}

// c15Encl is an enclosing loop / switch / select of the statement being rewritten.
type c15Encl struct {
	stmt   ast.Stmt
	label  string
	isLoop bool
}

// (a variable so that a property-specific pass may raise it for its own run: c18norm.go)
var c15MaxInlineNodes = 160

// c15PropagateSlices: c15PropagateIn also substitutes single-definition locals defined by a slice expression
// (off by default, see c15PureExpr; switched on by c18norm.go for the SGR consumers only).
var c15PropagateSlices = false

// c15Normalise inlines helper calls in the given packages (short names, in
// dependency order). Returns a description of what was done (for evidence).
func c15Normalise(c *Ctx, shorts []string, anchors map[string]bool) {
	c15NormaliseOpt(c, shorts, anchors, true)
}

// c15NormaliseOpt: with propagate == false only helper calls are inlined (no canonicalisation of declarations,
// no propagation of single-definition locals): the mode used by the global pre-normalisation.
//
// Failure handling: the rewritten text is re-type-checked after every round. When it does not type-check (a defect of
// the inliner, or a construct it does not understand) the syntax trees are half rewritten and cannot be trusted: the
// program is loaded again from disk, the global pre-pass (if it had run) is repeated, and the normalisation is retried
// with the function the error was found in left as it is written (c15NormSkip). If that does not help either, the
// program is analysed un-normalised: the rules then see the helpers as calls and report what they cannot judge
// themselves. A failed normalisation never fails the load.
func c15NormaliseOpt(c *Ctx, shorts []string, anchors map[string]bool, propagate bool) {
	for attempt := 0; ; attempt++ {
		bad, err := c15NormaliseTry(c, shorts, anchors, propagate)
		if err == nil {
			return
		}
		retry := bad != "" && !c15NormSkip[bad] && attempt < 4
		if retry {
			c15NormSkip[bad] = true
		}
		if !c15Reload(c, fmt.Sprintf("normalisation produced code that does not type-check (%v)", err)) {
			return
		}
		if !retry {
			c.info("normalisation of %s abandoned; the text is analysed as it is written", strings.Join(shorts, ","))
			return
		}
		c.info("normalisation retried with %s left as written", bad)
	}
}

// c15NormSkip: functions ("pkg.(*T).name") that no pass rewrites any more in this run (see c15NormaliseOpt).
var c15NormSkip = map[string]bool{}

// c15GlobalShorts is set by the global pre-pass (gnorm.go) once it has rewritten the program: a reload repeats it.
var c15GlobalShorts []string

// c15Reload loads the program again from disk and repeats the global pre-pass. false = the program is gone (reported).
func c15Reload(c *Ctx, why string) bool {
	p, err := Load(c.P.Repo, c.P.GOOS, loadNeedSSA)
	if err != nil {
		c.undecided("LOAD", "normalise", 0, "%s and the program could not be reloaded: %v", why, err)
		return false
	}
	c.P = p
	installAccessorResolver(p)
	c.info("%s; the program was loaded again", why)
	if os.Getenv("VXCHECK_DUMPSRC") != "" {
		fmt.Printf("RELOAD: %s\n", why)
	}
	if len(c15GlobalShorts) > 0 {
		if _, err := c15NormaliseTry(c, c15GlobalShorts, refFuncNames, false); err != nil {
			// the global pass fails as well: give it up for the rest of the run
			c15GlobalShorts = nil
			p, err := Load(c.P.Repo, c.P.GOOS, loadNeedSSA)
			if err != nil {
				c.undecided("LOAD", "normalise", 0, "%s and the program could not be reloaded: %v", why, err)
				return false
			}
			c.P = p
			installAccessorResolver(p)
			c.info("global normalisation abandoned (the inlined program did not type-check); the original text is analysed")
		}
	}
	return true
}

// c15RecheckError is a type error of the rewritten text, with the function it was found in ("" = unknown).
type c15RecheckError struct {
	err error
	fn  string
}

func (e *c15RecheckError) Error() string { return e.err.Error() }

// c15NormaliseTry is one attempt: on error the syntax trees of c.P are in an undefined state.
func c15NormaliseTry(c *Ctx, shorts []string, anchors map[string]bool, propagate bool) (badFn string, err error) {
	defer func() {
		if r := recover(); r != nil {
			err = fmt.Errorf("panic in the normaliser: %v", r)
		}
	}()
	fail := func(stage string, e error) (string, error) {
		fn := ""
		if re, ok := e.(*c15RecheckError); ok {
			fn = re.fn
		}
		return fn, fmt.Errorf("%s: %v", stage, e)
	}
	counter := 0
	// fresh names are <name>_inl<N>: start above every N an earlier normalisation pass left in the text
	for _, sh := range shorts {
		if pk := c.P.Pkg(sh); pk != nil {
			for _, f := range pk.Syntax {
				ast.Inspect(f, func(n ast.Node) bool {
					if id, ok := n.(*ast.Ident); ok {
						for _, mark := range []string{"_inl", "_encl"} {
							if i := strings.LastIndex(id.Name, mark); i >= 0 {
								if k, err := strconv.Atoi(id.Name[i+len(mark):]); err == nil && k > counter {
									counter = k
								}
							}
						}
					}
					return true
				})
			}
		}
	}
	// 0. the functions the rules look up by name are brought into the declaration form the rules know
	//    (plain function <-> method on its first parameter); call sites follow
	if propagate {
		changedFiles := map[*packages.Package]map[*ast.File]bool{}
		for _, sh := range shorts {
			if pk := c.P.Pkg(sh); pk != nil {
				if ch := c15CanonDecls(c, pk); len(ch) > 0 {
					changedFiles[pk] = ch
				}
			}
		}
		if len(changedFiles) > 0 {
			if err := c15Recheck(c, shorts, changedFiles); err != nil {
				return fail("function/method canonicalisation", err)
			}
		}
	}
	maxRounds := 6
	if c15InlineClosures {
		maxRounds = 14 // the C15 run also unrolls table-driven loops and inlines closures: more, smaller steps
	}
	for round := 0; round < maxRounds; round++ {
		changedFiles := map[*packages.Package]map[*ast.File]bool{}
		if c15InlineClosures {
			// table-driven loops are unrolled and dead loops dropped first (c15norm4.go): the helper calls in their
			// bodies then stand at statement level with the row's data as arguments
			for _, sh := range shorts {
				if pk := c.P.Pkg(sh); pk != nil {
					if ch := c15UnrollTables(c, pk); len(ch) > 0 {
						changedFiles[pk] = ch
					}
				}
			}
			if len(changedFiles) > 0 {
				if err := c15Recheck(c, shorts, changedFiles); err != nil {
					return fail("table unrolling", err)
				}
				continue
			}
		}
		for _, sh := range shorts {
			pk := c.P.Pkg(sh)
			if pk == nil {
				continue
			}
			in := &c15Inliner{c: c, pk: pk, info: pk.TypesInfo, decls: map[*types.Func]*ast.FuncDecl{}, fileOf: map[*ast.FuncDecl]*ast.File{},
				counter: &counter, changed: map[*ast.File]bool{}, wrap: map[ast.Stmt]string{}, closures: c15InlineClosures, clOfFn: map[*types.Func]*c15Closure{}}
			in.anchor = func(fd *ast.FuncDecl) bool {
				return fd.Name.IsExported() || anchors[fd.Name.Name] || fd.Name.Name == "init" || fd.Name.Name == "main"
			}
			for _, f := range pk.Syntax {
				for _, d := range f.Decls {
					if fd, ok := d.(*ast.FuncDecl); ok && fd.Body != nil {
						if obj, ok := pk.TypesInfo.Defs[fd.Name].(*types.Func); ok {
							in.decls[obj] = fd
							in.fileOf[fd] = f
						}
					}
				}
			}
			for _, f := range pk.Syntax {
				in.curFile = f
				for _, d := range f.Decls {
					fd, ok := d.(*ast.FuncDecl)
					if !ok || fd.Body == nil || c15NormSkip[sh+"."+funcDeclName(fd)] {
						continue
					}
					in.curFn, _ = pk.TypesInfo.Defs[fd.Name].(*types.Func)
					in.curGraph = nil
					in.curDecl = fd
					fd.Body.List = in.rewriteList(fd.Body.List)
					in.dropDeadClosures(fd)
				}
			}
			if len(in.changed) > 0 {
				changedFiles[pk] = in.changed
				for _, n := range in.notes {
					c.info("normalised: %s", n)
				}
			}
		}
		if len(changedFiles) > 0 {
			if err := c15Recheck(c, shorts, changedFiles); err != nil {
				return fail("helper inlining", err)
			}
			continue // inline again (helpers of helpers) before locals are propagated
		}
		if !propagate {
			return "", nil
		}
		// no call left to inline: substitute single-definition pure locals
		for _, sh := range shorts {
			pk := c.P.Pkg(sh)
			if pk == nil {
				continue
			}
			if ch := c15PropagateLocals(c, pk); len(ch) > 0 {
				changedFiles[pk] = ch
			}
		}
		if len(changedFiles) == 0 {
			return "", nil
		}
		if err := c15Recheck(c, shorts, changedFiles); err != nil {
			return fail("local-variable propagation", err)
		}
	}
	return "", nil
}

// ---------------------------------------------------------------------------
// statement-list rewriting

func (in *c15Inliner) rewriteList(list []ast.Stmt) []ast.Stmt {
	var out []ast.Stmt
	for _, st := range list {
		if rep, ok := in.tryStmt(st); ok {
			out = append(out, rep...)
			in.changed[in.curFile] = true
			continue
		}
		in.descend(st, "")
		if lbl, ok := in.wrap[st]; ok {
			delete(in.wrap, st)
			out = append(out, &ast.LabeledStmt{Label: ast.NewIdent(lbl), Stmt: st})
			in.changed[in.curFile] = true
			continue
		}
		out = append(out, st)
	}
	return out
}

func (in *c15Inliner) descend(st ast.Stmt, label string) {
	push := func(isLoop bool) { in.stack = append(in.stack, &c15Encl{stmt: st, label: label, isLoop: isLoop}) }
	pop := func() { in.stack = in.stack[:len(in.stack)-1] }
	switch t := st.(type) {
	case *ast.BlockStmt:
		t.List = in.rewriteList(t.List)
	case *ast.IfStmt:
		t.Body.List = in.rewriteList(t.Body.List)
		if t.Else != nil {
			in.descend(t.Else, "")
		}
	case *ast.ForStmt:
		push(true)
		t.Body.List = in.rewriteList(t.Body.List)
		pop()
	case *ast.RangeStmt:
		push(true)
		t.Body.List = in.rewriteList(t.Body.List)
		pop()
	case *ast.SwitchStmt:
		push(false)
		for _, cc := range t.Body.List {
			cl := cc.(*ast.CaseClause)
			cl.Body = in.rewriteList(cl.Body)
		}
		pop()
	case *ast.TypeSwitchStmt:
		push(false)
		for _, cc := range t.Body.List {
			cl := cc.(*ast.CaseClause)
			cl.Body = in.rewriteList(cl.Body)
		}
		pop()
	case *ast.SelectStmt:
		push(false)
		for _, cc := range t.Body.List {
			cl := cc.(*ast.CommClause)
			cl.Body = in.rewriteList(cl.Body)
		}
		pop()
	case *ast.LabeledStmt:
		in.descend(t.Stmt, t.Label.Name)
		if lbl, ok := in.wrap[t.Stmt]; ok && lbl == t.Label.Name {
			delete(in.wrap, t.Stmt)
		}
	}
}

// labelOf returns (creating it if necessary) the label of the innermost enclosing loop (forLoop) or breakable statement.
func (in *c15Inliner) labelOf(loopOnly bool) (string, bool) {
	for i := len(in.stack) - 1; i >= 0; i-- {
		e := in.stack[i]
		if loopOnly && !e.isLoop {
			continue
		}
		if e.label == "" {
			*in.counter++
			e.label = fmt.Sprintf("L_encl%d", *in.counter)
			in.wrap[e.stmt] = e.label
		}
		return e.label, true
	}
	return "", false
}

// relabel makes the free break/continue statements of a copied caller branch explicit.
func (in *c15Inliner) relabel(n ast.Node) bool {
	ok := true
	var visit func(m ast.Node, inLoop, inBreakable bool)
	visit = func(m ast.Node, inLoop, inBreakable bool) {
		ast.Inspect(m, func(x ast.Node) bool {
			if x == nil || x == m {
				return true
			}
			switch t := x.(type) {
			case *ast.FuncLit:
				return false
			case *ast.ForStmt, *ast.RangeStmt:
				visit(x, true, true)
				return false
			case *ast.SwitchStmt, *ast.TypeSwitchStmt, *ast.SelectStmt:
				visit(x, inLoop, true)
				return false
			case *ast.BranchStmt:
				if t.Label != nil {
					return true
				}
				switch t.Tok {
				case token.CONTINUE:
					if !inLoop {
						if l, found := in.labelOf(true); found {
							t.Label = ast.NewIdent(l)
						} else {
							ok = false
						}
					}
				case token.BREAK:
					if !inBreakable {
						if l, found := in.labelOf(false); found {
							t.Label = ast.NewIdent(l)
						} else {
							ok = false
						}
					}
				}
			}
			return true
		})
	}
	visit(n, false, false)
	return ok
}

// tryStmt returns the replacement of st if st is an inlinable call site.
func (in *c15Inliner) tryStmt(st ast.Stmt) ([]ast.Stmt, bool) {
	switch t := st.(type) {
	case *ast.ExprStmt:
		if call, ok := unparen(t.X).(*ast.CallExpr); ok {
			return in.inline(call, &c15Site{kind: "stmt"})
		}
	case *ast.AssignStmt:
		if len(t.Rhs) == 1 && (t.Tok == token.DEFINE || t.Tok == token.ASSIGN) {
			if call, ok := unparen(t.Rhs[0]).(*ast.CallExpr); ok {
				return in.inline(call, &c15Site{kind: "assign", assign: t})
			}
		}
	case *ast.DeclStmt:
		if gd, ok := t.Decl.(*ast.GenDecl); ok && gd.Tok == token.VAR && len(gd.Specs) == 1 {
			vs := gd.Specs[0].(*ast.ValueSpec)
			if vs.Type == nil && len(vs.Values) == 1 {
				if call, ok := unparen(vs.Values[0]).(*ast.CallExpr); ok {
					lhs := make([]ast.Expr, len(vs.Names))
					for i, n := range vs.Names {
						lhs[i] = n
					}
					return in.inline(call, &c15Site{kind: "assign", assign: &ast.AssignStmt{Lhs: lhs, Tok: token.DEFINE, Rhs: vs.Values}})
				}
			}
		}
	case *ast.ReturnStmt:
		if len(t.Results) == 1 {
			if call, ok := unparen(t.Results[0]).(*ast.CallExpr); ok {
				return in.inline(call, &c15Site{kind: "return"})
			}
		}
	case *ast.IfStmt:
		if t.Init != nil {
			// if x := h(...); cond { ... }  =>  { x := h(...); if cond { ... } }   (only when h can be inlined)
			if as, ok := t.Init.(*ast.AssignStmt); ok && len(as.Rhs) == 1 {
				if call, ok := unparen(as.Rhs[0]).(*ast.CallExpr); ok {
					if fn, fd := in.callee(call); fn != nil && in.simpleHelper(fn, fd) {
						// if a, b := h(...); cond(a, b) { T } else { E }: every return of h continues with the branch
						// its values select (path preserving, like the plain condition position)
						if as.Tok == token.DEFINE {
							if rep, ok := in.inline(call, &c15Site{kind: "condinit", assign: as, ifs: t}); ok {
								return rep, true
							}
						}
						init := t.Init
						t.Init = nil
						return []ast.Stmt{&ast.BlockStmt{List: []ast.Stmt{init, t}}}, true
					}
				}
			}
			return nil, false
		}
		x := unparen(t.Cond)
		neg := false
		for {
			u, ok := x.(*ast.UnaryExpr)
			if !ok || u.Op != token.NOT {
				break
			}
			neg = !neg
			x = unparen(u.X)
		}
		if call, ok := x.(*ast.CallExpr); ok {
			return in.inline(call, &c15Site{kind: "cond", ifs: t, neg: neg})
		}
	}
	return nil, false
}

type c15Site struct {
	kind   string // stmt | assign | return | cond
	assign *ast.AssignStmt
	ifs    *ast.IfStmt
	neg    bool
}

// ---------------------------------------------------------------------------
// the inliner proper

func (in *c15Inliner) callee(call *ast.CallExpr) (*types.Func, *ast.FuncDecl) {
	fn := calleeOf(in.info, call)
	if fn == nil {
		if f, d := in.closureCallee(call); f != nil {
			return f, d
		}
		if os.Getenv("VXCHECK_DUMPSRC") != "" {
			if id, ok := call.Fun.(*ast.Ident); ok && in.pk.Types.Scope().Lookup(id.Name) != nil {
				fmt.Printf("callee of %s not resolved (uses=%v)\n", id.Name, in.info.Uses[id])
			}
		}
		return nil, nil
	}
	fd := in.decls[fn]
	if fd == nil || in.anchor(fd) || fn == in.curFn {
		return nil, nil
	}
	return fn, fd
}

func c15CountNodes(n ast.Node) int {
	k := 0
	ast.Inspect(n, func(m ast.Node) bool {
		if m != nil {
			k++
		}
		return true
	})
	return k
}

// simpleHelper: structural restrictions on the callee.
func (in *c15Inliner) simpleHelper(fn *types.Func, fd *ast.FuncDecl) bool {
	sig := fn.Type().(*types.Signature)
	if sig.Variadic() || sig.TypeParams() != nil || sig.RecvTypeParams() != nil {
		return false
	}
	if fd.Type.Results != nil {
		for _, f := range fd.Type.Results.List {
			if len(f.Names) > 0 {
				return false
			}
		}
	}
	if c15CountNodes(fd.Body) > c15MaxInlineNodes {
		return false
	}
	ok := true
	ast.Inspect(fd.Body, func(n ast.Node) bool {
		switch t := n.(type) {
		case *ast.DeferStmt, *ast.GoStmt, *ast.FuncLit:
			ok = false
		case *ast.SelectStmt:
			// a select is copied as it is (an unlabelled break inside it leaves the select, before and after the copy;
			// a return inside it becomes a labelled break, which may leave a select); a return inside a comm clause
			// whose result is the received value needs the clause's variable, which the copy keeps
		case *ast.BranchStmt:
			if t.Tok == token.GOTO || t.Tok == token.FALLTHROUGH {
				ok = false
			}
		case *ast.CallExpr:
			// no direct or mutual recursion: the helper may not call itself or the current function
			if cal := calleeOf(in.info, t); cal != nil && cal == fn {
				ok = false
			}
			if id, isID := t.Fun.(*ast.Ident); isID && id.Name == "recover" {
				ok = false
			}
		}
		return ok
	})
	if !ok {
		return false
	}
	// every path ends in a return when there are results (guaranteed by the compiler); parameters must be named or unused
	for _, f := range fd.Type.Params.List {
		if len(f.Names) == 0 {
			return false
		}
	}
	if fd.Recv != nil && len(fd.Recv.List) == 1 && len(fd.Recv.List[0].Names) == 0 {
		// unnamed receiver: fine, it cannot be referenced
	}
	return true
}

// pureArg: may the argument expression be substituted for the parameter?
func (in *c15Inliner) pureArg(e ast.Expr) bool {
	e = unparen(e)
	if tv, ok := in.info.Types[e]; ok && tv.Value != nil {
		return true
	}
	switch t := e.(type) {
	case *ast.Ident:
		switch o := in.info.ObjectOf(t).(type) {
		case *types.Var:
			return !o.IsField() && o.Pkg() != nil && o.Parent() != o.Pkg().Scope() // a local / parameter / receiver, not a package variable
		case *types.Nil, *types.Const:
			return true
		}
	}
	return false
}

func (in *c15Inliner) inline(call *ast.CallExpr, site *c15Site) ([]ast.Stmt, bool) {
	fn, fd := in.callee(call)
	if fn == nil {
		return nil, false
	}
	if !in.simpleHelper(fn, fd) {
		return in.refuse(1)
	}
	sig := fn.Type().(*types.Signature)
	nres := sig.Results().Len()
	switch site.kind {
	case "stmt":
		// results (if any) are discarded
	case "assign":
		if nres != len(site.assign.Lhs) || nres == 0 {
			return in.refuse(2)
		}
	case "cond":
		if nres != 1 || !types.Identical(sig.Results().At(0).Type().Underlying(), types.Typ[types.Bool]) {
			return in.refuse(3)
		}
	case "return":
		if nres == 0 {
			return in.refuse(4)
		}
	case "condinit":
		if nres != len(site.assign.Lhs) || nres == 0 {
			return in.refuse(19)
		}
		for _, l := range site.assign.Lhs {
			if _, ok := l.(*ast.Ident); !ok {
				return in.refuse(20)
			}
		}
	}
	// imports used by the helper body must be available under the same name in the caller's file
	if in.fileOf[fd] != in.curFile {
		okImp := true
		ast.Inspect(fd.Body, func(n ast.Node) bool {
			id, ok := n.(*ast.Ident)
			if !ok {
				return true
			}
			if pn, ok := in.info.Uses[id].(*types.PkgName); ok {
				found := false
				for _, imp := range in.curFile.Imports {
					path := strings.Trim(imp.Path.Value, `"`)
					name := pn.Imported().Name()
					if imp.Name != nil {
						name = imp.Name.Name
					}
					if path == pn.Imported().Path() && name == id.Name {
						found = true
					}
				}
				if !found {
					okImp = false
				}
			}
			return okImp
		})
		if !okImp {
			return in.refuse(5)
		}
	}
	*in.counter++
	sfx := fmt.Sprintf("_inl%d", *in.counter)
	subst := map[types.Object]ast.Expr{}
	rename := map[types.Object]string{}
	var pre []ast.Stmt

	// parameters (receiver first, then arguments, in evaluation order)
	type binding struct {
		obj types.Object
		arg ast.Expr
	}
	var binds []binding
	typed := map[types.Object]ast.Expr{}
	assigned := c15AssignedObjs(in.info, fd.Body)
	if fd.Recv != nil && len(fd.Recv.List) == 1 {
		sel, ok := unparen(call.Fun).(*ast.SelectorExpr)
		if !ok {
			return in.refuse(6)
		}
		selInfo := in.info.Selections[sel]
		if selInfo == nil || selInfo.Kind() != types.MethodVal || len(selInfo.Index()) != 1 {
			return in.refuse(7) // promoted through embedding: leave
		}
		if len(fd.Recv.List[0].Names) == 1 && fd.Recv.List[0].Names[0].Name != "_" {
			robj := in.info.Defs[fd.Recv.List[0].Names[0]]
			recvArg := sel.X
			// pointer/value adjustment
			_, wantPtr := sig.Recv().Type().(*types.Pointer)
			_, havePtr := in.info.TypeOf(sel.X).Underlying().(*types.Pointer)
			switch {
			case wantPtr && !havePtr:
				recvArg = &ast.UnaryExpr{Op: token.AND, X: sel.X}
			case !wantPtr && havePtr:
				recvArg = &ast.StarExpr{X: sel.X}
			}
			if wantPtr == havePtr && in.pureArg(sel.X) && !assigned[robj] {
				subst[robj] = sel.X
			} else {
				binds = append(binds, binding{robj, recvArg})
			}
		}
	} else if _, isSel := unparen(call.Fun).(*ast.SelectorExpr); isSel {
		// package-qualified call of a function of this package cannot happen; a method expression: leave
		if _, ok := unparen(call.Fun).(*ast.Ident); !ok {
			return in.refuse(8)
		}
	}
	ai := 0
	// h(g(...)) with g returning one value per parameter of h: the values are bound to fresh parameter locals
	// in one statement (no other argument form exists in that case)
	var spreadStmts []ast.Stmt
	nparams := 0
	for _, f := range fd.Type.Params.List {
		nparams += len(f.Names)
	}
	if len(call.Args) == 1 && nparams > 1 {
		tup, isTup := in.info.TypeOf(call.Args[0]).(*types.Tuple)
		if !isTup || tup.Len() != nparams {
			return in.refuse(21)
		}
		var lhs []ast.Expr
		var decls, keep []ast.Stmt
		identical, anyNamed := true, false
		k := 0
		for _, f := range fd.Type.Params.List {
			for _, nm := range f.Names {
				if nm.Name == "_" {
					lhs = append(lhs, ast.NewIdent("_"))
					k++
					continue
				}
				pobj := in.info.Defs[nm]
				anyNamed = true
				rename[pobj] = nm.Name + sfx
				lhs = append(lhs, ast.NewIdent(nm.Name+sfx))
				if !types.Identical(tup.At(k).Type(), pobj.Type()) {
					identical = false
				}
				ts, ok := in.typeString(pobj.Type())
				if !ok {
					return in.refuse(22)
				}
				texpr, err := parser.ParseExpr(ts)
				if err != nil {
					return in.refuse(23)
				}
				decls = append(decls, &ast.DeclStmt{Decl: &ast.GenDecl{Tok: token.VAR, Specs: []ast.Spec{&ast.ValueSpec{Names: []*ast.Ident{ast.NewIdent(nm.Name + sfx)}, Type: texpr}}}})
				keep = append(keep, &ast.AssignStmt{Lhs: []ast.Expr{ast.NewIdent("_")}, Tok: token.ASSIGN, Rhs: []ast.Expr{ast.NewIdent(nm.Name + sfx)}})
				k++
			}
		}
		rhs := []ast.Expr{c15Copy(call.Args[0], nil).(ast.Expr)}
		switch {
		case !anyNamed:
			spreadStmts = append(spreadStmts, &ast.AssignStmt{Lhs: lhs, Tok: token.ASSIGN, Rhs: rhs})
		case identical:
			spreadStmts = append(spreadStmts, &ast.AssignStmt{Lhs: lhs, Tok: token.DEFINE, Rhs: rhs})
		default:
			spreadStmts = append(spreadStmts, decls...)
			spreadStmts = append(spreadStmts, &ast.AssignStmt{Lhs: lhs, Tok: token.ASSIGN, Rhs: rhs})
		}
		spreadStmts = append(spreadStmts, keep...)
		ai = 1
	}
	for _, f := range fd.Type.Params.List {
		if spreadStmts != nil {
			break
		}
		for _, nm := range f.Names {
			if ai >= len(call.Args) {
				return in.refuse(9)
			}
			arg := call.Args[ai]
			ai++
			if nm.Name == "_" {
				if !in.pureArg(arg) {
					pre = append(pre, &ast.AssignStmt{Lhs: []ast.Expr{ast.NewIdent("_")}, Tok: token.ASSIGN, Rhs: []ast.Expr{c15Copy(arg, nil).(ast.Expr)}})
				}
				continue
			}
			pobj := in.info.Defs[nm]
			ptype := pobj.Type()
			atype := in.info.TypeOf(arg)
			if in.pureArg(arg) && atype != nil && types.Identical(atype, ptype) && (!assigned[pobj] || in.deadAfter(call, arg)) {
				subst[pobj] = arg
				continue
			}
			if atype == nil {
				return in.refuse(10)
			}
			if !types.Identical(atype, ptype) {
				// implicit conversion at the call: keep it explicit in the binding
				ts, ok := in.typeString(ptype)
				if !ok {
					return in.refuse(11)
				}
				texpr, err := parser.ParseExpr(ts)
				if err != nil {
					return in.refuse(12)
				}
				typed[pobj] = texpr
			}
			binds = append(binds, binding{pobj, arg})
		}
	}
	if ai != len(call.Args) {
		return in.refuse(13)
	}
	for _, b := range binds {
		rename[b.obj] = b.obj.Name() + sfx
		if te, ok := typed[b.obj]; ok {
			pre = append(pre, &ast.DeclStmt{Decl: &ast.GenDecl{Tok: token.VAR, Specs: []ast.Spec{&ast.ValueSpec{Names: []*ast.Ident{ast.NewIdent(b.obj.Name() + sfx)}, Type: te, Values: []ast.Expr{c15Copy(b.arg, nil).(ast.Expr)}}}}})
		} else {
			pre = append(pre, &ast.AssignStmt{Lhs: []ast.Expr{ast.NewIdent(b.obj.Name() + sfx)}, Tok: token.DEFINE, Rhs: []ast.Expr{c15Copy(b.arg, nil).(ast.Expr)}})
		}
		// keep "declared and not used" away
		pre = append(pre, &ast.AssignStmt{Lhs: []ast.Expr{ast.NewIdent("_")}, Tok: token.ASSIGN, Rhs: []ast.Expr{ast.NewIdent(b.obj.Name() + sfx)}})
	}
	pre = append(pre, spreadStmts...)
	// locals and labels of the helper
	ast.Inspect(fd.Body, func(n ast.Node) bool {
		if id, ok := n.(*ast.Ident); ok {
			if o := in.info.Defs[id]; o != nil && id.Name != "_" {
				if _, isField := o.(*types.Var); !isField || !o.(*types.Var).IsField() {
					rename[o] = id.Name + sfx
				}
			}
		}
		return true
	})
	for _, o := range in.implicitObjs(fd.Body) {
		rename[o] = o.Name() + sfx
	}

	// the returns
	var rets []*ast.ReturnStmt
	ast.Inspect(fd.Body, func(n ast.Node) bool {
		if r, ok := n.(*ast.ReturnStmt); ok {
			rets = append(rets, r)
		}
		return true
	})
	tailOnly := false
	if n := len(fd.Body.List); n > 0 && len(rets) == 1 {
		if r, ok := fd.Body.List[n-1].(*ast.ReturnStmt); ok && r == rets[0] {
			tailOnly = true
		}
	}
	if len(rets) == 0 || site.kind == "return" {
		tailOnly = true // nothing to jump over: the body is spliced in as it is
	}
	// result variable unification:  x := h(...)  with  `return w` (w a local of h) as the only, last return  =>  w is renamed x
	if tailOnly && len(rets) == 1 && site.kind == "assign" && site.assign.Tok == token.DEFINE && nres == 1 {
		if rid, ok := unparen(rets[0].Results[0]).(*ast.Ident); ok {
			if lid, ok := site.assign.Lhs[0].(*ast.Ident); ok && lid.Name != "_" {
				ro := in.info.ObjectOf(rid)
				if _, isLocal := rename[ro]; isLocal && subst[ro] == nil {
					isBound := false
					for _, b := range binds {
						if b.obj == ro {
							isBound = true
						}
					}
					if !isBound && in.info.Defs[lid] != nil {
						rename[ro] = lid.Name
						body := in.copyBody(fd, subst, rename)
						out := append(pre, body.List[:len(body.List)-1]...)
						in.notes = append(in.notes, fmt.Sprintf("%s inlined into %s (result variable unified)", fn.Name(), in.curFn.Name()))
						in.closureInlined(fn)
						return out, true
					}
				}
			}
		}
	}
	body := in.copyBody(fd, subst, rename)
	label := "L" + sfx

	// what a `return e1, e2` of the helper turns into
	var declare []ast.Stmt
	usedBreak := false
	relabelOK := true
	var ci *c15CondInit
	if site.kind == "condinit" {
		if ci = in.newCondInit(site, fd, body, rets, rename, sfx); ci == nil {
			return in.refuse(24)
		}
	}
	retTo := func(r *ast.ReturnStmt, last bool) []ast.Stmt {
		var out []ast.Stmt
		switch site.kind {
		case "stmt":
			for _, e := range r.Results {
				if !in.pureCopied(e) {
					out = append(out, &ast.AssignStmt{Lhs: []ast.Expr{ast.NewIdent("_")}, Tok: token.ASSIGN, Rhs: []ast.Expr{e}})
				}
			}
		case "assign":
			lhs := make([]ast.Expr, len(site.assign.Lhs))
			for i, l := range site.assign.Lhs {
				lhs[i] = c15Copy(l, nil).(ast.Expr)
			}
			tok := token.ASSIGN
			if site.assign.Tok == token.DEFINE && tailOnly {
				tok = token.DEFINE
			}
			{
				// x := nil and _ = nil do not compile and x := 1 gives x the constant's default type: an untyped
				// result is converted to the declared result type, which is what the call gave the variable
				if len(r.Results) == nres {
					for i, e := range r.Results {
						if id, isID := lhs[i].(*ast.Ident); tok != token.DEFINE && !(isID && id.Name == "_") {
							continue
						}
						tv, typed := in.info.Types[in.origOf[e]]
						rt := sig.Results().At(i).Type()
						if !typed || !(tv.IsNil() || (tv.Value != nil && !types.Identical(types.Default(tv.Type), rt))) {
							continue
						}
						ts, ok := in.typeString(rt)
						if !ok {
							relabelOK = false
							continue
						}
						texpr, err := parser.ParseExpr(ts)
						if err != nil {
							relabelOK = false
							continue
						}
						r.Results[i] = &ast.CallExpr{Fun: &ast.ParenExpr{X: texpr}, Args: []ast.Expr{e}}
					}
				}
			}
			out = append(out, &ast.AssignStmt{Lhs: lhs, Tok: tok, Rhs: r.Results})
		case "return":
			return []ast.Stmt{r}
		case "condinit":
			stmts, ok := ci.expand(r)
			if !ok {
				relabelOK = false
			}
			out = append(out, stmts...)
		case "cond":
			thenB, elseB := site.ifs.Body, site.ifs.Else
			cpBranch := func(b ast.Stmt) ast.Stmt {
				cpy := c15Copy(b, nil).(ast.Stmt)
				if !in.relabel(cpy) {
					relabelOK = false
				}
				return cpy
			}
			pick := func(truth bool) []ast.Stmt {
				if truth != site.neg {
					return cpBranch(thenB).(*ast.BlockStmt).List
				}
				if elseB != nil {
					return []ast.Stmt{cpBranch(elseB)}
				}
				return nil
			}
			if tv, ok := in.info.Types[in.origOf[r.Results[0]]]; ok && tv.Value != nil {
				out = append(out, pick(tv.Value.String() == "true")...)
			} else {
				cond := r.Results[0]
				if site.neg {
					cond = &ast.UnaryExpr{Op: token.NOT, X: &ast.ParenExpr{X: cond}}
				}
				ifs := &ast.IfStmt{Cond: cond, Body: cpBranch(thenB).(*ast.BlockStmt)}
				if elseB != nil {
					ifs.Else = cpBranch(elseB)
				}
				out = append(out, ifs)
			}
		}
		if !tailOnly && !last && !c15Terminates(out) {
			usedBreak = true
			out = append(out, &ast.BranchStmt{Tok: token.BREAK, Label: ast.NewIdent(label)})
		}
		return out
	}
	if site.kind == "cond" || site.kind == "condinit" {
		// the caller's branches are copied to every return: they must not contain a `break` that would now bind to the one-shot switch
		if len(rets) > 4 || (len(rets) > 1 && c15CountNodes(site.ifs) > 60) {
			return in.refuse(14)
		}
	}
	if site.kind == "assign" && site.assign.Tok == token.DEFINE && !tailOnly {
		// declare the new variables first
		for i, l := range site.assign.Lhs {
			id, ok := l.(*ast.Ident)
			if !ok {
				return in.refuse(15)
			}
			if id.Name == "_" || in.info.Defs[id] == nil {
				continue
			}
			ts, ok := in.typeString(sig.Results().At(i).Type())
			if !ok {
				return in.refuse(16)
			}
			texpr, err := parser.ParseExpr(ts)
			if err != nil {
				return in.refuse(17)
			}
			declare = append(declare, &ast.DeclStmt{Decl: &ast.GenDecl{Tok: token.VAR, Specs: []ast.Spec{&ast.ValueSpec{Names: []*ast.Ident{ast.NewIdent(id.Name)}, Type: texpr}}}},
				&ast.AssignStmt{Lhs: []ast.Expr{ast.NewIdent("_")}, Tok: token.ASSIGN, Rhs: []ast.Expr{ast.NewIdent(id.Name)}})
		}
	}
	// replace the returns inside the copied body
	okRepl := true
	var replList func(list []ast.Stmt) []ast.Stmt
	replStmt := func(st ast.Stmt) {}
	depth := 0
	replList = func(list []ast.Stmt) []ast.Stmt {
		var out []ast.Stmt
		depth++
		defer func() { depth-- }()
		for i, st := range list {
			if r, ok := st.(*ast.ReturnStmt); ok {
				out = append(out, retTo(r, depth == 1 && i == len(list)-1)...)
				continue
			}
			replStmt(st)
			out = append(out, st)
		}
		return out
	}
	replStmt = func(st ast.Stmt) {
		switch t := st.(type) {
		case *ast.BlockStmt:
			t.List = replList(t.List)
		case *ast.IfStmt:
			t.Body.List = replList(t.Body.List)
			if t.Else != nil {
				replStmt(t.Else)
			}
		case *ast.ForStmt:
			t.Body.List = replList(t.Body.List)
		case *ast.RangeStmt:
			t.Body.List = replList(t.Body.List)
		case *ast.SwitchStmt:
			for _, cc := range t.Body.List {
				cl := cc.(*ast.CaseClause)
				cl.Body = replList(cl.Body)
			}
		case *ast.TypeSwitchStmt:
			for _, cc := range t.Body.List {
				cl := cc.(*ast.CaseClause)
				cl.Body = replList(cl.Body)
			}
		case *ast.SelectStmt:
			// (simpleHelper admits selects: a return inside a comm clause is a return of the helper like any other)
			for _, cc := range t.Body.List {
				cl := cc.(*ast.CommClause)
				cl.Body = replList(cl.Body)
			}
		case *ast.LabeledStmt:
			replStmt(t.Stmt)
		}
	}
	body.List = replList(body.List)
	if !okRepl || !relabelOK {
		return in.refuse(18)
	}
	var out []ast.Stmt
	out = append(out, pre...)
	out = append(out, declare...)
	if tailOnly || !usedBreak {
		out = append(out, body.List...)
	} else {
		sw := &ast.SwitchStmt{Body: &ast.BlockStmt{List: []ast.Stmt{&ast.CaseClause{Body: body.List}}}}
		out = append(out, &ast.LabeledStmt{Label: ast.NewIdent(label), Stmt: sw})
	}
	in.notes = append(in.notes, fmt.Sprintf("%s inlined into %s (%s position)", fn.Name(), in.curFn.Name(), site.kind))
	in.closureInlined(fn)
	return out, true
}

// origOf maps copied expressions of return statements back to the original (typed) ones.
func (in *c15Inliner) copyBody(fd *ast.FuncDecl, subst map[types.Object]ast.Expr, rename map[types.Object]string) *ast.BlockStmt {
	if in.origOf == nil {
		in.origOf = map[ast.Expr]ast.Expr{}
	}
	// the symbolic variable of `switch v := x.(type)` has no object of its own (Defs[v] == nil): its uses resolve to
	// the per-clause implicit objects, which are renamed; the defining identifier must follow them
	tsDef := map[*ast.Ident]string{}
	ast.Inspect(fd.Body, func(n ast.Node) bool {
		ts, ok := n.(*ast.TypeSwitchStmt)
		if !ok {
			return true
		}
		as, ok := ts.Assign.(*ast.AssignStmt)
		if !ok || as.Tok != token.DEFINE || len(as.Lhs) != 1 {
			return true
		}
		id, ok := as.Lhs[0].(*ast.Ident)
		if !ok {
			return true
		}
		for _, cc := range ts.Body.List {
			if o := in.info.Implicits[cc]; o != nil {
				if nn, ok := rename[o]; ok {
					tsDef[id] = nn
					break
				}
			}
		}
		return true
	})
	return c15Copy(fd.Body, func(id *ast.Ident) ast.Node {
		if nn, ok := tsDef[id]; ok && os.Getenv("VX_TEST_BREAK_INLINER") == "" { // (test hook: exercises the fallback of c15NormaliseOpt)
			return ast.NewIdent(nn)
		}
		o := in.info.ObjectOf(id)
		if o == nil {
			return nil
		}
		if e, ok := subst[o]; ok {
			cpy := c15Copy(unparen(e), nil).(ast.Expr)
			switch cpy.(type) {
			case *ast.Ident, *ast.BasicLit:
				return cpy
			}
			return &ast.ParenExpr{X: cpy}
		}
		if nn, ok := rename[o]; ok {
			return ast.NewIdent(nn)
		}
		return nil
	}, in.origOf).(*ast.BlockStmt)
}

func (in *c15Inliner) pureCopied(e ast.Expr) bool {
	switch unparen(e).(type) {
	case *ast.Ident, *ast.BasicLit:
		return true
	}
	return false
}

// implicitObjs: the per-clause variables of type switches.
func (in *c15Inliner) implicitObjs(body ast.Node) []types.Object {
	var out []types.Object
	ast.Inspect(body, func(n ast.Node) bool {
		if cc, ok := n.(*ast.CaseClause); ok {
			if o := in.info.Implicits[cc]; o != nil {
				out = append(out, o)
			}
		}
		return true
	})
	return out
}

// typeString renders t so that it is valid in the current file.
func (in *c15Inliner) typeString(t types.Type) (string, bool) {
	ok := true
	s := types.TypeString(t, func(p *types.Package) string {
		if p == in.pk.Types {
			return ""
		}
		for _, imp := range in.curFile.Imports {
			if strings.Trim(imp.Path.Value, `"`) == p.Path() {
				if imp.Name != nil {
					return imp.Name.Name
				}
				return p.Name()
			}
		}
		ok = false
		return p.Name()
	})
	return s, ok
}

func c15AssignedObjs(info *types.Info, body ast.Node) map[types.Object]bool {
	out := map[types.Object]bool{}
	mark := func(e ast.Expr) {
		if id, ok := unparen(e).(*ast.Ident); ok {
			if o := info.ObjectOf(id); o != nil {
				out[o] = true
			}
		}
	}
	ast.Inspect(body, func(n ast.Node) bool {
		switch t := n.(type) {
		case *ast.AssignStmt:
			for _, l := range t.Lhs {
				mark(l)
			}
		case *ast.IncDecStmt:
			mark(t.X)
		case *ast.RangeStmt:
			if t.Key != nil {
				mark(t.Key)
			}
			if t.Value != nil {
				mark(t.Value)
			}
		case *ast.UnaryExpr:
			if t.Op == token.AND {
				mark(t.X)
			}
		}
		return true
	})
	return out
}

// c15HasFreeBreak: does n contain an unlabelled break not enclosed by a loop/switch/select inside n?
func c15HasFreeBreak(n ast.Node) bool {
	found := false
	var visit func(m ast.Node)
	visit = func(m ast.Node) {
		ast.Inspect(m, func(x ast.Node) bool {
			if x == nil || found {
				return false
			}
			switch t := x.(type) {
			case *ast.ForStmt, *ast.RangeStmt, *ast.SwitchStmt, *ast.TypeSwitchStmt, *ast.SelectStmt, *ast.FuncLit:
				if x != m {
					return false
				}
			case *ast.BranchStmt:
				if t.Tok == token.BREAK && t.Label == nil {
					found = true
				}
			}
			return true
		})
	}
	visit(n)
	return found
}

// c15Copy deep-copies an AST (positions dropped). onIdent may return a replacement for an identifier.
func c15Copy(n ast.Node, onIdent func(*ast.Ident) ast.Node, orig ...map[ast.Expr]ast.Expr) ast.Node {
	var track map[ast.Expr]ast.Expr
	if len(orig) > 0 {
		track = orig[0]
	}
	var cp func(v reflect.Value) reflect.Value
	posType := reflect.TypeOf(token.NoPos)
	cp = func(v reflect.Value) reflect.Value {
		switch v.Kind() {
		case reflect.Interface:
			if v.IsNil() {
				return v
			}
			r := cp(v.Elem())
			out := reflect.New(v.Type()).Elem()
			out.Set(r)
			return out
		case reflect.Ptr:
			if v.IsNil() {
				return v
			}
			if id, ok := v.Interface().(*ast.Ident); ok {
				if onIdent != nil {
					if rep := onIdent(id); rep != nil {
						return reflect.ValueOf(rep)
					}
				}
				ni := ast.NewIdent(id.Name)
				if track != nil {
					track[ni] = id
				}
				return reflect.ValueOf(ni)
			}
			if _, ok := v.Interface().(*ast.Object); ok {
				return reflect.Zero(v.Type())
			}
			if _, ok := v.Interface().(*ast.Scope); ok {
				return reflect.Zero(v.Type())
			}
			if _, ok := v.Interface().(*ast.CommentGroup); ok {
				return reflect.Zero(v.Type())
			}
			out := reflect.New(v.Type().Elem())
			out.Elem().Set(cp(v.Elem()))
			if track != nil {
				if e, ok := v.Interface().(ast.Expr); ok {
					track[out.Interface().(ast.Expr)] = e
				}
			}
			return out
		case reflect.Struct:
			out := reflect.New(v.Type()).Elem()
			for i := 0; i < v.NumField(); i++ {
				f := v.Field(i)
				if f.Type() == posType {
					// positions are dropped, except where their validity carries meaning
					name := v.Type().Field(i).Name
					if (name == "Ellipsis" || name == "Lparen" || name == "Rparen") && f.Interface().(token.Pos).IsValid() &&
						(v.Type().Name() == "CallExpr" && name == "Ellipsis" || v.Type().Name() == "GenDecl") {
						out.Field(i).Set(reflect.ValueOf(token.Pos(1)))
					}
					continue
				}
				if !out.Field(i).CanSet() {
					continue
				}
				out.Field(i).Set(cp(f))
			}
			return out
		case reflect.Slice:
			if v.IsNil() {
				return v
			}
			out := reflect.MakeSlice(v.Type(), v.Len(), v.Len())
			for i := 0; i < v.Len(); i++ {
				out.Index(i).Set(cp(v.Index(i)))
			}
			return out
		}
		return v
	}
	return cp(reflect.ValueOf(n)).Interface().(ast.Node)
}

// ---------------------------------------------------------------------------
// print, re-parse, re-type-check

type c15Importer struct {
	fresh map[string]*types.Package
	old   map[string]*types.Package
}

func (im *c15Importer) Import(path string) (*types.Package, error) {
	if p, ok := im.fresh[path]; ok {
		return p, nil
	}
	if p, ok := im.old[path]; ok {
		return p, nil
	}
	return nil, fmt.Errorf("package %s not available", path)
}

func c15Recheck(c *Ctx, shorts []string, changed map[*packages.Package]map[*ast.File]bool) error {
	im := &c15Importer{fresh: map[string]*types.Package{}, old: map[string]*types.Package{}}
	var addOld func(pk *packages.Package)
	seen := map[*packages.Package]bool{}
	addOld = func(pk *packages.Package) {
		if seen[pk] {
			return
		}
		seen[pk] = true
		if pk.Types != nil {
			im.old[pk.PkgPath] = pk.Types
		}
		for _, ip := range pk.Imports {
			addOld(ip)
		}
	}
	for _, pk := range c.P.All {
		addOld(pk)
	}
	// every package that (transitively) imports a changed package must be re-checked as well, in dependency order
	need := map[string]bool{}
	for pk := range changed {
		need[pk.PkgPath] = true
	}
	order := append([]*packages.Package{}, c.P.All...)
	sort.SliceStable(order, func(i, j int) bool { return c15Depth(order[i]) < c15Depth(order[j]) })
	for _, pk := range order {
		for path := range pk.Imports {
			if need[path] {
				need[pk.PkgPath] = true
			}
		}
	}
	for _, pk := range order {
		if !need[pk.PkgPath] {
			continue
		}
		files := make([]*ast.File, len(pk.Syntax))
		for i, f := range pk.Syntax {
			if !changed[pk][f] {
				files[i] = f
				continue
			}
			name := c.P.Fset.Position(f.Package).Filename
			f.Comments = nil
			var buf bytes.Buffer
			if err := (&printer.Config{Mode: printer.UseSpaces | printer.TabIndent, Tabwidth: 8}).Fprint(&buf, c.P.Fset, f); err != nil {
				return fmt.Errorf("print %s: %v", name, err)
			}
			if os.Getenv("VXCHECK_DUMPSRC") != "" {
				fmt.Printf("==== normalised %s ====\n%s\n", name, buf.String())
			}
			// keep reported positions close to the source: every function starts at its original line
			var lines []int
			for _, d := range f.Decls {
				if fd, ok := d.(*ast.FuncDecl); ok {
					lines = append(lines, c.P.Fset.Position(fd.Pos()).Line)
				}
			}
			var src bytes.Buffer
			k := 0
			for _, ln := range strings.SplitAfter(buf.String(), "\n") {
				if strings.HasPrefix(ln, "func ") && k < len(lines) {
					if lines[k] > 0 {
						fmt.Fprintf(&src, "//line %s:%d\n", name, lines[k])
					}
					k++
				}
				src.WriteString(ln)
			}
			if k != len(lines) {
				src.Reset()
				src.Write(buf.Bytes())
			}
			nf, err := parser.ParseFile(c.P.Fset, name, src.Bytes(), parser.SkipObjectResolution|parser.ParseComments)
			if err != nil {
				return fmt.Errorf("re-parse %s: %v", name, err)
			}
			files[i] = nf
		}
		info := &types.Info{Types: map[ast.Expr]types.TypeAndValue{}, Defs: map[*ast.Ident]types.Object{}, Uses: map[*ast.Ident]types.Object{},
			Implicits: map[ast.Node]types.Object{}, Selections: map[*ast.SelectorExpr]*types.Selection{}, Scopes: map[ast.Node]*types.Scope{},
			Instances: map[*ast.Ident]types.Instance{}}
		var firstErr error
		conf := types.Config{Importer: im, Sizes: pk.TypesSizes, Error: func(err error) {
			if firstErr == nil {
				firstErr = err
			}
		}}
		tp, _ := conf.Check(pk.PkgPath, c.P.Fset, files, info)
		if firstErr != nil {
			re := &c15RecheckError{err: firstErr}
			if te, ok := firstErr.(types.Error); ok {
				for _, f := range files {
					for _, d := range f.Decls {
						if fd, ok := d.(*ast.FuncDecl); ok && fd.Pos() <= te.Pos && te.Pos < fd.End() {
							re.fn = shortPkg(pk.PkgPath) + "." + funcDeclName(fd)
						}
					}
				}
			}
			return re
		}
		im.fresh[pk.PkgPath] = tp
		pk.Syntax, pk.Types, pk.TypesInfo = files, tp, info
		delete(c.P.parents, pk)
		// refresh the function index of this package
		for n, fi := range c.P.funcIndex {
			if fi.Pkg == pk {
				delete(c.P.funcIndex, n)
			}
		}
		for _, f := range pk.Syntax {
			for _, d := range f.Decls {
				fd, ok := d.(*ast.FuncDecl)
				if !ok {
					continue
				}
				obj, _ := info.Defs[fd.Name].(*types.Func)
				if obj == nil {
					continue
				}
				name := shortPkg(pk.PkgPath) + "." + funcDeclName(fd)
				c.P.funcIndex[name] = &FuncInfo{Pkg: pk, Decl: fd, Obj: obj, Name: name}
			}
		}
	}
	return nil
}

func c15Depth(pk *packages.Package) int {
	d := 0
	for path, ip := range pk.Imports {
		if strings.HasPrefix(path, modPath) {
			if x := c15Depth(ip) + 1; x > d {
				d = x
			}
		}
	}
	return d
}

// c15Terminates: does the statement list end in a statement after which control cannot fall through?
func c15Terminates(list []ast.Stmt) bool {
	if len(list) == 0 {
		return false
	}
	switch t := list[len(list)-1].(type) {
	case *ast.ReturnStmt:
		return true
	case *ast.BranchStmt:
		return t.Tok == token.BREAK || t.Tok == token.CONTINUE || t.Tok == token.GOTO
	case *ast.BlockStmt:
		return c15Terminates(t.List)
	case *ast.ExprStmt:
		if call, ok := t.X.(*ast.CallExpr); ok {
			if id, ok := call.Fun.(*ast.Ident); ok && id.Name == "panic" {
				return true
			}
		}
	case *ast.IfStmt:
		if t.Else == nil {
			return false
		}
		return c15Terminates(t.Body.List) && c15Terminates([]ast.Stmt{t.Else})
	}
	return false
}

// deadAfter: arg is a local variable of the caller that is not read after the call before being
// assigned again (so a helper parameter that is modified inside the helper may use it directly).
func (in *c15Inliner) deadAfter(call *ast.CallExpr, arg ast.Expr) bool {
	id, ok := unparen(arg).(*ast.Ident)
	if !ok {
		return false
	}
	obj, ok := in.info.ObjectOf(id).(*types.Var)
	if !ok || obj.IsField() {
		return false
	}
	// never captured by a closure / address taken
	bad := false
	ast.Inspect(in.curDecl.Body, func(n ast.Node) bool {
		switch t := n.(type) {
		case *ast.FuncLit:
			if containsNode(t.Body, func(m ast.Node) bool { x, ok := m.(*ast.Ident); return ok && in.info.ObjectOf(x) == obj }) {
				bad = true
			}
		case *ast.UnaryExpr:
			if x, ok := unparen(t.X).(*ast.Ident); ok && t.Op == token.AND && in.info.ObjectOf(x) == obj {
				bad = true
			}
		}
		return !bad
	})
	// results / named results / parameters of the caller are observable by the caller's caller only for named results
	if bad {
		return false
	}
	if in.curGraph == nil {
		in.curGraph = in.c.P.graphOf(in.pk, in.curFn.Name(), in.curDecl.Body, in.curDecl.Type, in.curDecl.Recv)
	}
	g := in.curGraph
	loc, found := g.Locate(call)
	if !found {
		return false
	}
	live := false
	g.walk(Loc{loc.B, loc.Idx + 1}, func(l Loc, n ast.Node) bool {
		reads, writes := c15ReadsWrites(in.info, n, obj)
		if reads {
			live = true
			return false
		}
		return !writes
	}, nil)
	return !live
}

// c15ReadsWrites: does CFG node n read / (fully) overwrite the variable?
func c15ReadsWrites(info *types.Info, n ast.Node, obj types.Object) (reads, writes bool) {
	lhs := map[*ast.Ident]bool{}
	inspectNoLit(n, func(m ast.Node) bool {
		if as, ok := m.(*ast.AssignStmt); ok && (as.Tok == token.ASSIGN || as.Tok == token.DEFINE) {
			for _, l := range as.Lhs {
				if id, ok := unparen(l).(*ast.Ident); ok && info.ObjectOf(id) == obj {
					lhs[id] = true
					writes = true
				}
			}
		}
		return true
	})
	ast.Inspect(n, func(m ast.Node) bool {
		if id, ok := m.(*ast.Ident); ok && info.ObjectOf(id) == obj && !lhs[id] {
			reads = true
		}
		return true
	})
	return
}

// ---------------------------------------------------------------------------
// propagation of single-definition pure locals (the inverse of "introduce a named local")

// c15PureExpr: evaluating e has no side effect and depends only on variables (no calls but len/cap/conversions).
func c15PureExpr(info *types.Info, e ast.Expr) bool {
	pure := true
	ast.Inspect(e, func(n ast.Node) bool {
		switch t := n.(type) {
		case *ast.CallExpr:
			if tv, ok := info.Types[t.Fun]; ok && tv.IsType() {
				return true
			}
			if id, ok := unparen(t.Fun).(*ast.Ident); ok {
				if b, ok := info.Uses[id].(*types.Builtin); ok && (b.Name() == "len" || b.Name() == "cap") {
					return true
				}
			}
			pure = false
		case *ast.SliceExpr:
			// (a slice expression is pure, but it usually names a piece of data the rules identify by that name)
			if !c15PropagateSlices {
				pure = false
			}
		case *ast.FuncLit, *ast.TypeAssertExpr:
			pure = false
		case *ast.UnaryExpr:
			if t.Op == token.ARROW {
				pure = false
			}
		}
		return pure
	})
	return pure
}

func c15PropagateLocals(c *Ctx, pk *packages.Package) map[*ast.File]bool {
	changed := map[*ast.File]bool{}
	info := pk.TypesInfo
	for _, f := range pk.Syntax {
		for _, d := range f.Decls {
			fd, ok := d.(*ast.FuncDecl)
			if !ok || fd.Body == nil || c15NormSkip[shortPkg(pk.PkgPath)+"."+funcDeclName(fd)] {
				continue
			}
			if c15PropagateIn(c, pk, info, f, fd) {
				changed[f] = true
				continue // positions/uses are stale now; loops are looked at in the next round
			}
			if c15IndexLoopsToRange(info, fd) {
				changed[f] = true
			}
		}
	}
	return changed
}

// c15IndexLoopsToRange rewrites  for i := 0; i < len(X); i++ { B }  as  for i := range X { B }  when the two
// are the same loop: i is not written in B, X is not written in B, and X is a local that no call can reach
// (or a field path whose root is not handed to any call in B).
func c15IndexLoopsToRange(info *types.Info, fd *ast.FuncDecl) bool {
	changed := false
	addrTaken := map[types.Object]bool{}
	ast.Inspect(fd.Body, func(n ast.Node) bool {
		if u, ok := n.(*ast.UnaryExpr); ok && u.Op == token.AND {
			if o := rootObj(info, u.X); o != nil {
				addrTaken[o] = true
			}
		}
		return true
	})
	var rewrite func(list []ast.Stmt)
	visit := func(st ast.Stmt) ast.Stmt { return st }
	visit = func(st ast.Stmt) ast.Stmt {
		if ls, ok := st.(*ast.LabeledStmt); ok {
			ls.Stmt = visit(ls.Stmt)
			return ls
		}
		fs, ok := st.(*ast.ForStmt)
		if !ok {
			return st
		}
		it := c15IterOf(info, nil, fs)
		if it == nil || !it.full || it.idx == nil {
			return st
		}
		x := unparen(it.x)
		root := rootObj(info, x)
		if root == nil || addrTaken[root] || !c15PureExpr(info, x) {
			return st
		}
		if _, isVar := root.(*types.Var); !isVar || (root.Pkg() != nil && root.Parent() == root.Pkg().Scope()) {
			return st // package-level variable: anyone may change it
		}
		paths := c15Paths(info, x)
		if c15Modifies(info, fs.Body, paths, map[types.Object]bool{}) {
			return st
		}
		// calls in the body must not receive the root object unless X is the bare local itself
		if _, bare := x.(*ast.Ident); !bare {
			leaks := false
			ast.Inspect(fs.Body, func(n ast.Node) bool {
				cl, ok := n.(*ast.CallExpr)
				if !ok {
					return true
				}
				if tv, ok := info.Types[cl.Fun]; ok && tv.IsType() {
					return true
				}
				if id, ok := unparen(cl.Fun).(*ast.Ident); ok {
					if _, isB := info.Uses[id].(*types.Builtin); isB {
						return true
					}
				}
				if sel, ok := unparen(cl.Fun).(*ast.SelectorExpr); ok {
					if _, isM := info.Selections[sel]; isM && rootObj(info, sel.X) == root {
						leaks = true
					}
				}
				for _, a := range cl.Args {
					if o := rootObj(info, a); o == root {
						if _, isPtr := info.TypeOf(a).Underlying().(*types.Pointer); isPtr {
							leaks = true
						}
					}
				}
				return !leaks
			})
			if leaks {
				return st
			}
		}
		switch info.TypeOf(x).Underlying().(type) {
		case *types.Slice, *types.Array:
		default:
			return st
		}
		changed = true
		as := fs.Init.(*ast.AssignStmt)
		return &ast.RangeStmt{Key: as.Lhs[0], Tok: token.DEFINE, X: x, Body: fs.Body}
	}
	rewrite = func(list []ast.Stmt) {
		for i, st := range list {
			list[i] = visit(st)
		}
	}
	ast.Inspect(fd.Body, func(n ast.Node) bool {
		switch t := n.(type) {
		case *ast.BlockStmt:
			rewrite(t.List)
		case *ast.CaseClause:
			rewrite(t.Body)
		case *ast.CommClause:
			rewrite(t.Body)
		}
		return true
	})
	return changed
}

type c15LocalDef struct {
	obj  types.Object
	expr ast.Expr // the defining expression
	typ  ast.Expr // explicit type of a var declaration (or nil)
	stmt ast.Stmt // the defining statement
	node ast.Node // the node standing for it in the CFG
	uses []*ast.Ident
}

// c15PropagateOnly, when set, restricts the propagation of single-definition locals to the definitions it accepts
// (used by other properties' pre-passes, e.g. boolean flags only); nil = every pure definition.
var c15PropagateOnly func(info *types.Info, o types.Object, def ast.Expr) bool

func c15PropagateIn(c *Ctx, pk *packages.Package, info *types.Info, file *ast.File, fd *ast.FuncDecl) bool {
	counts := c15DefsOf(info, fd.Body)
	cands := map[types.Object]*c15LocalDef{}
	// candidate definitions
	ast.Inspect(fd.Body, func(n ast.Node) bool {
		switch t := n.(type) {
		case *ast.FuncLit:
			return false
		case *ast.AssignStmt:
			if t.Tok == token.DEFINE && len(t.Lhs) == 1 && len(t.Rhs) == 1 {
				if id, ok := t.Lhs[0].(*ast.Ident); ok && id.Name != "_" {
					if o := info.Defs[id]; o != nil && counts.count[o] == 1 && c15PureExpr(info, t.Rhs[0]) && (c15PropagateOnly == nil || c15PropagateOnly(info, o, t.Rhs[0])) {
						cands[o] = &c15LocalDef{obj: o, expr: t.Rhs[0], stmt: t, node: t}
					}
				}
			}
		case *ast.DeclStmt:
			gd, ok := t.Decl.(*ast.GenDecl)
			if !ok || gd.Tok != token.VAR || len(gd.Specs) != 1 {
				return true
			}
			vs := gd.Specs[0].(*ast.ValueSpec)
			if len(vs.Names) == 1 && len(vs.Values) == 1 && vs.Names[0].Name != "_" {
				if o := info.Defs[vs.Names[0]]; o != nil && counts.count[o] == 1 && c15PureExpr(info, vs.Values[0]) && (c15PropagateOnly == nil || c15PropagateOnly(info, o, vs.Values[0])) {
					cands[o] = &c15LocalDef{obj: o, expr: vs.Values[0], typ: vs.Type, stmt: t, node: vs}
				}
			}
		}
		return true
	})
	// a struct/array variable that is modified in place after its definition (a field or element is assigned, its
	// address is taken, a pointer-receiver method is called on it) is not a name for its defining expression
	{
		aggregate := func(o types.Object) bool {
			if o == nil || cands[o] == nil {
				return false
			}
			switch o.Type().Underlying().(type) {
			case *types.Struct, *types.Array:
				return true
			}
			return false
		}
		ast.Inspect(fd.Body, func(n ast.Node) bool {
			switch t := n.(type) {
			case *ast.SelectorExpr:
				if sel := info.Selections[t]; sel != nil && sel.Kind() == types.MethodVal {
					if fn, ok := sel.Obj().(*types.Func); ok {
						if sig, ok := fn.Type().(*types.Signature); ok && sig.Recv() != nil {
							_, wantPtr := sig.Recv().Type().(*types.Pointer)
							_, havePtr := info.TypeOf(t.X).Underlying().(*types.Pointer)
							if wantPtr && !havePtr {
								if o := rootObj(info, t.X); aggregate(o) {
									delete(cands, o)
								}
							}
						}
					}
				}
			case *ast.AssignStmt:
				for _, l := range t.Lhs {
					if _, isID := unparen(l).(*ast.Ident); !isID {
						if o := rootObj(info, l); aggregate(o) {
							delete(cands, o)
						}
					}
				}
			case *ast.IncDecStmt:
				if _, isID := unparen(t.X).(*ast.Ident); !isID {
					if o := rootObj(info, t.X); aggregate(o) {
						delete(cands, o)
					}
				}
			case *ast.UnaryExpr:
				if t.Op == token.AND {
					if o := rootObj(info, t.X); aggregate(o) {
						delete(cands, o)
					}
				}
			}
			return true
		})
	}
	if len(cands) == 0 {
		return false
	}
	// uses; a use inside a closure disqualifies the variable
	var lits []*ast.FuncLit
	blank := map[*ast.Ident]ast.Stmt{} // `_ = v` statements (they only keep v "used")
	ast.Inspect(fd.Body, func(n ast.Node) bool {
		if fl, ok := n.(*ast.FuncLit); ok {
			lits = append(lits, fl)
		}
		if as, ok := n.(*ast.AssignStmt); ok && as.Tok == token.ASSIGN && len(as.Lhs) == 1 && len(as.Rhs) == 1 {
			if l, ok := as.Lhs[0].(*ast.Ident); ok && l.Name == "_" {
				if r, ok := unparen(as.Rhs[0]).(*ast.Ident); ok {
					blank[r] = as
				}
			}
		}
		if id, ok := n.(*ast.Ident); ok {
			if o := info.Uses[id]; o != nil && cands[o] != nil {
				cands[o].uses = append(cands[o].uses, id)
			}
		}
		return true
	})
	for _, fl := range lits {
		ast.Inspect(fl, func(n ast.Node) bool {
			if id, ok := n.(*ast.Ident); ok {
				delete(cands, info.Uses[id])
			}
			return true
		})
	}
	if len(cands) == 0 {
		return false
	}
	g := c.P.graphOf(pk, fd.Name.Name, fd.Body, fd.Type, fd.Recv)
	// a definition may not mention another candidate that is itself being replaced in this round (do the innermost first)
	repl := map[*ast.Ident]ast.Expr{}
	drop := map[ast.Stmt]bool{}
	var objs []types.Object
	for o := range cands {
		objs = append(objs, o)
	}
	sort.Slice(objs, func(i, j int) bool { return objs[i].Pos() < objs[j].Pos() })
	for _, o := range objs {
		d := cands[o]
		if len(d.uses) == 0 {
			continue
		}
		mentionsCand := false
		ast.Inspect(d.expr, func(n ast.Node) bool {
			if id, ok := n.(*ast.Ident); ok {
				if x := info.Uses[id]; x != nil && cands[x] != nil {
					mentionsCand = true
				}
			}
			return true
		})
		if mentionsCand {
			continue // next round
		}
		defLoc, found := g.Locate(d.node)
		if !found {
			continue
		}
		paths := c15Paths(info, d.expr)
		roots := objsIn(info, d.expr)
		// nodes reachable from the definition that may modify an operand
		var mods []Loc
		g.walk(Loc{defLoc.B, defLoc.Idx + 1}, func(l Loc, n ast.Node) bool {
			if c15Modifies(info, n, paths, roots) {
				mods = append(mods, l)
			}
			return true
		}, nil)
		// the definition itself may sit in a loop: it then re-executes before the next use, which is fine
		safe := true
		for _, u := range d.uses {
			ul, ok := g.Locate(u)
			if !ok {
				safe = false
				break
			}
			for _, m := range mods {
				if m == ul {
					// the using statement itself modifies an operand: operands are read before the store only in simple statements
					if _, isRange := m.B.Nodes[m.Idx].(*ast.RangeStmt); isRange {
						safe = false
					}
					if g.ReachesAvoiding(m, ul, func(n ast.Node) bool { return n == d.node }) {
						safe = false
					}
					continue
				}
				if g.ReachesAvoiding(m, ul, func(n ast.Node) bool { return n == d.node }) {
					safe = false
				}
			}
			// no identifier of the expression is shadowed at the use
			sc := pk.Types.Scope().Innermost(u.Pos())
			ast.Inspect(d.expr, func(n ast.Node) bool {
				if id, ok := n.(*ast.Ident); ok && sc != nil {
					if want := info.Uses[id]; want != nil {
						if _, isVar := want.(*types.Var); isVar && !want.(*types.Var).IsField() {
							if _, got := sc.LookupParent(id.Name, u.Pos()); got != want {
								safe = false
							}
						}
					}
				}
				return safe
			})
			if !safe {
				break
			}
		}
		if !safe {
			continue
		}
		// the replacement expression (typed where the definition fixed a type the expression alone would not have)
		mk := func() ast.Expr {
			e := c15Copy(unparen(d.expr), nil).(ast.Expr)
			tv := info.Types[d.expr]
			needConv := tv.Value != nil || (d.typ != nil && !types.Identical(tv.Type, o.Type()))
			if b, ok := tv.Type.(*types.Basic); ok && b.Info()&types.IsUntyped != 0 {
				needConv = true
			}
			if needConv {
				var te ast.Expr
				if d.typ != nil {
					te = c15Copy(d.typ, nil).(ast.Expr)
				} else if bt, ok := o.Type().(*types.Basic); ok {
					te = ast.NewIdent(bt.Name())
				} else {
					return nil
				}
				return &ast.CallExpr{Fun: &ast.ParenExpr{X: te}, Args: []ast.Expr{e}}
			}
			switch e.(type) {
			case *ast.Ident, *ast.BasicLit, *ast.SelectorExpr, *ast.IndexExpr, *ast.CallExpr, *ast.CompositeLit, *ast.SliceExpr:
				return e
			}
			return &ast.ParenExpr{X: e}
		}
		okAll := true
		tmp := map[*ast.Ident]ast.Expr{}
		realUses := 0
		for _, u := range d.uses {
			if blank[u] == nil {
				realUses++
			}
		}
		if realUses == 0 {
			continue
		}
		var blankDrops []ast.Stmt
		for _, u := range d.uses {
			if st := blank[u]; st != nil {
				blankDrops = append(blankDrops, st)
				continue
			}
			r := mk()
			if r == nil {
				okAll = false
				break
			}
			tmp[u] = r
		}
		if !okAll {
			continue
		}
		for k, v := range tmp {
			repl[k] = v
		}
		for _, st := range blankDrops {
			drop[st] = true
		}
		drop[d.stmt] = true
		// operands of this definition must stay: do not drop definitions it mentions in the same round (handled by mentionsCand)
	}
	if len(repl) == 0 {
		return false
	}
	c15ReplaceIdents(fd.Body, repl)
	c15DropStmts(fd.Body, drop)
	return true
}

// c15ReplaceIdents swaps identifier uses (in expression position) for expressions, in place.
func c15ReplaceIdents(root ast.Node, repl map[*ast.Ident]ast.Expr) {
	exprType := reflect.TypeOf((*ast.Expr)(nil)).Elem()
	seen := map[uintptr]bool{}
	var walk func(v reflect.Value)
	walk = func(v reflect.Value) {
		switch v.Kind() {
		case reflect.Interface:
			if v.IsNil() {
				return
			}
			if v.Type() == exprType && v.CanSet() {
				if id, ok := v.Interface().(*ast.Ident); ok {
					if r, ok := repl[id]; ok {
						v.Set(reflect.ValueOf(r))
						return
					}
				}
			}
			walk(v.Elem())
		case reflect.Ptr:
			if v.IsNil() {
				return
			}
			if _, ok := v.Interface().(*ast.Object); ok {
				return
			}
			if _, ok := v.Interface().(*ast.Scope); ok {
				return
			}
			if seen[v.Pointer()] {
				return
			}
			seen[v.Pointer()] = true
			walk(v.Elem())
		case reflect.Struct:
			for i := 0; i < v.NumField(); i++ {
				walk(v.Field(i))
			}
		case reflect.Slice:
			for i := 0; i < v.Len(); i++ {
				walk(v.Index(i))
			}
		}
	}
	walk(reflect.ValueOf(root))
}

// c15DropStmts removes the given statements from every statement list (and from if/switch/for init positions).
func c15DropStmts(root ast.Node, drop map[ast.Stmt]bool) {
	filter := func(list []ast.Stmt) []ast.Stmt {
		var out []ast.Stmt
		for _, st := range list {
			if !drop[st] {
				out = append(out, st)
			}
		}
		return out
	}
	ast.Inspect(root, func(n ast.Node) bool {
		switch t := n.(type) {
		case *ast.BlockStmt:
			t.List = filter(t.List)
		case *ast.CaseClause:
			t.Body = filter(t.Body)
		case *ast.CommClause:
			t.Body = filter(t.Body)
		case *ast.IfStmt:
			if t.Init != nil && drop[t.Init] {
				t.Init = nil
			}
		case *ast.SwitchStmt:
			if t.Init != nil && drop[t.Init] {
				t.Init = nil
			}
		case *ast.TypeSwitchStmt:
			if t.Init != nil && drop[t.Init] {
				t.Init = nil
			}
		case *ast.ForStmt:
			if t.Init != nil && drop[t.Init] {
				t.Init = nil
			}
		}
		return true
	})
}

func (in *c15Inliner) refuse(code int) ([]ast.Stmt, bool) {
	if os.Getenv("VXCHECK_DUMPSRC") != "" {
		fmt.Printf("inline refused (reason %d) in %s\n", code, in.curFn.Name())
	}
	return nil, false
}

// ---------------------------------------------------------------------------
// canonical declaration form of the anchor functions

// c15CanonForm: unexported anchor name -> receiver type name ("" = plain function).
var c15CanonForm = map[string]string{
	"hitTest": "", "debugPrintWidget": "", "firstLineSegment": "",
	"handleCommand": "App", "layout": "App",
	"focusWidget": "focusHandler", "updatePath": "focusHandler", "childHasFocus": "focusHandler",
	"update": "mouseHandler", "mouseExit": "mouseHandler",
	"containsPoint": "SubSurface", "render": "Surface",
	"drawSoftwrap": "*", "findContainerSize": "*", // "*": a method on the type of its first parameter, whatever it is
}

func c15CanonDecls(c *Ctx, pk *packages.Package) map[*ast.File]bool {
	changed := map[*ast.File]bool{}
	info := pk.TypesInfo
	named := func(t types.Type) *types.Named {
		if p, ok := t.(*types.Pointer); ok {
			t = p.Elem()
		}
		n, _ := t.(*types.Named)
		if n != nil && n.Obj().Pkg() == pk.Types {
			return n
		}
		return nil
	}
	for _, f := range pk.Syntax {
		for _, d := range f.Decls {
			fd, ok := d.(*ast.FuncDecl)
			if !ok || fd.Body == nil || fd.Name.IsExported() {
				continue
			}
			want, isAnchor := c15CanonForm[fd.Name.Name]
			if !isAnchor || fd.Type.TypeParams != nil {
				continue
			}
			fn, _ := info.Defs[fd.Name].(*types.Func)
			if fn == nil {
				continue
			}
			switch {
			case want == "" && fd.Recv != nil:
				// method -> function
				if pk.Types.Scope().Lookup(fd.Name.Name) != nil || len(fd.Recv.List) != 1 {
					continue
				}
				refs, ok := c15CallRefs(pk, fn, true)
				if !ok {
					continue
				}
				recvField := fd.Recv.List[0]
				if len(recvField.Names) == 0 {
					recvField.Names = []*ast.Ident{ast.NewIdent("_")}
				}
				_, wantPtr := fn.Type().(*types.Signature).Recv().Type().(*types.Pointer)
				for _, r := range refs {
					sel := r.call.Fun.(*ast.SelectorExpr)
					x := sel.X
					_, havePtr := info.TypeOf(x).Underlying().(*types.Pointer)
					switch {
					case wantPtr && !havePtr:
						x = &ast.UnaryExpr{Op: token.AND, X: x}
					case !wantPtr && havePtr:
						x = &ast.StarExpr{X: x}
					}
					r.call.Fun = ast.NewIdent(fd.Name.Name)
					r.call.Args = append([]ast.Expr{x}, r.call.Args...)
					changed[r.file] = true
				}
				fd.Type.Params.List = append([]*ast.Field{recvField}, fd.Type.Params.List...)
				fd.Recv = nil
				changed[f] = true
				c.info("normalised: method %s rewritten as a plain function", fd.Name.Name)
			case want != "" && fd.Recv == nil:
				// function -> method on its first parameter
				ps := fd.Type.Params.List
				if len(ps) == 0 || len(ps[0].Names) == 0 {
					continue
				}
				nt := named(info.TypeOf(ps[0].Type))
				if nt == nil || (want != "*" && nt.Obj().Name() != want) {
					continue
				}
				if _, isIface := nt.Underlying().(*types.Interface); isIface {
					continue
				}
				// no method of that name yet
				clash := false
				for i := 0; i < nt.NumMethods(); i++ {
					if nt.Method(i).Name() == fd.Name.Name {
						clash = true
					}
				}
				if st, ok := nt.Underlying().(*types.Struct); ok {
					for i := 0; i < st.NumFields(); i++ {
						if st.Field(i).Name() == fd.Name.Name {
							clash = true
						}
					}
				}
				if clash {
					continue
				}
				refs, ok := c15CallRefs(pk, fn, false)
				if !ok {
					continue
				}
				first := ps[0]
				recv := &ast.Field{Names: []*ast.Ident{first.Names[0]}, Type: first.Type}
				if len(first.Names) > 1 {
					first.Names = first.Names[1:]
				} else {
					fd.Type.Params.List = ps[1:]
				}
				fd.Recv = &ast.FieldList{List: []*ast.Field{recv}}
				for _, r := range refs {
					if len(r.call.Args) == 0 {
						continue
					}
					x := r.call.Args[0]
					switch x.(type) {
					case *ast.Ident, *ast.SelectorExpr, *ast.IndexExpr, *ast.CallExpr, *ast.ParenExpr:
					default:
						x = &ast.ParenExpr{X: x}
					}
					r.call.Fun = &ast.SelectorExpr{X: x, Sel: ast.NewIdent(fd.Name.Name)}
					r.call.Args = r.call.Args[1:]
					changed[r.file] = true
				}
				changed[f] = true
				c.info("normalised: function %s rewritten as a method of %s", fd.Name.Name, nt.Obj().Name())
			}
		}
	}
	return changed
}

type c15CallRef struct {
	call *ast.CallExpr
	file *ast.File
}

// c15CallRefs lists the calls of fn in the package; ok=false if fn is referenced in any other way (method value, ...).
func c15CallRefs(pk *packages.Package, fn *types.Func, method bool) ([]c15CallRef, bool) {
	info := pk.TypesInfo
	var refs []c15CallRef
	inCall := map[*ast.Ident]bool{}
	for _, f := range pk.Syntax {
		ast.Inspect(f, func(n ast.Node) bool {
			call, ok := n.(*ast.CallExpr)
			if !ok {
				return true
			}
			switch t := unparen(call.Fun).(type) {
			case *ast.SelectorExpr:
				if method && info.Uses[t.Sel] == fn {
					if s := info.Selections[t]; s != nil && s.Kind() == types.MethodVal && len(s.Index()) == 1 {
						refs = append(refs, c15CallRef{call, f})
						inCall[t.Sel] = true
						call.Fun = t
					}
				}
			case *ast.Ident:
				if !method && info.Uses[t] == fn {
					refs = append(refs, c15CallRef{call, f})
					inCall[t] = true
				}
			}
			return true
		})
	}
	for id, o := range info.Uses {
		if o == fn && !inCall[id] {
			return nil, false
		}
	}
	return refs, true
}
