package main

// C06.j — erase ranges. For EL, ED and ECH the set of cells a VT erases is a stack of row bands, each
// with a column interval (all bounds linear in the entry cursor position, the count and the screen size):
//
//   EL 0   row0:            [col0, COLS-1]        ED 0   EL 0  +  rows row0+1 .. ROWS-1: every column
//   EL 1   row0:            [0, col0]             ED 1   rows 0 .. row0-1: every column  +  EL 1
//   EL 2   row0:            [0, COLS-1]           ED 2   rows 0 .. ROWS-1: every column
//   ECH n  row0:            [col0, min(col0+n-1, COLS-1)]
//
// For every loop nest of the handler that erases cells (a column loop, possibly inside a row loop) the
// generic iteration is executed symbolically under each of: "the cell is inside band b", "left of / right
// of band b on one of its rows", "above / below all bands":
//   inside    every path erases exactly that cell and goes on;
//   outside   no path erases; the row may be abandoned (break) only on the far side of the band;
// and a band counts as covered when a nest provably starts at or before its first row/column and cannot
// stop on its loop conditions before its last. Every band must be covered.
// The cursor is assumed inside the screen (0 <= row <= ROWS-1, 0 <= col <= COLS-1): the deferred-wrap
// column is exempt by the property.

import (
	"fmt"
	"go/ast"
	"go/types"
	"strings"
)

type c06Band struct {
	name               string
	rlo, rhi, clo, chi c05Lin
}

type c06EraseSpec struct {
	table, key, name string
	ps               any // int, or "small"/"big" for ECH with a symbolic count
	bands            func(n0 string) []c06Band
}

func c06RuleEraseRanges(c *Ctx, e *c05Eng, tabs map[string]*c06Table) {
	c.expect("C06.j", 8)
	bg, cur := c06Fields(c, e)
	R0, C0 := c05Atom(g0Row), c05Atom(g0Col)
	zero := c05Const(0)
	lastCol := c05L("COLS", 1, -1)
	lastRow := c05L("ROWS", 1, -1)
	plus := func(l c05Lin, k int64) c05Lin { n := l.clone(); n.k += k; return n }
	el0 := c06Band{"the cursor row from the cursor to the end of the line", R0, R0, C0, lastCol}
	el1 := c06Band{"the cursor row from the start of the line to the cursor", R0, R0, zero, C0}
	el2 := c06Band{"the whole cursor row", R0, R0, zero, lastCol}
	specs := []c06EraseSpec{
		{"csi", "K", "EL 0 erases from the cursor to the end of the line", 0, func(string) []c06Band { return []c06Band{el0} }},
		{"csi", "K", "EL 1 erases from the start of the line to the cursor", 1, func(string) []c06Band { return []c06Band{el1} }},
		{"csi", "K", "EL 2 erases the whole line", 2, func(string) []c06Band { return []c06Band{el2} }},
		{"csi", "J", "ED 0 erases from the cursor to the end of the screen", 0, func(string) []c06Band {
			return []c06Band{el0, {"every row below the cursor row", plus(R0, 1), lastRow, zero, lastCol}}
		}},
		{"csi", "J", "ED 1 erases from the start of the screen to the cursor", 1, func(string) []c06Band {
			return []c06Band{{"every row above the cursor row", zero, plus(R0, -1), zero, lastCol}, el1}
		}},
		{"csi", "J", "ED 2 erases the whole screen", 2, func(string) []c06Band {
			return []c06Band{{"every row", zero, lastRow, zero, lastCol}}
		}},
		{"csi", "X", "ECH n erases n cells from the cursor when they fit on the line", "small", func(n0 string) []c06Band {
			return []c06Band{{"n cells from the cursor", R0, R0, C0, C0.addScaled(c05Atom(n0), 1).addScaled(c05Const(1), -1)}}
		}},
		{"csi", "X", "ECH n erases to the end of the line when n reaches beyond it", "big", func(n0 string) []c06Band {
			return []c06Band{el0}
		}},
	}
	for _, sp := range specs {
		t := tabs[sp.table]
		if t == nil {
			continue
		}
		en := t.entries[sp.key]
		if en == nil || en.callee == nil {
			continue // C06.b
		}
		cf := en.callee
		key := fmt.Sprintf("%s/%s", cf.Name, sp.name)
		x := &c06X{c: c, e: e, bg: bg, cur: cur, cellErase: true}
		bad := c06EraseCase(x, cf, sp)
		switch {
		case len(x.und) > 0:
			c.undecided("C06.j", key, cf.Decl.Pos(), "the handler is not understood: %s", strings.Join(c06Dedupe(x.und), "; "))
		case len(bad) > 0:
			c.bad("C06.j", key, cf.Decl.Pos(), "%s: the cells erased are not the cells a VT erases", strings.Join(bad, "; "))
		default:
			c.ok("C06.j", key, cf.Decl.Pos(), "no cell outside the range is erased, every cell inside is, and the loops cover the range")
		}
	}
}

func c06EraseCase(x *c06X, cf *FuncInfo, sp c06EraseSpec) (bad []string) {
	e := x.e
	fr := e.newFrame(cf, true)
	var params []types.Object
	for _, f := range cf.Decl.Type.Params.List {
		for _, nme := range f.Names {
			params = append(params, fr.info.Defs[nme])
		}
	}
	if len(params) != 1 || !e.isCountType(params[0].Type()) || fr.recv == nil {
		x.undecided("expected a method with a single parameter")
		return
	}
	st := e.entryState(fr)
	pk := fmt.Sprintf("v%p", params[0])
	const n0 = "n@0"
	for _, p := range []c05Lin{c05L(c05Row, 1, "ROWS", -1, 1), c05L(c05Col, 1, "COLS", -1, 1)} {
		if st = e.assumeLE0(st, p); st == nil {
			x.undecided("precondition unsatisfiable")
			return
		}
	}
	e.ghostify(st, c05Row, g0Row)
	e.ghostify(st, c05Col, g0Col)
	switch v := sp.ps.(type) {
	case int:
		st.env[pk] = c05Exact("", int64(v))
	case string:
		e.disp[n0] = params[0].Name() + "@entry"
		st.env[n0] = c05Top()
		st.env[n0].addLo("", 1)
		st.env[pk] = c05Exact(n0, 0)
		st.env[pk].addLo("", 1)
		st.env[n0].addLo(pk, 0)
		st.env[n0].addHi(pk, 0)
		pre := c05L(g0Col, 1, n0, 1, "COLS", -1) // col0 + n <= COLS
		if v == "big" {
			pre = pre.neg()
			pre.k += 1 // COLS + 1 <= col0 + n
		}
		if st = e.assumeLE0(st, pre); st == nil {
			x.undecided("precondition unsatisfiable")
			return
		}
	}
	bands := sp.bands(n0)
	covered := make([]bool, len(bands))
	nests := 0
	x.loopHook = func(fr2 *c05Frame, s ast.Stmt, st2 *c05State, effs []c06Eff) ([]c06Out, bool) {
		saved := x.loopHook
		x.loopHook = nil
		b := c06EraseNest(x, fr2, s, st2, bands, covered, &nests)
		x.loopHook = saved
		bad = append(bad, b...)
		return []c06Out{{kind: 0, st: st2, effs: effs}}, true
	}
	for _, o := range x.execList(fr, cf.Decl.Body.List, st, nil) {
		for _, ef := range o.effs {
			if ef.kind == "erase" {
				x.undecided("a cell is erased outside a loop at %s", x.c.P.Pos(ef.pos))
			}
		}
	}
	x.loopHook = nil
	if len(x.und) > 0 {
		return nil
	}
	for i, b := range bands {
		if !covered[i] {
			bad = append(bad, fmt.Sprintf("no loop provably covers %s (rows %s..%s, columns %s..%s): it starts after the first or can stop before the last of these cells", b.name, e.showLin(b.rlo), e.showLin(b.rhi), e.showLin(b.clo), e.showLin(b.chi)))
		}
	}
	return c06Dedupe(bad)
}

// c06EraseNest analyses one top-level loop statement met with state st.
func c06EraseNest(x *c06X, fr *c05Frame, s ast.Stmt, st *c05State, bands []c06Band, covered []bool, nests *int) (bad []string) {
	e := x.e
	outer := x.loopShape(fr, s)
	if outer == nil {
		x.undecided("loop header at %s not recognised", x.c.P.Pos(s.Pos()))
		return
	}
	if outer.rng != nil {
		x.undecided("range loop at %s", x.c.P.Pos(s.Pos()))
		return
	}
	// nested?
	var innerStmt ast.Stmt
	innerIdx := -1
	for i, bs := range outer.body.List {
		switch bs.(type) {
		case *ast.ForStmt, *ast.RangeStmt:
			if innerStmt != nil {
				x.undecided("two loops inside the loop at %s", x.c.P.Pos(s.Pos()))
				return
			}
			innerStmt, innerIdx = bs, i
		}
	}
	assigned := c06AssignedIn(fr.info, outer.body)
	if assigned[fr.recv] || assigned[outer.obj] {
		x.undecided("the loop at %s assigns the terminal's fields or its own variable", x.c.P.Pos(s.Pos()))
		return
	}
	sOuter := x.enter(fr, outer, st)
	if sOuter == nil {
		return nil // never executes under this precondition
	}
	var rowLp, colLp *c06Loop
	var sCell *c05State
	if innerStmt != nil {
		if innerIdx != len(outer.body.List)-1 {
			x.undecided("statements after the column loop inside the row loop at %s", x.c.P.Pos(s.Pos()))
			return
		}
		pre := x.execList(fr, outer.body.List[:innerIdx], sOuter.clone(), nil)
		if len(pre) != 1 || pre[0].kind != 0 || len(pre[0].effs) != 0 {
			x.undecided("the statements before the column loop at %s branch or have effects", x.c.P.Pos(innerStmt.Pos()))
			return
		}
		colLp = x.loopShape(fr, innerStmt)
		if colLp == nil || colLp.rng != nil {
			x.undecided("column loop header at %s not recognised", x.c.P.Pos(innerStmt.Pos()))
			return
		}
		rowLp = outer
		sOuter = pre[0].st
		sCell = x.enter(fr, colLp, sOuter)
		if sCell == nil {
			return nil
		}
	} else {
		colLp = outer
		sCell = sOuter
	}
	// the cell an iteration stands for
	var R, C c05Lin
	have := false
	for _, o := range x.execList(fr, colLp.body.List, sCell.clone(), nil) {
		for _, ef := range o.effs {
			if ef.kind == "erase" && !have {
				R, C, have = ef.row, x.resolve(o.st, ef.col, colLp.key), true
				if rowLp != nil {
					R = x.resolve(o.st, ef.row, rowLp.key)
				}
			}
		}
	}
	if len(x.und) > 0 || !have {
		return nil
	}
	*nests++
	if C.t[colLp.key] != 1 {
		x.undecided("the column erased at %s is %s, not the loop variable plus a constant", x.c.P.Pos(colLp.body.Pos()), e.showLin(C))
		return
	}
	if rowLp != nil && R.t[rowLp.key] != 1 {
		x.undecided("the row erased at %s is %s, not the row loop variable plus a constant", x.c.P.Pos(colLp.body.Pos()), e.showLin(R))
		return
	}
	if R.t[colLp.key] != 0 {
		x.undecided("the row erased depends on the column loop variable")
		return
	}
	neg1 := func(l c05Lin) c05Lin { n := l.neg(); n.k += 1; return n }
	le := func(a, b c05Lin) c05Lin { return a.addScaled(b, -1) } // a - b <= 0
	assumeAll := func(s0 *c05State, ls ...c05Lin) *c05State {
		cur := s0.clone()
		for _, l := range ls {
			if cur == nil {
				return nil
			}
			cur = e.assumeLE0(cur, l)
		}
		return cur
	}
	Rmin, Rmax := bands[0].rlo, bands[len(bands)-1].rhi
	type region struct {
		name   string
		pre    []c05Lin
		inside bool
		side   int // -1 left of the band, +1 right of it, 0 rows outside all bands
	}
	var regions []region
	for _, b := range bands {
		rows := []c05Lin{le(b.rlo, R), le(R, b.rhi)}
		regions = append(regions,
			region{"inside " + b.name, append(append([]c05Lin{}, rows...), le(b.clo, C), le(C, b.chi)), true, 0},
			region{"left of " + b.name, append(append([]c05Lin{}, rows...), neg1(le(b.clo, C))), false, -1},
			region{"right of " + b.name, append(append([]c05Lin{}, rows...), neg1(le(C, b.chi))), false, 1},
		)
	}
	regions = append(regions,
		region{"above the range", []c05Lin{neg1(le(Rmin, R))}, false, 0},
		region{"below the range", []c05Lin{neg1(le(R, Rmax))}, false, 0},
	)
	// a loop that steps by one passes the first cell beyond a band before any cell further out: when every
	// path leaves the loop there, the cells further out are never visited
	skip := map[string]bool{}
	for _, b := range bands {
		for _, side := range []int{-1, 1} {
			if (side == 1) != colLp.asc {
				continue
			}
			edge := le(C, b.chi)
			edge.k -= 1 // C - chi - 1
			name := "right of " + b.name
			if side == -1 {
				edge = le(b.clo, C)
				edge.k -= 1 // clo - C - 1
				name = "left of " + b.name
			}
			sb := assumeAll(sCell, le(b.rlo, R), le(R, b.rhi), edge, edge.neg())
			if sb == nil {
				continue
			}
			allExit := true
			outs := x.execList(fr, colLp.body.List, sb, nil)
			for _, o := range outs {
				if o.kind != 2 && o.kind != 3 {
					allExit = false
				}
				for _, ef := range o.effs {
					if ef.kind == "erase" {
						allExit = false
					}
				}
			}
			if allExit && len(outs) > 0 {
				skip[name] = true
			}
		}
	}
	for _, rg := range regions {
		if skip[rg.name] {
			continue
		}
		sb := assumeAll(sCell, rg.pre...)
		if sb == nil {
			continue
		}
		for _, o := range x.execList(fr, colLp.body.List, sb, nil) {
			nEr := 0
			okCell := true
			for _, ef := range o.effs {
				if ef.kind != "erase" {
					bad = append(bad, "unexpected effect "+ef.kind+" in an erase function")
					continue
				}
				nEr++
				row := ef.row
				if rowLp != nil {
					row = x.resolve(o.st, ef.row, rowLp.key)
				}
				if !x.eq(o.st, row.addScaled(R, -1)) || !x.eq(o.st, x.resolve(o.st, ef.col, colLp.key).addScaled(C, -1)) {
					okCell = false
				}
			}
			switch {
			case rg.inside:
				if o.kind == 2 || o.kind == 3 {
					bad = append(bad, "the loop is left on a cell "+rg.name+": that cell and the rest of the range stay unerased")
				} else if nEr != 1 || !okCell {
					bad = append(bad, fmt.Sprintf("a cell %s is not erased (exactly once) on some path", rg.name))
				}
			default:
				if nEr > 0 {
					bad = append(bad, "a cell "+rg.name+" is erased")
				}
				if o.kind == 2 || o.kind == 3 {
					// abandoning the row is fine only on the far side of the band in the direction of travel
					far := (rg.side == 1 && colLp.asc) || (rg.side == -1 && !colLp.asc) || rg.side == 0
					if !far {
						bad = append(bad, "the column loop is left on a cell "+rg.name+", before the cells that must be erased")
					}
					if o.kind == 3 && rowLp != nil {
						// a return also ends the row loop: only on the last row of the range
						lastRow := le(Rmax, R)
						if !rowLp.asc {
							lastRow = le(R, Rmin)
						}
						if !e.prove(o.st, lastRow) {
							bad = append(bad, "the function returns from inside the row loop while rows of the range remain")
						}
					}
				}
			}
		}
	}
	if len(x.und) > 0 {
		return nil
	}
	// coverage
	startsBy := func(lp *c06Loop, s0 *c05State, V, first c05Lin) bool { // asc: V_init <= first ; desc: V_init >= first
		si := s0.clone()
		e.transfer(fr, si, lp.init)
		d := V.addScaled(first, -1)
		if !lp.asc {
			d = d.neg()
		}
		return e.prove(si, d)
	}
	stopsAfter := func(lp *c06Loop, s0 *c05State, V, last c05Lin) bool { // asc: at exit V >= last+1 ; desc: V <= last-1
		si := s0.clone()
		e.transfer(fr, si, lp.init)
		x.generic(si, lp)
		d := neg1(le(V, last)) // last + 1 - V <= 0
		if !lp.asc {
			d = neg1(le(last, V))
		}
		// every way the condition can fail (i < n && i < len(tail): either bound reached) puts V beyond the last cell;
		// no way at all: the loop never stops on its condition (left otherwise: checked above)
		for _, so := range e.assumeAlts(fr, si, lp.cond, false) {
			if !e.prove(so, d) {
				return false
			}
		}
		return true
	}
	rowsOK := true
	if rowLp != nil {
		first, last := Rmin, Rmax
		if !rowLp.asc {
			first, last = Rmax, Rmin
		}
		rowsOK = startsBy(rowLp, st, R, first) && stopsAfter(rowLp, st, R, last)
	}
	for i, b := range bands {
		var sRow *c05State
		if rowLp != nil {
			sRow = assumeAll(sOuter, le(b.rlo, R), le(R, b.rhi))
			if sRow == nil {
				continue
			}
		} else {
			// a single row: the band must be exactly that row
			if !(x.eq(st, R.addScaled(b.rlo, -1)) && x.eq(st, R.addScaled(b.rhi, -1))) {
				continue
			}
			sRow = st
		}
		first, last := b.clo, b.chi
		if !colLp.asc {
			first, last = b.chi, b.clo
		}
		if rowsOK && startsBy(colLp, sRow, C, first) && stopsAfter(colLp, sRow, C, last) {
			covered[i] = true
		}
	}
	return bad
}
