package main

// c11fields — the field-sensitive mode of the symbolic evaluation (c11sym.go), used by the rules about the text
// helpers and the window constructor (c11text.go).
//
//   * A local variable of struct type is tracked field by field: st.store maps the key of an access path
//     (root symbol + field names) to the CURRENT value of that field; a path without an entry still has the value
//     it had when its root symbol was created (the symbol named after the path). Assigning a struct copies the
//     field values (no aliasing of struct values); a composite literal sets the listed fields and zeroes the others.
//   * A pointer-typed local that holds the address of such a variable (tc := &cur, or the pointer receiver of an
//     inlined helper) is an alias of its path: writes through it update the same store entries.
//   * Writes are tracked only below roots the evaluation owns (local struct variables, parameters passed by
//     value, fresh objects); every other write invalidates as before (writeThrough).
//   * Helper functions of the package whose only effects are assignments to their own locals and to fields
//     reached through their parameters are executed in the caller's context (one continuation per return path).
//   * A loop is judged on a generic iteration: the variables and fields whose value at the end of an iteration
//     differs from the value at its start are made unknown at the head, repeatedly, until nothing new varies.

import (
	"fmt"
	"go/ast"
	"go/token"
	"go/types"
	"strings"

	"golang.org/x/tools/go/cfg"
)

const c11NilRoot = "<nil>"

// c11Pend: a placement (or line break) whose effect on the cursor has not been judged yet.
type c11Pend struct {
	col, row ast.Expr // the expressions that designate the cursor
	c, r     c11Lin   // their values when the mark was set
	pos      token.Pos
}

// c11SV is a structured value: 'i' 'b' 'p' as c11Val, 's' struct with fields, '?' unknown.
type c11SV struct {
	kind   byte
	val    c11Val
	fields map[string]*c11SV
}

func c11IsStruct(t types.Type) bool {
	if t == nil {
		return false
	}
	_, ok := t.Underlying().(*types.Struct)
	return ok
}

func (x *c11Exec) ownRoot(root string) bool {
	if strings.HasPrefix(root, "?") {
		return true
	}
	return x.owned[root]
}

// noteWidth marks the symbol of a Character's Width.
func (x *c11Exec) noteWidth(e ast.Expr, l c11Lin) {
	sel, ok := unparen(e).(*ast.SelectorExpr)
	if !ok || sel.Sel.Name != "Width" || l.k != 0 || len(l.co) != 1 {
		return
	}
	t := x.info.TypeOf(sel.X)
	if t == nil {
		return
	}
	if pt, ok := t.Underlying().(*types.Pointer); ok {
		t = pt.Elem()
	}
	if typeName(t) != modPath+".Character" {
		return
	}
	for s, c := range l.co {
		if c == 1 {
			x.widthSyms[s] = true
		}
	}
}

func (x *c11Exec) isWidth(l c11Lin) bool {
	if l.k != 0 || len(l.co) != 1 {
		return false
	}
	for s, c := range l.co {
		return c == 1 && x.widthSyms[s]
	}
	return false
}

// resolveLoc: the location an assignable expression denotes (no dereference of the last field).
func (x *c11Exec) resolveLoc(st *c11State, e ast.Expr) c11Path {
	switch t := unparen(e).(type) {
	case *ast.SelectorExpr:
		if sel, ok := x.info.Selections[t]; ok && sel.Kind() == types.FieldVal && len(sel.Index()) == 1 {
			b := x.resolvePath(st, t.X)
			if !b.ok {
				return b
			}
			parts := append(append([]string(nil), b.parts...), t.Sel.Name)
			return c11Path{root: b.root, parts: parts, ok: true}
		}
	case *ast.StarExpr:
		if id, ok := unparen(t.X).(*ast.Ident); ok {
			if a, ok := st.alias[x.info.ObjectOf(id)]; ok {
				return a
			}
		}
	}
	return c11Path{}
}

// storeThrough: assignment to a field (or through a pointer) of something the evaluation owns.
func (x *c11Exec) storeThrough(st *c11State, fr *c11Frame, lhs ast.Expr, v c11Val, sv *c11SV) bool {
	loc := x.resolveLoc(st, lhs)
	if !loc.ok || loc.root == c11NilRoot || !x.ownRoot(loc.root) {
		return false
	}
	t := x.info.TypeOf(lhs)
	if t == nil {
		return false
	}
	if c11IsStruct(t) {
		if sv == nil {
			sv = &c11SV{kind: '?'}
		}
		if len(loc.parts) == 0 && sv.kind == '?' {
			return false
		}
		x.writeSV(st, loc, t, sv)
		return true
	}
	one := &c11SV{kind: v.kind, val: v}
	if v.kind == 0 {
		one.kind = '?'
	}
	x.writeSV(st, loc, t, one)
	if v.kind == 'i' {
		x.noteWidth(lhs, st.store[loc.key()].lin)
	} else if one.kind == '?' {
		if nv, ok := st.store[loc.key()]; ok && nv.kind == 'i' {
			x.noteWidth(lhs, nv.lin)
		}
	}
	return true
}

func (x *c11Exec) clearBelow(st *c11State, key string) {
	delete(st.store, key)
	pre := key + "."
	for k := range st.store {
		if strings.HasPrefix(k, pre) {
			delete(st.store, k)
		}
	}
}

func (x *c11Exec) extend(p c11Path, f string) c11Path {
	return c11Path{root: p.root, parts: append(append([]string(nil), p.parts...), f), ok: true}
}

func (x *c11Exec) freshRoot(disp string) c11Path {
	return c11Path{root: x.fresh(disp), ok: true}
}

// writeSV stores a structured value at loc.
func (x *c11Exec) writeSV(st *c11State, loc c11Path, t types.Type, sv *c11SV) {
	key := loc.key()
	if len(loc.parts) > 0 {
		x.clearBelow(st, key)
	}
	if _, ok := x.disp[key]; !ok {
		x.pathSym(loc, nil)
	}
	if stt, ok := t.Underlying().(*types.Struct); ok {
		switch sv.kind {
		case 's':
			for i := 0; i < stt.NumFields(); i++ {
				f := stt.Field(i)
				fv := sv.fields[f.Name()]
				if fv == nil {
					fv = &c11SV{kind: '?'}
				}
				x.writeSV(st, x.extend(loc, f.Name()), f.Type(), fv)
			}
		default:
			if len(loc.parts) > 0 {
				// an unknown struct value: the field now names a fresh object
				st.store[key] = c11Val{kind: 'p', path: x.freshRoot(x.disp[key])}
			}
			// (a root that has just been given a new incarnation is unknown already)
		}
		return
	}
	switch sv.kind {
	case 'i', 'b', 'p':
		st.store[key] = sv.val
	default:
		switch {
		case x.isIntType(t):
			st.store[key] = c11Val{kind: 'i', lin: c11Sym(x.fresh(x.disp[key]))}
		case x.isBool(t):
			k := x.fresh(x.disp[key])
			st.store[key] = c11Val{kind: 'b', bv: &c11BoolVal{t: x.opaqueBool(k, true), f: x.opaqueBool(k, false)}}
		default:
			st.store[key] = c11Val{kind: 'p', path: x.freshRoot(x.disp[key])}
		}
	}
}

// readSV: the current structured value at path p.
func (x *c11Exec) readSV(st *c11State, p c11Path, t types.Type, depth int) *c11SV {
	if stt, ok := t.Underlying().(*types.Struct); ok {
		if depth > 3 {
			return &c11SV{kind: '?'}
		}
		out := &c11SV{kind: 's', fields: map[string]*c11SV{}}
		for i := 0; i < stt.NumFields(); i++ {
			f := stt.Field(i)
			fp := x.extend(p, f.Name())
			if c11IsStruct(f.Type()) {
				if v, ok := st.store[fp.key()]; ok && v.kind == 'p' {
					fp = v.path
				}
			}
			out.fields[f.Name()] = x.readSV(st, fp, f.Type(), depth+1)
		}
		return out
	}
	key := p.key()
	if v, ok := st.store[key]; ok && v.kind != 0 {
		return &c11SV{kind: v.kind, val: v}
	}
	x.pathSym(p, nil)
	switch {
	case x.isIntType(t):
		return &c11SV{kind: 'i', val: c11Val{kind: 'i', lin: c11Sym(key)}}
	case x.isBool(t):
		return &c11SV{kind: 'b', val: c11Val{kind: 'b', bv: &c11BoolVal{t: x.opaqueBool(key, true), f: x.opaqueBool(key, false)}}}
	}
	return &c11SV{kind: 'p', val: c11Val{kind: 'p', path: p}}
}

// evalSV: the structured value of expression e (nil = the zero value) of type t.
func (x *c11Exec) evalSV(st *c11State, t types.Type, e ast.Expr, depth int) *c11SV {
	if e != nil {
		e = unparen(e)
	}
	if stt, ok := t.Underlying().(*types.Struct); ok {
		if depth > 3 {
			return &c11SV{kind: '?'}
		}
		if e == nil {
			out := &c11SV{kind: 's', fields: map[string]*c11SV{}}
			for i := 0; i < stt.NumFields(); i++ {
				out.fields[stt.Field(i).Name()] = x.evalSV(st, stt.Field(i).Type(), nil, depth+1)
			}
			return out
		}
		if cl, ok := e.(*ast.CompositeLit); ok {
			exprs := map[string]ast.Expr{}
			for i, el := range cl.Elts {
				if kv, ok := el.(*ast.KeyValueExpr); ok {
					if id, ok := kv.Key.(*ast.Ident); ok {
						exprs[id.Name] = kv.Value
					}
				} else if i < stt.NumFields() {
					exprs[stt.Field(i).Name()] = el
				}
			}
			out := &c11SV{kind: 's', fields: map[string]*c11SV{}}
			for i := 0; i < stt.NumFields(); i++ {
				f := stt.Field(i)
				out.fields[f.Name()] = x.evalSV(st, f.Type(), exprs[f.Name()], depth+1)
			}
			return out
		}
		if call, ok := e.(*ast.CallExpr); ok {
			if r, ok := st.callRes[call]; ok && len(r) == 1 && r[0].kind == 'p' && r[0].path.ok {
				return x.readSV(st, r[0].path, t, depth)
			}
			return &c11SV{kind: '?'}
		}
		switch e.(type) {
		case *ast.Ident, *ast.SelectorExpr, *ast.StarExpr:
			if p := x.resolvePath(st, e); p.ok {
				return x.readSV(st, p, t, depth)
			}
		}
		return &c11SV{kind: '?'}
	}
	if e == nil {
		switch {
		case x.isIntType(t):
			return &c11SV{kind: 'i', val: c11Val{kind: 'i', lin: c11Const(0)}}
		case x.isBool(t):
			return &c11SV{kind: 'b', val: c11Val{kind: 'b', bv: &c11BoolVal{t: c11False(), f: c11True()}}}
		}
		if _, ok := t.Underlying().(*types.Pointer); ok {
			return &c11SV{kind: 'p', val: c11Val{kind: 'p', path: c11Path{root: c11NilRoot, ok: true}}}
		}
		return &c11SV{kind: '?'}
	}
	if isNilExpr(x.info, e) {
		return &c11SV{kind: 'p', val: c11Val{kind: 'p', path: c11Path{root: c11NilRoot, ok: true}}}
	}
	v := x.evalVal(st, e)
	if v.kind == 0 || (v.kind == 'p' && !v.path.ok) {
		return &c11SV{kind: '?'}
	}
	return &c11SV{kind: v.kind, val: v}
}

// evalResult: the value of a returned expression; a struct value that is not an access path (a composite literal,
// the result of another helper) is stored under a fresh root so that the caller can copy it.
func (x *c11Exec) evalResult(st *c11State, e ast.Expr) c11Val {
	v := x.evalVal(st, e)
	if !x.fields || (v.kind == 'p' && v.path.ok) {
		return v
	}
	t := x.info.TypeOf(e)
	if t == nil || !c11IsStruct(t) {
		return v
	}
	sv := x.evalSV(st, t, e, 0)
	if sv.kind != 's' {
		return v
	}
	root := x.freshRoot(types.ExprString(e))
	x.writeSV(st, root, t, sv)
	return c11Val{kind: 'p', path: root}
}

// fieldInt: the current integer value of field f of the struct at p.
func (x *c11Exec) fieldInt(st *c11State, p c11Path, f string) c11Lin {
	fp := x.extend(p, f)
	if v, ok := st.store[fp.key()]; ok && v.kind == 'i' {
		return v.lin
	}
	return c11Sym(x.pathSym(fp, nil))
}

// fieldPath: the current pointer value of field f of the struct at p.
func (x *c11Exec) fieldPath(st *c11State, p c11Path, f string) c11Path {
	fp := x.extend(p, f)
	if v, ok := st.store[fp.key()]; ok && v.kind == 'p' {
		return v.path
	}
	return fp
}

// ---- helpers with effects on their parameters, executed in the caller's context

func (x *c11Exec) inlinable(fn *types.Func) bool {
	if v := x.inlMemo[fn]; v != 0 {
		return v == 1
	}
	x.inlMemo[fn] = 2 // recursion => no
	ok := x.inlinableBody(fn)
	if ok {
		x.inlMemo[fn] = 1
	}
	return ok
}

func (x *c11Exec) inlinableBody(fn *types.Func) bool {
	if fn.Pkg() != x.pkg {
		return false
	}
	fi := x.p.FuncOfObj(fn)
	if fi == nil || fi.Decl.Body == nil || fi.Pkg.TypesInfo != x.info {
		return false
	}
	fd := fi.Decl
	sig := fn.Type().(*types.Signature)
	if sig.Variadic() || sig.TypeParams() != nil || sig.RecvTypeParams() != nil {
		return false
	}
	if c15CountNodes(fd.Body) > 400 {
		return false
	}
	// named results: only if they are never mentioned and every return lists its values
	named := map[types.Object]bool{}
	if fd.Type.Results != nil {
		for _, f := range fd.Type.Results.List {
			for _, nm := range f.Names {
				if nm.Name != "_" {
					named[x.info.Defs[nm]] = true
				}
			}
		}
	}
	localRoot := func(e ast.Expr) bool {
		o := rootObj(x.info, e)
		v, ok := o.(*types.Var)
		return ok && !v.IsField() && fd.Pos() <= v.Pos() && v.Pos() < fd.End()
	}
	plain := func(e ast.Expr) bool {
		// x, x.f.g, *x : no index / slice on the way
		for {
			switch t := unparen(e).(type) {
			case *ast.Ident:
				return true
			case *ast.SelectorExpr:
				if s, ok := x.info.Selections[t]; !ok || s.Kind() != types.FieldVal {
					return false
				}
				e = t.X
			case *ast.StarExpr:
				e = t.X
			default:
				return false
			}
		}
	}
	ok := true
	ast.Inspect(fd.Body, func(m ast.Node) bool {
		if !ok {
			return false
		}
		switch s := m.(type) {
		case *ast.FuncLit, *ast.GoStmt, *ast.DeferStmt, *ast.SendStmt, *ast.SelectStmt, *ast.RangeStmt, *ast.ForStmt, *ast.LabeledStmt:
			ok = false
		case *ast.BranchStmt:
			if s.Tok == token.GOTO {
				ok = false
			}
		case *ast.Ident:
			if named[x.info.Uses[s]] {
				ok = false
			}
		case *ast.ReturnStmt:
			if len(named) > 0 && len(s.Results) == 0 {
				ok = false
			}
		case *ast.AssignStmt:
			for _, l := range s.Lhs {
				if id, isID := unparen(l).(*ast.Ident); isID && id.Name == "_" {
					continue
				}
				if !localRoot(l) || !plain(l) {
					ok = false
				}
			}
		case *ast.IncDecStmt:
			if !localRoot(s.X) || !plain(s.X) {
				ok = false
			}
		case *ast.UnaryExpr:
			if s.Op == token.AND || s.Op == token.ARROW {
				ok = false
			}
		case *ast.CallExpr:
			if tv, isT := x.info.Types[s.Fun]; isT && tv.IsType() {
				return true
			}
			if id, isID := unparen(s.Fun).(*ast.Ident); isID {
				if _, isB := x.info.Uses[id].(*types.Builtin); isB {
					switch id.Name {
					case "len", "cap", "min", "max":
						return true
					}
					ok = false
					return false
				}
			}
			callee := calleeOf(x.info, s)
			if callee == nil || !(x.pure(callee) || x.inlinable(callee)) {
				ok = false
			}
		}
		return ok
	})
	return ok
}

// ---- loops by fixpoint

// c11Varying: what an iteration changes.
type c11Varying struct {
	objs map[types.Object]bool
	keys map[string]byte // store key -> kind of the value
}

func c11ValEqual(a, b c11Val) bool {
	if a.kind != b.kind {
		return false
	}
	switch a.kind {
	case 'i':
		return a.lin.equal(b.lin)
	case 'b':
		return a.bv == b.bv
	case 'p':
		return a.path.key() == b.path.key() && a.path.ok == b.path.ok
	}
	return true
}

// diff adds to v what differs between the generic head state g and a state b that came back to the head.
func (x *c11Exec) diff(g, b *c11State, v *c11Varying) bool {
	grew := false
	addObj := func(o types.Object) {
		if !v.objs[o] {
			v.objs[o] = true
			grew = true
		}
	}
	for o, e := range b.epoch {
		if g.epoch[o] != e {
			addObj(o)
		}
	}
	for o, l := range b.ints {
		gl, ok := g.ints[o]
		if !ok {
			gl = c11Sym(x.objSym(g, o))
		}
		if !gl.equal(l) {
			addObj(o)
		}
	}
	for o, bv := range b.bools {
		if g.bools[o] != bv {
			addObj(o)
		}
	}
	for o, p := range b.alias {
		gp, ok := g.alias[o]
		if !ok || gp.key() != p.key() {
			addObj(o)
		}
	}
	for o := range g.alias {
		if _, ok := b.alias[o]; !ok {
			addObj(o)
		}
	}
	// roots that exist at the head: objects in the incarnation they have there. Entries below other roots (objects
	// created or re-created during the iteration) cannot be reached at the next head except through a variable or
	// field that differs itself.
	live := map[string]bool{}
	for o := range g.epoch {
		live[x.objSym(g, o)] = true
	}
	liveKey := func(k string) bool {
		root := k
		if i := strings.IndexByte(k, '.'); i >= 0 {
			root = k[:i]
		}
		if strings.HasPrefix(root, "?") {
			return false
		}
		return live[root] || !strings.Contains(root, "#")
	}
	for k, bv := range b.store {
		gv, ok := g.store[k]
		if !ok && !liveKey(k) {
			continue
		}
		if !ok || !c11ValEqual(gv, bv) {
			if v.keys[k] == 0 {
				grew = true
			}
			v.keys[k] = bv.kind
		}
	}
	for k, gv := range g.store {
		if _, ok := b.store[k]; !ok {
			if v.keys[k] == 0 {
				grew = true
			}
			v.keys[k] = gv.kind
		}
	}
	return grew
}

// generic: st with everything in v made unknown.
func (x *c11Exec) generic(st *c11State, v *c11Varying) *c11State {
	g := st.clone()
	for o := range v.objs {
		x.havocObj(g, o)
	}
	for k, kind := range v.keys {
		d := x.disp[k]
		if d == "" {
			d = k
		}
		switch kind {
		case 'i':
			g.store[k] = c11Val{kind: 'i', lin: c11Sym(x.fresh(d))}
		case 'b':
			s := x.fresh(d)
			g.store[k] = c11Val{kind: 'b', bv: &c11BoolVal{t: x.opaqueBool(s, true), f: x.opaqueBool(s, false)}}
		default:
			g.store[k] = c11Val{kind: 'p', path: x.freshRoot(d)}
		}
	}
	return g
}

// loopFixpoint: the generic state of an iteration of the loop with head h entered in state st.
func (x *c11Exec) loopFixpoint(st *c11State, fr *c11Frame, h *cfg.Block) *c11State {
	v := &c11Varying{objs: map[types.Object]bool{}, keys: map[string]byte{}}
	x.quiet++
	defer func() { x.quiet-- }()
	for iter := 0; iter < 12 && !x.overflow; iter++ {
		g := x.generic(st, v)
		var backs []*c11State
		saved := fr.backs[h]
		fr.backs[h] = &backs
		w := g.clone()
		w.inLoop[h] = true
		w.skipHead = h
		x.run(w, fr, h, 0, nil)
		fr.backs[h] = saved
		grew := false
		for _, b := range backs {
			if x.diff(g, b, v) {
				grew = true
			}
		}
		if !grew {
			return x.generic(st, v)
		}
	}
	x.overflow = true
	return x.generic(st, v)
}

func (x *c11Exec) debugState(st *c11State) string {
	var sb strings.Builder
	for o, l := range st.ints {
		fmt.Fprintf(&sb, "%s=%s ", o.Name(), x.linString(l))
	}
	for k, v := range st.store {
		if v.kind == 'i' {
			fmt.Fprintf(&sb, "[%s]=%s ", x.disp[k], x.linString(v.lin))
		} else if v.kind == 'p' {
			fmt.Fprintf(&sb, "[%s]->%s ", x.disp[k], x.disp[v.path.key()])
		}
	}
	return sb.String()
}
