package main

// c03sra.go — third rewrite of the C03 pre-normalisation (c03norm.go): scalar replacement of a local
// struct that only bundles working variables ("accumulator" objects, the product of "introduce parameter
// object" refactorings, usually together with methods that the global inliner has already expanded).
//
//   acc := paramAccumulator{list: e}          var acc_list [][]int = e
//   a := &acc                                  var acc_current []int
//   a.current = append(a.current, a.value) ->  var acc_value int
//   csi.Parameters = acc.list                  acc_current = append(acc_current, acc_value)
//                                              csi.Parameters = acc_list
//
// A local V qualifies when
//   * it is declared by `V := T{k: e, …}` (keyed or empty literal) or `var V T` as a statement of a block,
//     T a struct type;
//   * every use of V in the function is `V.f` (a direct field, not a method, address not taken), or the
//     definition `p := &V` of a pointer p that is never assigned again and is itself used only as `p.f`
//     (direct field, address not taken) or in `_ = p`;
//   * no use lies inside a function literal.
// The value of V is then never observed as a whole, so its fields are independent variables and the rewrite
// preserves the meaning. The result is re-type-checked by the caller.

import (
	"go/ast"
	"go/parser"
	"go/token"
	"go/types"
	"strings"

	"golang.org/x/tools/go/ast/astutil"
	"golang.org/x/tools/go/packages"
)

type c03SraCand struct {
	obj    *types.Var
	st     *types.Struct
	def    ast.Stmt                  // the declaring statement
	lit    *ast.CompositeLit         // nil for `var V T`
	sels   map[*ast.SelectorExpr]int // selector -> field index
	drop   map[ast.Stmt]bool         // `p := &V`, `_ = p`
	reads  map[int]bool              // fields that are read somewhere
	fnames []string                  // replacement variable names
}

func c03ScalarReplace(pk *packages.Package, file *ast.File, fd *ast.FuncDecl) bool {
	info := pk.TypesInfo
	if fd.Body == nil {
		return false
	}
	// parents inside the function
	par := map[ast.Node]ast.Node{}
	var stack []ast.Node
	inLit := map[ast.Node]bool{}
	ast.Inspect(fd, func(n ast.Node) bool {
		if n == nil {
			stack = stack[:len(stack)-1]
			return true
		}
		if len(stack) > 0 {
			par[n] = stack[len(stack)-1]
			if _, ok := stack[len(stack)-1].(*ast.FuncLit); ok || inLit[stack[len(stack)-1]] {
				inLit[n] = true
			}
		}
		stack = append(stack, n)
		return true
	})
	inBlock := func(st ast.Stmt) bool {
		switch p := par[st].(type) {
		case *ast.BlockStmt:
			for _, s := range p.List {
				if s == st {
					return true
				}
			}
		case *ast.CaseClause:
			for _, s := range p.Body {
				if s == st {
					return true
				}
			}
		case *ast.CommClause:
			for _, s := range p.Body {
				if s == st {
					return true
				}
			}
		}
		return false
	}
	// names in use (to keep the new names fresh)
	used := map[string]bool{}
	ast.Inspect(fd, func(n ast.Node) bool {
		if id, ok := n.(*ast.Ident); ok {
			used[id.Name] = true
		}
		return true
	})
	// uses of every object, in source order
	usesOf := map[types.Object][]*ast.Ident{}
	ast.Inspect(fd.Body, func(n ast.Node) bool {
		if id, ok := n.(*ast.Ident); ok {
			if o := info.Uses[id]; o != nil {
				usesOf[o] = append(usesOf[o], id)
			}
		}
		return true
	})
	directField := func(sel *ast.SelectorExpr) (int, bool) {
		s, ok := info.Selections[sel]
		if !ok || s.Kind() != types.FieldVal || len(s.Index()) != 1 {
			return 0, false
		}
		if u, ok := par[sel].(*ast.UnaryExpr); ok && u.Op == token.AND {
			return 0, false
		}
		return s.Index()[0], true
	}
	isRead := func(sel *ast.SelectorExpr) bool {
		if as, ok := par[sel].(*ast.AssignStmt); ok && as.Tok == token.ASSIGN {
			for _, l := range as.Lhs {
				if l == ast.Expr(sel) {
					return false
				}
			}
		}
		return true
	}
	var try = func(id *ast.Ident, def ast.Stmt, lit *ast.CompositeLit) *c03SraCand {
		v, ok := info.Defs[id].(*types.Var)
		if !ok || v.IsField() || id.Name == "_" || !inBlock(def) || inLit[def] {
			return nil
		}
		st, ok := v.Type().Underlying().(*types.Struct)
		if !ok || st.NumFields() == 0 || st.NumFields() > 12 {
			return nil
		}
		for i := 0; i < st.NumFields(); i++ {
			if st.Field(i).Embedded() || st.Field(i).Name() == "_" {
				return nil
			}
		}
		cd := &c03SraCand{obj: v, st: st, def: def, lit: lit, sels: map[*ast.SelectorExpr]int{}, drop: map[ast.Stmt]bool{}, reads: map[int]bool{}}
		if lit != nil {
			for _, el := range lit.Elts {
				kv, ok := el.(*ast.KeyValueExpr)
				if !ok {
					return nil
				}
				if _, ok := kv.Key.(*ast.Ident); !ok {
					return nil
				}
			}
		}
		if len(usesOf[v]) == 0 {
			return nil
		}
		for _, u := range usesOf[v] {
			if inLit[u] {
				return nil
			}
			switch p := par[u].(type) {
			case *ast.SelectorExpr:
				ix, ok := directField(p)
				if !ok || p.X != ast.Expr(u) {
					return nil
				}
				cd.sels[p] = ix
				if isRead(p) {
					cd.reads[ix] = true
				}
			case *ast.UnaryExpr:
				if p.Op != token.AND {
					return nil
				}
				as, ok := par[p].(*ast.AssignStmt)
				if !ok || as.Tok != token.DEFINE || len(as.Lhs) != 1 || len(as.Rhs) != 1 || as.Rhs[0] != ast.Expr(p) || !inBlock(as) {
					return nil
				}
				pid, ok := as.Lhs[0].(*ast.Ident)
				if !ok || pid.Name == "_" {
					return nil
				}
				po := info.Defs[pid]
				if po == nil {
					return nil
				}
				cd.drop[as] = true
				for _, pu := range usesOf[po] {
					if inLit[pu] {
						return nil
					}
					switch pp := par[pu].(type) {
					case *ast.SelectorExpr:
						ix, ok := directField(pp)
						if !ok || pp.X != ast.Expr(pu) {
							return nil
						}
						cd.sels[pp] = ix
						if isRead(pp) {
							cd.reads[ix] = true
						}
					case *ast.AssignStmt:
						// `_ = p` only
						if pp.Tok != token.ASSIGN || len(pp.Lhs) != 1 || len(pp.Rhs) != 1 || pp.Rhs[0] != ast.Expr(pu) {
							return nil
						}
						if l, ok := pp.Lhs[0].(*ast.Ident); !ok || l.Name != "_" || !inBlock(pp) {
							return nil
						}
						cd.drop[pp] = true
					default:
						return nil
					}
				}
			default:
				return nil
			}
		}
		for i := 0; i < st.NumFields(); i++ {
			n := v.Name() + "_" + st.Field(i).Name()
			for used[n] {
				n += "_"
			}
			used[n] = true
			cd.fnames = append(cd.fnames, n)
		}
		return cd
	}
	var cand *c03SraCand
	ast.Inspect(fd.Body, func(n ast.Node) bool {
		if cand != nil {
			return false
		}
		switch t := n.(type) {
		case *ast.FuncLit:
			return false
		case *ast.AssignStmt:
			if t.Tok == token.DEFINE && len(t.Lhs) == 1 && len(t.Rhs) == 1 {
				if id, ok := t.Lhs[0].(*ast.Ident); ok {
					if cl, ok := unparen(t.Rhs[0]).(*ast.CompositeLit); ok {
						cand = try(id, t, cl)
					}
				}
			}
		case *ast.DeclStmt:
			if gd, ok := t.Decl.(*ast.GenDecl); ok && gd.Tok == token.VAR && len(gd.Specs) == 1 {
				if vs, ok := gd.Specs[0].(*ast.ValueSpec); ok && len(vs.Names) == 1 {
					switch {
					case len(vs.Values) == 0:
						cand = try(vs.Names[0], t, nil)
					case len(vs.Values) == 1:
						if cl, ok := unparen(vs.Values[0]).(*ast.CompositeLit); ok {
							cand = try(vs.Names[0], t, cl)
						}
					}
				}
			}
		}
		return true
	})
	if cand == nil {
		return false
	}
	// field types as source text of this file
	typeExprs := make([]ast.Expr, cand.st.NumFields())
	for i := range typeExprs {
		okT := true
		s := types.TypeString(cand.st.Field(i).Type(), func(p *types.Package) string {
			if p == pk.Types {
				return ""
			}
			for _, imp := range file.Imports {
				if strings.Trim(imp.Path.Value, `"`) == p.Path() {
					if imp.Name != nil {
						if imp.Name.Name == "_" || imp.Name.Name == "." {
							okT = false
						}
						return imp.Name.Name
					}
					return p.Name()
				}
			}
			okT = false
			return p.Name()
		})
		if !okT {
			return false
		}
		e, err := parser.ParseExpr(s)
		if err != nil {
			return false
		}
		typeExprs[i] = e
	}
	// 1. selectors -> variables
	astutil.Apply(fd.Body, func(cu *astutil.Cursor) bool {
		if sel, ok := cu.Node().(*ast.SelectorExpr); ok {
			if ix, ok := cand.sels[sel]; ok {
				cu.Replace(&ast.Ident{NamePos: sel.Pos(), Name: cand.fnames[ix]})
				return false
			}
		}
		return true
	}, nil)
	// 2. the declaration -> one declaration per field (literal elements first, in their order)
	var decls []ast.Stmt
	mk := func(ix int, val ast.Expr) ast.Stmt {
		vs := &ast.ValueSpec{Names: []*ast.Ident{{Name: cand.fnames[ix]}}, Type: typeExprs[ix]}
		if val != nil {
			vs.Values = []ast.Expr{val}
		}
		return &ast.DeclStmt{Decl: &ast.GenDecl{Tok: token.VAR, Specs: []ast.Spec{vs}}}
	}
	done := map[int]bool{}
	if cand.lit != nil {
		for _, el := range cand.lit.Elts {
			kv := el.(*ast.KeyValueExpr)
			name := kv.Key.(*ast.Ident).Name
			for i := 0; i < cand.st.NumFields(); i++ {
				if cand.st.Field(i).Name() == name && !done[i] {
					done[i] = true
					decls = append(decls, mk(i, kv.Value))
				}
			}
		}
		if len(done) != len(cand.lit.Elts) {
			return true // cannot happen for code that type-checks; the re-check will say so
		}
	}
	for i := 0; i < cand.st.NumFields(); i++ {
		if !done[i] {
			decls = append(decls, mk(i, nil))
		}
	}
	for i := 0; i < cand.st.NumFields(); i++ {
		if !cand.reads[i] {
			decls = append(decls, &ast.AssignStmt{Lhs: []ast.Expr{&ast.Ident{Name: "_"}}, Tok: token.ASSIGN, Rhs: []ast.Expr{&ast.Ident{Name: cand.fnames[i]}}})
		}
	}
	astutil.Apply(fd.Body, func(cu *astutil.Cursor) bool {
		st, ok := cu.Node().(ast.Stmt)
		if !ok || cu.Index() < 0 {
			return true
		}
		if st == cand.def {
			for _, d := range decls {
				cu.InsertBefore(d)
			}
			cu.Delete()
			return false
		}
		if cand.drop[st] {
			cu.Delete()
			return false
		}
		return true
	}, nil)
	return true
}
