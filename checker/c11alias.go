package main

// c11alias — function-local aliases of the screen buffer (rule C11.a / C11.b).
//
// `last := &vx.screenLast.buf[row][col]`, `line := s.buf[row]`, `for row, line := range s.buf` bind a pointer
// to a cell / a row slice to a LOCAL variable. That is an alias of the buffer, but it does not leave the
// function as long as every use of the variable is itself an in-place read or write (index, field, deref,
// len, range) — the same uses the rule accepts on the buffer expression itself. The uses of the variable are
// therefore classified like uses of the expression it stands for and attributed to the defining access:
//   read   every use reads       -> the defining access is a read
//   write  some use stores       -> the defining access is a write (judged like a direct store: owner only /
//                                   screenLast only in render; in setCell/setStyle the store must resolve to
//                                   buf[row][col] so that C11.b judges its guard)
//   escape anything else (passed on, returned, stored, re-sliced, reassigned, address taken, captured value
//          handed to a call ...) -> reported as before.

import (
	"fmt"
	"go/ast"
	"go/token"
	"go/types"
)

type c11AliasResult struct {
	kind   string // read | write | escape
	why    string
	writes []ast.Expr // left-hand sides stored through the alias
}

// c11BoundLocal: the expression e (a slice of / a pointer into the buffer) is the i-th right-hand side of a
// definition or assignment to a plain local identifier; returns that identifier.
func c11BoundLocal(info *types.Info, parents map[ast.Node]ast.Node, e ast.Expr) *ast.Ident {
	var cur ast.Node = e
	for {
		p, ok := parents[cur].(*ast.ParenExpr)
		if !ok {
			break
		}
		cur = p
	}
	switch p := parents[cur].(type) {
	case *ast.AssignStmt:
		if len(p.Lhs) != len(p.Rhs) || (p.Tok != token.DEFINE && p.Tok != token.ASSIGN) {
			return nil
		}
		for i, r := range p.Rhs {
			if ast.Node(r) == cur {
				if id, ok := p.Lhs[i].(*ast.Ident); ok && id.Name != "_" {
					return id
				}
			}
		}
	case *ast.ValueSpec:
		if len(p.Names) != len(p.Values) {
			return nil
		}
		for i, r := range p.Values {
			if ast.Node(r) == cur && p.Names[i].Name != "_" {
				return p.Names[i]
			}
		}
	}
	return nil
}

func c11EnclosingFunc(parents map[ast.Node]ast.Node, n ast.Node) *ast.FuncDecl {
	for cur := n; cur != nil; cur = parents[cur] {
		if fd, ok := cur.(*ast.FuncDecl); ok {
			return fd
		}
	}
	return nil
}

// c11AliasUses classifies all uses of the local variable bound by id.
func c11AliasUses(info *types.Info, parents map[ast.Node]ast.Node, id *ast.Ident, depth int) c11AliasResult {
	esc := func(f string, a ...interface{}) c11AliasResult {
		return c11AliasResult{kind: "escape", why: "local alias " + id.Name + ": " + fmt.Sprintf(f, a...)}
	}
	if depth > 3 {
		return esc("alias chain too long")
	}
	obj, ok := info.ObjectOf(id).(*types.Var)
	if !ok || obj.IsField() {
		return esc("not a variable")
	}
	fd := c11EnclosingFunc(parents, id)
	if fd == nil || fd.Body == nil || obj.Pos() < fd.Pos() || obj.Pos() >= fd.End() {
		return esc("not a local variable (the alias outlives the function)")
	}
	// exactly one binding
	ndef := 0
	ast.Inspect(fd.Body, func(n ast.Node) bool {
		switch s := n.(type) {
		case *ast.AssignStmt:
			for _, l := range s.Lhs {
				if lid, ok := l.(*ast.Ident); ok && info.ObjectOf(lid) == obj {
					ndef++
				}
			}
		case *ast.ValueSpec:
			for _, nm := range s.Names {
				if info.ObjectOf(nm) == obj {
					ndef++
				}
			}
		case *ast.RangeStmt:
			for _, l := range []ast.Expr{s.Key, s.Value} {
				if lid, ok := l.(*ast.Ident); ok && info.ObjectOf(lid) == obj {
					ndef++
				}
			}
		case *ast.IncDecStmt:
			if lid, ok := s.X.(*ast.Ident); ok && info.ObjectOf(lid) == obj {
				ndef += 2
			}
		}
		return true
	})
	if ndef != 1 {
		return esc("bound more than once")
	}
	res := c11AliasResult{kind: "read"}
	merge := func(r c11AliasResult) {
		switch {
		case res.kind == "escape":
		case r.kind == "escape":
			res = r
		case r.kind == "write":
			res.kind = "write"
			res.writes = append(res.writes, r.writes...)
		}
	}
	ast.Inspect(fd.Body, func(n ast.Node) bool {
		u, isID := n.(*ast.Ident)
		if !isID || info.Uses[u] != obj || res.kind == "escape" {
			return true
		}
		// climb the maximal index / field / deref chain
		var top ast.Expr = u
		for {
			switch t := parents[top].(type) {
			case *ast.IndexExpr:
				if t.X == top {
					top = t
					continue
				}
			case *ast.SelectorExpr:
				if t.X == top {
					if s, ok := info.Selections[t]; ok && s.Kind() == types.FieldVal {
						top = t
						continue
					}
				}
			case *ast.ParenExpr:
				top = t
				continue
			case *ast.StarExpr:
				top = t
				continue
			}
			break
		}
		p := parents[top]
		switch t := p.(type) {
		case *ast.AssignStmt:
			for _, l := range t.Lhs {
				if l == top {
					if top == ast.Expr(u) {
						return true // the binding itself (x = ...)
					}
					merge(c11AliasResult{kind: "write", writes: []ast.Expr{top}})
					return true
				}
			}
			if len(t.Lhs) == len(t.Rhs) {
				for i, r := range t.Rhs {
					if r == top {
						if lid, ok := t.Lhs[i].(*ast.Ident); ok && lid.Name == "_" {
							return true // `_ = x` keeps a variable used; the value goes nowhere
						}
					}
				}
			}
		case *ast.IncDecStmt:
			merge(c11AliasResult{kind: "write", writes: []ast.Expr{top}})
			return true
		case *ast.UnaryExpr:
			if t.Op == token.AND {
				if top == ast.Expr(u) {
					merge(esc("its address is taken"))
					return true
				}
				if b := c11BoundLocal(info, parents, t); b != nil {
					merge(c11AliasUses(info, parents, b, depth+1))
				} else {
					merge(esc("address of an element taken and not bound to a local"))
				}
				return true
			}
		case *ast.CallExpr:
			if fid, ok := t.Fun.(*ast.Ident); ok && (fid.Name == "len" || fid.Name == "cap") {
				if _, isB := info.Uses[fid].(*types.Builtin); isB {
					return true
				}
			}
		case *ast.RangeStmt:
			if t.X == top {
				if vt := info.TypeOf(t.Value); t.Value != nil && vt != nil {
					if _, isSlice := vt.Underlying().(*types.Slice); isSlice {
						if vid, ok := t.Value.(*ast.Ident); ok && vid.Name != "_" {
							merge(c11AliasUses(info, parents, vid, depth+1))
						} else if !ok {
							merge(esc("range binds a row slice to a non-variable"))
						}
					}
				}
				return true
			}
		case *ast.SliceExpr:
			merge(esc("re-sliced"))
			return true
		case *ast.BinaryExpr:
			if t.Op == token.EQL || t.Op == token.NEQ {
				other := t.X
				if other == top {
					other = t.Y
				}
				if isNilExpr(info, unparen(other)) {
					return true
				}
			}
		}
		// a value that still refers to the buffer (slice or pointer) must not flow anywhere else
		if tt := info.TypeOf(top); tt != nil {
			switch tt.Underlying().(type) {
			case *types.Slice, *types.Pointer:
				if b := c11BoundLocal(info, parents, top); b != nil {
					merge(c11AliasUses(info, parents, b, depth+1))
				} else {
					merge(esc("the aliasing value %s flows into %T", types.ExprString(top), p))
				}
			}
		}
		return true
	})
	return res
}

// c11SingleDefExpr: the defining expression of a local variable of fd that is bound exactly once by
// `x := e` / `x = e` / `var x = e`, never inc/dec'ed, ranged into or address-taken.
func c11SingleDefExpr(info *types.Info, fd *ast.FuncDecl, obj types.Object) ast.Expr {
	v, ok := obj.(*types.Var)
	if !ok || v.IsField() || fd == nil || fd.Body == nil || v.Pos() < fd.Body.Pos() || v.Pos() >= fd.Body.End() {
		return nil
	}
	var def ast.Expr
	ndef, spoiled := 0, false
	ast.Inspect(fd.Body, func(n ast.Node) bool {
		switch s := n.(type) {
		case *ast.AssignStmt:
			for i, l := range s.Lhs {
				if lid, ok := l.(*ast.Ident); ok && info.ObjectOf(lid) == obj {
					ndef++
					if len(s.Lhs) == len(s.Rhs) && (s.Tok == token.DEFINE || s.Tok == token.ASSIGN) {
						def = s.Rhs[i]
					} else {
						spoiled = true
					}
				}
			}
		case *ast.ValueSpec:
			for i, nm := range s.Names {
				if info.ObjectOf(nm) == obj {
					ndef++
					if len(s.Names) == len(s.Values) {
						def = s.Values[i]
					} else {
						spoiled = true
					}
				}
			}
		case *ast.IncDecStmt:
			if lid, ok := s.X.(*ast.Ident); ok && info.ObjectOf(lid) == obj {
				spoiled = true
			}
		case *ast.RangeStmt:
			for _, l := range []ast.Expr{s.Key, s.Value} {
				if lid, ok := l.(*ast.Ident); ok && info.ObjectOf(lid) == obj {
					spoiled = true
				}
			}
		case *ast.UnaryExpr:
			if s.Op == token.AND {
				if lid, ok := unparen(s.X).(*ast.Ident); ok && info.ObjectOf(lid) == obj {
					spoiled = true
				}
			}
		}
		return true
	})
	if ndef != 1 || spoiled {
		return nil
	}
	return def
}

// c11NeverAssigned: no variable mentioned in e is assigned, inc/dec'ed, ranged into or address-taken in fd
// (parameters and receivers keep their entry value).
func c11NeverAssigned(info *types.Info, fd *ast.FuncDecl, e ast.Expr) bool {
	assigned := c11Assigned(info, fd.Body)
	ok := true
	ast.Inspect(e, func(n ast.Node) bool {
		if id, isID := n.(*ast.Ident); isID {
			if o := info.Uses[id]; o != nil && assigned[o] {
				ok = false
			}
		}
		return ok
	})
	return ok
}

// c11BufChain is bufIndexChain that also looks through single-definition local aliases
// (`line := s.buf[row]; line[col] = ...`, `p := &s.buf[row][col]; *p = ...`). The index expressions that come from
// the alias definition must consist of variables that are never assigned in the function, so that the facts in
// force at the store speak about the same values.
func c11BufChain(info *types.Info, fd *ast.FuncDecl, e ast.Expr, buf *types.Var) *bufChain {
	var idx []ast.Expr
	cur := unparen(e)
	if _, isID := cur.(*ast.Ident); isID {
		return nil // (re)binding of a local variable, not a store into the buffer
	}
	for depth := 0; depth < 64; depth++ {
		switch t := cur.(type) {
		case *ast.SelectorExpr:
			if s, ok := info.Selections[t]; ok && s.Obj() == buf {
				return &bufChain{recv: t.X, idx: idx}
			}
			if len(idx) > 0 {
				return nil
			}
			cur = t.X
		case *ast.IndexExpr:
			idx = append([]ast.Expr{t.Index}, idx...)
			cur = t.X
		case *ast.ParenExpr:
			cur = t.X
		case *ast.StarExpr:
			cur = t.X
		case *ast.Ident:
			def := c11SingleDefExpr(info, fd, info.ObjectOf(t))
			if def == nil {
				return nil
			}
			def = unparen(def)
			if u, ok := def.(*ast.UnaryExpr); ok && u.Op == token.AND {
				def = unparen(u.X)
			}
			// only definitions that are themselves buffer chains; their indexes must be stable
			probe := bufIndexChainLoose(info, def, buf)
			if !probe || !c11NeverAssigned(info, fd, def) {
				return nil
			}
			cur = def
		default:
			return nil
		}
	}
	return nil
}

// bufIndexChainLoose: e is recv.buf followed by indexes / fields (any number).
func bufIndexChainLoose(info *types.Info, e ast.Expr, buf *types.Var) bool {
	cur := e
	for {
		switch t := cur.(type) {
		case *ast.SelectorExpr:
			if s, ok := info.Selections[t]; ok && s.Obj() == buf {
				return true
			}
			cur = t.X
		case *ast.IndexExpr:
			cur = t.X
		case *ast.ParenExpr:
			cur = t.X
		default:
			return false
		}
	}
}

// c11AddrEscaping is c11AddrTaken without the addresses that are bound to a local pointer variable which is
// itself only used in place (p := &x; p.f = ...; *p ...): such a pointer never reaches code that the
// evaluation does not see, so an opaque call cannot modify x through it.
func c11AddrEscaping(info *types.Info, parents map[ast.Node]ast.Node, body ast.Node) map[types.Object]bool {
	out := map[types.Object]bool{}
	ast.Inspect(body, func(m ast.Node) bool {
		switch s := m.(type) {
		case *ast.UnaryExpr:
			if s.Op == token.AND {
				if o := rootObj(info, s.X); o != nil {
					if v, ok := o.(*types.Var); ok && !v.IsField() {
						if b := c11BoundLocal(info, parents, s); b != nil {
							if r := c11AliasUses(info, parents, b, 0); r.kind != "escape" {
								return true
							}
						}
						out[o] = true
					}
				}
			}
		case *ast.FuncLit:
			for o := range objsIn(info, s.Body) {
				out[o] = true
			}
		}
		return true
	})
	return out
}
