package main

// c03_mouse.go — rule C03.f: parseMouseEvent against the xterm SGR-1006 encoding
// (reference table, E10):  CSI < Cb ; Cx ; Cy M|m
//   Cb low two bits + 64 + 128 = button number (0..3, wheel 64.., extra 128..)  → mask 0xC3
//   Cb & 4 / 8 / 16 = Shift / Meta(Alt) / Control, Cb & 32 = motion
//   Cx, Cy are 1-based; final M = press, m = release.

import (
	"fmt"
	"go/ast"
	"go/token"
	"go/types"
	"math/bits"
)

// guardText renders a guard for messages.
func c03GuardText(gd Guard) string {
	t := ""
	if gd.Cond.Tag != nil {
		t = types.ExprString(gd.Cond.Tag) + " == "
	}
	if gd.Cond.Expr != nil {
		t += types.ExprString(gd.Cond.Expr)
	}
	if !gd.Pol {
		return "!(" + t + ")"
	}
	return t
}

func (x *c03Env) ruleF() {
	c := x.c
	fi := c.P.Func("vaxis.parseMouseEvent")
	if fi == nil || fi.Decl.Body == nil {
		c.undecided("C03.f", "vaxis.parseMouseEvent", 0, "parseMouseEvent not found")
		return
	}
	defer x.ruleFConsts()
	// by effect (c03_mouse_eval.go); the statement-shape formulation below decides only when the function cannot be evaluated
	if x.mouseByEffects(fi) {
		return
	}
	name := fi.Name
	info := x.info
	g := c.P.Graph(fi)
	// the CSI parameter
	var seqObj types.Object
	for _, f := range fi.Decl.Type.Params.List {
		if typeName(info.TypeOf(f.Type)) == modPath+"/ansi.CSI" && len(f.Names) == 1 {
			seqObj = info.Defs[f.Names[0]]
		}
	}
	if seqObj == nil {
		c.undecided("C03.f", name+"/CSI parameter", fi.Decl.Pos(), "parseMouseEvent does not take a named ansi.CSI parameter")
		return
	}
	base := fmt.Sprintf("%p", seqObj)
	pID := func(i int) string { return fmt.Sprintf("%s.Parameters[%d][0]", base, i) }
	finalID := base + ".Final"

	// single-assignment aliases (button := seq.Parameters[0][0] & buttonBits)
	defs := map[types.Object]ast.Expr{}
	nAssign := map[types.Object]int{}
	ast.Inspect(fi.Decl.Body, func(n ast.Node) bool {
		if as, ok := n.(*ast.AssignStmt); ok {
			for i, l := range as.Lhs {
				if id, ok := l.(*ast.Ident); ok {
					o := info.ObjectOf(id)
					nAssign[o]++
					if len(as.Lhs) == len(as.Rhs) && (as.Tok == token.DEFINE || as.Tok == token.ASSIGN) {
						defs[o] = as.Rhs[i]
					}
				}
			}
		}
		return true
	})
	var resolve func(e ast.Expr, depth int) ast.Expr
	resolve = func(e ast.Expr, depth int) ast.Expr {
		e = stripConv(info, e)
		if depth > 6 {
			return e
		}
		switch t := e.(type) {
		case *ast.Ident:
			o := info.ObjectOf(t)
			if d, ok := defs[o]; ok && nAssign[o] == 1 {
				return resolve(d, depth+1)
			}
		case *ast.IndexExpr:
			if nx := resolve(t.X, depth+1); nx != t.X {
				return &ast.IndexExpr{X: nx, Lbrack: t.Lbrack, Index: t.Index, Rbrack: t.Rbrack}
			}
		}
		return e
	}
	isParam := func(e ast.Expr, i int) bool { return termOf(info, resolve(e, 0)).ID == pID(i) }
	// mask(e): e == P0 & C (either order) -> C
	mask := func(e ast.Expr) (int64, bool) {
		b, ok := resolve(e, 0).(*ast.BinaryExpr)
		if !ok || b.Op != token.AND {
			return 0, false
		}
		if v, ok := constInt(info, b.Y); ok && isParam(b.X, 0) {
			return v, true
		}
		if v, ok := constInt(info, b.X); ok && isParam(b.Y, 0) {
			return v, true
		}
		return 0, false
	}
	// bitTest(cond): (P0 & C) != 0, > 0, == C  -> (C, true);  (P0 & C) == 0, <= 0, != C -> (C, false):
	// the mask and whether the condition being TRUE means "a bit of the mask is set"
	bitTest := func(cond ast.Expr) (int64, bool, bool) {
		sense := true
		cond = unparen(cond)
		for {
			u, ok := cond.(*ast.UnaryExpr)
			if !ok || u.Op != token.NOT {
				break
			}
			sense = !sense
			cond = unparen(u.X)
		}
		b, ok := cond.(*ast.BinaryExpr)
		if !ok {
			return 0, false, false
		}
		for _, pr := range [][2]ast.Expr{{b.X, b.Y}, {b.Y, b.X}} {
			m, ok := mask(pr[0])
			if !ok {
				continue
			}
			v, isC := constInt(info, pr[1])
			if !isC {
				continue
			}
			single := m&(m-1) == 0
			switch {
			case b.Op == token.NEQ && v == 0, b.Op == token.EQL && v == m && single:
				return m, sense, true
			case b.Op == token.GTR && v == 0 && pr[0] == b.X, b.Op == token.LSS && v == 0 && pr[0] == b.Y:
				return m, sense, true
			case b.Op == token.EQL && v == 0, b.Op == token.NEQ && v == m && single:
				return m, !sense, true
			case b.Op == token.LEQ && v == 0 && pr[0] == b.X, b.Op == token.GEQ && v == 0 && pr[0] == b.Y:
				return m, !sense, true
			}
		}
		return 0, false, false
	}
	mouseT, _ := x.pk.Types.Scope().Lookup("Mouse").(*types.TypeName)
	fieldOf := func(l ast.Expr) string {
		sel, ok := unparen(l).(*ast.SelectorExpr)
		if !ok {
			return ""
		}
		s, ok := info.Selections[sel]
		if !ok || mouseT == nil {
			return ""
		}
		if nt, ok := info.TypeOf(sel.X).(*types.Named); !ok || nt.Obj() != mouseT {
			return ""
		}
		return s.Obj().Name()
	}
	// constName: which of the API constants of the field's type has the value of e (values, not spellings)
	constName := func(e ast.Expr) string {
		v, ok := constInt(info, stripConv(info, e))
		if !ok {
			v, ok = constInt(info, e)
		}
		if !ok {
			return ""
		}
		tv := info.TypeOf(e)
		for _, n := range []string{"ModShift", "ModAlt", "ModCtrl", "EventPress", "EventRelease", "EventMotion"} {
			k, isC := x.pk.Types.Scope().Lookup(n).(*types.Const)
			if !isC {
				continue
			}
			kv, _ := constToInt(types.TypeAndValue{Value: k.Val()})
			if kv == v && (tv == nil || types.Identical(tv, k.Type()) || types.AssignableTo(k.Type(), tv)) {
				return n
			}
		}
		return ""
	}

	// A. bit tests. Semantic form: every assignment that sets a modifier / the motion type is executed exactly
	// under "bit w of the button parameter is set" — whatever statement (if, else-if chain, tagless switch,
	// unrolled table row) spells the test. The guards of the assignment that are not guards of the successful
	// return as well must be ONE positive test of the right bit (a wider positive mask around it is harmless);
	// a negative test of another bit, or any other extra condition, makes the flags depend on each other.
	wantBit := map[string]int64{"ModShift": 4, "ModAlt": 8, "ModCtrl": 16, "EventMotion": 32}
	seenBit := map[string]bool{}
	var motionAssign ast.Node
	mentionsP0 := func(e ast.Expr) bool {
		return containsNode(e, func(k ast.Node) bool { e, ok := k.(ast.Expr); return ok && isParam(e, 0) })
	}
	type gkey struct {
		e   ast.Expr
		pol bool
	}
	var ambient map[gkey]bool // guards common to every `return …, true`
	for _, h := range g.Find(func(n ast.Node) bool { _, ok := n.(*ast.ReturnStmt); return ok }) {
		rs := h.Node.(*ast.ReturnStmt)
		if len(rs.Results) != 2 {
			continue
		}
		if tv, ok := info.Types[rs.Results[1]]; !ok || tv.Value == nil || tv.Value.String() != "true" {
			continue
		}
		here := map[gkey]bool{}
		for _, gd := range g.Guards(h.Loc) {
			here[gkey{gd.Cond.Expr, gd.Pol}] = true
		}
		if ambient == nil {
			ambient = here
			continue
		}
		for k := range ambient {
			if !here[k] {
				delete(ambient, k)
			}
		}
	}
	// conditions on the button parameter the rule cannot read
	condUnknown := func(e ast.Expr, pos token.Pos) {
		if _, _, ok := bitTest(e); !ok && mentionsP0(e) {
			c.undecided("C03.f", name+"/test on the button parameter", pos, "a condition on Parameters[0][0] that is not a single-bit test `P & c != 0`: %s", types.ExprString(e))
		}
	}
	ast.Inspect(fi.Decl.Body, func(n ast.Node) bool {
		switch t := n.(type) {
		case *ast.IfStmt:
			condUnknown(t.Cond, t.Pos())
		case *ast.SwitchStmt:
			if t.Tag == nil {
				for _, cl := range t.Body.List {
					for _, e := range cl.(*ast.CaseClause).List {
						condUnknown(e, e.Pos())
					}
				}
			} else if mentionsP0(t.Tag) {
				if _, isMask := mask(t.Tag); isMask {
					c.undecided("C03.f", name+"/test on the button parameter", t.Pos(), "a switch on masked bits of Parameters[0][0]: %s", types.ExprString(t.Tag))
				}
			}
		}
		return true
	})
	for _, h := range g.Find(func(n ast.Node) bool { _, ok := n.(*ast.AssignStmt); return ok }) {
		as := h.Node.(*ast.AssignStmt)
		if len(as.Lhs) != 1 || len(as.Rhs) != 1 {
			continue
		}
		what := ""
		switch fieldOf(as.Lhs[0]) {
		case "Modifiers":
			switch as.Tok {
			case token.OR_ASSIGN:
				what = constName(as.Rhs[0])
			case token.ASSIGN:
				if b, ok := unparen(as.Rhs[0]).(*ast.BinaryExpr); ok && b.Op == token.OR {
					if fieldOf(b.X) == "Modifiers" {
						what = constName(b.Y)
					} else if fieldOf(b.Y) == "Modifiers" {
						what = constName(b.X)
					}
				}
			}
		case "EventType":
			if as.Tok == token.ASSIGN {
				if what = constName(as.Rhs[0]); what != "EventMotion" {
					what = "" // press / release: part D
				}
			}
		}
		if what == "" {
			continue
		}
		w, known := wantBit[what]
		var pos, neg []int64
		var extra []string
		unread := false
		for _, gd := range g.Guards(h.Loc) {
			if ambient[gkey{gd.Cond.Expr, gd.Pol}] {
				continue
			}
			if gd.Cond.Tag != nil || gd.Cond.Alts != nil {
				if (gd.Cond.Tag != nil && mentionsP0(gd.Cond.Tag)) || (gd.Cond.Expr != nil && mentionsP0(gd.Cond.Expr)) {
					unread = true
				} else {
					extra = append(extra, c03GuardText(gd))
				}
				continue
			}
			m, sense, ok := bitTest(gd.Cond.Expr)
			switch {
			case ok && sense == gd.Pol:
				pos = append(pos, m)
			case ok:
				neg = append(neg, m)
			case mentionsP0(gd.Cond.Expr):
				unread = true // reported by condUnknown
			default:
				extra = append(extra, c03GuardText(gd))
			}
		}
		if unread {
			continue
		}
		if !known {
			m := int64(0)
			if len(pos) > 0 {
				m = pos[0]
			}
			c.bad("C03.f", fmt.Sprintf("%s/bit 0x%x sets %s", name, m, what), as.Pos(), "SGR-1006 has no bit for %s", what)
			continue
		}
		key := fmt.Sprintf("%s/bit %d of the button parameter means %s", name, w, what)
		if what == "EventMotion" {
			motionAssign = as
		}
		if len(pos) == 0 {
			// not under a bit test at all: it does not count as the decode of the bit (reported below as missing)
			continue
		}
		seenBit[what] = true
		// the controlling test: the positive mask with the fewest bits
		m := pos[0]
		for _, p := range pos[1:] {
			if bits.OnesCount64(uint64(p)) < bits.OnesCount64(uint64(m)) {
				m = p
			}
		}
		var why string
		switch {
		case m != w:
			why = fmt.Sprintf("%s is derived from mask %d of the button parameter; xterm's SGR encoding uses %d: the modifier / motion flag of mouse reports is decoded wrongly", what, m, w)
		case len(neg) > 0:
			why = fmt.Sprintf("%s is set only when bit(s) %v of the button parameter are clear: the flags of an SGR report are independent (a report with several of them set loses %s)", what, neg, what)
		case len(extra) > 0:
			why = fmt.Sprintf("%s is set only under the extra condition %v, which accepted reports need not satisfy: reports with bit %d set are delivered without %s", what, extra, w, what)
		default:
			for _, p := range pos {
				if p&w == 0 {
					why = fmt.Sprintf("%s is set only when a bit of mask %d is set as well: the flags of an SGR report are independent", what, p)
				}
			}
		}
		c.check(why == "", "C03.f", key, as.Pos(), fmt.Sprintf("set exactly under the test of mask %d", m), why)
	}
	for _, w := range []string{"ModShift", "ModAlt", "ModCtrl", "EventMotion"} {
		if !seenBit[w] {
			c.bad("C03.f", fmt.Sprintf("%s/bit %d of the button parameter means %s", name, wantBit[w], w), fi.Decl.Pos(), "no `if P&%d != 0 { … %s }` in parseMouseEvent: %s is never reported", wantBit[w], w, w)
		}
	}

	// B–D. field assignments
	seen := map[string]bool{}
	var pressRelease []Hit
	for _, h := range g.Find(func(n ast.Node) bool { _, ok := n.(*ast.AssignStmt); return ok }) {
		as := h.Node.(*ast.AssignStmt)
		if len(as.Lhs) != 1 || len(as.Rhs) != 1 {
			continue
		}
		switch f := fieldOf(as.Lhs[0]); f {
		case "Button":
			seen[f] = true
			m, ok := mask(as.Rhs[0])
			key := name + "/Button = button parameter & 0xC3"
			switch {
			case !ok || as.Tok != token.ASSIGN:
				c.undecided("C03.f", key, as.Pos(), "Button is not assigned `Parameters[0][0] & constant`: %s", types.ExprString(as.Rhs[0]))
			default:
				c.check(m == 0xC3, "C03.f", key, as.Pos(), "mask 0b11000011: low two bits plus the 64 (wheel) and 128 (extra buttons) bits",
					fmt.Sprintf("the button number is extracted with mask 0x%X; SGR-1006 encodes it in bits 0,1,6,7 (0xC3): buttons are confused with modifiers/motion or wheel/extra buttons are lost", m))
			}
		case "Col", "Row":
			seen[f] = true
			idx := map[string]int{"Col": 1, "Row": 2}[f]
			t, k := linForm(info, resolve(as.Rhs[0], 0))
			if b, ok := resolve(as.Rhs[0], 0).(*ast.BinaryExpr); ok {
				// resolve aliases inside the sum
				if v, okc := constInt(info, b.Y); okc && (b.Op == token.SUB || b.Op == token.ADD) {
					t = termOf(info, resolve(b.X, 0))
					k = v
					if b.Op == token.SUB {
						k = -v
					}
				}
			}
			key := fmt.Sprintf("%s/%s = parameter %d minus 1", name, f, idx+1)
			c.check(as.Tok == token.ASSIGN && t.ID == pID(idx) && k == -1, "C03.f", key, as.Pos(), "1-based report coordinate converted to 0-based",
				fmt.Sprintf("%s is computed as %s; the SGR report carries the 1-based %s in parameter %d, so the 0-based value is Parameters[%d][0] - 1", f, types.ExprString(as.Rhs[0]), map[string]string{"Col": "column", "Row": "row"}[f], idx+1, idx))
		case "EventType":
			cn := constName(as.Rhs[0])
			if cn != "EventPress" && cn != "EventRelease" {
				if cn != "EventMotion" {
					c.undecided("C03.f", name+"/EventType = "+types.ExprString(as.Rhs[0]), as.Pos(), "unexpected event type assignment")
				}
				continue
			}
			seen[cn] = true
			pressRelease = append(pressRelease, h)
			want := map[string]int64{"EventPress": 'M', "EventRelease": 'm'}[cn]
			eq := x.eqFacts(g, h.Loc)
			key := fmt.Sprintf("%s/final %c means %s", name, rune(want), cn)
			c.check(c03Only(eq[finalID], want), "C03.f", key, as.Pos(), "assigned under Final == "+c03Runes([]int64{want}),
				fmt.Sprintf("%s is assigned under final %s; in SGR mode `M` is press and `m` is release", cn, c03Runes(eq[finalID])))
		}
	}
	for _, f := range []string{"Button", "Col", "Row", "EventPress", "EventRelease"} {
		if !seen[f] {
			c.bad("C03.f", name+"/"+f+" is decoded", fi.Decl.Pos(), "parseMouseEvent never assigns %s", f)
		}
	}
	// motion overrides press/release: no press/release assignment after the motion assignment
	if motionAssign != nil {
		if ml, ok := g.Locate(motionAssign); ok {
			over := false
			for _, pr := range pressRelease {
				if g.ReachesAvoiding(ml, pr.Loc, nil) {
					over = true
				}
			}
			c.check(!over && len(pressRelease) > 0, "C03.f", name+"/motion overrides press", motionAssign.Pos(), "EventMotion is assigned after the press/release decision",
				"a press/release assignment is reachable after EventMotion was set: motion reports (bit 32 with final M) are delivered as presses")
		}
	}
	// the '<' marker is required: a return false dominated by … (index safety of the test is C03.a)
	interID := base + ".Intermediate"
	okMarker := false
	for _, h := range g.Find(func(n ast.Node) bool { _, ok := n.(*ast.ReturnStmt); return ok }) {
		rs := h.Node.(*ast.ReturnStmt)
		if len(rs.Results) != 2 {
			continue
		}
		if tv, ok := info.Types[rs.Results[1]]; !ok || tv.Value == nil || tv.Value.String() != "true" {
			continue
		}
		// at the successful return the marker must be known to be '<'
		a := newC03Len(c, fi.Pkg, name, fi.Decl.Body, g, x.csiParams)
		a.run()
		st := a.in[h.Loc.B]
		iv := c03Top
		if !st.bot {
			if v, ok := st.m[interID]; ok {
				iv = v
			}
		}
		eq := x.eqFacts(g, h.Loc)
		okLen := iv.lo == 1 && iv.hi == 1 && c03Only(eq[interID+"[0]"], '<')
		okMarker = true
		c.check(okLen, "C03.f", name+"/accepted reports carry exactly the '<' marker", rs.Pos(), "len(Intermediate) == 1 and Intermediate[0] == '<' at the successful return",
			fmt.Sprintf("a report is accepted with `%s` for its marker bytes and marker value %s: reports without the SGR marker (CSI ? … M, CSI > … m, malformed ones) are decoded as mouse events", iv, c03Runes(eq[interID+"[0]"])))
	}
	if !okMarker {
		c.undecided("C03.f", name+"/accepted reports carry exactly the '<' marker", fi.Decl.Pos(), "no `return mouse, true` found")
	}
}

// ruleFConsts: MouseButton constants = xterm button numbers
func (x *c03Env) ruleFConsts() {
	c := x.c
	wantBtn := []struct {
		n string
		v int64
	}{{"MouseLeftButton", 0}, {"MouseMiddleButton", 1}, {"MouseRightButton", 2}, {"MouseNoButton", 3}, {"MouseWheelUp", 64}, {"MouseWheelDown", 65},
		{"MouseButton8", 128}, {"MouseButton9", 129}, {"MouseButton10", 130}, {"MouseButton11", 131}}
	for _, w := range wantBtn {
		k, ok := x.pk.Types.Scope().Lookup(w.n).(*types.Const)
		key := fmt.Sprintf("vaxis.%s = %d", w.n, w.v)
		if !ok {
			c.undecided("C03.f", key, 0, "constant %s not found", w.n)
			continue
		}
		v, _ := constToInt(types.TypeAndValue{Value: k.Val()})
		c.check(v == w.v, "C03.f", key, k.Pos(), "xterm button number", fmt.Sprintf("%s is %d; the decoded button number for that button is %d, so applications comparing with the constant never match", w.n, v, w.v))
	}
}
