package main

// C13.i — SGR mouse reports far from the origin.
//
// The SGR (1006) encoding writes the coordinates in decimal, so it has no upper limit: "under SGR
// mouse mode the same button, position and press/release/motion type" holds for EVERY position the
// host can hand over, on a widget of any size. The only encoding with a limit is the legacy X10 one
// (one byte per coordinate, 32 + the 1-based value, nothing past 223), and a limit that belongs to
// it must stay inside it: a clamp (or a narrowing conversion, a table indexed by the coordinate, a
// fixed-width format) applied to the coordinates on the way to the SGR report makes every event
// beyond the limit arrive at another cell than the one it was made on (seed C13_b_r7: the 1-based
// col/row are pinned to 223 ahead of the encoding switch and the SGR branch uses the pinned values).
//
// C13.c samples the round trip close to the origin (the largest index is 222, the last one the
// legacy encoding can express). This rule evaluates the same end-to-end relation
//
//     Model.Update(Mouse) -> bytes written to the PTY stand-in -> reference tokeniser
//                         -> Vaxis.handleSequence -> Mouse posted
//
// on positions around and beyond every byte-sized limit: index 222/223 (wire value 223/224, the
// X10 limit), 224, 255/256 (a byte), 300, 1000, 32767/32768 (16 bits signed) and 65534 (wire 65535),
// with column and row large separately and together (a clamp of one coordinate only is seen), for
// every event class of C13.c, in the mode set of C13.c and in every single reporting mode
// (1000 / 1002 / 1003) that enables the class on its own, with alternate scroll / alternate screen
// set as well (they must not matter once a reporting mode is set).
//
// It is evaluation of the library's own encoder and decoder on concrete inputs: how the report is
// built (Sprintf, strconv.AppendInt, helper, shared locals computed ahead of the switch) does not
// matter, only what is written. Every input is a possible event, so a mismatch is a failure of the
// property. The legacy branch is not judged here: whatever it does with coordinates it cannot
// express (clamp, drop) is outside the statement, which is why a clamp there stays silent.

import (
	"fmt"
)

func init() { registerExtra("C13", c13LargeCoordinates) }

func c13LargeCoordinates(c *Ctx) {
	c.Clauses = append(c.Clauses, "C13.i SGR mouse reports have no coordinate limit: for every button / event-type class of C13.c, at column and row indices 222, 223, 224, 255, 256, 300, 1000, 32767, 32768 and 65534 (each coordinate large on its own and both together), under 1006 with all reporting modes set and with each single reporting mode that enables the class, what Update writes decodes to the same button, column, row and event type; the limit of the legacy single-byte encoding (223) applies to the legacy encoding only")
	c.expect("C13.i", 18)
	x := c13lastEnv
	if x == nil || x.c != c {
		return // runC13 stopped early and said why
	}
	x.ruleI()
}

// mouseRoundTrip evaluates Update(Mouse) under flags and compares what the written bytes decode to
// with the event handed over; the outcome goes into v under the label at.
func (x *c13Env) mouseRoundTrip(v *c13Verdict, at string, flags map[string]bool, btn, col, row, et int64) {
	v.n++
	r := x.run(x.fnUpdate, x.model(flags), x.mouseEv(btn, col, row, et))
	if r.undecided != "" {
		v.unk("%s: %s", at, r.undecided)
		return
	}
	if r.panicked != "" {
		v.fail("%s: Update panics: %s", at, r.panicked)
		return
	}
	evs, toks, und, bad := x.decode(r.writes)
	switch {
	case und != "":
		v.unk("%s: %s", at, und)
	case bad != "":
		v.fail("%s: %s", at, bad)
	case r.writes == "":
		v.fail("%s: nothing is written although the child enabled this event", at)
	case len(toks) != 1 || toks[0].kind != "CSI":
		v.fail("%s: written %q is not one CSI sequence", at, r.writes)
	case len(evs) != 1 || x.evType(evs[0]) != "Mouse":
		v.fail("%s: written %q decodes to %d events (want one Mouse)", at, r.writes, len(evs))
	default:
		gb, o1 := x.intField(evs[0], "Button")
		gc, o2 := x.intField(evs[0], "Col")
		gr, o3 := x.intField(evs[0], "Row")
		ge, o4 := x.intField(evs[0], "EventType")
		if !(o1 && o2 && o3 && o4) {
			v.unk("%s: decoded mouse event has fields the evaluator could not compute", at)
		} else if gb != btn || gc != col || gr != row || ge != et {
			v.fail("%s: written %q decodes to button %d col %d row %d type %d, want button %d col %d row %d type %d (the SGR encoding has no coordinate limit; only the legacy single-byte report stops at 223)",
				at, r.writes, gb, gc, gr, ge, btn, col, row, et)
		}
	}
}

func (x *c13Env) ruleI() {
	type cls struct {
		btn, et string
		modes   []string // single reporting modes that enable the class on their own
	}
	any3 := []string{"mouseButtons", "mouseDrag", "mouseMotion"}
	var cases []cls
	for _, b := range []string{"MouseLeftButton", "MouseMiddleButton", "MouseRightButton", "MouseWheelUp", "MouseWheelDown", "MouseButton8", "MouseButton9", "MouseButton10", "MouseButton11"} {
		if _, ok := x.consts[b]; ok {
			cases = append(cases, cls{b, "EventPress", any3})
		}
	}
	for _, b := range []string{"MouseLeftButton", "MouseMiddleButton", "MouseRightButton", "MouseButton8", "MouseButton9"} {
		if _, ok := x.consts[b]; ok {
			cases = append(cases, cls{b, "EventRelease", any3})
		}
	}
	for _, b := range []string{"MouseLeftButton", "MouseMiddleButton", "MouseRightButton"} {
		cases = append(cases, cls{b, "EventMotion", []string{"mouseDrag", "mouseMotion"}})
	}
	cases = append(cases, cls{"MouseNoButton", "EventMotion", []string{"mouseMotion"}})

	// with every reporting mode set: the full list; in a single mode: the two sides of the legacy limit and two far ones
	full := [][2]int64{{222, 223}, {223, 0}, {0, 223}, {223, 223}, {224, 224}, {255, 3}, {3, 255}, {256, 256}, {300, 40}, {40, 300},
		{1000, 1000}, {32767, 32767}, {32768, 12}, {12, 32768}, {65534, 65534}}
	short := [][2]int64{{223, 5}, {5, 223}, {224, 300}, {1000, 65534}}

	for _, cs := range cases {
		v := &c13Verdict{}
		btn, et := x.consts[cs.btn], x.consts[cs.et]
		all := map[string]bool{"mouseButtons": true, "mouseDrag": true, "mouseMotion": true, "mouseSGR": true}
		for _, p := range full {
			x.mouseRoundTrip(v, fmt.Sprintf("col %d row %d", p[0], p[1]), all, btn, p[0], p[1], et)
		}
		for _, md := range cs.modes {
			for i, p := range short {
				flags := map[string]bool{md: true, "mouseSGR": true}
				if i%2 == 1 {
					flags["altScroll"], flags["smcup"] = true, true
				}
				x.mouseRoundTrip(v, fmt.Sprintf("col %d row %d modes %s", p[0], p[1], c13FlagString(flags)), flags, btn, p[0], p[1], et)
			}
		}
		x.emit("C13.i", fmt.Sprintf("term.(*Model).Update/SGR mouse %s %s beyond the legacy coordinate limit", cs.btn, cs.et), x.fnUpdate, v,
			"button, column, row and event type survive at every sampled distance from the origin")
	}
}
