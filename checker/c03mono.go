package main

// c03mono.go — generic helpers are made visible to the inliner.
//
// The global pre-pass (gnorm.go) inlines the unexported helper functions a refactoring introduced, but leaves a helper
// with type parameters alone (trySend[T any](ch chan T, v T) standing for five non-blocking select-sends of
// handleSequence): its parameter types only exist per instantiation. This pass does what the compiler does with such
// a call: every call `h(args)` / `h[A](args)` of a NEW (not on the reference list), unexported, generic package-level
// function whose type arguments are fully known at the call gets a non-generic copy `h_mono<N>` of the declaration,
// with the type parameters replaced by the type arguments of that instantiation, and the call is redirected to the
// copy. Instantiation by substitution is the language's own meaning of a generic call, so the program is unchanged.
// The shared inliner (c15norm.go) is then run again over the same packages: it sees ordinary new helpers and inlines
// them wherever it can (statement, assignment, condition and return position). Copies nobody refers to afterwards are
// deleted again, so that no rule meets a function that is never called.
//
// A channel that reached the helper as an argument arrives in the caller as `ch_inlN := vx.chCursorPos`; rule (2) of
// c03Normalise (single-definition locals) substitutes such a channel alias into its uses (c03IsChanAlias), after which
// the text is the select-send on the Vaxis field the rules know.
//
// Everything is re-type-checked; when a step fails the program is loaded again and analysed as it is written (the
// rules then report what they cannot judge themselves).

import (
	"fmt"
	"go/ast"
	"go/parser"
	"go/token"
	"go/types"
	"sort"
	"strings"

	"golang.org/x/tools/go/packages"
)

// c03MonoOff: the pass failed once in this run and is not tried again.
var c03MonoOff bool

func c03Monomorphise(c *Ctx, shorts []string) {
	if c03MonoOff {
		return
	}
	changed := map[*packages.Package]map[*ast.File]bool{}
	made := map[string]bool{}
	for _, sh := range shorts {
		pk := c.P.Pkg(sh)
		if pk == nil {
			continue
		}
		if ch := c03MonoPkg(c, pk, made); len(ch) > 0 {
			changed[pk] = ch
		}
	}
	if len(changed) == 0 {
		return
	}
	if err := c15Recheck(c, shorts, changed); err != nil {
		c03MonoOff = true
		c15Reload(c, fmt.Sprintf("instantiating generic helpers produced code that does not type-check (%v)", err))
		return
	}
	var names []string
	for n := range made {
		names = append(names, n)
	}
	sort.Strings(names)
	c.info("normalised: generic helpers instantiated as %s", strings.Join(names, ", "))
	// the copies are ordinary new helpers now (on failure c15NormaliseOpt reloads the program, which also undoes
	// the instantiation: the text is then analysed as written)
	c15NormaliseOpt(c, shorts, refFuncNames, false)
	// copies that are not referred to any more
	drop := map[*packages.Package]map[*ast.File]bool{}
	for _, sh := range shorts {
		pk := c.P.Pkg(sh)
		if pk == nil {
			continue
		}
		used := map[string]bool{}
		for id, o := range pk.TypesInfo.Uses {
			if fn, ok := o.(*types.Func); ok && fn.Pkg() == pk.Types && made[id.Name] {
				used[id.Name] = true
			}
		}
		for _, f := range pk.Syntax {
			var keep []ast.Decl
			for _, d := range f.Decls {
				if fd, ok := d.(*ast.FuncDecl); ok && fd.Recv == nil && made[fd.Name.Name] && !used[fd.Name.Name] {
					if drop[pk] == nil {
						drop[pk] = map[*ast.File]bool{}
					}
					drop[pk][f] = true
					continue
				}
				keep = append(keep, d)
			}
			f.Decls = keep
		}
	}
	if len(drop) > 0 {
		if err := c15Recheck(c, shorts, drop); err != nil {
			c03MonoOff = true
			c15Reload(c, fmt.Sprintf("removing unused instantiations produced code that does not type-check (%v)", err))
			return
		}
	}
	installAccessorResolver(c.P)
}

// c03MonoPkg instantiates the calls of new generic helpers of one package; returns the files it changed.
func c03MonoPkg(c *Ctx, pk *packages.Package, made map[string]bool) map[*ast.File]bool {
	info := pk.TypesInfo
	gen := map[*types.Func]*ast.FuncDecl{}
	fileOf := map[*ast.FuncDecl]*ast.File{}
	for _, f := range pk.Syntax {
		for _, d := range f.Decls {
			fd, ok := d.(*ast.FuncDecl)
			if !ok || fd.Body == nil || fd.Recv != nil || fd.Type.TypeParams == nil || len(fd.Type.TypeParams.List) == 0 {
				continue
			}
			if fd.Name.IsExported() || refFuncNames[fd.Name.Name] || fd.Name.Name == "init" || fd.Name.Name == "main" {
				continue
			}
			if obj, ok := info.Defs[fd.Name].(*types.Func); ok {
				gen[obj] = fd
				fileOf[fd] = f
			}
		}
	}
	if len(gen) == 0 {
		return nil
	}
	par := c.P.Parents(pk)
	changed := map[*ast.File]bool{}
	type inst struct {
		fn    *types.Func
		targs string
	}
	copies := map[inst]string{}
	counter := 0
	for _, f := range pk.Syntax {
		// (collect first: the tree is edited afterwards)
		type site struct {
			id   *ast.Ident
			call *ast.CallExpr
			fn   *types.Func
			in   types.Instance
		}
		var sites []site
		ast.Inspect(f, func(n ast.Node) bool {
			id, ok := n.(*ast.Ident)
			if !ok {
				return true
			}
			in, ok := info.Instances[id]
			if !ok || in.TypeArgs == nil {
				return true
			}
			fn, _ := info.Uses[id].(*types.Func)
			if fn == nil || gen[fn] == nil {
				return true
			}
			// the reference must be the function of a call, bare or explicitly instantiated
			var fun ast.Expr = id
			switch p := par[id].(type) {
			case *ast.IndexExpr:
				if p.X == ast.Expr(id) {
					fun = p
				}
			case *ast.IndexListExpr:
				if p.X == ast.Expr(id) {
					fun = p
				}
			}
			call, ok := par[fun].(*ast.CallExpr)
			if !ok || call.Fun != fun {
				return true
			}
			sites = append(sites, site{id, call, fn, in})
			return true
		})
		for _, s := range sites {
			fd := gen[s.fn]
			sig, _ := s.fn.Type().(*types.Signature)
			if sig == nil || sig.TypeParams().Len() != s.in.TypeArgs.Len() {
				continue
			}
			// the type arguments, written so that they are valid in the file of the declaration
			var texts []string
			okArgs := true
			for i := 0; i < s.in.TypeArgs.Len(); i++ {
				t := s.in.TypeArgs.At(i)
				if !c03MonoExpressible(t, pk.Types, map[types.Type]bool{}) {
					okArgs = false
					break
				}
				ts, ok := c03MonoTypeString(t, pk, fileOf[fd])
				if !ok {
					okArgs = false
					break
				}
				if _, err := parser.ParseExpr(ts); err != nil {
					okArgs = false
					break
				}
				texts = append(texts, ts)
			}
			if !okArgs {
				continue
			}
			key := inst{s.fn, strings.Join(texts, " | ")}
			name, have := copies[key]
			if !have {
				for {
					counter++
					name = fmt.Sprintf("%s_mono%d", fd.Name.Name, counter)
					if pk.Types.Scope().Lookup(name) == nil && !made[name] {
						break
					}
				}
				tparams := map[types.Object]int{}
				for i := 0; i < sig.TypeParams().Len(); i++ {
					tparams[sig.TypeParams().At(i).Obj()] = i
				}
				// (the declaring identifiers of the type parameters are not copied: they sit in identifier-only positions)
				bareType := *fd.Type
				bareType.TypeParams = nil
				bare := *fd
				bare.Type = &bareType
				nd := c15Copy(&bare, func(id *ast.Ident) ast.Node {
					o := info.ObjectOf(id)
					if o == nil {
						return nil
					}
					i, ok := tparams[o]
					if !ok {
						return nil
					}
					te, err := parser.ParseExpr(texts[i])
					if err != nil {
						return nil
					}
					te = c15Copy(te, nil).(ast.Expr) // positions dropped
					switch te.(type) {
					case *ast.Ident, *ast.SelectorExpr, *ast.ArrayType, *ast.MapType, *ast.StructType:
						return te
					}
					return &ast.ParenExpr{X: te}
				}).(*ast.FuncDecl)
				nd.Name = ast.NewIdent(name)
				nd.Type.TypeParams = nil
				nd.Doc = nil
				df := fileOf[fd]
				var decls []ast.Decl
				for _, d := range df.Decls {
					decls = append(decls, d)
					if d == ast.Decl(fd) {
						decls = append(decls, nd)
					}
				}
				df.Decls = decls
				changed[df] = true
				copies[key] = name
				made[name] = true
			}
			s.call.Fun = ast.NewIdent(name)
			changed[f] = true
		}
	}
	return changed
}

// c03MonoExpressible: t can be written down at package level of pkg: no type parameter of an enclosing generic
// function and no type declared inside a function occurs in it.
func c03MonoExpressible(t types.Type, pkg *types.Package, seen map[types.Type]bool) bool {
	if t == nil {
		return false
	}
	if seen[t] {
		return true
	}
	seen[t] = true
	named := func(obj *types.TypeName, targs *types.TypeList) bool {
		if obj.Pkg() != nil && obj.Parent() != obj.Pkg().Scope() {
			return false // declared inside a function
		}
		if obj.Pkg() != nil && obj.Pkg() != pkg && !obj.Exported() {
			return false
		}
		for i := 0; targs != nil && i < targs.Len(); i++ {
			if !c03MonoExpressible(targs.At(i), pkg, seen) {
				return false
			}
		}
		return true
	}
	tuple := func(tp *types.Tuple) bool {
		for i := 0; tp != nil && i < tp.Len(); i++ {
			if !c03MonoExpressible(tp.At(i).Type(), pkg, seen) {
				return false
			}
		}
		return true
	}
	switch u := t.(type) {
	case *types.Basic:
		return true
	case *types.TypeParam:
		return false
	case *types.Named:
		return named(u.Obj(), u.TypeArgs())
	case *types.Alias:
		return named(u.Obj(), u.TypeArgs())
	case *types.Pointer:
		return c03MonoExpressible(u.Elem(), pkg, seen)
	case *types.Slice:
		return c03MonoExpressible(u.Elem(), pkg, seen)
	case *types.Array:
		return c03MonoExpressible(u.Elem(), pkg, seen)
	case *types.Chan:
		return c03MonoExpressible(u.Elem(), pkg, seen)
	case *types.Map:
		return c03MonoExpressible(u.Key(), pkg, seen) && c03MonoExpressible(u.Elem(), pkg, seen)
	case *types.Signature:
		return u.TypeParams().Len() == 0 && tuple(u.Params()) && tuple(u.Results())
	case *types.Struct:
		for i := 0; i < u.NumFields(); i++ {
			if !c03MonoExpressible(u.Field(i).Type(), pkg, seen) {
				return false
			}
		}
		return true
	case *types.Interface:
		return u.NumMethods() == 0 && u.NumEmbeddeds() == 0 // `any` / interface{}; anything richer is left alone
	}
	return false
}

// c03MonoTypeString renders t with the package names of file's imports.
func c03MonoTypeString(t types.Type, pk *packages.Package, file *ast.File) (string, bool) {
	ok := true
	s := types.TypeString(t, func(p *types.Package) string {
		if p == pk.Types {
			return ""
		}
		for _, imp := range file.Imports {
			if strings.Trim(imp.Path.Value, `"`) == p.Path() {
				if imp.Name != nil {
					if imp.Name.Name == "_" || imp.Name.Name == "." {
						ok = false
					}
					return imp.Name.Name
				}
				return p.Name()
			}
		}
		ok = false
		return p.Name()
	})
	return s, ok
}

// c03IsChanAlias: the definition names a channel held in a field (`ch := vx.chCursorPos`, `ch := vx.a.b`): a pure
// alias; the rules identify reply channels by the field.
func c03IsChanAlias(info *types.Info, o types.Object, def ast.Expr) bool {
	if _, ok := o.Type().Underlying().(*types.Chan); !ok {
		return false
	}
	sel, ok := unparen(def).(*ast.SelectorExpr)
	for ok {
		s := info.Selections[sel]
		if s == nil || s.Kind() != types.FieldVal {
			return false
		}
		switch x := unparen(sel.X).(type) {
		case *ast.Ident:
			_, isVar := info.Uses[x].(*types.Var)
			return isVar
		case *ast.SelectorExpr:
			sel = x
		default:
			return false
		}
	}
	return false
}

// c03StripChanConv: the channel operand of a send or receive is written without a conversion to a (directional)
// channel type of the same element type: `(chan<- T)(x) <- v` is `x <- v` (what the propagation of an alias that
// was declared with the helper's parameter type `chan<- T` leaves behind). The operation is the same operation on
// the same channel; the conversion only narrows what the static type permits.
func c03StripChanConv(pk *packages.Package, fd *ast.FuncDecl) bool {
	info := pk.TypesInfo
	strip := func(e ast.Expr) (ast.Expr, bool) {
		did := false
		for {
			call, ok := unparen(e).(*ast.CallExpr)
			if !ok || len(call.Args) != 1 || call.Ellipsis.IsValid() {
				return e, did
			}
			tv, ok := info.Types[call.Fun]
			if !ok || !tv.IsType() {
				return e, did
			}
			to, ok := tv.Type.Underlying().(*types.Chan)
			if !ok {
				return e, did
			}
			at := info.TypeOf(call.Args[0])
			if at == nil {
				return e, did
			}
			from, ok := at.Underlying().(*types.Chan)
			if !ok || !types.Identical(from.Elem(), to.Elem()) {
				return e, did
			}
			e, did = call.Args[0], true
		}
	}
	changed := false
	ast.Inspect(fd.Body, func(n ast.Node) bool {
		switch t := n.(type) {
		case *ast.SendStmt:
			if e, did := strip(t.Chan); did {
				t.Chan, changed = e, true
			}
		case *ast.UnaryExpr:
			if t.Op == token.ARROW {
				if e, did := strip(t.X); did {
					t.X, changed = e, true
				}
			}
		}
		return true
	})
	return changed
}
