package main

// C04 — helpers that make the Close / capability-writer rules independent of the shape of the code:
//
//   c04Paths          path-sensitive forward search over a go/cfg graph. The abstract state is the value of the
//                     tracked boolean fields (Vaxis.closed) and of the function's boolean locals; branch
//                     conditions that the state decides are followed one way only. `if closed { return }; body`,
//                     `if !closed { body }`, `switch { case closed: return }`, `c := vx.closed; if c …`,
//                     `if vx.isClosed() …` all give the same answers.
//   c04StartupPartOf  "this function runs only as a part of a start-up function" (extracted helper, also when it is
//                     called in expression position and therefore not inlined by the global pre-pass).

import (
	"go/ast"
	"go/token"
	"go/types"
	"sort"
	"strconv"
	"strings"

	"golang.org/x/tools/go/cfg"
)

type c04Env map[string]bool

func (e c04Env) key() string {
	ks := make([]string, 0, len(e))
	for k, v := range e {
		if v {
			ks = append(ks, k+"=1")
		} else {
			ks = append(ks, k+"=0")
		}
	}
	sort.Strings(ks)
	return strings.Join(ks, ";")
}

func (e c04Env) clone() c04Env {
	o := c04Env{}
	for k, v := range e {
		o[k] = v
	}
	return o
}

type c04Flow struct {
	p      *Program
	g      *FG
	fields map[string]bool // canonical paths of the boolean fields whose value is tracked
	// kills: tracked fields a call may change (nil: none)
	kills func(call *ast.CallExpr) []string
	// descend: the graph of a callee that is to be analysed in place (nil: use the summary `kills`)
	descend func(call *ast.CallExpr) *FG
	// effect: event marks a node leaves in the state (keys starting with '#')
	effect func(n ast.Node, env c04Env) c04Env
	// refine: a branch on a condition the state does not decide records, on each edge, what that edge implies
	// for the tracked slots the condition is built from (`if !vx.f {` … the true edge continues with f=false)
	refine bool
	// bindArgs: when a callee is analysed in place its boolean parameters start with the value of the arguments
	bindArgs bool
	// maxDepth: nesting limit of callees analysed in place (0: the default, 3)
	maxDepth int
	// seqOnly: the callee of a go statement runs concurrently; what it writes is not an effect of this step of the
	// sequential history (its writes do not make the tracked state unknown)
	seqOnly bool
	// condNode: the branch condition that transfer is being applied to; a test-and-set in it takes effect on the
	// edges (assume), not before the branch
	condNode ast.Node
}

// assume: env refined by "e evaluates to want" (only for the slots that e determines: negations, the operands
// of a true conjunction / false disjunction, one-line accessors).
func (f *c04Flow) assume(info *types.Info, e ast.Expr, want bool, env c04Env, depth int) c04Env {
	e = unparen(e)
	switch t := e.(type) {
	case *ast.UnaryExpr:
		if t.Op == token.NOT {
			return f.assume(info, t.X, !want, env, depth)
		}
	case *ast.BinaryExpr:
		if t.Op == token.LAND && want || t.Op == token.LOR && !want {
			return f.assume(info, t.Y, want, f.assume(info, t.X, want, env, depth), depth)
		}
		if k, eq, ok := f.nilTest(info, t); ok {
			if _, known := env[k]; !known {
				env = env.clone()
				env[k] = want == eq
			}
			return env
		}
		if path, fv, ok := f.evalRawLoad(info, t, env); ok {
			if _, known := env[path]; !known {
				env = env.clone()
				env[path] = fv == want
			}
			return env
		}
		if (t.Op == token.EQL || t.Op == token.NEQ) && c04IsBool(info, t.X) && c04IsBool(info, t.Y) {
			if v, known := f.eval(info, t.Y, env, 0); known {
				return f.assume(info, t.X, (v == want) == (t.Op == token.EQL), env, depth)
			}
			if v, known := f.eval(info, t.X, env, 0); known {
				return f.assume(info, t.Y, (v == want) == (t.Op == token.EQL), env, depth)
			}
		}
	case *ast.CallExpr:
		if op := f.flagOp(info, t); op != nil {
			return f.assumeFlagCall(info, op, want, env)
		}
		if len(t.Args) == 0 && depth < 3 {
			if fn := calleeOf(info, t); fn != nil {
				if fi := f.p.FuncOfObj(fn); fi != nil && fi.Decl.Body != nil && len(fi.Decl.Body.List) == 1 {
					if rs, ok := fi.Decl.Body.List[0].(*ast.ReturnStmt); ok && len(rs.Results) == 1 {
						return f.assume(fi.Pkg.TypesInfo, rs.Results[0], want, env, depth+1)
					}
				}
			}
		}
	case *ast.Ident, *ast.SelectorExpr:
		if k, ok := f.slot(info, e); ok {
			if _, known := env[k]; !known {
				env = env.clone()
				env[k] = want
			}
		}
	}
	return env
}

// bound: env with the boolean parameters of callee graph sg set from the arguments of call (evaluated in env).
func (f *c04Flow) bound(info *types.Info, call *ast.CallExpr, sg *FG, env c04Env) c04Env {
	if sg.Type == nil || sg.Type.Params == nil {
		return env
	}
	i := 0
	out := env
	for _, fld := range sg.Type.Params.List {
		if len(fld.Names) == 0 {
			i++
			continue
		}
		for _, nm := range fld.Names {
			if i < len(call.Args) && call.Ellipsis == token.NoPos {
				if _, variadic := fld.Type.(*ast.Ellipsis); !variadic {
					if k, ok := f.slot(sg.Info, nm); ok {
						out = out.clone()
						if v, known := f.eval(info, call.Args[i], env, 0); known {
							out[k] = v
						} else {
							delete(out, k)
						}
					}
				}
			}
			i++
		}
	}
	return out
}

func c04IsBool(info *types.Info, e ast.Expr) bool {
	t := info.TypeOf(e)
	if t == nil {
		return false
	}
	b, ok := t.Underlying().(*types.Basic)
	return ok && b.Info()&types.IsBoolean != 0
}

// slot: the state key of an lvalue / operand (tracked field or function-local boolean variable).
func (f *c04Flow) slot(info *types.Info, e ast.Expr) (string, bool) {
	e = unparen(e)
	switch t := e.(type) {
	case *ast.Ident:
		v, ok := info.ObjectOf(t).(*types.Var)
		if !ok || v.IsField() || v.Pkg() == nil || v.Parent() == nil || v.Parent() == v.Pkg().Scope() {
			return "", false
		}
		if !c04IsBool(info, e) {
			return "", false
		}
		return "local:" + sprintfPtr(v), true
	case *ast.SelectorExpr:
		if _, ok := info.Selections[t]; !ok || !c04IsBool(info, e) {
			return "", false
		}
		if p := canonPath(info, e); f.fields[p] {
			return p, true
		}
	}
	return "", false
}

// nilSlot (refine mode): the state key "this error-typed local is nil".
func (f *c04Flow) nilSlot(info *types.Info, e ast.Expr) (string, bool) {
	if !f.refine {
		return "", false
	}
	id, ok := unparen(e).(*ast.Ident)
	if !ok {
		return "", false
	}
	v, ok := info.ObjectOf(id).(*types.Var)
	if !ok || v.IsField() || v.Pkg() == nil || v.Parent() == nil || v.Parent() == v.Pkg().Scope() {
		return "", false
	}
	if !types.Identical(v.Type(), types.Universe.Lookup("error").Type()) {
		return "", false
	}
	return "local:nil:" + sprintfPtr(v), true
}

func c04IsNilIdent(info *types.Info, e ast.Expr) bool {
	id, ok := unparen(e).(*ast.Ident)
	if !ok || id.Name != "nil" {
		return false
	}
	_, isNil := info.ObjectOf(id).(*types.Nil)
	return isNil
}

// nilTest: e is `x == nil` / `x != nil` (either operand order) for an error-typed local x.
func (f *c04Flow) nilTest(info *types.Info, e *ast.BinaryExpr) (slot string, eq bool, ok bool) {
	if e.Op != token.EQL && e.Op != token.NEQ {
		return "", false, false
	}
	x, y := e.X, e.Y
	if c04IsNilIdent(info, x) {
		x, y = y, x
	}
	if !c04IsNilIdent(info, y) {
		return "", false, false
	}
	k, ok := f.nilSlot(info, x)
	return k, e.Op == token.EQL, ok
}

// eval: value of a boolean expression under env (known=false: not decided by env).
func (f *c04Flow) eval(info *types.Info, e ast.Expr, env c04Env, depth int) (val, known bool) {
	e = unparen(e)
	if tv, ok := info.Types[e]; ok && tv.Value != nil && c04IsBool(info, e) {
		return tv.Value.String() == "true", true
	}
	switch t := e.(type) {
	case *ast.UnaryExpr:
		if t.Op == token.NOT {
			v, k := f.eval(info, t.X, env, depth)
			return !v, k
		}
	case *ast.BinaryExpr:
		switch t.Op {
		case token.LAND:
			a, ka := f.eval(info, t.X, env, depth)
			b, kb := f.eval(info, t.Y, env, depth)
			if ka && !a || kb && !b {
				return false, true
			}
			return a && b, ka && kb
		case token.LOR:
			a, ka := f.eval(info, t.X, env, depth)
			b, kb := f.eval(info, t.Y, env, depth)
			if ka && a || kb && b {
				return true, true
			}
			return a || b, ka && kb
		case token.EQL, token.NEQ:
			if path, fv, ok := f.evalRawLoad(info, t, env); ok {
				cur, known := env[path]
				return cur == fv, known
			}
			if c04IsBool(info, t.X) && c04IsBool(info, t.Y) {
				a, ka := f.eval(info, t.X, env, depth)
				b, kb := f.eval(info, t.Y, env, depth)
				return (a == b) == (t.Op == token.EQL), ka && kb
			}
			if k, eq, ok := f.nilTest(info, t); ok {
				v, known := env[k]
				return v == eq, known
			}
		}
	case *ast.CallExpr:
		if op := f.flagOp(info, t); op != nil {
			return f.evalFlagCall(info, op, env)
		}
		// zero-argument accessor with the body `return <expr>`: only the tracked fields carry over
		if len(t.Args) == 0 && depth < 3 {
			if fn := calleeOf(info, t); fn != nil {
				if fi := f.p.FuncOfObj(fn); fi != nil && fi.Decl.Body != nil && len(fi.Decl.Body.List) == 1 {
					if rs, ok := fi.Decl.Body.List[0].(*ast.ReturnStmt); ok && len(rs.Results) == 1 {
						return f.eval(fi.Pkg.TypesInfo, rs.Results[0], env, depth+1)
					}
				}
			}
		}
	case *ast.Ident, *ast.SelectorExpr:
		if k, ok := f.slot(info, e); ok {
			v, known := env[k]
			return v, known
		}
	}
	return false, false
}

// transfer: the state after CFG node n (function literals are not entered). Calls in skip were analysed in
// their own graph (descend) and have no summary effect here.
func (f *c04Flow) transfer(info *types.Info, n ast.Node, env c04Env, skip map[*ast.CallExpr]bool) c04Env {
	out := env
	set := func(lhs ast.Expr, rhs ast.Expr) {
		if nk, isErr := f.nilSlot(info, lhs); isErr {
			out = out.clone()
			delete(out, nk)
			if rhs != nil {
				if c04IsNilIdent(info, rhs) {
					out[nk] = true
				} else if rk, ok := f.nilSlot(info, rhs); ok {
					if v, known := env[rk]; known {
						out[nk] = v
					}
				}
			}
			return
		}
		k, ok := f.slot(info, lhs)
		if !ok {
			return
		}
		out = out.clone()
		if rhs != nil {
			if v, known := f.eval(info, rhs, env, 0); known {
				out[k] = v
				return
			}
		}
		delete(out, k)
	}
	var goCall *ast.CallExpr
	if gs, ok := n.(*ast.GoStmt); ok && f.seqOnly {
		goCall = gs.Call
	}
	inspectNoLit(n, func(m ast.Node) bool {
		if goCall != nil && m == ast.Node(goCall) {
			// the arguments are evaluated here, the call is not
			for _, a := range goCall.Args {
				inspectNoLit(a, func(x ast.Node) bool {
					if c, ok := x.(*ast.CallExpr); ok && f.kills != nil && !skip[c] {
						for _, k := range f.kills(c) {
							if _, ok := out[k]; ok {
								out = out.clone()
								delete(out, k)
							}
						}
					}
					return true
				})
			}
			return false
		}
		switch t := m.(type) {
		case *ast.AssignStmt:
			for i, l := range t.Lhs {
				if (t.Tok == token.ASSIGN || t.Tok == token.DEFINE) && len(t.Lhs) == len(t.Rhs) {
					set(l, t.Rhs[i])
				} else {
					set(l, nil)
				}
			}
		case *ast.ValueSpec:
			for i, id := range t.Names {
				switch {
				case len(t.Values) == len(t.Names):
					set(id, t.Values[i])
				case len(t.Values) == 0:
					// var b bool: zero value
					if k, ok := f.slot(info, id); ok {
						out = out.clone()
						out[k] = false
					} else if nk, ok := f.nilSlot(info, id); ok {
						out = out.clone()
						out[nk] = true
					}
				default:
					set(id, nil)
				}
			}
		case *ast.UnaryExpr:
			if t.Op == token.AND { // address taken: stop tracking
				set(t.X, nil)
			}
		case *ast.CallExpr:
			if op := f.flagOp(info, t); op != nil {
				// an atomic operation on a tracked flag: its own effect, and `&F` does not end the tracking
				deferred := f.condNode != nil && containsNode(f.condNode, func(x ast.Node) bool { return x == m }) && (op.kind == "cas" || op.kind == "swap")
				if !deferred {
					out = f.applyFlagCall(info, op, env, out)
				}
				return false
			}
			if f.kills != nil && !skip[t] {
				for _, k := range f.kills(t) {
					if _, ok := out[k]; ok {
						out = out.clone()
						delete(out, k)
					}
				}
			}
		}
		return true
	})
	return out
}

// run explores every path from the entry of f.g that is consistent with the tracked state, starting from init.
// For each CFG node, with the state before it: visit (false: do not continue past this node), then effect (may
// return a changed state: event marks under keys starting with '#'), then the calls that descend maps to a
// graph are explored in that graph from the current state (their normal exits continue here), then the node's
// own assignments are applied. atExit is called for each normal exit of f.g reached.
func (f *c04Flow) run(init c04Env, visit func(n ast.Node, env c04Env) bool, atExit func(env c04Env)) {
	f.explore(f.g, init.clone(), 0, map[*FG]bool{}, visit, atExit)
}

func (f *c04Flow) explore(g *FG, init c04Env, depth int, active map[*FG]bool, visit func(n ast.Node, env c04Env) bool, atExit func(env c04Env)) {
	type item struct {
		b   *cfg.Block
		idx int
		env c04Env
	}
	if len(g.Blocks) == 0 {
		return
	}
	active[g] = true
	defer delete(active, g)
	info := g.Info
	seen := map[string]bool{}
	work := []item{{g.Blocks[0], 0, init}}
	for len(work) > 0 {
		it := work[len(work)-1]
		work = work[:len(work)-1]
		if it.idx == 0 {
			k := sprintfPtr2(it.b) + "|" + it.env.key()
			if seen[k] {
				continue
			}
			seen[k] = true
		}
		env := it.env
		stopped := false
		for i := it.idx; i < len(it.b.Nodes); i++ {
			n := it.b.Nodes[i]
			if visit != nil && !visit(n, env) {
				stopped = true
				break
			}
			if f.effect != nil {
				env = f.effect(n, env)
			}
			// calls analysed in their own graph
			var subs []*ast.CallExpr
			var subG []*FG
			limit := 3
			if f.maxDepth > 0 {
				limit = f.maxDepth
			}
			if f.descend != nil && depth < limit {
				if _, isGo := n.(*ast.GoStmt); !isGo {
					inspectNoLit(n, func(m ast.Node) bool {
						if call, ok := m.(*ast.CallExpr); ok {
							if sg := f.descend(call); sg != nil && !active[sg] {
								subs = append(subs, call)
								subG = append(subG, sg)
							}
						}
						return true
					})
				}
			}
			f.condNode = nil
			if i == len(it.b.Nodes)-1 && len(it.b.Succs) == 2 {
				if cd := g.BranchCond(it.b); cd != nil && cd.Tag == nil && cd.Alts == nil && ast.Node(cd.Expr) == n {
					f.condNode = n
				}
			}
			if len(subs) == 0 {
				env = f.transfer(info, n, env, nil)
				f.condNode = nil
				continue
			}
			skip := map[*ast.CallExpr]bool{}
			envs := []c04Env{env}
			for j, call := range subs {
				skip[call] = true
				var next []c04Env
				dedup := map[string]bool{}
				for _, e := range envs {
					if f.bindArgs {
						e = f.bound(info, call, subG[j], e)
					}
					f.explore(subG[j], e, depth+1, active, visit, func(ex c04Env) {
						if k := ex.key(); !dedup[k] {
							dedup[k] = true
							next = append(next, ex)
						}
					})
				}
				envs = next
			}
			// continue after this node once per resulting state
			for _, e := range envs {
				work = append(work, item{it.b, i + 1, f.transfer(info, n, e, skip)})
			}
			f.condNode = nil
			stopped = true
			break
		}
		if stopped {
			continue
		}
		succs := it.b.Succs
		if len(succs) == 0 {
			// (the block after the last case of a select without default has no successor: the select waits, it
			// does not leave the function)
			if atExit != nil && g.isNormalExit(it.b) && it.b.Kind != cfg.KindSelectAfterCase {
				atExit(env)
			}
			continue
		}
		if len(succs) == 2 {
			if cd := g.BranchCond(it.b); cd != nil && cd.Alts == nil {
				var v, known bool
				if f.refine && cd.Tag == nil {
					if _, known = f.eval(info, cd.Expr, env, 0); !known {
						work = append(work, item{succs[0], 0, f.assume(info, cd.Expr, true, env, 0)})
						work = append(work, item{succs[1], 0, f.assume(info, cd.Expr, false, env, 0)})
						continue
					}
				}
				if cd.Tag == nil {
					v, known = f.eval(info, cd.Expr, env, 0)
				} else if c04IsBool(info, cd.Tag) {
					a, ka := f.eval(info, cd.Tag, env, 0)
					b, kb := f.eval(info, cd.Expr, env, 0)
					v, known = a == b, ka && kb
				}
				if known {
					if v {
						succs = succs[:1]
					} else {
						succs = succs[1:]
					}
					if cd.Tag == nil && f.hasEffectfulFlagOp(info, cd.Expr) {
						env = f.assume(info, cd.Expr, v, env, 0)
					}
				}
			}
		}
		if len(succs) == 2 && len(it.b.Succs) == 2 {
			// undecided test-and-set: each edge continues with what the operation left behind
			if cd := g.BranchCond(it.b); cd != nil && cd.Tag == nil && cd.Alts == nil && f.hasEffectfulFlagOp(info, cd.Expr) {
				work = append(work, item{succs[0], 0, f.assume(info, cd.Expr, true, env, 0)})
				work = append(work, item{succs[1], 0, f.assume(info, cd.Expr, false, env, 0)})
				continue
			}
		}
		for _, s := range succs {
			work = append(work, item{s, 0, env})
		}
	}
}

func sprintfPtr2(b *cfg.Block) string { return "b" + strconv.Itoa(int(b.Index)) }

// c04StartupPartOf: fi is an unexported function that is never used as a value, cannot be called through an
// interface of its package, and whose every call is a plain call statement/expression — not `go`, not `defer`,
// not inside a function literal — in the body of one of the roots or of another such function. Returns the root.
func c04StartupPartOf(c *Ctx, fi *FuncInfo, roots map[string]bool) string {
	seen := map[*FuncInfo]bool{}
	root := ""
	var part func(f *FuncInfo, depth int) bool
	part = func(f *FuncInfo, depth int) bool {
		if roots[f.Name] {
			if root == "" {
				root = f.Name
			}
			return true
		}
		if depth > 4 || seen[f] || f.Obj == nil || f.Obj.Exported() || c04MayBeCalledDynamically(c, f) {
			return false
		}
		seen[f] = true
		callers, plain := c04PlainCallers(c, f)
		if !plain || len(callers) == 0 {
			return false
		}
		for _, cf := range callers {
			if !part(cf, depth+1) {
				return false
			}
		}
		return true
	}
	if part(fi, 0) {
		return root
	}
	return ""
}

// c04PlainCallers: the functions that call fi; plain=false if fi is referenced in any other way (as a value,
// from a function literal, in a go or defer statement).
func c04PlainCallers(c *Ctx, fi *FuncInfo) (callers []*FuncInfo, plain bool) {
	plain = true
	for _, f := range c.P.AllFuncs() {
		if f.Decl.Body == nil {
			continue
		}
		info := f.Pkg.TypesInfo
		used := false
		var stack []ast.Node
		ast.Inspect(f.Decl.Body, func(n ast.Node) bool {
			if n == nil {
				stack = stack[:len(stack)-1]
				return true
			}
			stack = append(stack, n)
			id, ok := n.(*ast.Ident)
			if !ok || info.Uses[id] != types.Object(fi.Obj) {
				return true
			}
			used = true
			// the identifier must be the callee of a call …
			var callee ast.Expr = id
			i := len(stack) - 2
			if i >= 0 {
				if sel, ok := stack[i].(*ast.SelectorExpr); ok && sel.Sel == id {
					callee = sel
					i--
				}
			}
			for i >= 0 {
				if p, ok := stack[i].(*ast.ParenExpr); ok {
					callee = p
					i--
					continue
				}
				break
			}
			var call *ast.CallExpr
			if i >= 0 {
				call, _ = stack[i].(*ast.CallExpr)
			}
			if call == nil || call.Fun != callee {
				plain = false
				return true
			}
			// … that is not started by go/defer and not inside a function literal
			if i >= 1 {
				switch t := stack[i-1].(type) {
				case *ast.GoStmt:
					if t.Call == call {
						plain = false
					}
				case *ast.DeferStmt:
					if t.Call == call {
						plain = false
					}
				}
			}
			for j := 0; j < i; j++ {
				if _, ok := stack[j].(*ast.FuncLit); ok {
					plain = false
				}
			}
			return true
		})
		if used {
			callers = append(callers, f)
		}
	}
	sort.Slice(callers, func(i, j int) bool { return callers[i].Name < callers[j].Name })
	return
}

// c04MayBeCalledDynamically: fi is a method and some interface type declared in its package has a method of
// that name (an unexported method can only be named by interfaces of its own package).
func c04MayBeCalledDynamically(c *Ctx, fi *FuncInfo) bool {
	sig, ok := fi.Obj.Type().(*types.Signature)
	if !ok || sig.Recv() == nil {
		return false
	}
	found := false
	for _, file := range fi.Pkg.Syntax {
		ast.Inspect(file, func(n ast.Node) bool {
			it, ok := n.(*ast.InterfaceType)
			if !ok || it.Methods == nil {
				return true
			}
			for _, m := range it.Methods.List {
				for _, nm := range m.Names {
					if nm.Name == fi.Obj.Name() {
						found = true
					}
				}
			}
			return true
		})
	}
	return found
}

// c04NeverReferenced: an unexported function that nothing in the repository refers to and that cannot be
// called through an interface. (After the global pre-pass has inlined a new helper into its callers the
// helper's declaration stays behind like this.)
func c04NeverReferenced(c *Ctx, fi *FuncInfo) bool {
	if fi.Obj == nil || fi.Obj.Exported() || fi.Obj.Name() == "init" || fi.Obj.Name() == "main" || c04MayBeCalledDynamically(c, fi) {
		return false
	}
	callers, plain := c04PlainCallers(c, fi)
	return plain && len(callers) == 0
}
