package main

// C20.i, Draw of a block image, in any loop structure.
//
// The cells of a block image are laid out row by row with the image's own width W (the width CellSize reports;
// Resize fills cell i from pixel column i mod W and pixel row pair i div W). Whatever loops Draw uses - one
// loop over the cells, nested loops over a rectangle (possibly only the visible part of the image), a row slice
// per line - the cell it puts at window position (x, y) must therefore be element y*W + x of the cell slice:
//
//     index of the element drawn  ==  (row argument of SetCell) * W + (column argument of SetCell)
//
// as an identity of integer polynomials over the loop variables. The rule decides exactly that:
//
//   * The executor runs in "symbolic loop" mode: on entry to a loop every variable the loop assigns and that
//     lives outside its body gets a fresh value - a pure counter ("ctr": only the post statement of the for
//     loop changes it) or an arbitrary loop-carried value ("loopval"). Index and slice expressions are kept as
//     values (index(base, i), slice(base, lo)), so `line := cells[y*W:]; line[x]` is element y*W + x of cells,
//     and the element variable of `for x, c := range row` is row[x].
//   * Column, row and element index are brought to polynomials; i % W is i - (i/W)*W. Values that a path
//     condition forces to be equal are identified.
//   * identity holds                                   -> ok (for all values of the loop variables)
//     it does not hold and every atom of the difference is a free quantity (a counter, a field, a parameter,
//     a result of a Window method)                     -> VIOLATED: for a window narrower than the image the
//                                                         cell at (x, y) shows the colour of another position
//     anything else (a running offset, a call result)  -> UNDECIDED
//
// The single-loop form of today's tree (for i, cell := range cells { y := i / W; x := i - y*W }) satisfies the
// identity as well: i == (i/W)*W + (i - (i/W)*W). It is still judged by the older, more specific recogniser in
// c20BlockDraw; this one takes over whenever that one does not recognise the loop.

import (
	"fmt"
	"go/ast"
	"go/constant"
	"go/token"
	"go/types"
	"sort"
	"strings"

	"golang.org/x/tools/go/cfg"
)

// ---------------------------------------------------------------------------
// symbolic loop mode of the executor

// havocLoop: st enters the head b of a loop; every variable (access path) that the loop assigns and that is
// declared outside the loop body gets a fresh value.
func (x *c20Exec) havocLoop(st *c20State, b *cfg.Block) {
	var body *ast.BlockStmt
	var post ast.Stmt
	switch s := b.Stmt.(type) {
	case *ast.ForStmt:
		switch {
		case b.Kind == cfg.KindForLoop:
		case b.Kind == cfg.KindForBody && s.Cond == nil:
		default:
			return
		}
		body, post = s.Body, s.Post
	case *ast.RangeStmt:
		if b.Kind != cfg.KindRangeLoop {
			return
		}
		body = s.Body
	default:
		return
	}
	if body == nil {
		return
	}
	type target struct {
		e      ast.Expr
		inPost bool
		step   bool // v++ / v-- / v += const / v -= const
	}
	var targets []target
	collect := func(top ast.Node, inPost bool) {
		if top == nil {
			return
		}
		ast.Inspect(top, func(n ast.Node) bool {
			switch t := n.(type) {
			case *ast.AssignStmt:
				for _, l := range t.Lhs {
					step := false
					if (t.Tok == token.ADD_ASSIGN || t.Tok == token.SUB_ASSIGN) && len(t.Rhs) == 1 {
						_, step = constInt(x.info, t.Rhs[0])
					}
					targets = append(targets, target{l, inPost, step})
				}
			case *ast.IncDecStmt:
				targets = append(targets, target{t.X, inPost, true})
			case *ast.RangeStmt:
				if t.Tok == token.ASSIGN {
					if t.Key != nil {
						targets = append(targets, target{t.Key, inPost, false})
					}
					if t.Value != nil {
						targets = append(targets, target{t.Value, inPost, false})
					}
				}
			case *ast.UnaryExpr:
				if t.Op == token.AND {
					targets = append(targets, target{t.X, inPost, false})
				}
			}
			return true
		})
	}
	collect(body, false)
	collect(post, true)
	type acc struct {
		e               ast.Expr
		nBody, nPost    int
		onlySteps, isID bool
	}
	byKey := map[string]*acc{}
	var order []string
	for _, t := range targets {
		e := unparen(t.e)
		for {
			if ix, ok := e.(*ast.IndexExpr); ok {
				e = unparen(ix.X)
				continue
			}
			if sl, ok := e.(*ast.SliceExpr); ok {
				e = unparen(sl.X)
				continue
			}
			break
		}
		if id, ok := e.(*ast.Ident); ok && id.Name == "_" {
			continue
		}
		root := rootObj(x.info, e)
		if root == nil {
			continue
		}
		if root.Pos() >= body.Pos() && root.Pos() <= body.End() {
			continue // lives in one iteration only
		}
		key := x.pathTerm(e).ID
		if strings.HasPrefix(key, "expr:") {
			continue
		}
		a := byKey[key]
		if a == nil {
			_, isID := e.(*ast.Ident)
			a = &acc{e: e, onlySteps: true, isID: isID}
			byKey[key] = a
			order = append(order, key)
		}
		if t.inPost {
			a.nPost++
		} else {
			a.nBody++
		}
		if !t.step {
			a.onlySteps = false
		}
	}
	// the counter of the loop: the one variable the post statement steps by +1, zero on this (first) entry
	var ctrKey string
	var ctrVal *c20Val
	if fs, ok := b.Stmt.(*ast.ForStmt); ok && fs.Post != nil {
		var cid *ast.Ident
		switch p := fs.Post.(type) {
		case *ast.IncDecStmt:
			if p.Tok == token.INC {
				cid, _ = unparen(p.X).(*ast.Ident)
			}
		case *ast.AssignStmt:
			if p.Tok == token.ADD_ASSIGN && len(p.Lhs) == 1 && len(p.Rhs) == 1 {
				if k, ok := constInt(x.info, p.Rhs[0]); ok && k == 1 {
					cid, _ = unparen(p.Lhs[0]).(*ast.Ident)
				}
			}
		}
		if cid != nil {
			k := x.pathTerm(cid).ID
			if a := byKey[k]; a != nil && a.isID && a.nBody == 0 && a.nPost == 1 {
				if cur, bound := st.env[k]; bound && cur.kind == "const" && cur.hasK && cur.k == 0 {
					ctrKey = k
				}
			}
		}
	}
	fresh := func(key string, a *acc) *c20Val {
		kind := "loopval"
		if a.isID && a.nBody == 0 && a.nPost == 1 && a.onlySteps {
			kind = "ctr"
		}
		return x.newVal(st, &c20Val{kind: kind, disp: types.ExprString(a.e), deps: map[string]bool{"free:" + types.ExprString(a.e): true}})
	}
	if ctrKey != "" {
		ctrVal = fresh(ctrKey, byKey[ctrKey])
	}
	assignedRoot := map[types.Object]bool{}
	for _, key := range order {
		if r := rootObj(x.info, byKey[key].e); r != nil {
			assignedRoot[r] = true
		}
	}
	for _, key := range order {
		a := byKey[key]
		if key == ctrKey {
			continue
		}
		if ctrVal != nil && a.isID && a.nPost == 0 && a.nBody == 1 {
			// a derived induction variable: stepped by a loop-invariant amount E exactly once per iteration
			// (a statement at the top level of a body that no `continue` cuts short): v0 + counter*E
			if op, factors, ok := x.inductionStep(body, a.e.(*ast.Ident), assignedRoot); ok {
				v0 := x.eval(st, a.e)
				ev := x.constVal(st, types.TypeAndValue{Type: types.Typ[types.Int], Value: constant.MakeInt64(1)}, "1")
				for i, f := range factors {
					fv := x.eval(st, f)
					if i == 0 {
						ev = fv
					} else {
						ev = x.newVal(st, &c20Val{kind: "bin", op: token.MUL, args: []*c20Val{ev, fv}, disp: ev.disp + "*" + fv.disp})
					}
				}
				prod := x.newVal(st, &c20Val{kind: "bin", op: token.MUL, args: []*c20Val{ctrVal, ev}, disp: ctrVal.disp + "*" + ev.disp})
				if op == token.COLON {
					x.bindKey(st, key, x.newVal(st, &c20Val{kind: "slice", args: []*c20Val{v0, prod}, disp: types.ExprString(a.e)}))
					continue
				}
				x.bindKey(st, key, x.newVal(st, &c20Val{kind: "bin", op: op, args: []*c20Val{v0, prod}, disp: types.ExprString(a.e)}))
				continue
			}
		}
		x.bindKey(st, key, fresh(key, a))
	}
	if ctrKey != "" {
		x.bindKey(st, ctrKey, ctrVal)
	}
}

// inductionStep: body steps the variable id exactly once per iteration by a loop-invariant amount. Either the
// statement is at the top level of the body and is `v += E`, `v -= E`, `v++`, `v--`, `v = v + E`, `v = v - E` or, for
// a slice, `v = v[E:]` (operator COLON: the slice advances by E elements); or
// a counted loop `for c := 0; c < B; c++` at the top level of the body, which nothing leaves early, steps it
// once per iteration of its own (then the amount is B times the inner amount; with B < 0 that loop runs in no
// iteration of the outer loop, and nothing is observed in it). E and B read nothing the loop assigns and call
// nothing, and no continue / goto of the body can skip the step. Returns the operator (ADD / SUB) and the
// factors whose product is the amount (none: 1).
func (x *c20Exec) inductionStep(body *ast.BlockStmt, id *ast.Ident, assigned map[types.Object]bool) (token.Token, []ast.Expr, bool) {
	obj := x.info.ObjectOf(id)
	if obj == nil || body == nil {
		return 0, nil, false
	}
	isV := func(e ast.Expr) bool {
		i, ok := unparen(e).(*ast.Ident)
		return ok && x.info.ObjectOf(i) == obj
	}
	var op token.Token
	var factors []ast.Expr
	found := 0
	for _, s := range body.List {
		switch t := s.(type) {
		case *ast.IncDecStmt:
			if isV(t.X) {
				found++
				op = token.ADD
				if t.Tok == token.DEC {
					op = token.SUB
				}
			}
		case *ast.AssignStmt:
			if len(t.Lhs) != 1 || len(t.Rhs) != 1 || !isV(t.Lhs[0]) {
				continue
			}
			switch t.Tok {
			case token.ADD_ASSIGN:
				found++
				op, factors = token.ADD, []ast.Expr{t.Rhs[0]}
			case token.SUB_ASSIGN:
				found++
				op, factors = token.SUB, []ast.Expr{t.Rhs[0]}
			case token.ASSIGN:
				// v = v[E:]: a slice that advances by E elements per iteration
				if se, ok := unparen(t.Rhs[0]).(*ast.SliceExpr); ok && isV(se.X) && se.Low != nil && se.High == nil && !se.Slice3 {
					found++
					op, factors = token.COLON, []ast.Expr{se.Low}
				}
				if be, ok := unparen(t.Rhs[0]).(*ast.BinaryExpr); ok {
					switch {
					case be.Op == token.ADD && isV(be.X):
						found++
						op, factors = token.ADD, []ast.Expr{be.Y}
					case be.Op == token.ADD && isV(be.Y):
						found++
						op, factors = token.ADD, []ast.Expr{be.X}
					case be.Op == token.SUB && isV(be.X):
						found++
						op, factors = token.SUB, []ast.Expr{be.Y}
					}
				}
			}
		case *ast.ForStmt:
			if !c20AssignsIn(x.info, t.Body, obj, "") {
				continue
			}
			bound := x.countedFromZero(t)
			if bound == nil {
				return 0, nil, false
			}
			early := false
			ast.Inspect(t.Body, func(n ast.Node) bool {
				switch n.(type) {
				case *ast.FuncLit:
					return false
				case *ast.BranchStmt:
					early = true
				}
				return !early
			})
			if early {
				return 0, nil, false
			}
			iop, ifac, ok := x.inductionStep(t.Body, id, assigned)
			if !ok {
				return 0, nil, false
			}
			found++
			op, factors = iop, append([]ast.Expr{bound}, ifac...)
		}
	}
	if found != 1 {
		return 0, nil, false
	}
	for _, f := range factors {
		okE := true
		ast.Inspect(f, func(n ast.Node) bool {
			switch m := n.(type) {
			case *ast.CallExpr:
				if tv, isConv := x.info.Types[m.Fun]; !isConv || !tv.IsType() {
					okE = false
				}
			case *ast.FuncLit:
				okE = false
			case *ast.Ident:
				if o := x.info.ObjectOf(m); o != nil && assigned[o] {
					okE = false
				}
			}
			return okE
		})
		if !okE {
			return 0, nil, false
		}
	}
	// nothing skips the step: no continue that belongs to this loop, no goto, no labelled continue
	skip := false
	var walk func(n ast.Node, inner bool)
	walk = func(n ast.Node, inner bool) {
		ast.Inspect(n, func(m ast.Node) bool {
			if m == nil || skip {
				return false
			}
			switch t := m.(type) {
			case *ast.FuncLit:
				return false
			case *ast.ForStmt:
				if m != n {
					walk(t.Body, true)
					return false
				}
			case *ast.RangeStmt:
				if m != n {
					walk(t.Body, true)
					return false
				}
			case *ast.BranchStmt:
				switch {
				case t.Tok == token.GOTO, t.Label != nil && t.Tok == token.CONTINUE:
					skip = true
				case t.Tok == token.CONTINUE && !inner:
					skip = true
				}
			}
			return true
		})
	}
	walk(body, false)
	if skip {
		return 0, nil, false
	}
	return op, factors, true
}

// countedFromZero: fs is `for c := 0; c < B; c++` (or `B > c`, `c += 1`) and its body does not assign c: B.
func (x *c20Exec) countedFromZero(fs *ast.ForStmt) ast.Expr {
	init, ok := fs.Init.(*ast.AssignStmt)
	if !ok || init.Tok != token.DEFINE || len(init.Lhs) != 1 || len(init.Rhs) != 1 {
		return nil
	}
	cid, ok := init.Lhs[0].(*ast.Ident)
	if !ok {
		return nil
	}
	if k, ok := constInt(x.info, init.Rhs[0]); !ok || k != 0 {
		return nil
	}
	cobj := x.info.Defs[cid]
	if cobj == nil {
		return nil
	}
	isC := func(e ast.Expr) bool {
		i, ok := unparen(e).(*ast.Ident)
		return ok && x.info.ObjectOf(i) == cobj
	}
	cond, ok := unparen(fs.Cond).(*ast.BinaryExpr)
	if fs.Cond == nil || !ok {
		return nil
	}
	var bound ast.Expr
	switch {
	case cond.Op == token.LSS && isC(cond.X):
		bound = cond.Y
	case cond.Op == token.GTR && isC(cond.Y):
		bound = cond.X
	default:
		return nil
	}
	switch p := fs.Post.(type) {
	case *ast.IncDecStmt:
		if p.Tok != token.INC || !isC(p.X) {
			return nil
		}
	case *ast.AssignStmt:
		if p.Tok != token.ADD_ASSIGN || len(p.Lhs) != 1 || len(p.Rhs) != 1 || !isC(p.Lhs[0]) {
			return nil
		}
		if k, ok := constInt(x.info, p.Rhs[0]); !ok || k != 1 {
			return nil
		}
	default:
		return nil
	}
	if c20AssignsIn(x.info, fs.Body, cobj, "") {
		return nil
	}
	return bound
}

// symIndex / symSlice: index and slice expressions as values (symbolic loop mode).
func (x *c20Exec) symIndex(st *c20State, t *ast.IndexExpr) *c20Val {
	if _, ok := x.info.TypeOf(t.X).Underlying().(*types.Map); ok {
		return nil
	}
	base, idx := x.eval(st, t.X), x.eval(st, t.Index)
	ck := fmt.Sprintf("index:%d:%d", base.id, idx.id)
	if v, ok := st.memo[ck]; ok {
		return v
	}
	v := x.newVal(st, &c20Val{kind: "index", args: []*c20Val{base, idx}, disp: types.ExprString(t)})
	st.memo[ck] = v
	return v
}

func (x *c20Exec) symSlice(st *c20State, t *ast.SliceExpr) *c20Val {
	base := x.eval(st, t.X)
	var lo *c20Val
	if t.Low != nil {
		lo = x.eval(st, t.Low)
	} else {
		lo = x.constVal(st, types.TypeAndValue{Type: types.Typ[types.Int], Value: constant.MakeInt64(0)}, "0")
	}
	ck := fmt.Sprintf("slice:%d:%d", base.id, lo.id)
	if v, ok := st.memo[ck]; ok {
		return v
	}
	v := x.newVal(st, &c20Val{kind: "slice", args: []*c20Val{base, lo}, disp: types.ExprString(t)})
	st.memo[ck] = v
	return v
}

// ---------------------------------------------------------------------------
// integer polynomials over values

type c20Poly struct {
	m     map[string]int64   // monomial (sorted atom keys joined by "*", "" = constant term) -> coefficient
	atoms map[string]*c20Val // atom key -> the value it stands for (nil for a synthetic atom)
}

func c20NewPoly() *c20Poly { return &c20Poly{m: map[string]int64{}, atoms: map[string]*c20Val{}} }

func c20PolyConst(k int64) *c20Poly {
	p := c20NewPoly()
	if k != 0 {
		p.m[""] = k
	}
	return p
}

func c20PolyAtom(key string, v *c20Val) *c20Poly {
	p := c20NewPoly()
	p.m[key] = 1
	p.atoms[key] = v
	return p
}

func (p *c20Poly) addScaled(q *c20Poly, k int64) *c20Poly {
	r := c20NewPoly()
	for mk, c := range p.m {
		r.m[mk] = c
	}
	for mk, c := range q.m {
		r.m[mk] += c * k
		if r.m[mk] == 0 {
			delete(r.m, mk)
		}
	}
	for a, v := range p.atoms {
		r.atoms[a] = v
	}
	for a, v := range q.atoms {
		r.atoms[a] = v
	}
	return r
}

func (p *c20Poly) mul(q *c20Poly) *c20Poly {
	r := c20NewPoly()
	for ma, ca := range p.m {
		for mb, cb := range q.m {
			var parts []string
			if ma != "" {
				parts = append(parts, strings.Split(ma, "*")...)
			}
			if mb != "" {
				parts = append(parts, strings.Split(mb, "*")...)
			}
			sort.Strings(parts)
			mk := strings.Join(parts, "*")
			r.m[mk] += ca * cb
			if r.m[mk] == 0 {
				delete(r.m, mk)
			}
		}
	}
	for a, v := range p.atoms {
		r.atoms[a] = v
	}
	for a, v := range q.atoms {
		r.atoms[a] = v
	}
	return r
}

func (p *c20Poly) isZero() bool { return len(p.m) == 0 }

// usedAtoms: the atoms that occur in a monomial with a non-zero coefficient.
func (p *c20Poly) usedAtoms() []string {
	set := map[string]bool{}
	for mk := range p.m {
		if mk == "" {
			continue
		}
		for _, a := range strings.Split(mk, "*") {
			set[a] = true
		}
	}
	return c20SortedKeys(set)
}

func (p *c20Poly) String() string {
	var keys []string
	for mk := range p.m {
		keys = append(keys, mk)
	}
	sort.Strings(keys)
	var sb strings.Builder
	for _, mk := range keys {
		c := p.m[mk]
		var names []string
		if mk != "" {
			for _, a := range strings.Split(mk, "*") {
				if v := p.atoms[a]; v != nil {
					names = append(names, v.disp)
				} else {
					names = append(names, a)
				}
			}
		}
		term := strings.Join(names, "*")
		switch {
		case mk == "":
			term = fmt.Sprint(c)
		case c == 1:
		case c == -1:
			term = "-" + term
		default:
			term = fmt.Sprintf("%d*%s", c, term)
		}
		if sb.Len() > 0 && !strings.HasPrefix(term, "-") {
			sb.WriteString(" + ")
		} else if sb.Len() > 0 {
			sb.WriteString(" - ")
			term = term[1:]
		}
		sb.WriteString(term)
	}
	if sb.Len() == 0 {
		return "0"
	}
	return sb.String()
}

// canonical text of a polynomial by atom keys (for the key of a quotient atom)
func (p *c20Poly) canon() string {
	var keys []string
	for mk := range p.m {
		keys = append(keys, mk)
	}
	sort.Strings(keys)
	var parts []string
	for _, mk := range keys {
		parts = append(parts, fmt.Sprintf("%d.%s", p.m[mk], mk))
	}
	return strings.Join(parts, "+")
}

// c20PolyOf: the integer term v as a polynomial. rename maps value ids to the id of the value they are known to
// equal on the path.
func c20PolyOf(v *c20Val, rename map[int]int, depth int) *c20Poly {
	if v == nil {
		return c20PolyAtom("nil", nil)
	}
	atom := func() *c20Poly {
		id := v.id
		if r, ok := rename[id]; ok {
			id = r
		}
		return c20PolyAtom(fmt.Sprintf("v%d", id), v)
	}
	if depth > 40 {
		return atom()
	}
	switch v.kind {
	case "const":
		if v.hasK {
			return c20PolyConst(v.k)
		}
	case "inc":
		if v.base != nil {
			return c20PolyOf(v.base, rename, depth+1).addScaled(c20PolyConst(int64(v.inc)), 1)
		}
	case "bin":
		if v.flt || len(v.args) != 2 {
			break
		}
		a, b := c20PolyOf(v.args[0], rename, depth+1), c20PolyOf(v.args[1], rename, depth+1)
		switch v.op {
		case token.ADD:
			return a.addScaled(b, 1)
		case token.SUB:
			return a.addScaled(b, -1)
		case token.MUL:
			return a.mul(b)
		case token.QUO, token.REM:
			qk := "q(" + a.canon() + "/" + b.canon() + ")"
			q := c20PolyAtom(qk, &c20Val{kind: "quo", disp: "(" + a.String() + ")/(" + b.String() + ")", args: v.args})
			if v.op == token.QUO {
				return q
			}
			r := a.addScaled(q.mul(b), -1) // a % b == a - (a/b)*b
			return r
		case token.SHL:
			if len(b.usedAtoms()) == 0 && b.m[""] >= 0 && b.m[""] < 31 {
				return a.mul(c20PolyConst(int64(1) << uint(b.m[""])))
			}
		}
	}
	return atom()
}

// ---------------------------------------------------------------------------
// references into the cell slice

// c20CellRef: v is an element of a slice; returns the slice value at the bottom (not itself a slice or index
// value) and the terms whose sum is the element's index in it.
func (x *c20Exec) c20CellRef(st *c20State, v *c20Val, depth int) (base *c20Val, idx []*c20Val, why string) {
	if v == nil || depth > 8 {
		return nil, nil, "not an element of a slice"
	}
	switch {
	case v.kind == "index" && len(v.args) == 2:
		b, off, w := x.c20SliceRef(st, v.args[0], depth+1)
		if b == nil {
			return nil, nil, w
		}
		return b, append(off, v.args[1]), ""
	case v.kind == "rangevar" && !v.isKey && v.rs != nil:
		// the element variable of `for k, e := range X`: X[k]
		var key *c20Val
		if len(v.args) == 1 && v.args[0] != nil && v.args[0].isKey {
			key = v.args[0] // X[i] of an index loop (elemOf)
		}
		if key == nil {
			for i := len(st.vals) - 1; i >= 0; i-- {
				if k := st.vals[i]; k.kind == "rangevar" && k.isKey && k.rs == v.rs {
					key = k
					break
				}
			}
		}
		if key == nil {
			return nil, nil, "the range loop that yields the cell does not bind the index"
		}
		// the list expression must mean at the element what it meant at the loop head
		assigned := false
		ast.Inspect(v.rs.X, func(n ast.Node) bool {
			if id, ok := n.(*ast.Ident); ok {
				if obj, isVar := x.info.ObjectOf(id).(*types.Var); isVar && !obj.IsField() && v.rs.Body != nil && c20AssignsIn(x.info, v.rs.Body, obj, "") {
					assigned = true
				}
			}
			return true
		})
		if t := x.pathTerm(v.rs.X); !strings.HasPrefix(t.ID, "expr:") && v.rs.Body != nil && c20AssignsIn(x.info, v.rs.Body, nil, t.ID) {
			assigned = true
		}
		if assigned {
			return nil, nil, "the list of the range loop is assigned inside the loop"
		}
		b, off, w := x.c20SliceRef(st, x.eval(st, v.rs.X), depth+1)
		if b == nil {
			return nil, nil, w
		}
		return b, append(off, key), ""
	}
	return nil, nil, fmt.Sprintf("%s is not an element of a slice", v.disp)
}

func (x *c20Exec) c20SliceRef(st *c20State, v *c20Val, depth int) (base *c20Val, off []*c20Val, why string) {
	if v == nil || depth > 8 {
		return nil, nil, "not a slice"
	}
	switch v.kind {
	case "slice":
		b, o, w := x.c20SliceRef(st, v.args[0], depth+1)
		if b == nil {
			return nil, nil, w
		}
		return b, append(o, v.args[1]), ""
	case "root":
		return v, nil, ""
	}
	return nil, nil, fmt.Sprintf("%s is not a slice the executor can follow to a field", v.disp)
}

// ---------------------------------------------------------------------------
// the rule

func c20BlockDrawRect(c *Ctx, k *c20Kind, key string) {
	fi := k.draw
	info := fi.Pkg.TypesInfo
	recv := c20RecvObj(info, fi.Decl)
	params := c20Params(info, fi.Decl.Type)
	g := c.P.Graph(fi)
	x := c20NewExec(c, g, map[types.Object]string{recv: "recv", params[0]: "win"})
	x.sym = true
	x.indexInit = nil // the induction variable of an index loop is a counter like any other here
	agg := c20NewAgg(c)
	agg.declare("C20.i", key, fi.Decl.Pos())
	sets := g.Calls(func(fn *types.Func, call *ast.CallExpr) bool {
		return fn != nil && repoName(fn) == "vaxis.Window.SetCell"
	})
	at := map[Loc]*ast.CallExpr{}
	for _, h := range sets {
		at[h.Loc] = h.Node.(*ast.CallExpr)
	}
	wname := recv.Name() + "." + k.sizeF[0].Name()
	isW := func(v *c20Val) bool {
		return v != nil && v.kind == "root" && v.fld == k.sizeF[0] && strings.HasPrefix(v.disp, recv.Name()+".")
	}
	// free: an atom that can take any value independently of the image's width
	var free func(v *c20Val, depth int) bool
	free = func(v *c20Val, depth int) bool {
		if v == nil || depth > 6 {
			return false
		}
		switch v.kind {
		case "ctr", "root":
			return true
		case "rangevar":
			return v.isKey
		case "result":
			return len(v.args) == 1 && free(v.args[0], depth+1)
		case "call":
			// a method of the window: the window knows nothing about the image
			if v.fn == nil {
				return false
			}
			sig, _ := v.fn.Type().(*types.Signature)
			return sig != nil && sig.Recv() != nil && c20IsNamed(sig.Recv().Type(), modPath, "Window")
		case "min", "max":
			for _, a := range v.args {
				if !free(a, depth+1) && !(a.kind == "const" && a.hasK) {
					return false
				}
			}
			return len(v.args) > 0
		}
		return false
	}
	x.run(func(st *c20State, l Loc, n ast.Node) bool {
		call, ok := at[l]
		if !ok || len(call.Args) != 3 {
			return false
		}
		p := call.Pos()
		xv, yv, cell := x.eval(st, call.Args[0]), x.eval(st, call.Args[1]), x.eval(st, call.Args[2])
		// the stored value the cell shows
		shown := cell
		if b, _, _ := x.c20CellRef(st, cell, 0); b == nil {
			glyph, fg, bg, ok := x.cellOf(st, call.Args[2])
			halves, known := c20Glyphs[glyph]
			if !ok || !known || halves[0] != halves[1] {
				agg.und("C20.i", key, p, "the cell drawn (%s) is neither an element of the cell slice nor a one-colour block literal", types.ExprString(call.Args[2]))
				return true
			}
			shown = bg
			if halves[0] == 'F' {
				shown = fg
			}
			if shown == nil {
				agg.bad("C20.i", key, p, "the visible colour of glyph %q is not the stored colour of a cell", glyph)
				return true
			}
		}
		base, idxTerms, why := x.c20CellRef(st, shown, 0)
		if base == nil {
			agg.und("C20.i", key, p, "the colour drawn is not read from the cell slice in a form the executor follows: %s", why)
			return true
		}
		if base.fld == nil || !strings.HasPrefix(base.disp, recv.Name()+".") {
			agg.und("C20.i", key, p, "the cell drawn is an element of %s, which is not a field of the receiver", base.disp)
			return true
		}
		if _, isSlice := base.fld.Type().Underlying().(*types.Slice); !isSlice {
			agg.und("C20.i", key, p, "the cell drawn is an element of %s, which is not a slice field", base.disp)
			return true
		}
		// values a path condition forces to be equal are one atom
		rename := map[int]int{}
		var wv *c20Val
		for _, v := range st.env {
			if isW(v) {
				wv = v
			}
		}
		if wv != nil {
			for _, v := range st.vals {
				if v != wv && v.kind != "const" && st.relOf(v, wv) == c20EQ {
					rename[v.id] = wv.id
				}
			}
		}
		idx := c20PolyConst(0)
		for _, t := range idxTerms {
			idx = idx.addScaled(c20PolyOf(t, rename, 0), 1)
		}
		var wp *c20Poly
		if wv != nil {
			wp = c20PolyOf(wv, rename, 0)
		} else {
			wp = c20PolyAtom("W", &c20Val{kind: "root", disp: wname})
		}
		px, py := c20PolyOf(xv, rename, 0), c20PolyOf(yv, rename, 0)
		want := py.mul(wp).addScaled(px, 1)
		diff := idx.addScaled(want, -1)
		if diff.isZero() {
			agg.ok("C20.i", key, p, "SetCell(%s, %s, element %s of %s): index == row*%s + column", xv.disp, yv.disp, idx.String(), base.disp, wname)
			return true
		}
		allFree := true
		var notFree string
		for _, a := range diff.usedAtoms() {
			v := diff.atoms[a]
			if v == nil || !free(v, 0) {
				allFree = false
				if v != nil {
					notFree = v.disp
				} else {
					notFree = a
				}
				break
			}
		}
		if !allFree {
			agg.und("C20.i", key, p, "the cell at (%s, %s) is element %s of %s; whether that is row*%s + column depends on %s, which the executor does not know", xv.disp, yv.disp, idx.String(), base.disp, wname, notFree)
			return true
		}
		agg.bad("C20.i", key, p, "on the path [%s] the cell put at column %s, row %s is element %s of %s, not element %s (row * %s + column, the layout Resize gave the cells): when the stride used differs from the image's width (a window narrower than the image) every cell below the first row shows the colour of another source position",
			c20Conds(st), xv.disp, yv.disp, idx.String(), base.disp, want.String(), wname)
		return true
	}, nil)
	agg.flush()
}
