package main

// C04.k — Resume re-establishes the PROCESS-LEVEL hooks that the exit path takes down.
//
// C04.g says "what Suspend resets, Resume sets again" for terminal modes. The same holds one level up: the
// kill-signal handler is what turns a termination signal into a Close (and so into a restored terminal), and
// Suspend stops it (signal.Stop). For every channel whose signal.Notify registration the exit path stops:
//
//     in every session  New ; (Suspend ; Resume)+  in which start-up registered the handler and Suspend stopped
//     it, every successful return of Resume has registered it again.
//
// Whether Resume registers may depend on immutable options (Options.NoSignals, a copy of it made by New) or on
// capability flags (C04.d), but not on state that Suspend itself (or an earlier Resume) changed: a flag "handlers
// are installed" that Suspend clears and Resume tests is false whenever Resume looks at it.
//
// Decision: the three functions are executed abstractly, one after the other, over their go/cfg graphs by the
// path-sensitive search of c04flow.go. The state is the value of the boolean fields that decide (transitively)
// whether a signal.Notify / signal.Stop call is reached, plus one mark per channel ("registered", "stopped").
// Helper functions that contain such a call or write such a field are analysed in place with their boolean
// parameters bound; fields of the freshly constructed Vaxis start as false; option fields that nothing writes
// are enumerated; conditions the state does not decide are followed both ways (and refine the state); returns
// of a non-nil error are not "successful returns". The code shape does not matter: `if vx.noSignals { return }`,
// a flag variable, a predicate method, an extracted helper or setupSignals written out in Resume all give the
// same sequence of marks.

import (
	"fmt"
	"go/ast"
	"go/types"
	"sort"
	"strings"
)

func init() { registerExtra("C04", c04HooksReestablished) }

const (
	c04kReg  = "#reg:"
	c04kStop = "#stop:"
)

type c04kSite struct {
	notify bool
	chans  []string
}

// c04kChanPaths: the canonical name(s) of the channel argument of a Notify/Stop call. A range variable over a
// literal list of channels stands for each of its elements.
func c04kChanPaths(info *types.Info, e ast.Expr) []string {
	e = unparen(e)
	if id, ok := e.(*ast.Ident); ok {
		if v, ok := info.ObjectOf(id).(*types.Var); ok && v.Pkg() != nil && v.Parent() == v.Pkg().Scope() {
			return []string{"var:" + v.Name()}
		}
		var src ast.Expr
		if rx := rangeSourceOf(info, id); rx != nil {
			src = unparen(rx)
			if sid, ok := src.(*ast.Ident); ok {
				if def := singleDefOf(info, info.ObjectOf(sid)); def != nil {
					src = unparen(def)
				}
			}
		}
		if lit, ok := src.(*ast.CompositeLit); ok {
			var out []string
			for _, el := range lit.Elts {
				if _, isKV := el.(*ast.KeyValueExpr); isKV {
					return []string{"?" + types.ExprString(e)}
				}
				out = append(out, c04kChanPaths(info, el)...)
			}
			if len(out) > 0 {
				return out
			}
		}
	}
	// row.ch with row the value variable of a range over a literal table of structs: the ch of every row
	if sel, ok := e.(*ast.SelectorExpr); ok {
		if xid, ok := unparen(sel.X).(*ast.Ident); ok {
			if rx := rangeSourceOf(info, xid); rx != nil {
				src := unparen(rx)
				if sid, ok := src.(*ast.Ident); ok {
					if def := singleDefOf(info, info.ObjectOf(sid)); def != nil {
						src = unparen(def)
					}
				}
				if lit, ok := src.(*ast.CompositeLit); ok {
					if out := c04kRowField(info, lit, sel.Sel.Name); len(out) > 0 {
						return out
					}
				}
			}
		}
	}
	if _, ok := e.(*ast.Ident); !ok {
		if p := canonPath(info, e); p != "" {
			return []string{p}
		}
	}
	if id, ok := e.(*ast.Ident); ok {
		if src := localAliasOf(info, id); src != nil {
			return c04kChanPaths(info, src)
		}
	}
	return []string{"?" + types.ExprString(e)}
}

// c04kRowField: the channel each row of a literal table of structs holds in field name ("" rows: nil).
func c04kRowField(info *types.Info, lit *ast.CompositeLit, name string) []string {
	var st *types.Struct
	switch t := info.TypeOf(lit).Underlying().(type) {
	case *types.Slice:
		st, _ = t.Elem().Underlying().(*types.Struct)
	case *types.Array:
		st, _ = t.Elem().Underlying().(*types.Struct)
	}
	if st == nil {
		return nil
	}
	idx := -1
	for i := 0; i < st.NumFields(); i++ {
		if st.Field(i).Name() == name {
			idx = i
		}
	}
	if idx < 0 {
		return nil
	}
	var out []string
	for _, el := range lit.Elts {
		if kv, ok := el.(*ast.KeyValueExpr); ok {
			el = kv.Value
		}
		row, ok := unparen(el).(*ast.CompositeLit)
		if !ok {
			return nil
		}
		var val ast.Expr
		for i, fe := range row.Elts {
			if kv, ok := fe.(*ast.KeyValueExpr); ok {
				if id, ok := kv.Key.(*ast.Ident); ok && id.Name == name {
					val = kv.Value
				}
			} else if i == idx {
				val = fe
			}
		}
		if val == nil {
			continue // the zero value: no channel
		}
		out = append(out, c04kChanPaths(info, val)...)
	}
	return out
}

// c04kBoolReads: canonical paths of the boolean fields that evaluating e reads (locals followed to their single
// definition, repository predicates into their bodies).
func c04kBoolReads(p *Program, info *types.Info, e ast.Node, depth int, out map[string]bool) {
	if e == nil || depth > 3 {
		return
	}
	seen := map[types.Object]bool{}
	var visit func(n ast.Node) bool
	visit = func(n ast.Node) bool {
		switch t := n.(type) {
		case *ast.FuncLit:
			return false
		case *ast.SelectorExpr:
			if sel, ok := info.Selections[t]; ok && sel.Kind() == types.FieldVal {
				if c04IsBool(info, t) {
					if cp := canonPath(info, t); cp != "" {
						out[cp] = true
					}
				}
				return true
			}
		case *ast.CallExpr:
			if op := c04FlagOpOf(p, info, t); op != nil {
				out[op.path] = true // a flag behind sync/atomic (c04atomic.go)
				return false
			}
			if fn := calleeOf(info, t); fn != nil {
				if fi := p.FuncOfObj(fn); fi != nil && fi.Decl.Body != nil && len(fi.Decl.Body.List) <= 3 {
					c04kBoolReads(p, fi.Pkg.TypesInfo, fi.Decl.Body, depth+1, out)
				}
			}
		case *ast.Ident:
			v, ok := info.Uses[t].(*types.Var)
			if !ok || v.IsField() || v.Pkg() == nil || v.Parent() == v.Pkg().Scope() || seen[v] {
				return true
			}
			seen[v] = true
			if def := singleDefOf(info, v); def != nil {
				ast.Inspect(def, visit)
			}
		}
		return true
	}
	ast.Inspect(e, visit)
}

func c04kIsErrorType(t types.Type) bool {
	return t != nil && types.Identical(t, types.Universe.Lookup("error").Type())
}

// c04kErrorExit: rs returns a non-nil error from a function whose last result is an error — a failed call has
// not resumed (or started) anything.
func c04kErrorExit(g *FG, rs *ast.ReturnStmt) bool {
	if g.Type == nil || g.Type.Results == nil || len(g.Type.Results.List) == 0 || len(rs.Results) == 0 {
		return false
	}
	last := g.Type.Results.List[len(g.Type.Results.List)-1]
	if !c04kIsErrorType(g.Info.TypeOf(last.Type)) {
		return false
	}
	r := unparen(rs.Results[len(rs.Results)-1])
	if len(rs.Results) == 1 {
		if _, isCall := r.(*ast.CallExpr); isCall {
			if tup, ok := g.Info.TypeOf(r).(*types.Tuple); ok && tup.Len() > 1 {
				return false
			}
		}
	}
	switch t := r.(type) {
	case *ast.Ident:
		if t.Name == "nil" {
			return false
		}
		if v, ok := g.Info.ObjectOf(t).(*types.Var); ok {
			if v.Pkg() != nil && v.Parent() == v.Pkg().Scope() {
				return true // a package-level error value
			}
			loc, found := g.Locate(rs)
			if !found {
				return false
			}
			for _, gd := range g.Guards(loc) {
				be, ok := unparen(gd.Cond.Expr).(*ast.BinaryExpr)
				if !ok || gd.Cond.Tag != nil || gd.Cond.Alts != nil {
					continue
				}
				x, y := unparen(be.X), unparen(be.Y)
				if yi, ok := x.(*ast.Ident); ok && yi.Name == "nil" {
					x, y = y, x
				}
				xi, ok1 := x.(*ast.Ident)
				yi, ok2 := y.(*ast.Ident)
				if !ok1 || !ok2 || yi.Name != "nil" || g.Info.ObjectOf(xi) != types.Object(v) {
					continue
				}
				if be.Op.String() == "!=" && gd.Pol || be.Op.String() == "==" && !gd.Pol {
					return true
				}
			}
		}
		return false
	case *ast.SelectorExpr:
		if v, ok := g.Info.Uses[t.Sel].(*types.Var); ok && !v.IsField() {
			return true // pkg.ErrSomething
		}
	case *ast.CallExpr:
		if fn := calleeOf(g.Info, t); fn != nil {
			switch fullName(fn) {
			case "errors.New", "fmt.Errorf", "errors.Join":
				return true
			}
		}
	}
	return false
}

func c04kDescribe(env c04Env, fields map[string]bool) string {
	var ks []string
	for k, v := range env {
		if fields[k] {
			ks = append(ks, fmt.Sprintf("%s=%v", k, v))
		}
	}
	sort.Strings(ks)
	if len(ks) == 0 {
		return "(no tracked state)"
	}
	return strings.Join(ks, ", ")
}

func c04HooksReestablished(c *Ctx) {
	c.Clauses = append(c.Clauses, "C04.k every signal.Notify registration that the exit path stops (signal.Stop) and that start-up made is made again by every successful Resume, in every session New;(Suspend;Resume)+ (the decision may rest on immutable options and capability flags, not on state that Suspend or an earlier Resume changed)")
	c.expect("C04.k", 2)
	nw := c.P.Func("vaxis.New")
	suspend := c.P.Func("vaxis.(*Vaxis).Suspend")
	resume := c.P.Func("vaxis.(*Vaxis).Resume")
	pk := c.P.Pkg("vaxis")
	if nw == nil || suspend == nil || resume == nil || pk == nil {
		c.undecided("C04.k", "vaxis.New/Suspend/Resume", 0, "New, Suspend or Resume not found")
		return
	}
	info := pk.TypesInfo
	funcs := c.P.FuncsIn("vaxis")

	// ---- 1. the registration / deregistration sites
	sites := map[*ast.CallExpr]*c04kSite{}
	direct := map[string]bool{} // functions that contain a site (function literals belong to their function)
	type located struct {
		fi   *FuncInfo
		call *ast.CallExpr
	}
	var siteList []located
	for _, fi := range funcs {
		if fi.Decl.Body == nil {
			continue
		}
		ast.Inspect(fi.Decl.Body, func(n ast.Node) bool {
			call, ok := n.(*ast.CallExpr)
			if !ok || len(call.Args) == 0 {
				return true
			}
			fn := calleeOf(info, call)
			if fn == nil {
				return true
			}
			switch fullName(fn) {
			case "os/signal.Notify":
				sites[call] = &c04kSite{notify: true, chans: c04kChanPaths(info, call.Args[0])}
			case "os/signal.Stop":
				sites[call] = &c04kSite{notify: false, chans: c04kChanPaths(info, call.Args[0])}
			default:
				return true
			}
			direct[fi.Name] = true
			siteList = append(siteList, located{fi, call})
			return true
		})
	}
	exitFns := staticReach(c.P, suspend)
	stopped := map[string]ast.Node{}
	for _, s := range siteList {
		if !sites[s.call].notify && exitFns[s.fi.Name] {
			for _, ch := range sites[s.call].chans {
				if _, ok := stopped[ch]; !ok {
					stopped[ch] = s.call
				}
			}
		}
	}
	if len(stopped) == 0 {
		return // nothing is taken down (the minimum fails the check if the recogniser lost the construct)
	}

	// ---- 2. the boolean state that decides whether a site is reached
	fields := map[string]bool{}
	guardReadsAt := func(fi *FuncInfo, n ast.Node, out map[string]bool) {
		g := c.P.Graph(fi)
		if g == nil {
			return
		}
		loc, ok := g.Locate(n)
		if !ok {
			return
		}
		for _, gd := range g.Guards(loc) {
			c04kBoolReads(c.P, g.Info, gd.Cond.Expr, 0, out)
			if gd.Cond.Tag != nil {
				c04kBoolReads(c.P, g.Info, gd.Cond.Tag, 0, out)
			}
			for _, a := range gd.Cond.Alts {
				c04kBoolReads(c.P, g.Info, a, 0, out)
			}
		}
	}
	// guards of n in fi, and of the calls that lead to fi (a few levels up)
	var chainReads func(fi *FuncInfo, n ast.Node, depth int, out map[string]bool, seen map[string]bool)
	chainReads = func(fi *FuncInfo, n ast.Node, depth int, out map[string]bool, seen map[string]bool) {
		guardReadsAt(fi, n, out)
		if depth >= 3 || seen[fi.Name] || fi.Obj == nil {
			return
		}
		seen[fi.Name] = true
		callers, _ := c.P.CallersOf(fi)
		for _, cf := range callers {
			if cf.Decl.Body == nil || cf.Pkg != fi.Pkg {
				continue
			}
			ast.Inspect(cf.Decl.Body, func(m ast.Node) bool {
				if call, ok := m.(*ast.CallExpr); ok {
					if fn := calleeOf(info, call); fn != nil && types.Object(fn) == types.Object(fi.Obj) {
						chainReads(cf, call, depth+1, out, seen)
					}
				}
				return true
			})
		}
	}
	for _, s := range siteList {
		chainReads(s.fi, s.call, 0, fields, map[string]bool{})
	}
	// writes of a tracked field: their guards and right-hand sides decide too
	type write struct {
		fi   *FuncInfo
		node ast.Node
		rhs  []ast.Expr
	}
	writesOf := func(path string) []write {
		var out []write
		for _, fi := range funcs {
			if fi.Decl.Body == nil {
				continue
			}
			ast.Inspect(fi.Decl.Body, func(m ast.Node) bool {
				for _, w := range c04NodeWrites(info, m) {
					if c04PathsOverlap(w, path) {
						wr := write{fi: fi, node: m}
						if as, ok := m.(*ast.AssignStmt); ok {
							wr.rhs = as.Rhs
						}
						out = append(out, wr)
						break
					}
				}
				return true
			})
		}
		return out
	}
	const maxFields = 10
	for round := 0; round < 4; round++ {
		before := len(fields)
		var cur []string
		for f := range fields {
			cur = append(cur, f)
		}
		sort.Strings(cur)
		for _, f := range cur {
			for _, w := range writesOf(f) {
				add := map[string]bool{}
				chainReads(w.fi, w.node, 1, add, map[string]bool{})
				for _, r := range w.rhs {
					c04kBoolReads(c.P, info, r, 0, add)
				}
				var as []string
				for a := range add {
					as = append(as, a)
				}
				sort.Strings(as)
				for _, a := range as {
					if len(fields) < maxFields {
						fields[a] = true
					}
				}
			}
		}
		if len(fields) == before {
			break
		}
	}
	// fields the functions under analysis write, per function (closed over static calls)
	writesMemo := map[string][]string{}
	writtenBy := func(fi *FuncInfo) []string {
		if v, ok := writesMemo[fi.Name]; ok {
			return v
		}
		set := map[string]bool{}
		for fn := range staticReach(c.P, fi) {
			f := c.P.Func(fn)
			if f == nil || f.Decl.Body == nil || f.Pkg != pk {
				continue
			}
			for w := range c04WrittenPaths(info, f.Decl.Body) {
				for fld := range fields {
					if c04PathsOverlap(w, fld) {
						set[fld] = true
					}
				}
			}
		}
		var out []string
		for k := range set {
			out = append(out, k)
		}
		sort.Strings(out)
		writesMemo[fi.Name] = out
		return out
	}
	relevantMemo := map[string]bool{}
	relevant := func(fi *FuncInfo) bool {
		if v, ok := relevantMemo[fi.Name]; ok {
			return v
		}
		r := len(writtenBy(fi)) > 0
		for fn := range staticReach(c.P, fi) {
			if direct[fn] {
				r = true
			}
		}
		relevantMemo[fi.Name] = r
		return r
	}

	// ---- 3. abstract execution of one of the three functions from a state
	run := func(root *FuncInfo, init c04Env) []c04Env {
		g := c.P.Graph(root)
		flow := &c04Flow{p: c.P, g: g, fields: fields, refine: true, bindArgs: true, maxDepth: 6}
		flow.descend = func(call *ast.CallExpr) *FG {
			cf := c.P.FuncOfObj(calleeOf(info, call))
			if cf == nil || cf.Decl.Body == nil || cf.Pkg != pk || !relevant(cf) {
				return nil
			}
			return c.P.Graph(cf)
		}
		flow.kills = func(call *ast.CallExpr) []string {
			cf := c.P.FuncOfObj(calleeOf(info, call))
			if cf == nil || cf.Pkg != pk {
				return nil
			}
			return writtenBy(cf)
		}
		flow.effect = func(n ast.Node, env c04Env) c04Env {
			inspectNoLit(n, func(m ast.Node) bool {
				call, ok := m.(*ast.CallExpr)
				if !ok {
					return true
				}
				s := sites[call]
				if s == nil {
					return true
				}
				env = env.clone()
				for _, ch := range s.chans {
					if s.notify {
						env[c04kReg+ch] = true
					} else {
						delete(env, c04kReg+ch)
						env[c04kStop+ch] = true
					}
				}
				return true
			})
			return env
		}
		rootReturns := map[*ast.ReturnStmt]bool{}
		inspectNoLit(root.Decl.Body, func(m ast.Node) bool {
			if rs, ok := m.(*ast.ReturnStmt); ok {
				rootReturns[rs] = c04kErrorExit(g, rs)
			}
			return true
		})
		var exits []c04Env
		seen := map[string]bool{}
		flow.run(init, func(n ast.Node, env c04Env) bool {
			rs, ok := n.(*ast.ReturnStmt)
			if !ok {
				return true
			}
			static, isRoot := rootReturns[rs]
			if !isRoot {
				return true
			}
			// the returned error is a local whose nil-ness the path has decided
			if len(rs.Results) > 0 {
				if nk, ok := flow.nilSlot(info, rs.Results[len(rs.Results)-1]); ok {
					if isNil, known := env[nk]; known {
						return isNil
					}
				}
			}
			return !static
		}, func(env c04Env) {
			// the locals of the finished call mean nothing to the next one
			out := c04Env{}
			for k, v := range env {
				if !strings.HasPrefix(k, "local:") {
					out[k] = v
				}
			}
			if k := out.key(); !seen[k] {
				seen[k] = true
				exits = append(exits, out)
			}
		})
		sort.Slice(exits, func(i, j int) bool { return exits[i].key() < exits[j].key() })
		return exits
	}

	// ---- 4. the sessions
	// inputs: tracked option fields that nothing writes; fields of the Vaxis under construction start as false
	litKeys := map[string]bool{}
	ast.Inspect(nw.Decl.Body, func(m ast.Node) bool {
		if cl, ok := m.(*ast.CompositeLit); ok {
			if name := anchorType(info.TypeOf(cl)); name != "" {
				for _, el := range cl.Elts {
					if kv, ok := el.(*ast.KeyValueExpr); ok {
						if id, ok := kv.Key.(*ast.Ident); ok {
							litKeys[name+"."+id.Name] = true
						}
					}
				}
			}
		}
		return true
	})
	var inputs []string
	base := c04Env{}
	var fieldList []string
	for f := range fields {
		fieldList = append(fieldList, f)
	}
	sort.Strings(fieldList)
	for _, f := range fieldList {
		if strings.HasPrefix(f, "Vaxis.") {
			keyed := false
			for k := range litKeys {
				if c04PathsOverlap(k, f) {
					keyed = true
				}
			}
			if !keyed {
				base[f] = false
			}
			continue
		}
		if len(writesOf(f)) == 0 && len(inputs) < 4 {
			inputs = append(inputs, f)
		}
	}

	type finding struct {
		pos  ast.Node
		text string
	}
	violated := map[string]finding{}
	confirmed := map[string]string{}
	strip := func(env c04Env) c04Env {
		out := c04Env{}
		for k, v := range env {
			if !strings.HasPrefix(k, c04kStop) {
				out[k] = v
			}
		}
		return out
	}
	for mask := 0; mask < 1<<len(inputs); mask++ {
		init := base.clone()
		var cfgDesc []string
		for i, in := range inputs {
			init[in] = mask&(1<<i) != 0
			cfgDesc = append(cfgDesc, fmt.Sprintf("%s=%v", in, init[in]))
		}
		frontier := run(nw, init)
		seenStart := map[string]bool{}
		for cycle := 1; cycle <= 3 && len(frontier) > 0; cycle++ {
			var next []c04Env
			for _, e1 := range frontier {
				e1 = strip(e1)
				if seenStart[e1.key()] {
					continue
				}
				seenStart[e1.key()] = true
				for _, e2 := range run(suspend, e1) {
					for _, e3 := range run(resume, e2) {
						for ch := range stopped {
							if !e1[c04kReg+ch] || !e2[c04kStop+ch] {
								continue
							}
							if e3[c04kReg+ch] {
								if _, ok := confirmed[ch]; !ok {
									confirmed[ch] = fmt.Sprintf("e.g. with %s: registered again in Suspend/Resume cycle %d (state at Resume: %s)", strings.Join(cfgDesc, ", "), cycle, c04kDescribe(e2, fields))
								}
							} else if _, ok := violated[ch]; !ok {
								violated[ch] = finding{stopped[ch], fmt.Sprintf("with %s the handler is registered before Suspend/Resume cycle %d (state: %s); Suspend stops it and leaves %s; a successful Resume returns without signal.Notify on this channel", strings.Join(cfgDesc, ", "), cycle, c04kDescribe(e1, fields), c04kDescribe(e2, fields))}
							}
						}
						next = append(next, e3)
					}
				}
			}
			frontier = next
		}
	}
	if len(confirmed) == 0 && len(violated) == 0 {
		c.undecided("C04.k", resume.Name+"/a session in which a handler is registered, stopped and registered again", resume.Decl.Pos(),
			"the exit path stops signal handlers, but no explored session New;Suspend;Resume registers one at start-up and stops it in Suspend: the registration sites are not recognised")
	}
	var chans []string
	for ch := range stopped {
		chans = append(chans, ch)
	}
	sort.Strings(chans)
	for _, ch := range chans {
		key := resume.Name + "/handler on " + ch + " stopped by the exit path is registered again"
		switch {
		case violated[ch].text != "":
			c.bad("C04.k", key, violated[ch].pos.Pos(), "%s: after that cycle a termination signal (or SIGWINCH) no longer reaches the input goroutine, Close never runs and the terminal is not restored", violated[ch].text)
		case confirmed[ch] != "":
			c.ok("C04.k", key, stopped[ch].Pos(), "in every session New;(Suspend;Resume)+ explored, a registration that start-up made and Suspend stopped is made again by Resume; %s", confirmed[ch])
		default:
			c.okTrivial("C04.k", key, stopped[ch].Pos(), "no explored start-up path registers a handler on this channel")
		}
	}
}
