// C18.e: lengths that are fixed by the program text (round 3 of the robustness work).
//
// A consumer that replaces a run of one-line switch cases by a lookup table indexes the table with a parameter value.
// Whether that can panic is decided like every other index expression of the consumer (a dominating guard must bound
// the index), but the bound is a constant of the table rather than a len() guard: the table's length is
//   - the array length for X of an array type (or a pointer to an array),
//   - for a slice-typed variable that is never given another value: the length of the slice literal (largest constant
//     key, or position, plus one) or of the make([]T, N) with constant N it is defined by. "Never given another value"
//     means, for a package-level variable: no assignment to the variable itself, no & of it and no use as a range
//     variable in any package of the repository (element stores do not change the length); for a local: exactly one
//     definition (singleDef of the caller).
//
// Anything else has no static length (-1) and is judged by the len() guards in force, as before.
package main

import (
	"go/ast"
	"go/token"
	"go/types"
)

var c18TableLenMemo = map[types.Object]int64{}

func c18TableLen(c *Ctx, fi *FuncInfo, X ast.Expr, singleDef func(types.Object) ast.Expr) int64 {
	info := fi.Pkg.TypesInfo
	X = unparen(X)
	if cl, ok := X.(*ast.CompositeLit); ok { // []T{...}[i]
		return c18LitLen(info, cl)
	}
	var id *ast.Ident
	switch t := X.(type) {
	case *ast.Ident:
		id = t
	case *ast.SelectorExpr:
		if _, isSel := info.Selections[t]; isSel {
			return -1 // a field: no static length
		}
		id = t.Sel
	default:
		return -1
	}
	o, ok := info.ObjectOf(id).(*types.Var)
	if !ok || o.IsField() || o.Pkg() == nil {
		return -1
	}
	if _, isSlice := o.Type().Underlying().(*types.Slice); !isSlice {
		return -1
	}
	if o.Parent() != o.Pkg().Scope() {
		// local variable with exactly one definition
		if rhs := singleDef(o); rhs != nil {
			return c18InitLen(info, rhs)
		}
		return -1
	}
	if n, done := c18TableLenMemo[o]; done {
		return n
	}
	n := c18GlobalTableLen(c, o)
	c18TableLenMemo[o] = n
	return n
}

// c18InitLen: the length of the slice an initialiser expression yields, when the text fixes it.
func c18InitLen(info *types.Info, e ast.Expr) int64 {
	switch t := unparen(e).(type) {
	case *ast.CompositeLit:
		return c18LitLen(info, t)
	case *ast.CallExpr:
		if fid, ok := unparen(t.Fun).(*ast.Ident); ok && len(t.Args) >= 2 {
			if b, isB := info.Uses[fid].(*types.Builtin); isB && b.Name() == "make" {
				if n, isConst := constInt(info, t.Args[1]); isConst && n >= 0 {
					return n
				}
			}
		}
	}
	return -1
}

// c18LitLen: the length of a slice or array literal: the largest (constant key | position) + 1.
func c18LitLen(info *types.Info, cl *ast.CompositeLit) int64 {
	t := info.TypeOf(cl)
	if t == nil {
		return -1
	}
	switch u := t.Underlying().(type) {
	case *types.Array:
		return u.Len()
	case *types.Slice:
	default:
		return -1
	}
	var next, max int64
	for _, el := range cl.Elts {
		if kv, ok := el.(*ast.KeyValueExpr); ok {
			k, isConst := constInt(info, kv.Key)
			if !isConst || k < 0 {
				return -1
			}
			next = k
		}
		next++
		if next > max {
			max = next
		}
	}
	return max
}

func c18GlobalTableLen(c *Ctx, o *types.Var) int64 {
	n := int64(-1)
	declared := false
	for _, pk := range c.P.Pkgs {
		if pk == nil || pk.TypesInfo == nil {
			continue
		}
		info := pk.TypesInfo
		isVar := func(e ast.Expr) bool { // e is the variable itself (not an element of it)
			switch t := unparen(e).(type) {
			case *ast.Ident:
				return info.ObjectOf(t) == o
			case *ast.SelectorExpr:
				if _, isSel := info.Selections[t]; !isSel {
					return info.ObjectOf(t.Sel) == o
				}
			}
			return false
		}
		written := false
		for _, f := range pk.Syntax {
			ast.Inspect(f, func(nd ast.Node) bool {
				switch t := nd.(type) {
				case *ast.ValueSpec:
					for i, nm := range t.Names {
						if info.Defs[nm] != types.Object(o) {
							continue
						}
						declared = true
						if len(t.Values) == len(t.Names) {
							n = c18InitLen(info, t.Values[i])
						} else if len(t.Values) == 0 {
							n = 0 // nil slice
						}
					}
				case *ast.AssignStmt:
					for _, l := range t.Lhs {
						if isVar(l) {
							written = true
						}
					}
				case *ast.IncDecStmt:
					if isVar(t.X) {
						written = true
					}
				case *ast.RangeStmt:
					if t.Tok == token.ASSIGN && ((t.Key != nil && isVar(t.Key)) || (t.Value != nil && isVar(t.Value))) {
						written = true
					}
				case *ast.UnaryExpr:
					if t.Op == token.AND && rootObj(info, t.X) == types.Object(o) {
						written = true // &tbl or &tbl[i]: the variable may change through the pointer
					}
				}
				return true
			})
		}
		if written {
			return -1
		}
	}
	if !declared {
		return -1
	}
	return n
}
