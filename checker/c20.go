package main

// C20 — images fit their box, keep their aspect and reproduce their pixels.
//
// Two engines are used.
//
//  (1) c20Exec, a small path-sensitive symbolic executor over go/cfg graphs
//      (a loop body is entered at most once per path). Values are terms
//      (roots, constants, image extents, quotients, products, call results)
//      with their data dependencies; pure operations are value-numbered.
//      Branch conditions are split into their short-circuit alternatives and
//      give order relations between values, integer intervals against
//      constants and remainder facts; contradictory paths are dropped.
//      It decides the arithmetic-shape clauses "for every feasible path":
//      a, b, e, f, g, h, i, j, n and the fit guard / placement literal of c, k.
//  (2) CFG reachability with an edge filter (render's placement diff, clause
//      d) and type-resolved syntactic checks (window use of c, commands of m).
//
// The executor is extended in c20ip.go (helper functions executed in the caller's state, boolean variables,
// struct values field by field), c20loop.go (loop forms) and c20ctx.go (pointer aliases, local closures, a
// function literal entered from the function around it, struct equality, loop iteration counts).
//
// Clauses a–e are those of DESIGN.md section 4; f–n (there is no l) were added
// while reading image.go; each is a necessary condition of a sentence of the
// property. A construct the recognisers do not understand is reported
// undecided, never guessed.

import (
	"fmt"
	"go/ast"
	"go/constant"
	"go/token"
	"go/types"
	"os"
	"sort"
	"strings"

	"golang.org/x/tools/go/cfg"
)

func init() { register("C20", false, runC20) }

// ---------------------------------------------------------------------------
// symbolic values

type c20Val struct {
	id    int
	kind  string // root const bounds pmax pmin ext extmax extmin bin inc min max len call result rangevar opaque
	op    token.Token
	deps  map[string]bool
	args  []*c20Val
	k     int64 // constant value / result index
	hasK  bool
	str   string // string constant
	axis  string // "w" | "h" for ext kinds
	img   *c20Val
	base  *c20Val // inc: value before the increments
	inc   int
	fn    *types.Func
	role  string
	disp  string
	fld   *types.Var     // root created from a field selection: the field
	rs    *ast.RangeStmt // rangevar: its loop
	isKey bool
	isB   bool               // const: a boolean constant
	bval  bool               // const: its value
	flds  map[string]*c20Val // lit: the fields set by the literal, by dotted field path
	zero  bool               // const: the zero value of a field a literal did not set
	flt   bool               // bin, min, max: a floating-point operation (c20eval.go evaluates integer terms only)
}

func (v *c20Val) String() string {
	if v == nil {
		return "<nil>"
	}
	return v.disp
}

func (v *c20Val) dependsOn(root string) bool { return v != nil && v.deps[root] }

func (v *c20Val) dependsOnPrefix(p string) bool {
	if v == nil {
		return false
	}
	for d := range v.deps {
		if strings.HasPrefix(d, p) {
			return true
		}
	}
	return false
}

const (
	c20LT uint8 = 1
	c20EQ uint8 = 2
	c20GT uint8 = 4
)

const c20Inf = int64(1) << 60

type c20State struct {
	env     map[string]*c20Val // current value of each access path
	memo    map[string]*c20Val // constants, extents and pure operations by operand identity
	rel     map[[2]int]uint8
	iv      map[int][2]int64
	rem     map[string]bool
	bools   map[int]bool
	conds   []string
	opaque  int
	opqDep  map[string]bool // dependencies of the opaque conditions passed
	vals    []*c20Val
	dead    bool
	iters   map[*cfg.Block]int
	callRes map[*ast.CallExpr][]*c20Val // results of the helper calls executed in the caller's state (c20ip.go)
}

func (st *c20State) clone() *c20State {
	n := &c20State{env: make(map[string]*c20Val, len(st.env)), memo: make(map[string]*c20Val, len(st.memo)), rel: make(map[[2]int]uint8, len(st.rel)), iv: make(map[int][2]int64, len(st.iv)),
		rem: make(map[string]bool, len(st.rem)), bools: make(map[int]bool, len(st.bools)), opaque: st.opaque, iters: make(map[*cfg.Block]int, len(st.iters)), opqDep: make(map[string]bool, len(st.opqDep))}
	for k, v := range st.opqDep {
		n.opqDep[k] = v
	}
	for k, v := range st.env {
		n.env[k] = v
	}
	for k, v := range st.memo {
		n.memo[k] = v
	}
	for k, v := range st.rel {
		n.rel[k] = v
	}
	for k, v := range st.iv {
		n.iv[k] = v
	}
	for k, v := range st.rem {
		n.rem[k] = v
	}
	for k, v := range st.bools {
		n.bools[k] = v
	}
	for k, v := range st.iters {
		n.iters[k] = v
	}
	n.conds = append([]string(nil), st.conds...)
	n.vals = append([]*c20Val(nil), st.vals...)
	if len(st.callRes) > 0 {
		n.callRes = make(map[*ast.CallExpr][]*c20Val, len(st.callRes))
		for k, v := range st.callRes {
			n.callRes[k] = v
		}
	}
	return n
}

// relOf returns the possible orderings of a against b ({<,=,>} bitset).
func (st *c20State) relOf(a, b *c20Val) uint8 {
	if a == nil || b == nil {
		return c20LT | c20EQ | c20GT
	}
	if a.id == b.id {
		return c20EQ
	}
	if a.id < b.id {
		if r, ok := st.rel[[2]int{a.id, b.id}]; ok {
			return r
		}
		return c20LT | c20EQ | c20GT
	}
	if r, ok := st.rel[[2]int{b.id, a.id}]; ok {
		return c20Flip(r)
	}
	return c20LT | c20EQ | c20GT
}

func c20Flip(r uint8) uint8 {
	var o uint8
	if r&c20LT != 0 {
		o |= c20GT
	}
	if r&c20GT != 0 {
		o |= c20LT
	}
	return o | r&c20EQ
}

func (st *c20State) restrict(a, b *c20Val, allowed uint8) {
	cur := st.relOf(a, b) & allowed
	if cur == 0 {
		st.dead = true
		return
	}
	if a.id == b.id {
		return
	}
	if a.id < b.id {
		st.rel[[2]int{a.id, b.id}] = cur
	} else {
		st.rel[[2]int{b.id, a.id}] = c20Flip(cur)
	}
}

func (st *c20State) interval(v *c20Val) (lo, hi int64) {
	if v == nil {
		return -c20Inf, c20Inf
	}
	if v.kind == "const" && v.hasK {
		return v.k, v.k
	}
	if r, ok := st.iv[v.id]; ok {
		return r[0], r[1]
	}
	return -c20Inf, c20Inf
}

func (st *c20State) clamp(v *c20Val, lo, hi int64) {
	l, h := st.interval(v)
	if lo > l {
		l = lo
	}
	if hi < h {
		h = hi
	}
	if l > h {
		st.dead = true
		return
	}
	st.iv[v.id] = [2]int64{l, h}
}

// ---------------------------------------------------------------------------
// the executor

type c20Exec struct {
	c        *Ctx
	g        *FG
	info     *types.Info
	roles    map[types.Object]string // parameter (or captured variable) -> role name used in deps
	nextID   int
	rangeVar map[*ast.Ident]*ast.RangeStmt
	alias    map[string]string // term-ID prefix rewriting (p2 -> p1): "assume these two variables are equal"
	maxIter  int               // how often a loop body may be entered on one path
	paths    int
	overflow bool
	// interprocedural execution of helper functions (c20ip.go)
	indexInit map[ast.Node]*ast.RangeStmt // init statement of an index loop -> the equivalent range statement (c20loop.go)
	aliasDisp map[string][2]string        // alias source -> (name in the callee, text in the caller) for messages
	stack     []*types.Func
	noHelpers bool
	sym       bool // symbolic loop mode (c20rect.go): loop-carried variables are fresh values, index/slice expressions are values
}

func c20NewExec(c *Ctx, g *FG, roles map[types.Object]string) *c20Exec {
	x := &c20Exec{c: c, g: g, info: g.Info, roles: roles, rangeVar: map[*ast.Ident]*ast.RangeStmt{}, maxIter: 1}
	inspectNoLit(g.Body, func(n ast.Node) bool {
		if rs, ok := n.(*ast.RangeStmt); ok {
			for _, e := range []ast.Expr{rs.Key, rs.Value} {
				if id, ok := e.(*ast.Ident); ok {
					x.rangeVar[id] = rs
				}
			}
		}
		return true
	})
	x.registerIndexLoops(g)
	return x
}

func (x *c20Exec) newVal(st *c20State, v *c20Val) *c20Val {
	x.nextID++
	v.id = x.nextID
	if v.deps == nil {
		v.deps = map[string]bool{}
	}
	for _, a := range v.args {
		if a != nil {
			for d := range a.deps {
				v.deps[d] = true
			}
		}
	}
	st.vals = append(st.vals, v)
	return v
}

func (x *c20Exec) constVal(st *c20State, tv types.TypeAndValue, disp string) *c20Val {
	key := "const:" + tv.Value.ExactString()
	if v, ok := st.memo[key]; ok {
		return v
	}
	v := &c20Val{kind: "const", disp: disp}
	if n, ok := constToInt(tv); ok {
		v.k, v.hasK = n, true
		v.disp = fmt.Sprint(n)
	} else if tv.Value.Kind() == constant.String {
		v.str = constant.StringVal(tv.Value)
		v.disp = fmt.Sprintf("%q", v.str)
	} else if tv.Value.Kind() == constant.Bool {
		v.isB, v.bval = true, constant.BoolVal(tv.Value)
	}
	x.newVal(st, v)
	st.memo[key] = v
	return v
}

func c20IsNamed(t types.Type, pkg, name string) bool {
	if p, ok := t.(*types.Pointer); ok {
		t = p.Elem()
	}
	n, ok := t.(*types.Named)
	if !ok || n.Obj().Pkg() == nil {
		return false
	}
	return n.Obj().Pkg().Path() == pkg && n.Obj().Name() == name
}

// lookup returns the current value of an access path, creating a root on first use.
func (x *c20Exec) lookup(st *c20State, e ast.Expr) *c20Val {
	t := x.pathTerm(e)
	if v, ok := st.env[t.ID]; ok {
		return v
	}
	if z := x.zeroOfLit(st, t, e); z != nil {
		return z
	}
	v := &c20Val{kind: "root", disp: t.Disp, deps: map[string]bool{}}
	if id, ok := unparen(e).(*ast.Ident); ok {
		if r, ok := x.roles[x.info.ObjectOf(id)]; ok {
			v.role = r
			v.deps[r] = true
		}
	}
	if v.role == "" {
		v.deps["free:"+t.Disp] = true
	}
	if se, ok := unparen(e).(*ast.SelectorExpr); ok {
		if sel, ok := x.info.Selections[se]; ok && sel.Kind() == types.FieldVal {
			v.fld, _ = sel.Obj().(*types.Var)
		}
	}
	x.newVal(st, v)
	st.env[t.ID] = v
	return v
}

func (x *c20Exec) eval(st *c20State, e ast.Expr) *c20Val {
	e = unparen(e)
	if tv, ok := x.info.Types[e]; ok && tv.Value != nil {
		return x.constVal(st, tv, types.ExprString(e))
	}
	switch t := e.(type) {
	case *ast.Ident:
		if v, ok := x.info.ObjectOf(t).(*types.Var); ok {
			// a variable captured from the enclosing function that has exactly one definition there
			// stands for its defining expression (main author: added after a fix moved a computation
			// out of the goroutine literal)
			if x.g != nil && x.g.Body != nil && (v.Pos() < x.g.Body.Pos() || v.Pos() > x.g.Body.End()) && x.roles[v] == "" {
				// (when the literal is executed in the state of the function around it - a local closure called
				// there, a goroutine literal entered from the statement that starts it, c20ctx.go - the variable
				// has the value that function gave it)
				if cur, bound := st.env[x.pathTerm(t).ID]; bound {
					return cur
				}
				if rhs := singleDefOf(x.info, v); rhs != nil {
					return x.eval(st, rhs)
				}
			}
			return x.lookup(st, t)
		}
	case *ast.SelectorExpr:
		if sel, ok := x.info.Selections[t]; ok && sel.Kind() == types.FieldVal {
			inner := x.eval(st, t.X)
			switch {
			case inner.kind == "bounds" && t.Sel.Name == "Max":
				return x.newVal(st, &c20Val{kind: "pmax", img: inner.img, args: []*c20Val{inner.img}, disp: types.ExprString(e)})
			case inner.kind == "bounds" && t.Sel.Name == "Min":
				return x.newVal(st, &c20Val{kind: "pmin", img: inner.img, args: []*c20Val{inner.img}, disp: types.ExprString(e)})
			case (inner.kind == "pmax" || inner.kind == "pmin") && (t.Sel.Name == "X" || t.Sel.Name == "Y"):
				ax := "w"
				if t.Sel.Name == "Y" {
					ax = "h"
				}
				k := "extmax"
				if inner.kind == "pmin" {
					k = "extmin"
				}
				return x.extent(st, k, ax, inner.img, types.ExprString(e))
			}
			return x.lookup(st, t)
		}
		if _, ok := x.info.ObjectOf(t.Sel).(*types.Var); ok {
			return x.lookup(st, t) // package-level variable
		}
	case *ast.StarExpr:
		return x.eval(st, t.X)
	case *ast.IndexExpr:
		if v := x.elemOf(st, t); v != nil {
			return v
		}
		if x.sym {
			if v := x.symIndex(st, t); v != nil {
				return v
			}
		}
		v := x.lookup(st, t)
		return v
	case *ast.SliceExpr:
		if x.sym && !t.Slice3 {
			return x.symSlice(st, t)
		}
	case *ast.CallExpr:
		return x.evalCall(st, t)
	case *ast.CompositeLit:
		if v := x.evalLit(st, t); v != nil {
			return v
		}
	case *ast.UnaryExpr:
		if t.Op == token.NOT {
			a := x.eval(st, t.X)
			return x.newVal(st, &c20Val{kind: "not", args: []*c20Val{a}, disp: types.ExprString(e)})
		}
	case *ast.BinaryExpr:
		switch t.Op {
		case token.EQL, token.NEQ, token.LSS, token.LEQ, token.GTR, token.GEQ:
			// a comparison kept as a value: a boolean variable defined by it stands for it when branched on
			if !isNilExpr(x.info, unparen(t.X)) && !isNilExpr(x.info, unparen(t.Y)) {
				if bt, ok := x.info.TypeOf(t.X).Underlying().(*types.Basic); ok && bt.Info()&(types.IsInteger|types.IsFloat) != 0 {
					a, b := x.eval(st, t.X), x.eval(st, t.Y)
					return x.newVal(st, &c20Val{kind: "cmp", op: t.Op, args: []*c20Val{a, b}, disp: types.ExprString(e)})
				}
			}
		case token.LAND, token.LOR:
			a, b := x.eval(st, t.X), x.eval(st, t.Y)
			k := "land"
			if t.Op == token.LOR {
				k = "lor"
			}
			return x.newVal(st, &c20Val{kind: k, args: []*c20Val{a, b}, disp: types.ExprString(e)})
		case token.ADD, token.SUB, token.MUL, token.QUO, token.REM, token.SHL, token.SHR, token.AND, token.OR, token.XOR, token.AND_NOT:
			a, b := x.eval(st, t.X), x.eval(st, t.Y)
			if t.Op == token.SUB && a.kind == "extmax" && b.kind == "extmin" && a.img == b.img && a.axis == b.axis {
				return x.extent(st, "ext", a.axis, a.img, types.ExprString(e))
			}
			ck := fmt.Sprintf("bin:%d:%d:%d", t.Op, a.id, b.id)
			flt := c20IsFloat(x.info.TypeOf(e))
			if flt {
				ck += ":f" // conversions are transparent: float64(a)/float64(b) is not a/b
			}
			if v, ok := st.memo[ck]; ok {
				return v // same operation on the same values: same value
			}
			v := x.newVal(st, &c20Val{kind: "bin", op: t.Op, args: []*c20Val{a, b}, disp: types.ExprString(e), flt: flt})
			st.memo[ck] = v
			return v
		}
	}
	// anything else: opaque, depending on every variable it mentions
	v := &c20Val{kind: "opaque", disp: types.ExprString(e)}
	ast.Inspect(e, func(n ast.Node) bool {
		switch m := n.(type) {
		case *ast.FuncLit:
			return false
		case *ast.Ident:
			if _, ok := x.info.ObjectOf(m).(*types.Var); ok {
				if vv, isVar := x.info.ObjectOf(m).(*types.Var); isVar && !vv.IsField() {
					v.args = append(v.args, x.lookup(st, m))
				}
			}
		}
		return true
	})
	return x.newVal(st, v)
}

func (x *c20Exec) extent(st *c20State, kind, axis string, img *c20Val, disp string) *c20Val {
	ck := ""
	if img != nil {
		ck = fmt.Sprintf("extent:%s:%s:%d", kind, axis, img.id)
		if v, ok := st.memo[ck]; ok {
			return v
		}
	}
	v := &c20Val{kind: kind, axis: axis, img: img, disp: disp, deps: map[string]bool{}}
	if ck != "" {
		st.memo[ck] = v
	}
	if img != nil && img.role == "img" {
		v.deps["src."+axis] = true
	} else if img != nil {
		for d := range img.deps {
			v.deps[d] = true
		}
		v.deps["ext."+axis] = true
	}
	return x.newVal(st, v)
}

func (x *c20Exec) evalCall(st *c20State, call *ast.CallExpr) *c20Val {
	disp := types.ExprString(call)
	if res, ok := st.callRes[call]; ok {
		switch len(res) {
		case 0:
			return x.newVal(st, &c20Val{kind: "opaque", disp: disp})
		case 1:
			return res[0]
		}
		return x.newVal(st, &c20Val{kind: "tuple", args: res, disp: disp})
	}
	// conversion: transparent
	if tv, ok := x.info.Types[call.Fun]; ok && tv.IsType() && len(call.Args) == 1 {
		return x.eval(st, call.Args[0])
	}
	if id, ok := unparen(call.Fun).(*ast.Ident); ok {
		if b, ok := x.info.Uses[id].(*types.Builtin); ok {
			var args []*c20Val
			for _, a := range call.Args {
				if tv, ok := x.info.Types[a]; ok && tv.IsType() {
					continue
				}
				args = append(args, x.eval(st, a))
			}
			switch b.Name() {
			case "min", "max", "len", "append", "make":
				return x.newVal(st, &c20Val{kind: b.Name(), args: args, disp: disp, flt: c20IsFloat(x.info.TypeOf(call))})
			}
			return x.newVal(st, &c20Val{kind: "opaque", args: args, disp: disp})
		}
	}
	fn := calleeOf(x.info, call)
	var recv *c20Val
	if sel, ok := unparen(call.Fun).(*ast.SelectorExpr); ok {
		if s, ok := x.info.Selections[sel]; ok && s.Kind() == types.MethodVal {
			recv = x.eval(st, sel.X)
		} else if ok && s.Kind() == types.FieldVal {
			// call of a func-typed field: dynamic
			recv = x.eval(st, sel)
		}
	}
	if fn != nil && recv != nil && len(call.Args) == 0 {
		sig := fn.Type().(*types.Signature)
		if sig.Results().Len() == 1 {
			rt := sig.Results().At(0).Type()
			switch {
			case fn.Name() == "Bounds" && c20IsNamed(rt, "image", "Rectangle"):
				return x.newVal(st, &c20Val{kind: "bounds", img: recv, args: []*c20Val{recv}, disp: disp})
			case recv.kind == "bounds" && fn.Name() == "Dx" && fullName(fn) == "image.Rectangle.Dx":
				return x.extent(st, "ext", "w", recv.img, disp)
			case recv.kind == "bounds" && fn.Name() == "Dy" && fullName(fn) == "image.Rectangle.Dy":
				return x.extent(st, "ext", "h", recv.img, disp)
			}
		}
	}
	var args []*c20Val
	if recv != nil {
		args = append(args, recv)
	}
	for _, a := range call.Args {
		args = append(args, x.eval(st, a))
	}
	if fn != nil && (fullName(fn) == "math.Min" || fullName(fn) == "math.Max") && len(args) == 2 {
		return x.newVal(st, &c20Val{kind: strings.ToLower(fn.Name()), args: args, disp: disp, flt: true})
	}
	v := &c20Val{kind: "call", fn: fn, args: args, disp: disp, deps: map[string]bool{}}
	x.newVal(st, v)
	v.deps[fmt.Sprintf("call@%d", v.id)] = true
	return v
}

func (x *c20Exec) bind(st *c20State, lhs ast.Expr, v *c20Val) {
	lhs = unparen(lhs)
	if id, ok := lhs.(*ast.Ident); ok && id.Name == "_" {
		return
	}
	if id, ok := lhs.(*ast.Ident); ok && x.ptrAliasOf(x.info.ObjectOf(id)) != nil {
		return // p := &v: p has no storage of its own in the executor, p.f is v.f (c20ctx.go)
	}
	x.bindKey(st, x.pathTerm(lhs).ID, v)
}

func (x *c20Exec) bindKey(st *c20State, key string, v *c20Val) {
	for k := range st.env {
		if strings.HasPrefix(k, key+".") || strings.HasPrefix(k, key+"[") {
			delete(st.env, k)
		}
	}
	st.env[key] = v
}

func (x *c20Exec) incr(st *c20State, old *c20Val, by int, disp string) *c20Val {
	base := old
	n := by
	if old.kind == "inc" {
		base = old.base
		n += old.inc
	}
	return x.newVal(st, &c20Val{kind: "inc", base: base, inc: n, args: []*c20Val{old}, disp: disp})
}

var c20CompoundOp = map[token.Token]token.Token{token.ADD_ASSIGN: token.ADD, token.SUB_ASSIGN: token.SUB, token.MUL_ASSIGN: token.MUL,
	token.QUO_ASSIGN: token.QUO, token.REM_ASSIGN: token.REM, token.SHL_ASSIGN: token.SHL, token.SHR_ASSIGN: token.SHR,
	token.AND_ASSIGN: token.AND, token.OR_ASSIGN: token.OR, token.XOR_ASSIGN: token.XOR, token.AND_NOT_ASSIGN: token.AND_NOT}

func (x *c20Exec) step(st *c20State, n ast.Node) {
	switch s := n.(type) {
	case *ast.AssignStmt:
		if rs := x.indexInit[s]; rs != nil && len(s.Lhs) == 1 {
			// i := 0 of `for i := 0; i < len(X); i++`: i is the key of a loop over X
			x.bind(st, s.Lhs[0], x.newVal(st, &c20Val{kind: "rangevar", disp: types.ExprString(s.Lhs[0]), rs: rs, isKey: true}))
			return
		}
		if s.Tok == token.ASSIGN || s.Tok == token.DEFINE {
			if len(s.Rhs) == 1 && len(s.Lhs) > 1 {
				rv := x.eval(st, s.Rhs[0])
				if rv.kind == "tuple" && len(rv.args) == len(s.Lhs) {
					for i, l := range s.Lhs {
						x.bind(st, l, rv.args[i])
					}
					return
				}
				for i, l := range s.Lhs {
					r := &c20Val{kind: "result", k: int64(i), hasK: true, args: []*c20Val{rv}, disp: fmt.Sprintf("%s#%d", rv.disp, i), deps: map[string]bool{}}
					x.newVal(st, r)
					r.deps[fmt.Sprintf("res%d@%d", i, rv.id)] = true
					x.bind(st, l, r)
				}
				return
			}
			var vals []*c20Val
			for _, r := range s.Rhs {
				vals = append(vals, x.eval(st, r))
			}
			for i, l := range s.Lhs {
				if i < len(vals) {
					x.assign(st, l, s.Rhs[i], vals[i])
				}
			}
			return
		}
		if op, ok := c20CompoundOp[s.Tok]; ok && len(s.Lhs) == 1 && len(s.Rhs) == 1 {
			old := x.eval(st, s.Lhs[0])
			rv := x.eval(st, s.Rhs[0])
			disp := types.ExprString(s.Lhs[0]) + " " + s.Tok.String() + " " + types.ExprString(s.Rhs[0])
			if op == token.ADD && rv.kind == "const" && rv.hasK && rv.k == 1 {
				x.bind(st, s.Lhs[0], x.incr(st, old, 1, disp))
				return
			}
			x.bind(st, s.Lhs[0], x.newVal(st, &c20Val{kind: "bin", op: op, args: []*c20Val{old, rv}, disp: disp, flt: c20IsFloat(x.info.TypeOf(s.Lhs[0]))}))
		}
	case *ast.IncDecStmt:
		old := x.eval(st, s.X)
		if s.Tok == token.INC {
			x.bind(st, s.X, x.incr(st, old, 1, types.ExprString(s.X)+"++"))
		} else {
			one := x.constVal(st, types.TypeAndValue{Type: types.Typ[types.Int], Value: constant.MakeInt64(1)}, "1")
			x.bind(st, s.X, x.newVal(st, &c20Val{kind: "bin", op: token.SUB, args: []*c20Val{old, one}, disp: types.ExprString(s.X) + "--", flt: c20IsFloat(x.info.TypeOf(s.X))}))
		}
	case *ast.DeclStmt:
		if gd, ok := s.Decl.(*ast.GenDecl); ok && gd.Tok == token.VAR {
			for _, sp := range gd.Specs {
				x.step(st, sp)
			}
		}
	case *ast.ValueSpec: // go/cfg adds each var spec as its own node
		vs := s
		for i, name := range vs.Names {
			switch {
			case len(vs.Values) == len(vs.Names):
				x.assign(st, name, vs.Values[i], x.eval(st, vs.Values[i]))
			case len(vs.Values) == 0 && c20IsStructType(x.info.TypeOf(name)):
				// var s T: a struct none of whose fields is set (each reads as its zero value, c20ip.go zeroOfLit)
				x.bind(st, name, x.newVal(st, &c20Val{kind: "lit", disp: "zero " + name.Name, flds: map[string]*c20Val{}}))
			case len(vs.Values) == 0:
				zero := &c20Val{kind: "const", disp: "zero value"}
				if b, ok := x.info.TypeOf(name).Underlying().(*types.Basic); ok && b.Info()&types.IsNumeric != 0 {
					zero.hasK = true
				}
				x.bind(st, name, x.newVal(st, zero))
			default:
				x.bind(st, name, x.newVal(st, &c20Val{kind: "opaque", disp: name.Name}))
			}
		}
	case *ast.Ident:
		if rs := x.rangeVar[s]; rs != nil {
			x.bind(st, s, x.newVal(st, &c20Val{kind: "rangevar", disp: s.Name, rs: rs, isKey: rs.Key == ast.Expr(s)}))
		}
	}
}

// a leaf of a branch condition with the truth value it has on the edge
type c20Leaf struct {
	e   ast.Expr // boolean expression, or nil for a tagged case
	tag ast.Expr
	val ast.Expr
	pol bool
	bv  *c20Val // a boolean value (of a variable that was defined by a comparison or a connective)
}

// c20DNF returns the alternatives (each a conjunction of leaves) under which
// e has truth value pol; short-circuit operators are expanded.
func c20DNF(e ast.Expr, pol bool) [][]c20Leaf {
	e = unparen(e)
	switch t := e.(type) {
	case *ast.UnaryExpr:
		if t.Op == token.NOT {
			return c20DNF(t.X, !pol)
		}
	case *ast.BinaryExpr:
		if t.Op == token.LAND || t.Op == token.LOR {
			both := (t.Op == token.LAND) == pol // conjunction of the two sides
			if both {
				var out [][]c20Leaf
				for _, a := range c20DNF(t.X, pol) {
					for _, b := range c20DNF(t.Y, pol) {
						out = append(out, append(append([]c20Leaf(nil), a...), b...))
					}
				}
				return out
			}
			// X decides, or X does not and Y decides
			out := c20DNF(t.X, pol)
			for _, a := range c20DNF(t.X, !pol) {
				for _, b := range c20DNF(t.Y, pol) {
					out = append(out, append(append([]c20Leaf(nil), a...), b...))
				}
			}
			return out
		}
	}
	return [][]c20Leaf{{{e: e, pol: pol}}}
}

func c20Allowed(op token.Token, pol bool) uint8 {
	if !pol {
		op = negOp(op)
	}
	switch op {
	case token.EQL:
		return c20EQ
	case token.NEQ:
		return c20LT | c20GT
	case token.LSS:
		return c20LT
	case token.LEQ:
		return c20LT | c20EQ
	case token.GTR:
		return c20GT
	case token.GEQ:
		return c20GT | c20EQ
	}
	return c20LT | c20EQ | c20GT
}

func (x *c20Exec) compare(st *c20State, xe ast.Expr, op token.Token, ye ast.Expr, pol bool) {
	a, b := x.eval(st, xe), x.eval(st, ye)
	x.compareVals(st, a, op, b, pol)
}

func (x *c20Exec) compareVals(st *c20State, a *c20Val, op token.Token, b *c20Val, pol bool) {
	allowed := c20Allowed(op, pol)
	aC := a.kind == "const" && a.hasK
	bC := b.kind == "const" && b.hasK
	if aC && !bC {
		a, b = b, a
		aC, bC = bC, aC
		allowed = c20Flip(allowed)
	}
	if aC && bC {
		var r uint8
		switch {
		case a.k < b.k:
			r = c20LT
		case a.k == b.k:
			r = c20EQ
		default:
			r = c20GT
		}
		if r&allowed == 0 {
			st.dead = true
		}
		return
	}
	if bC {
		// remainder fact (the remainders looked at are those of pixel extents, which are not negative)
		if a.kind == "bin" && a.op == token.REM {
			switch {
			case b.k == 0 && (allowed == c20EQ || allowed == c20LT|c20EQ):
				st.rem[c20RemKey(a.args[0], a.args[1])] = false
			case b.k == 0 && (allowed == c20LT|c20GT || allowed == c20GT):
				st.rem[c20RemKey(a.args[0], a.args[1])] = true
			case b.k == 1 && allowed == c20LT:
				st.rem[c20RemKey(a.args[0], a.args[1])] = false
			case b.k == 1 && allowed == c20GT|c20EQ:
				st.rem[c20RemKey(a.args[0], a.args[1])] = true
			}
		}
		switch allowed {
		case c20LT:
			st.clamp(a, -c20Inf, b.k-1)
		case c20LT | c20EQ:
			st.clamp(a, -c20Inf, b.k)
		case c20EQ:
			st.clamp(a, b.k, b.k)
		case c20GT:
			st.clamp(a, b.k+1, c20Inf)
		case c20GT | c20EQ:
			st.clamp(a, b.k, c20Inf)
		case c20LT | c20GT:
			lo, hi := st.interval(a)
			if lo == b.k && hi == b.k {
				st.dead = true
			} else if lo == b.k {
				st.clamp(a, b.k+1, c20Inf)
			} else if hi == b.k {
				st.clamp(a, -c20Inf, b.k-1)
			}
		}
		if st.dead {
			return
		}
	}
	st.restrict(a, b, allowed)
}

func c20RemKey(num, den *c20Val) string {
	d := fmt.Sprintf("v%d", den.id)
	if den.kind == "const" && den.hasK {
		d = fmt.Sprintf("c%d", den.k)
	}
	return fmt.Sprintf("%d%%%s", num.id, d)
}

func (x *c20Exec) applyLeaf(st *c20State, l c20Leaf) {
	if l.bv != nil {
		x.applyBool(st, l.bv, l.pol, true)
		return
	}
	if l.tag != nil {
		st.conds = append(st.conds, fmt.Sprintf("%s %s %s", types.ExprString(l.tag), map[bool]string{true: "==", false: "!="}[l.pol], types.ExprString(l.val)))
		if b, ok := x.info.TypeOf(l.tag).Underlying().(*types.Basic); ok && b.Info()&types.IsBoolean != 0 {
			if tv, ok := x.info.Types[l.val]; ok && tv.Value != nil && tv.Value.Kind() == constant.Bool {
				x.applyLeaf(st, c20Leaf{e: l.tag, pol: constant.BoolVal(tv.Value) == l.pol})
				return
			}
		}
		x.compare(st, l.tag, token.EQL, l.val, l.pol)
		return
	}
	e := unparen(l.e)
	if l.pol {
		st.conds = append(st.conds, types.ExprString(e))
	} else {
		st.conds = append(st.conds, "!("+types.ExprString(e)+")")
	}
	if tv, ok := x.info.Types[e]; ok && tv.Value != nil && tv.Value.Kind() == constant.Bool {
		if constant.BoolVal(tv.Value) != l.pol {
			st.dead = true
		}
		return
	}
	if b, ok := e.(*ast.BinaryExpr); ok {
		switch b.Op {
		case token.EQL, token.NEQ, token.LSS, token.LEQ, token.GTR, token.GEQ:
			if isNilExpr(x.info, b.X) || isNilExpr(x.info, b.Y) {
				return
			}
			if bt, ok := x.info.TypeOf(b.X).Underlying().(*types.Basic); ok && bt.Info()&types.IsBoolean != 0 {
				for _, side := range [][2]ast.Expr{{b.X, b.Y}, {b.Y, b.X}} {
					if tv, ok := x.info.Types[side[1]]; ok && tv.Value != nil && tv.Value.Kind() == constant.Bool {
						x.applyLeaf(st, c20Leaf{e: side[0], pol: (constant.BoolVal(tv.Value) == (b.Op == token.EQL)) == l.pol})
						return
					}
				}
				st.opaque++
				return
			}
			x.compare(st, b.X, b.Op, b.Y, l.pol)
			return
		}
	}
	x.applyBool(st, x.eval(st, e), l.pol, false)
}

// run enumerates the paths from the entry. at is called before a node is
// executed and may end the path by returning true; atExit at normal exits.
func (x *c20Exec) run(at func(st *c20State, l Loc, n ast.Node) bool, atExit func(st *c20State, b *cfg.Block)) {
	st := &c20State{env: map[string]*c20Val{}, memo: map[string]*c20Val{}, rel: map[[2]int]uint8{}, iv: map[int][2]int64{}, rem: map[string]bool{}, bools: map[int]bool{}, iters: map[*cfg.Block]int{}, opqDep: map[string]bool{}}
	x.dfs(x.g.Blocks[0], st, at, atExit)
}

const c20MaxPaths = 20000

func (x *c20Exec) dfs(b *cfg.Block, st *c20State, at func(*c20State, Loc, ast.Node) bool, atExit func(*c20State, *cfg.Block)) {
	x.dfsFrom(b, 0, st, at, atExit)
}

func (x *c20Exec) dfsFrom(b *cfg.Block, from int, st *c20State, at func(*c20State, Loc, ast.Node) bool, atExit func(*c20State, *cfg.Block)) {
	if x.overflow {
		return
	}
	for i := from; i < len(b.Nodes); i++ {
		n := b.Nodes[i]
		if calls := x.helperCalls(n); len(calls) > 0 {
			// calls of helper functions the rules do not know: executed in the caller's state, path by path
			idx := i
			x.resolveCalls(st, calls, func(st2 *c20State) {
				if at != nil && at(st2, Loc{b, idx}, n) {
					x.paths++
					return
				}
				x.step(st2, n)
				x.dfsFrom(b, idx+1, st2, at, atExit)
			})
			return
		}
		if at != nil && at(st, Loc{b, i}, n) {
			x.paths++
			return
		}
		x.step(st, n)
	}
	if len(b.Succs) == 0 {
		x.paths++
		if x.paths > c20MaxPaths {
			x.overflow = true
		}
		if atExit != nil && x.g.isNormalExit(b) {
			atExit(st, b)
		}
		return
	}
	cond := x.g.BranchCond(b)
	for si, s := range b.Succs {
		if si == 1 && b.Succs[0] == b.Succs[1] {
			continue
		}
		if !s.Live {
			continue
		}
		alts := [][]c20Leaf{nil}
		if cond != nil && b.Succs[0] != b.Succs[1] {
			if cond.Tag != nil {
				alts = [][]c20Leaf{{{tag: cond.Tag, val: cond.Expr, pol: si == 0}}}
			} else {
				alts = x.expandAlts(st, c20DNF(cond.Expr, si == 0))
			}
		}
		for _, alt := range alts {
			st2 := st.clone()
			// entering a loop body: bounded
			if s.Kind == cfg.KindRangeBody || s.Kind == cfg.KindForBody {
				if st2.iters[s] >= x.maxIter {
					continue
				}
				st2.iters[s]++
			}
			for _, l := range alt {
				x.applyLeaf(st2, l)
				if st2.dead {
					break
				}
			}
			if st2.dead {
				continue
			}
			if x.sym {
				x.havocLoop(st2, s)
			}
			x.dfs(s, st2, at, atExit)
		}
	}
}

func c20Conds(st *c20State) string {
	if len(st.conds) == 0 {
		return "(no branch)"
	}
	return strings.Join(st.conds, " ∧ ")
}

// ---------------------------------------------------------------------------
// obligation aggregation over paths: worst status wins

type c20Agg struct {
	c     *Ctx
	order []string
	m     map[string]*c20AggEntry
}

type c20AggEntry struct {
	rule, key string
	pos       token.Pos
	status    int // 0 none, 1 ok, 2 undecided, 3 bad
	reason    string
	n         int
}

func c20NewAgg(c *Ctx) *c20Agg { return &c20Agg{c: c, m: map[string]*c20AggEntry{}} }

func (a *c20Agg) declare(rule, key string, pos token.Pos) *c20AggEntry {
	id := rule + "/" + key
	e := a.m[id]
	if e == nil {
		e = &c20AggEntry{rule: rule, key: key, pos: pos}
		a.m[id] = e
		a.order = append(a.order, id)
	}
	return e
}

func (a *c20Agg) note(rule, key string, pos token.Pos, status int, format string, args ...any) {
	e := a.declare(rule, key, pos)
	e.n++
	if r := fmt.Sprintf(format, args...); status == e.status && status >= 2 && len(r) < len(e.reason) {
		e.reason = r // prefer the shortest witness
	}
	if status > e.status {
		e.status = status
		e.reason = fmt.Sprintf(format, args...)
		if pos.IsValid() {
			e.pos = pos
		}
	}
}
func (a *c20Agg) ok(rule, key string, pos token.Pos, format string, args ...any) {
	a.note(rule, key, pos, 1, format, args...)
}
func (a *c20Agg) und(rule, key string, pos token.Pos, format string, args ...any) {
	a.note(rule, key, pos, 2, format, args...)
}
func (a *c20Agg) bad(rule, key string, pos token.Pos, format string, args ...any) {
	a.note(rule, key, pos, 3, format, args...)
}

func (a *c20Agg) flush() {
	for _, id := range a.order {
		e := a.m[id]
		if os.Getenv("C20_DEBUG") != "" {
			fmt.Printf("DEBUG %s/%s status=%d n=%d: %s\n", e.rule, e.key, e.status, e.n, e.reason)
		}
		switch e.status {
		case 0:
			a.c.undecided(e.rule, e.key, e.pos, "no path reached the construct: the recogniser does not understand this function any more")
		case 1:
			a.c.ok(e.rule, e.key, e.pos, "%s (on all %d path(s))", e.reason, e.n)
		case 2:
			a.c.undecided(e.rule, e.key, e.pos, "%s", e.reason)
		case 3:
			a.c.bad(e.rule, e.key, e.pos, "%s", e.reason)
		}
	}
}

// ---------------------------------------------------------------------------

func c20Params(info *types.Info, ft *ast.FuncType) []types.Object {
	var out []types.Object
	if ft.Params == nil {
		return nil
	}
	for _, f := range ft.Params.List {
		for _, n := range f.Names {
			out = append(out, info.Defs[n])
		}
	}
	return out
}

func c20RecvObj(info *types.Info, fd *ast.FuncDecl) types.Object {
	if fd.Recv == nil || len(fd.Recv.List) != 1 || len(fd.Recv.List[0].Names) != 1 {
		return nil
	}
	return info.Defs[fd.Recv.List[0].Names[0]]
}

func c20SortedKeys(m map[string]bool) []string {
	var out []string
	for k := range m {
		out = append(out, k)
	}
	sort.Strings(out)
	return out
}

// c20SrcMeasure: per axis, the kinds of extent ("ext" = Dx/Dy or Max-Min, "extmax" = Bounds().Max) by which
// resizeImage measures its source on some path; filled by c20ResizeImage, read by clause p.
var c20SrcMeasure map[string]map[string]bool

var c20MeasureName = map[string]string{"ext": "the extent (Dx/Dy)", "extmax": "the Max coordinate of Bounds()"}

func runC20(c *Ctx) {
	c20SrcMeasure = map[string]map[string]bool{"w": {}, "h": {}}
	c.Clauses = []string{
		"C20.a in resizeImage the destination width and height are, on every non-fit path, the source extents multiplied by one common factor that is the smaller of box/image ratios (reaching definitions, path-feasible)",
		"C20.b samePlacement returns true only if every non-function field of placement is equal, and false only under a differing field",
		"C20.c every Draw of an Image implementation writes cells only through SetCell on its own window parameter; raw placements (sixel/kitty payloads) are queued only under 'image no larger than the window'",
		"C20.d render: every last placement is deleted on refresh, deleted unless matched otherwise (by one loop or by a loop per case, which no path to the write loop bypasses while the last list is not empty); the last list is emptied on refresh before the new-placement loop; every new placement not matched in the last list is positioned and written; deletes precede writes; last := next afterwards",
		"C20.e the alpha threshold of every block renderer is the constant transparentEnough (interval of the alpha value on each arm)",
		"C20.f resizeImage returns the source unchanged only if it fits, and scales only if it does not fit",
		"C20.g cell counts round up: columns/lines in resizeImage, CellSize of all four image kinds = ceil(pixel extent / cell pixel extent) of the image resizeImage returned (not of a padded or rounded-up quantity), with the cell geometry that was passed to resizeImage and the box passed through unchanged",
		"C20.h pixel extents of the source are extents (Dx/Dy or Max-Min), not Max coordinates",
		"C20.i block images: cell i reads pixels (i mod W, 2*(i div W)) and the one below from the resized image; Draw puts cell i at (i mod W, i div W) - in any loop structure: the element drawn at (column, row) has index row*W + column with W the image's own width, as a polynomial identity over the loop variables; each half of a half-block cell shows its own pixel's colour if opaque and the default colour if transparent; a cell that a path through the loop does not store must be the zero value of a slice made in the same Resize",
		"C20.j colour plumbing: toRGB and averageColor keep channels apart and in order; averageColor averages all its inputs",
		"C20.k every placement queued by a Draw sets all fields: position from win.Origin(), identity from the image, functions non-nil",
		"C20.m kitty put/delete commands address the same image id and placement id, delete keeps the image data",
		"C20.n a renderer that averages the pixel pair of a cell averages the lower pixel iff it exists (its row is below the pixel height)",
		"C20.p each Resize computes CellSize from the same notion of size (Bounds().Max or extent) by which resizeImage tested and scaled the source, which it may return untouched",
	}
	c.NotDec = []string{"aspect ratio within one cell and rounding of the scaled extents (arithmetic over values)", "the averaged colour values themselves", "nearest-neighbour sampling (x/image/draw)", "sixel/PNG encoders"}
	c.Assume = append(c.Assume, "scale factors are not NaN (the source image is not empty)", "calls made inside the analysed functions do not modify their locals or the receiver's geometry fields")
	// minima: instances counted on today's tree and confirmed by reading image.go / vaxis.go / window.go
	c.expect("C20.a", 3)  // dst width, dst height, common factor
	c.expect("C20.b", 6)  // 5 compared fields + reflexivity
	c.expect("C20.c", 17) // 9 Window method calls in the four Draws, 4 "nothing else", 2x2 fit guards (sixel, kitty)
	c.expect("C20.d", 13) // 12 diff obligations in render + cup
	c.expect("C20.e", 2)  // full block, half block
	c.expect("C20.f", 3)  // return-if-fits (w, h), scale-only-if-not
	c.expect("C20.g", 14) // resizeImage columns/lines + (args, width, height) x 4 kinds
	c.expect("C20.h", 2)  // source width, height
	c.expect("C20.i", 10) // 2 pixel maps, 2+4 arms, 2 Draw maps
	c.expect("C20.j", 9)  // toRGB 4, averageColor 4+1
	c.expect("C20.k", 8)  // Size, Origin, 3 per payload kind
	c.expect("C20.m", 2)  // kitty put, delete
	c.expect("C20.n", 1)  // full block
	c.expect("C20.p", 10) // width and height of the four image kinds + pixel origin of the two block kinds
	c20NormaliseLits(c)
	pk := c.P.Pkg("vaxis")
	if pk == nil {
		c.undecided("C20.a", "vaxis", 0, "package not loaded")
		return
	}
	c20ResizeImage(c)
	kinds := c20ImageKinds(c)
	for _, k := range kinds {
		c20ResizeMethod(c, k)
		c20BlockKind(c, k)
	}
	c20WindowAccessors(c)
	for _, k := range kinds {
		c20DrawMethod(c, k)
	}
	c20ColourPlumbing(c)
	c20SamePlacement(c)
	c20Render(c)
	if os.Getenv("C20_DEBUG") == "all" {
		for _, o := range c.Obs {
			fmt.Printf("OBL %-10s %s [%s] %s\n", o.Status, o.Key, o.Pos, o.Reason)
		}
	}
}

// ---------------------------------------------------------------------------
// cell counts: ceil(extent / cell extent)

type c20Cells struct {
	ok     bool    // v is a quotient of an image extent
	ext    *c20Val // the extent
	den    *c20Val // the divisor
	status int     // 1 rounds up, 3 does not, 2 unknown shape
	why    string
}

// c20CellCount recognises v = ceil(extent / den) in the three idioms
// q := e/d; if e%d != 0 { q++ }   |   if e%2 != 0 { e++ }; q := e/2   |   (e+d-1)/d
// (and e itself when the divisor is the constant 1).
func c20CellCount(st *c20State, v *c20Val) c20Cells {
	isExt := func(e *c20Val) bool { return e != nil && (e.kind == "ext" || e.kind == "extmax") }
	if isExt(v) {
		return c20Cells{ok: true, ext: v, status: 1, why: "the extent itself (cell extent 1)"}
	}
	q, inc := v, 0
	if v.kind == "inc" {
		q, inc = v.base, v.inc
	}
	if q == nil || q.kind != "bin" || q.op != token.QUO {
		return c20Cells{}
	}
	num, den := q.args[0], q.args[1]
	switch {
	case isExt(num):
		out := c20Cells{ok: true, ext: num, den: den}
		if den.kind == "const" && den.hasK && den.k == 1 {
			out.status, out.why = 1, "divisor 1"
			return out
		}
		nz, known := st.rem[c20RemKey(num, den)]
		switch {
		case !known:
			out.status, out.why = 3, fmt.Sprintf("%s is used without testing the remainder %s %% %s: the count rounds down", q.disp, num.disp, den.disp)
		case nz && inc == 1, !nz && inc == 0:
			out.status, out.why = 1, "quotient plus one exactly when the remainder is non-zero"
		default:
			out.status, out.why = 3, fmt.Sprintf("remainder non-zero=%v but the quotient was incremented %d time(s)", nz, inc)
		}
		return out
	case num.kind == "inc" && isExt(num.base):
		out := c20Cells{ok: true, ext: num.base, den: den}
		if !(den.kind == "const" && den.hasK && den.k == 2) {
			out.status, out.why = 2, "extent incremented before the division by a divisor other than 2"
			return out
		}
		nz, known := st.rem[c20RemKey(num.base, den)]
		switch {
		case inc != 0:
			out.status, out.why = 3, "incremented both before and after the division"
		case known && nz && num.inc == 1:
			out.status, out.why = 1, "odd extent made even before halving"
		default:
			out.status, out.why = 3, fmt.Sprintf("extent incremented %d time(s) without an odd-remainder test (known=%v, odd=%v)", num.inc, known, nz)
		}
		return out
	case num.kind == "bin" && num.op == token.SUB && num.args[1].kind == "const" && num.args[1].k == 1 &&
		num.args[0].kind == "bin" && num.args[0].op == token.ADD:
		a, b := num.args[0].args[0], num.args[0].args[1]
		if isExt(b) {
			a, b = b, a
		}
		if isExt(a) && b == den && inc == 0 {
			return c20Cells{ok: true, ext: a, den: den, status: 1, why: "(e+d-1)/d"}
		}
	}
	return c20Cells{}
}

func c20RelString(r uint8) string {
	var s []string
	if r&c20LT != 0 {
		s = append(s, "<")
	}
	if r&c20EQ != 0 {
		s = append(s, "=")
	}
	if r&c20GT != 0 {
		s = append(s, ">")
	}
	return "{" + strings.Join(s, ",") + "}"
}

// ---------------------------------------------------------------------------
// resizeImage: clauses a, f, g (columns/lines), h

var c20AxisName = map[string]string{"w": "width", "h": "height"}

func c20ResizeImage(c *Ctx) {
	const fname = "vaxis.resizeImage"
	fi := c.P.Func(fname)
	if fi == nil {
		c.undecided("C20.a", fname, 0, "function not found")
		return
	}
	info := fi.Pkg.TypesInfo
	params := c20Params(info, fi.Decl.Type)
	okSig := len(params) == 5 && params[0] != nil && c20IsNamed(params[0].Type(), "image", "Image")
	for i := 1; okSig && i < 5; i++ {
		b, isB := params[i].Type().Underlying().(*types.Basic)
		okSig = isB && b.Info()&types.IsInteger != 0
	}
	if !okSig {
		c.undecided("C20.a", fname+"/signature", fi.Decl.Pos(), "expected (image.Image, w, h, cellPixW, cellPixH int)")
		return
	}
	roles := map[types.Object]string{params[0]: "img", params[1]: "box.w", params[2]: "box.h", params[3]: "cell.w", params[4]: "cell.h"}
	g := c.P.Graph(fi)
	x := c20NewExec(c, g, roles)
	agg := c20NewAgg(c)
	pos := fi.Decl.Pos()

	dstCalls := g.Calls(func(fn *types.Func, call *ast.CallExpr) bool { return fn != nil && fullName(fn) == "image.NewRGBA" })
	if len(dstCalls) == 0 {
		c.undecided("C20.a", fname+"/destination", pos, "no image.NewRGBA destination found")
		return
	}
	dstAt := map[Loc]*ast.CallExpr{}
	for _, h := range dstCalls {
		dstAt[h.Loc] = h.Node.(*ast.CallExpr)
	}
	keyScaled := func(ax string) string {
		return fname + "/destination " + c20AxisName[ax] + " = source " + c20AxisName[ax] + " times the smaller box/image ratio on every non-fit path"
	}
	keySame := fname + "/destination width and height use one scale factor"
	keyNoUp := fname + "/scales only when the image does not fit"
	keyRet := func(ax string) string {
		return fname + "/returns the source unchanged only if its " + c20AxisName[ax] + " fits"
	}
	keyCeil := func(ax string) string { return fname + "/cell count of the source " + c20AxisName[ax] + " rounds up" }
	keyExt := func(ax string) string { return fname + "/source " + c20AxisName[ax] + " is an extent of Bounds()" }
	for _, ax := range []string{"w", "h"} {
		agg.declare("C20.a", keyScaled(ax), pos)
	}
	agg.declare("C20.a", keySame, pos)
	agg.declare("C20.f", keyNoUp, pos)
	for _, ax := range []string{"w", "h"} {
		agg.declare("C20.f", keyRet(ax), pos)
		agg.declare("C20.g", keyCeil(ax), pos)
		agg.declare("C20.h", keyExt(ax), pos)
	}

	boxOf := func(st *c20State, ax string) *c20Val {
		for o, r := range roles {
			if r == "box."+ax {
				return st.env[fmt.Sprintf("%p", o)]
			}
		}
		return nil
	}
	// cell-count candidates of an axis among the current variable values
	cellsOf := func(st *c20State, ax string) []*c20Val {
		seen := map[*c20Val]bool{}
		var out []*c20Val
		var keys []string
		for k := range st.env {
			keys = append(keys, k)
		}
		sort.Strings(keys)
		for _, k := range keys {
			v := st.env[k]
			if seen[v] {
				continue
			}
			seen[v] = true
			cc := c20CellCount(st, v)
			if cc.ok && cc.den != nil && cc.ext.axis == ax && cc.ext.img != nil && cc.ext.img.role == "img" {
				out = append(out, v)
			}
		}
		return out
	}
	checkCells := func(st *c20State, v *c20Val, ax string, p token.Pos) {
		cc := c20CellCount(st, v)
		if !cc.ok {
			return
		}
		if cc.den == nil || cc.den.role != "cell."+ax {
			agg.bad("C20.g", keyCeil(ax), p, "the source %s is divided by %s, not by the cell %s parameter", c20AxisName[ax], cc.den, c20AxisName[ax])
		} else {
			agg.note("C20.g", keyCeil(ax), p, cc.status, "%s [path: %s]", cc.why, c20Conds(st))
		}
		c20SrcMeasure[ax][cc.ext.kind] = true
		if cc.ext.kind == "ext" {
			agg.ok("C20.h", keyExt(ax), p, "%s is Dx/Dy or Max-Min", cc.ext.disp)
		} else {
			agg.bad("C20.h", keyExt(ax), p, "%s is the Max coordinate of Bounds(), not the extent: an image whose Bounds().Min is not (0,0) (any SubImage) is measured too large, is scaled up, and its pixels are addressed outside its bounds", cc.ext.disp)
		}
	}

	atDst := func(st *c20State, call *ast.CallExpr) {
		p := call.Pos()
		var W, H *c20Val
		if len(call.Args) == 1 {
			if rc, ok := unparen(call.Args[0]).(*ast.CallExpr); ok && len(rc.Args) == 4 {
				if fn := calleeOf(info, rc); fn != nil && fullName(fn) == "image.Rect" {
					x0, y0 := x.eval(st, rc.Args[0]), x.eval(st, rc.Args[1])
					if x0.kind == "const" && x0.hasK && x0.k == 0 && y0.kind == "const" && y0.hasK && y0.k == 0 {
						W, H = x.eval(st, rc.Args[2]), x.eval(st, rc.Args[3])
					}
				}
			}
		}
		if W == nil {
			for _, ax := range []string{"w", "h"} {
				agg.und("C20.a", keyScaled(ax), p, "destination is not image.NewRGBA(image.Rect(0, 0, W, H))")
			}
			return
		}
		// ratios computed on this path
		ratio := map[string]*c20Val{}
		for _, v := range st.vals {
			if v.kind == "bin" && v.op == token.QUO && v.dependsOnPrefix("box.") {
				switch {
				case v.deps["box.w"] && !v.deps["box.h"]:
					ratio["w"] = v
				case v.deps["box.h"] && !v.deps["box.w"]:
					ratio["h"] = v
				}
			}
		}
		ratioShape := func(ax string) (bool, string) {
			r := ratio[ax]
			if r == nil {
				return false, "no box/image ratio of the " + c20AxisName[ax] + " is computed"
			}
			other := "h"
			if ax == "h" {
				other = "w"
			}
			num, den := r.args[0], r.args[1]
			if num.role != "box."+ax {
				return false, fmt.Sprintf("numerator of %s is not the box %s", r.disp, c20AxisName[ax])
			}
			if !den.deps["src."+ax] || den.deps["src."+other] || den.deps["cell."+other] || den.dependsOnPrefix("box.") {
				return false, fmt.Sprintf("denominator of %s is not the cell count of the source %s (depends on %v)", r.disp, c20AxisName[ax], c20SortedKeys(den.deps))
			}
			return true, ""
		}
		factor := map[string]*c20Val{}
		for _, d := range []struct {
			ax string
			v  *c20Val
		}{{"w", W}, {"h", H}} {
			key := keyScaled(d.ax)
			v := d.v
			var F, S *c20Val
			if v.kind == "bin" && v.op == token.MUL {
				for i := 0; i < 2; i++ {
					if e := v.args[i]; (e.kind == "ext" || e.kind == "extmax") && e.img != nil && e.img.role == "img" {
						S, F = e, v.args[1-i]
					}
				}
			}
			if S == nil {
				if !v.dependsOnPrefix("box.") {
					agg.bad("C20.a", key, p, "on the path [%s] the destination %s is %s, which does not depend on the box: an image that does not fit keeps its size", c20Conds(st), c20AxisName[d.ax], v.disp)
				} else {
					agg.und("C20.a", key, p, "destination %s %s is not of the form factor * source extent", c20AxisName[d.ax], v.disp)
				}
				continue
			}
			if S.axis != d.ax {
				agg.bad("C20.a", key, p, "the destination %s is computed from the source %s (%s)", c20AxisName[d.ax], c20AxisName[S.axis], S.disp)
				continue
			}
			factor[d.ax] = F
			var cands []*c20Val
			switch {
			case F == ratio["w"] || F == ratio["h"]:
				fa, oa := "w", "h"
				if F == ratio["h"] {
					fa, oa = "h", "w"
				}
				if ok, why := ratioShape(fa); !ok {
					agg.bad("C20.a", key, p, "%s", why)
					continue
				}
				if ok, why := ratioShape(oa); !ok {
					agg.bad("C20.a", key, p, "factor %s is used but %s: the other dimension can exceed the box", F.disp, why)
					continue
				}
				r := st.relOf(F, ratio[oa])
				switch {
				case r&c20GT == 0:
					agg.ok("C20.a", key, p, "factor %s with %s %s %s", F.disp, F.disp, c20RelString(r), ratio[oa].disp)
				case r == c20LT|c20EQ|c20GT && st.opaque > 0:
					agg.und("C20.a", key, p, "factor %s chosen under conditions the executor cannot read: %s", F.disp, c20Conds(st))
				default:
					agg.bad("C20.a", key, p, "on the path [%s] the factor %s may be the larger ratio (%s %s %s): the other dimension exceeds the box", c20Conds(st), F.disp, F.disp, c20RelString(r), ratio[oa].disp)
				}
			case F.kind == "min":
				cands = F.args
				okMin := len(cands) == 2 && ((cands[0] == ratio["w"] && cands[1] == ratio["h"]) || (cands[0] == ratio["h"] && cands[1] == ratio["w"]))
				if okMin {
					ok1, w1 := ratioShape("w")
					ok2, w2 := ratioShape("h")
					if ok1 && ok2 {
						agg.ok("C20.a", key, p, "factor is min of the two ratios")
					} else {
						agg.bad("C20.a", key, p, "%s %s", w1, w2)
					}
				} else {
					agg.und("C20.a", key, p, "factor %s is a min of something other than the two ratios", F.disp)
				}
			case F.kind == "max":
				agg.bad("C20.a", key, p, "the larger ratio is used (%s)", F.disp)
			default:
				agg.und("C20.a", key, p, "factor %s is not one of the box/image ratios", F.disp)
			}
			c20SrcMeasure[d.ax][S.kind] = true
			if S.kind == "ext" {
				agg.ok("C20.h", keyExt(d.ax), p, "%s is Dx/Dy or Max-Min", S.disp)
			} else {
				agg.bad("C20.h", keyExt(d.ax), p, "%s is the Max coordinate of Bounds(), not the extent: an image whose Bounds().Min is not (0,0) (any SubImage) is measured too large, is scaled up, and its pixels are addressed outside its bounds", S.disp)
			}
		}
		if factor["w"] != nil && factor["h"] != nil {
			if factor["w"] == factor["h"] {
				agg.ok("C20.a", keySame, p, "both use %s", factor["w"].disp)
			} else {
				agg.bad("C20.a", keySame, p, "on the path [%s] the width is scaled by %s and the height by %s: the aspect ratio is not kept", c20Conds(st), factor["w"].disp, factor["h"].disp)
			}
		} else {
			agg.ok("C20.a", keySame, p, "path without two scaled dimensions (reported under the per-dimension obligations)")
		}
		// never upscale: reached only when some dimension does not fit strictly
		if ratio["w"] != nil && ratio["h"] != nil {
			cw, ch := ratio["w"].args[1], ratio["h"].args[1]
			rw, rh := st.relOf(cw, boxOf(st, "w")), st.relOf(ch, boxOf(st, "h"))
			if rw&c20LT == 0 || rh&c20LT == 0 {
				agg.ok("C20.f", keyNoUp, p, "cells across %s box or cells down %s box", c20RelString(rw), c20RelString(rh))
			} else {
				agg.bad("C20.f", keyNoUp, p, "on the path [%s] the scaling branch is reachable although the image may be smaller than the box in both dimensions (%s %s w, %s %s h): both ratios exceed 1 and the image is scaled up", c20Conds(st), cw.disp, c20RelString(rw), ch.disp, c20RelString(rh))
			}
			checkCells(st, cw, "w", p)
			checkCells(st, ch, "h", p)
		} else {
			agg.und("C20.f", keyNoUp, p, "the two box/image ratios were not found on the path [%s]", c20Conds(st))
		}
	}

	atReturn := func(st *c20State, ret *ast.ReturnStmt) {
		if len(ret.Results) != 1 {
			return
		}
		v := x.eval(st, ret.Results[0])
		if v.role != "img" {
			return
		}
		for _, ax := range []string{"w", "h"} {
			box := x.lookup(st, c20IdentFor(fi.Decl, info, roles, "box."+ax))
			cands := cellsOf(st, ax)
			if len(cands) == 0 {
				agg.bad("C20.f", keyRet(ax), ret.Pos(), "the source is returned unchanged on the path [%s] where no cell count of its %s has been computed", c20Conds(st), c20AxisName[ax])
				continue
			}
			fits := false
			for _, cv := range cands {
				if st.relOf(cv, box)&c20GT == 0 {
					fits = true
				}
				checkCells(st, cv, ax, ret.Pos())
			}
			if fits {
				agg.ok("C20.f", keyRet(ax), ret.Pos(), "cell count <= box on the returning path")
			} else {
				agg.bad("C20.f", keyRet(ax), ret.Pos(), "the source is returned unchanged on the path [%s] where its %s in cells (%s) is not known to be <= the box: an image larger than the box is not scaled", c20Conds(st), c20AxisName[ax], cands[0].disp)
			}
		}
	}

	x.run(func(st *c20State, l Loc, n ast.Node) bool {
		if call, ok := dstAt[l]; ok {
			atDst(st, call)
			return true
		}
		if ret, ok := n.(*ast.ReturnStmt); ok {
			atReturn(st, ret)
			return true
		}
		return false
	}, nil)
	if x.overflow {
		c.undecided("C20.a", fname+"/paths", pos, "more than %d paths", c20MaxPaths)
	}
	agg.flush()
}

// c20IdentFor fabricates nothing: it returns the declaring identifier of the parameter with the given role.
func c20IdentFor(fd *ast.FuncDecl, info *types.Info, roles map[types.Object]string, role string) *ast.Ident {
	for _, f := range fd.Type.Params.List {
		for _, n := range f.Names {
			if roles[info.Defs[n]] == role {
				return n
			}
		}
	}
	return nil
}

// ---------------------------------------------------------------------------
// the Image implementations

type c20Kind struct {
	name   string // type name
	named  *types.Named
	resize *FuncInfo
	draw   *FuncInfo
	size   *FuncInfo
	sizeF  [2]*types.Var // fields returned by CellSize (width, height)
}

func c20ImageKinds(c *Ctx) []*c20Kind {
	pk := c.P.Pkg("vaxis")
	ifObj, _ := pk.Types.Scope().Lookup("Image").(*types.TypeName)
	if ifObj == nil {
		c.undecided("C20.g", "vaxis.Image", 0, "interface Image not found")
		return nil
	}
	iface, _ := ifObj.Type().Underlying().(*types.Interface)
	if iface == nil {
		c.undecided("C20.g", "vaxis.Image", ifObj.Pos(), "Image is not an interface")
		return nil
	}
	var out []*c20Kind
	names := pk.Types.Scope().Names()
	sort.Strings(names)
	for _, n := range names {
		tn, ok := pk.Types.Scope().Lookup(n).(*types.TypeName)
		if !ok || tn == ifObj {
			continue
		}
		named, ok := tn.Type().(*types.Named)
		if !ok {
			continue
		}
		if _, isStruct := named.Underlying().(*types.Struct); !isStruct {
			continue
		}
		if !types.Implements(types.NewPointer(named), iface) && !types.Implements(named, iface) {
			continue
		}
		k := &c20Kind{name: n, named: named}
		for _, star := range []string{"(*%s)", "%s"} {
			recv := fmt.Sprintf(star, n)
			if f := c.P.Func("vaxis." + recv + ".Resize"); f != nil {
				k.resize = f
			}
			if f := c.P.Func("vaxis." + recv + ".Draw"); f != nil {
				k.draw = f
			}
			if f := c.P.Func("vaxis." + recv + ".CellSize"); f != nil {
				k.size = f
			}
		}
		if k.resize == nil || k.draw == nil || k.size == nil {
			c.undecided("C20.g", "vaxis."+n+"/methods", tn.Pos(), "Resize, Draw or CellSize is not declared directly on %s (embedding is not understood)", n)
			continue
		}
		// CellSize result fields
		info := k.size.Pkg.TypesInfo
		recv := c20RecvObj(info, k.size.Decl)
		okSize := false
		ast.Inspect(k.size.Decl.Body, func(nd ast.Node) bool {
			ret, ok := nd.(*ast.ReturnStmt)
			if !ok || len(ret.Results) != 2 {
				return true
			}
			var f [2]*types.Var
			for i, r := range ret.Results {
				se, ok := unparen(r).(*ast.SelectorExpr)
				if !ok {
					return true
				}
				id, ok := unparen(se.X).(*ast.Ident)
				if !ok || recv == nil || info.Uses[id] != recv {
					return true
				}
				if sel, ok := info.Selections[se]; ok && sel.Kind() == types.FieldVal {
					f[i], _ = sel.Obj().(*types.Var)
				}
			}
			if f[0] != nil && f[1] != nil {
				if okSize && (k.sizeF != f) {
					k.sizeF = [2]*types.Var{}
					return false
				}
				k.sizeF, okSize = f, true
			}
			return true
		})
		if k.sizeF[0] == nil {
			c.undecided("C20.g", "vaxis."+n+".CellSize", k.size.Decl.Pos(), "CellSize does not return two fields of its receiver")
			continue
		}
		out = append(out, k)
	}
	if len(out) == 0 {
		c.undecided("C20.g", "vaxis.Image/implementations", ifObj.Pos(), "no implementation of Image found")
	}
	return out
}

// c20GraphWithCall returns the graph (the method body or a function literal in
// it) that contains a call to the named repository function.
func c20GraphWithCall(c *Ctx, fi *FuncInfo, callee string) (*FG, []Hit) {
	isCall := func(fn *types.Func, call *ast.CallExpr) bool { return fn != nil && repoName(fn) == callee }
	g := c.P.Graph(fi)
	if hits := g.Calls(isCall); len(hits) > 0 {
		return g, hits
	}
	var lits []*ast.FuncLit
	ast.Inspect(fi.Decl.Body, func(n ast.Node) bool {
		if l, ok := n.(*ast.FuncLit); ok {
			lits = append(lits, l)
		}
		return true
	})
	for i, l := range lits {
		gl := c.P.GraphOfLit(fi.Pkg, fmt.Sprintf("%s$%d", fi.Name, i+1), l)
		if hits := gl.Calls(isCall); len(hits) > 0 {
			return gl, hits
		}
	}
	return nil, nil
}

func c20ResizeMethod(c *Ctx, k *c20Kind) {
	fi := k.resize
	name := fi.Name
	info := fi.Pkg.TypesInfo
	params := c20Params(info, fi.Decl.Type)
	recv := c20RecvObj(info, fi.Decl)
	if len(params) != 2 || recv == nil {
		c.undecided("C20.g", name+"/signature", fi.Decl.Pos(), "expected Resize(w, h) with a named receiver")
		return
	}
	g, hits := c20GraphWithCall(c, fi, "vaxis.resizeImage")
	if g == nil {
		c.undecided("C20.g", name+"/resizeImage", fi.Decl.Pos(), "no call of resizeImage found in Resize or a function literal of it")
		return
	}
	pos := hits[0].Node.Pos()
	roles := map[types.Object]string{params[0]: "box.w", params[1]: "box.h", recv: "recv"}
	x := c20NewExec(c, g, roles)
	agg := c20NewAgg(c)
	keyArgs := name + "/resizeImage receives the stored source, the box unchanged and a cell geometry pairing X with columns and Y with rows"
	keySize := func(ax string) string {
		return name + "/CellSize " + c20AxisName[ax] + " = ceil(resized pixel " + c20AxisName[ax] + " / cell pixel " + c20AxisName[ax] + ")"
	}
	agg.declare("C20.g", keyArgs, pos)
	agg.declare("C20.g", keySize("w"), pos)
	agg.declare("C20.g", keySize("h"), pos)
	keySame := func(ax string) string {
		return name + "/CellSize " + c20AxisName[ax] + " measures the returned image the way resizeImage measured the source (both Bounds().Max or both extent)"
	}
	agg.declare("C20.p", keySame("w"), pos)
	agg.declare("C20.p", keySame("h"), pos)
	resizeObj := c.P.Func("vaxis.resizeImage").Obj

	cellGeom := func(a *c20Val, pix, cnt string) (bool, string) {
		if a.kind == "const" && a.hasK && a.k > 0 {
			return true, ""
		}
		if a.kind == "bin" && a.op == token.QUO {
			n, d := a.args[0], a.args[1]
			if n.kind == "root" && d.kind == "root" && n.fld != nil && d.fld != nil && n.fld.Name() == pix && d.fld.Name() == cnt &&
				strings.TrimSuffix(n.disp, "."+pix) == strings.TrimSuffix(d.disp, "."+cnt) {
				return true, ""
			}
		}
		return false, fmt.Sprintf("%s is neither a positive constant nor %s/%s of one window size", a.disp, pix, cnt)
	}

	atEnd := func(st *c20State) {
		var cv *c20Val
		for _, v := range st.vals {
			if v.kind == "call" && v.fn == resizeObj {
				cv = v
			}
		}
		if cv == nil || len(cv.args) != 5 {
			return // resizeImage not reached on this path (early return)
		}
		a := cv.args
		var probs []string
		srcOK := a[0].kind == "root" && a[0].fld != nil && c20IsNamed(a[0].fld.Type(), "image", "Image") && strings.HasPrefix(a[0].disp, recv.Name()+".")
		if !srcOK {
			probs = append(probs, fmt.Sprintf("the image passed (%s) is not the receiver's stored source", a[0].disp))
		}
		if a[1].role != "box.w" {
			probs = append(probs, fmt.Sprintf("the box width passed is %s, not Resize's first parameter", a[1].disp))
		}
		if a[2].role != "box.h" {
			probs = append(probs, fmt.Sprintf("the box height passed is %s, not Resize's second parameter", a[2].disp))
		}
		if ok, why := cellGeom(a[3], "XPixel", "Cols"); !ok {
			probs = append(probs, "cell pixel width: "+why)
		}
		if ok, why := cellGeom(a[4], "YPixel", "Rows"); !ok {
			probs = append(probs, "cell pixel height: "+why)
		}
		if len(probs) > 0 {
			agg.bad("C20.g", keyArgs, pos, "%s", strings.Join(probs, "; "))
		} else {
			agg.ok("C20.g", keyArgs, pos, "resizeImage(%s, %s, %s, %s, %s)", a[0].disp, a[1].disp, a[2].disp, a[3].disp, a[4].disp)
		}
		for i, ax := range []string{"w", "h"} {
			key := keySize(ax)
			fv := st.env[fmt.Sprintf("%p.%s", recv, k.sizeF[i].Name())]
			if fv == nil {
				passed := false
				for _, v := range st.vals {
					if v.kind == "call" && v != cv && v.deps["recv"] {
						for _, a := range v.args {
							if a.role == "recv" {
								passed = true
							}
						}
					}
				}
				if passed {
					agg.und("C20.g", key, pos, "%s.%s is not assigned in Resize itself and the receiver is handed to another function", recv.Name(), k.sizeF[i].Name())
				} else {
					agg.bad("C20.g", key, pos, "on the path [%s] the image is resized but %s.%s keeps its old value", c20Conds(st), recv.Name(), k.sizeF[i].Name())
				}
				continue
			}
			cc := c20CellCount(st, fv)
			den := a[3+i]
			if !cc.ok {
				// not one of the idioms: a term over the extent, the cell extent and constants is decided by
				// evaluating it on the path (c20eval.go)
				if vd := c20EvalCellCount(st, fv, den); vd.decided {
					cc = vd.cells
					if cc.status == 3 {
						fv := &c20Val{disp: fv.disp}
						if b := st.env[fmt.Sprintf("%p.%s", recv, k.sizeF[i].Name())]; b.kind == "inc" && b.base != nil {
							fv.disp = fmt.Sprintf("%s + %d", b.base.disp, b.inc) // (the text of an increment is the statement)
						}
						unit := map[string]string{"w": "column", "h": "row"}[ax]
						switch {
						case vd.got > vd.want && vd.padded != "":
							cc.why = fmt.Sprintf("%s.%s = %s is the cell count of a rounded-up pixel %s (%s), not of the image resizeImage fitted into the box: a cell of %d pixels and an image of %d pixels give %d %ss where the image occupies %d - an image that fills its box reports a CellSize larger than the box",
								recv.Name(), k.sizeF[i].Name(), fv.disp, c20AxisName[ax], vd.padded, vd.d, vd.e, vd.got, unit, vd.want)
						case vd.got > vd.want:
							cc.why = fmt.Sprintf("%s.%s = %s exceeds ceil(pixel %s / cell pixel %s): a cell of %d pixels and an image of %d pixels give %d %ss where the image occupies %d - an image that fills its box reports a CellSize larger than the box",
								recv.Name(), k.sizeF[i].Name(), fv.disp, c20AxisName[ax], c20AxisName[ax], vd.d, vd.e, vd.got, unit, vd.want)
						default:
							cc.why = fmt.Sprintf("%s.%s = %s rounds down: a cell of %d pixels and an image of %d pixels give %d %s(s) where the image occupies %d",
								recv.Name(), k.sizeF[i].Name(), fv.disp, vd.d, vd.e, vd.got, unit, vd.want)
						}
					}
				}
			}
			switch {
			case !cc.ok:
				agg.und("C20.g", key, pos, "%s.%s = %s is not a cell count of an image extent", recv.Name(), k.sizeF[i].Name(), fv.disp)
			case cc.ext.img != cv:
				agg.bad("C20.g", key, pos, "%s.%s is computed from %s, not from the image resizeImage returned", recv.Name(), k.sizeF[i].Name(), cc.ext.disp)
			case cc.ext.axis != ax:
				agg.bad("C20.g", key, pos, "%s.%s (CellSize %s) is computed from the pixel %s", recv.Name(), k.sizeF[i].Name(), c20AxisName[ax], c20AxisName[cc.ext.axis])
			case cc.den == nil && !(den.kind == "const" && den.hasK && den.k == 1):
				agg.bad("C20.g", key, pos, "%s.%s is the pixel extent although resizeImage was told a cell is %s pixels", recv.Name(), k.sizeF[i].Name(), den.disp)
			case cc.den != nil && cc.den != den:
				agg.bad("C20.g", key, pos, "%s.%s divides by %s although resizeImage was told a cell is %s pixels", recv.Name(), k.sizeF[i].Name(), cc.den.disp, den.disp)
			default:
				agg.note("C20.g", key, pos, cc.status, "%s [path: %s]", cc.why, c20Conds(st))
			}
			// clause p: the caller measures the returned image the way resizeImage measured the source.
			// resizeImage hands the source back untouched when it fits, so an image whose Bounds().Min is
			// not (0,0) reaches the caller: Max there and extent here (or the reverse) disagree by Min.
			if cc.ok && cc.ext.img == cv && cc.ext.axis == ax {
				kp := keySame(ax)
				src := c20SrcMeasure[ax]
				switch {
				case len(src) != 1:
					agg.und("C20.p", kp, pos, "resizeImage measures the source %s in %d ways (%v); nothing to agree with", c20AxisName[ax], len(src), c20SortedKeys(src))
				case src[cc.ext.kind]:
					agg.ok("C20.p", kp, pos, "both use %s", c20MeasureName[cc.ext.kind])
				default:
					agg.bad("C20.p", kp, pos, "resizeImage tests and scales the source %s as %s, but %s.%s is computed from %s (%s) of the image it returns; a source that fits is returned untouched, so for an image whose Bounds().Min is not (0,0) the two differ by Min: CellSize reports more (or fewer) cells than the box that was tested", c20AxisName[ax], c20MeasureName[c20SortedKeys(src)[0]], recv.Name(), k.sizeF[i].Name(), cc.ext.disp, c20MeasureName[cc.ext.kind])
				}
			}
		}
	}
	if outer := c.P.Graph(fi); outer != nil && outer != g {
		// resizeImage is called inside a function literal (the encoder goroutine): the literal is entered from the
		// statement of Resize that contains it, so that what it captures has the value Resize computed (c20ctx.go)
		x.runLitInContext(outer, g, nil, func(st *c20State, b *cfg.Block) { atEnd(st) })
	} else {
		x.run(nil, func(st *c20State, b *cfg.Block) { atEnd(st) })
	}
	if x.overflow {
		c.undecided("C20.g", name+"/paths", pos, "more than %d paths", c20MaxPaths)
	}
	agg.flush()
}

// ---------------------------------------------------------------------------
// block images: clauses e and i

// (Cell values are read by (*c20Exec).cellOf, c20ip.go: a literal, or a variable built from a literal and field assignments.)

func c20Or(e ast.Expr) ast.Expr {
	if e == nil {
		return &ast.BadExpr{}
	}
	return e
}

// which halves of the cell show the foreground ('F') / background ('B'): upper, lower
var c20Glyphs = map[string][2]byte{"▀": {'F', 'B'}, "▄": {'B', 'F'}, " ": {'B', 'B'}, "█": {'F', 'F'}}

func c20IsResultOf(v, call *c20Val, idx int64) bool {
	return v != nil && v.kind == "result" && len(v.args) == 1 && v.args[0] == call && v.k == idx
}

func c20BlockKind(c *Ctx, k *c20Kind) {
	fi := k.resize
	name := fi.Name
	info := fi.Pkg.TypesInfo
	recv := c20RecvObj(info, fi.Decl)
	params := c20Params(info, fi.Decl.Type)
	if recv == nil || len(params) != 2 {
		return
	}
	g := c.P.Graph(fi)
	// stores into a slice field of the receiver
	isStore := func(n ast.Node) (*ast.AssignStmt, *ast.IndexExpr, *types.Var) {
		as, ok := n.(*ast.AssignStmt)
		if !ok || len(as.Lhs) != 1 || len(as.Rhs) != 1 || as.Tok != token.ASSIGN {
			return nil, nil, nil
		}
		ix, ok := unparen(as.Lhs[0]).(*ast.IndexExpr)
		if !ok {
			return nil, nil, nil
		}
		se, ok := unparen(ix.X).(*ast.SelectorExpr)
		if !ok {
			return nil, nil, nil
		}
		id, ok := unparen(se.X).(*ast.Ident)
		if !ok || info.Uses[id] != recv {
			return nil, nil, nil
		}
		sel, ok := info.Selections[se]
		if !ok || sel.Kind() != types.FieldVal {
			return nil, nil, nil
		}
		if _, isSlice := sel.Obj().Type().Underlying().(*types.Slice); !isSlice {
			return nil, nil, nil
		}
		return as, ix, sel.Obj().(*types.Var)
	}
	stores := g.Find(func(n ast.Node) bool { as, _, _ := isStore(n); return as != nil })
	if len(stores) == 0 {
		return // not a block image (payload kinds)
	}
	pk := c.P.Pkg("vaxis")
	var T int64 = -1
	if cst, ok := pk.Types.Scope().Lookup("transparentEnough").(*types.Const); ok {
		if v, ok := constant.Int64Val(constant.ToInt(cst.Val())); ok {
			T = v
		}
	}
	if T < 0 {
		c.undecided("C20.e", "vaxis.transparentEnough", 0, "constant transparentEnough not found")
		return
	}
	var resizeObj, toRGB, avg, rgbColor *types.Func
	for nm, dst := range map[string]**types.Func{"resizeImage": &resizeObj, "toRGB": &toRGB, "averageColor": &avg, "RGBColor": &rgbColor} {
		if f := c.P.Func("vaxis." + nm); f != nil {
			*dst = f.Obj
		}
	}
	if resizeObj == nil || rgbColor == nil {
		c.undecided("C20.i", name+"/helpers", fi.Decl.Pos(), "resizeImage or RGBColor not found")
		return
	}
	roles := map[types.Object]string{params[0]: "box.w", params[1]: "box.h", recv: "recv"}
	x := c20NewExec(c, g, roles)
	agg := c20NewAgg(c)
	pos := fi.Decl.Pos()
	keyMap := name + "/cell i reads the pixels (i mod W, 2*(i div W)) and the one below from the resized image"
	keyThr := name + "/every arm knows on which side of transparentEnough each alpha lies"
	agg.declare("C20.i", keyMap, pos)
	agg.declare("C20.e", keyThr, pos)
	agg.declare("C20.p", name+"/pixel reads start at Bounds().Min exactly when sizes are measured as extents", pos)
	_ = relBelowDoc
	wKey := fmt.Sprintf("%p.%s", recv, k.sizeF[0].Name())

	status := func(st *c20State, alpha *c20Val) string {
		lo, hi := st.interval(alpha)
		switch {
		case hi <= T-1:
			return "transparent"
		case lo >= T:
			return "opaque"
		}
		return fmt.Sprintf("unknown (alpha in [%s,%s], threshold %d)", c20Bound(lo), c20Bound(hi), T)
	}
	// colourOf classifies a colour expression: "default", "pixel" (RGBColor of results 0..2 of call), or a description
	colourOf := func(st *c20State, v *c20Val, calls map[string]*c20Val) string {
		if v == nil {
			return "default"
		}
		if v.kind == "const" && v.hasK && v.k == 0 {
			return "default"
		}
		if v.kind == "call" && v.fn == rgbColor && len(v.args) == 3 {
			for nm, cl := range calls {
				if c20IsResultOf(v.args[0], cl, 0) && c20IsResultOf(v.args[1], cl, 1) && c20IsResultOf(v.args[2], cl, 2) {
					return nm
				}
			}
			return "RGBColor with channels out of order or from mixed pixels: " + v.disp
		}
		return "other: " + v.disp
	}

	// atStore judges one cell: at the statement that stores it (rhs = the stored expression), or, with rhs == nil,
	// at the end of a path through the loop body that stores nothing into a slice that was freshly made before the
	// loop: the cell then holds the zero value of the element type.
	atStore := func(st *c20State, p token.Pos, iv *c20Val, idxDisp string, fld *types.Var, rhs ast.Expr) {
		okIdx := iv.kind == "rangevar" && iv.isKey
		if okIdx {
			rse, _ := unparen(iv.rs.X).(*ast.SelectorExpr)
			okIdx = rse != nil && info.Selections[rse] != nil && info.Selections[rse].Obj() == fld && rootObj(info, rse) == recv
		}
		if !okIdx {
			agg.und("C20.i", keyMap, p, "the store index %s is not the key of a range over %s.%s", idxDisp, recv.Name(), fld.Name())
			return
		}
		W := st.env[wKey]
		var cv *c20Val
		var ats []*c20Val
		for _, v := range st.vals {
			if v.kind != "call" || v.fn == nil {
				continue
			}
			if v.fn == resizeObj {
				cv = v
			}
			if v.fn.Name() == "At" && len(v.args) == 3 {
				if sig, ok := v.fn.Type().(*types.Signature); ok && sig.Results().Len() == 1 && c20IsNamed(sig.Results().At(0).Type(), "image/color", "Color") {
					ats = append(ats, v)
				}
			}
		}
		if cv == nil || W == nil || len(ats) < 1 || len(ats) > 2 {
			agg.und("C20.i", keyMap, p, "expected one resizeImage call, the width field set and one or two pixel reads before the store (found %d reads)", len(ats))
			return
		}
		top := ats[0]
		var bot *c20Val
		if len(ats) == 2 {
			bot = ats[1]
		}
		isBelow := func(a, b *c20Val) bool { // a.y == b.y + 1
			y := a.args[2]
			if y.kind == "inc" && y.inc == 1 && y.base == b.args[2] {
				return true
			}
			if y.kind == "bin" && y.op == token.ADD {
				for i := 0; i < 2; i++ {
					if y.args[i] == b.args[2] && y.args[1-i].kind == "const" && y.args[1-i].k == 1 {
						return true
					}
				}
			}
			return false
		}
		switch {
		case bot == nil:
		case isBelow(bot, top):
		case isBelow(top, bot):
			top, bot = bot, top
		default:
			agg.bad("C20.i", keyMap, p, "the two pixel reads %s and %s are not vertically adjacent", top.disp, bot.disp)
			return
		}
		isQuo := func(v *c20Val) bool {
			return v.kind == "bin" && v.op == token.QUO && v.args[0] == iv && v.args[1] == W
		}
		isMod := func(v *c20Val) bool {
			if v.kind == "bin" && v.op == token.REM && v.args[0] == iv && v.args[1] == W {
				return true
			}
			if v.kind == "bin" && v.op == token.SUB && v.args[0] == iv && v.args[1].kind == "bin" && v.args[1].op == token.MUL {
				m := v.args[1]
				return (isQuo(m.args[0]) && m.args[1] == W) || (isQuo(m.args[1]) && m.args[0] == W)
			}
			return false
		}
		isRow2 := func(v *c20Val) bool {
			if v.kind != "bin" || v.op != token.MUL {
				return false
			}
			for i := 0; i < 2; i++ {
				if isQuo(v.args[i]) && v.args[1-i].kind == "const" && v.args[1-i].k == 2 {
					return true
				}
			}
			return false
		}
		// an offset by Bounds().Min of the image read (clause p decides whether it has to be there)
		stripMin := func(v *c20Val, ax string) (*c20Val, bool) {
			if v.kind == "bin" && v.op == token.ADD {
				for i := 0; i < 2; i++ {
					if m := v.args[i]; m.kind == "extmin" && m.axis == ax && m.img == cv {
						return v.args[1-i], true
					}
				}
			}
			return v, false
		}
		colV, colMin := stripMin(top.args[1], "w")
		rowV, rowMin := stripMin(top.args[2], "h")
		keyOrg := name + "/pixel reads start at Bounds().Min exactly when sizes are measured as extents"
		for _, o := range []struct {
			ax  string
			has bool
		}{{"w", colMin}, {"h", rowMin}} {
			src := c20SrcMeasure[o.ax]
			switch {
			case len(src) != 1:
				agg.und("C20.p", keyOrg, p, "resizeImage measures the source %s in %d ways", c20AxisName[o.ax], len(src))
			case src["ext"] == o.has:
				agg.ok("C20.p", keyOrg, p, "offset by Min: %v, sizes are %s", o.has, c20MeasureName[c20SortedKeys(src)[0]])
			case o.has:
				agg.bad("C20.p", keyOrg, p, "the pixel %s is offset by Bounds().Min although sizes are Bounds().Max coordinates: pixels beyond the image are read", map[string]string{"w": "column", "h": "row"}[o.ax])
			default:
				agg.bad("C20.p", keyOrg, p, "sizes are extents (Dx/Dy) but the pixel %s is counted from 0, not from Bounds().Min: for an image that resizeImage returns untouched and whose Min is not (0,0) the cells show pixels outside the image", map[string]string{"w": "column", "h": "row"}[o.ax])
			}
		}
		var probs []string
		if top.args[0] != cv || (bot != nil && bot.args[0] != cv) {
			probs = append(probs, "a pixel is read from "+top.args[0].disp+", not from the image resizeImage returned")
		}
		if bot != nil && top.args[1] != bot.args[1] {
			probs = append(probs, "the two reads use different columns")
		}
		if !isMod(colV) {
			probs = append(probs, fmt.Sprintf("the pixel column %s is not i mod %s.%s", top.args[1].disp, recv.Name(), k.sizeF[0].Name()))
		}
		if !isRow2(rowV) {
			probs = append(probs, fmt.Sprintf("the upper pixel row %s is not 2*(i div %s.%s)", top.args[2].disp, recv.Name(), k.sizeF[0].Name()))
		}
		if len(probs) > 0 {
			agg.bad("C20.i", keyMap, p, "%s", strings.Join(probs, "; "))
		} else {
			agg.ok("C20.i", keyMap, p, "reads %s and %s", top.disp, bot)
		}
		// the pixel below exists iff its row is less than the pixel height of the image: either the
		// absolute row against Bounds().Max.Y (any measure when rows are counted from 0), or, when the
		// reads are offset by Bounds().Min, the relative row against the extent
		plusOne := func(y *c20Val) *c20Val { // the value y + 1, if it was computed on this path
			for _, v := range st.vals {
				if v.kind == "inc" && v.inc == 1 && v.base == y {
					return v
				}
				if v.kind == "bin" && v.op == token.ADD {
					for i := 0; i < 2; i++ {
						if v.args[i] == y && v.args[1-i].kind == "const" && v.args[1-i].hasK && v.args[1-i].k == 1 {
							return v
						}
					}
				}
			}
			return nil
		}
		heights := func(kinds ...string) []*c20Val {
			var out []*c20Val
			for _, v := range st.vals {
				if v.axis == "h" && v.img == cv {
					for _, k := range kinds {
						if v.kind == k {
							out = append(out, v)
						}
					}
				}
			}
			return out
		}
		var relBelow uint8 = c20LT | c20EQ | c20GT
		consider := func(below *c20Val, hs []*c20Val) {
			if below == nil {
				return
			}
			for _, h := range hs {
				relBelow &= st.relOf(below, h)
			}
		}
		absBelow := plusOne(top.args[2])
		if bot != nil {
			absBelow = bot.args[2]
		}
		if rowMin {
			consider(absBelow, heights("extmax"))
			consider(plusOne(rowV), heights("ext"))
		} else {
			consider(absBelow, heights("ext", "extmax"))
		}

		// --- what is stored
		var avgCall *c20Val
		tuple := map[*c20Val]*c20Val{} // At value -> toRGB call on it
		for _, v := range st.vals {
			if v.kind != "call" {
				continue
			}
			if avg != nil && v.fn == avg && len(v.args) >= 1 {
				only, hasTop, hasBot := true, false, false
				for _, a := range v.args {
					switch {
					case a == top:
						hasTop = true
					case bot != nil && a == bot:
						hasBot = true
					default:
						only = false
					}
				}
				if only && hasTop && (bot == nil || hasBot) {
					avgCall = v
				}
			}
			if toRGB != nil && v.fn == toRGB && len(v.args) == 1 && (v.args[0] == top || v.args[0] == bot) {
				tuple[v.args[0]] = v
			}
		}
		alphaOf := func(call *c20Val) *c20Val {
			for _, v := range st.vals {
				if c20IsResultOf(v, call, 3) {
					return v
				}
			}
			return nil
		}
		switch {
		case bot != nil && tuple[top] != nil && tuple[bot] != nil:
			ta, ba := alphaOf(tuple[top]), alphaOf(tuple[bot])
			if ta == nil || ba == nil {
				agg.und("C20.e", keyThr, p, "alpha results of toRGB are not bound")
				return
			}
			sTop, sBot := status(st, ta), status(st, ba)
			if strings.HasPrefix(sTop, "unknown") || strings.HasPrefix(sBot, "unknown") {
				agg.bad("C20.e", keyThr, p, "on the path [%s] a cell is composed with top %s, bottom %s: the arm does not separate alpha < transparentEnough from alpha >= transparentEnough", c20Conds(st), sTop, sBot)
				return
			}
			agg.ok("C20.e", keyThr, p, "thresholds agree with transparentEnough = %d", T)
			key := fmt.Sprintf("%s/cell for top pixel %s, bottom pixel %s", name, sTop, sBot)
			if rhs == nil {
				agg.und("C20.i", key, p, "on the path [%s] no cell is stored for this pixel pair and the zero value of the element type is not a block glyph", c20Conds(st))
				return
			}
			glyph, fg, bg, ok := x.cellOf(st, rhs)
			halves, known := c20Glyphs[glyph]
			if !ok || !known {
				agg.und("C20.i", key, p, "the stored value is not a Cell built from a literal with a constant block glyph (%q)", glyph)
				return
			}
			calls := map[string]*c20Val{"top": tuple[top], "bottom": tuple[bot]}
			col := map[byte]string{'F': colourOf(st, fg, calls), 'B': colourOf(st, bg, calls)}
			var bad []string
			for i, px := range []struct{ nm, st string }{{"top", sTop}, {"bottom", sBot}} {
				shown := col[halves[i]]
				want := px.nm
				if px.st == "transparent" {
					want = "default"
				}
				if shown != want {
					bad = append(bad, fmt.Sprintf("the %s pixel is %s, so the %s half of %q must show the %s colour but shows: %s", px.nm, px.st, []string{"upper", "lower"}[i], glyph, want, shown))
				}
			}
			if len(bad) > 0 {
				agg.bad("C20.i", key, p, "%s", strings.Join(bad, "; "))
			} else {
				agg.ok("C20.i", key, p, "glyph %q foreground=%s background=%s", glyph, col['F'], col['B'])
			}
		case avgCall != nil:
			keyIn := name + "/a pixel is averaged into the cell iff it exists (row below < pixel height)"
			switch {
			case bot != nil && relBelow == c20LT:
				agg.ok("C20.n", keyIn, p, "the lower pixel is read under row+1 < height")
			case bot != nil:
				agg.bad("C20.n", keyIn, p, "on the path [%s] the pixel below (%s) is read and averaged without knowing that its row is < the pixel height of the image (%s): for an odd height the last cell row is averaged with a pixel that does not exist (transparent black), halving its colour and alpha", c20Conds(st), bot.disp, c20RelString(relBelow))
			case relBelow&c20LT == 0:
				agg.ok("C20.n", keyIn, p, "the lower pixel is left out only where row+1 >= height")
			case relBelow == c20LT|c20EQ|c20GT:
				agg.und("C20.n", keyIn, p, "on the path [%s] only the upper pixel is used and no comparison of the row below with the pixel height was found", c20Conds(st))
			default:
				agg.bad("C20.n", keyIn, p, "on the path [%s] only the upper pixel is used although the pixel below may exist (%s)", c20Conds(st), c20RelString(relBelow))
			}
			a := alphaOf(avgCall)
			if a == nil {
				agg.und("C20.e", keyThr, p, "alpha result of averageColor is not bound")
				return
			}
			sA := status(st, a)
			if strings.HasPrefix(sA, "unknown") {
				agg.bad("C20.e", keyThr, p, "on the path [%s] a cell is coloured with average alpha %s: the literal threshold differs from transparentEnough", c20Conds(st), sA)
				return
			}
			agg.ok("C20.e", keyThr, p, "threshold agrees with transparentEnough = %d", T)
			key := fmt.Sprintf("%s/cell for %s average", name, sA)
			shown := "default" // nothing stored: the zero colour of the fresh slice
			if rhs != nil {
				shown = colourOf(st, x.eval(st, rhs), map[string]*c20Val{"average": avgCall})
			}
			want := "average"
			if sA == "transparent" {
				want = "default"
			}
			if shown == want && rhs == nil {
				agg.ok("C20.i", key, p, "stores nothing into the freshly made slice: the cell keeps the default colour")
			} else if shown == want {
				agg.ok("C20.i", key, p, "stores the %s colour", want)
			} else {
				agg.bad("C20.i", key, p, "the average is %s, so the cell must get the %s colour but gets: %s", sA, want, shown)
			}
		default:
			agg.und("C20.i", name+"/cell colour source", p, "the two pixels are neither converted by toRGB nor averaged by averageColor")
		}
	}
	// the one slice field the stores go to
	var storeFld *types.Var
	for _, h := range stores {
		if _, _, fld := isStore(h.Top); fld != nil {
			if storeFld != nil && storeFld != fld {
				storeFld = nil
				break
			}
			storeFld = fld
		}
	}
	x.run(func(st *c20State, l Loc, n ast.Node) bool {
		if as, ix, fld := isStore(n); as != nil {
			atStore(st, as.Pos(), x.eval(st, ix.Index), types.ExprString(ix.Index), fld, as.Rhs[0])
			return true
		}
		return false
	}, func(st *c20State, b *cfg.Block) {
		// a path that went through the body of the loop over the cells without storing one (a path ends at the
		// first store it meets): the cell of that iteration has whatever the slice held before
		if storeFld == nil {
			return
		}
		var iv *c20Val
		for _, v := range st.vals {
			if v.kind == "rangevar" && v.isKey && v.rs != nil {
				if rse, _ := unparen(v.rs.X).(*ast.SelectorExpr); rse != nil && info.Selections[rse] != nil && info.Selections[rse].Obj() == storeFld && rootObj(info, rse) == recv {
					iv = v
				}
			}
		}
		if iv == nil || c20IterCount(st, g, iv.rs) == 0 {
			return // the loop was not entered
		}
		p := iv.rs.Pos()
		if !p.IsValid() {
			p = pos
		}
		keyKeep := name + "/a cell that is not stored is the zero value of a slice made in this Resize"
		sl := st.env[fmt.Sprintf("%p.%s", recv, storeFld.Name())]
		et, _ := storeFld.Type().Underlying().(*types.Slice)
		switch {
		case sl == nil || sl.kind != "make":
			agg.bad("C20.i", keyKeep, p, "on the path [%s] cell i is not stored and %s.%s was not made afresh before the loop: the cell keeps the colour of the previous image", c20Conds(st), recv.Name(), storeFld.Name())
			return
		case et == nil:
			return
		}
		if bt, ok := et.Elem().Underlying().(*types.Basic); !ok || bt.Info()&types.IsNumeric == 0 {
			agg.und("C20.i", keyKeep, p, "on the path [%s] cell i is not stored and the zero value of the element type is not a colour", c20Conds(st))
			return
		}
		atStore(st, p, iv, iv.disp, storeFld, nil)
	})
	agg.flush()
	c20BlockDraw(c, k)
}

// relBelowDoc: clause n applies to renderers that average the pixel pair; a
// half-block renderer maps a missing lower pixel (alpha 0) to the default
// colour through the transparency rule, which is what the property asks.
const relBelowDoc = ""

func c20Bound(v int64) string {
	switch {
	case v <= -c20Inf:
		return "-inf"
	case v >= c20Inf:
		return "+inf"
	}
	return fmt.Sprint(v)
}

// c20BlockDraw: cell i of the slice is put at (i mod W, i div W) of the window parameter.
func c20BlockDraw(c *Ctx, k *c20Kind) {
	fi := k.draw
	name := fi.Name
	info := fi.Pkg.TypesInfo
	recv := c20RecvObj(info, fi.Decl)
	params := c20Params(info, fi.Decl.Type)
	key := name + "/cell i is put at (i mod W, i div W) with its own colour"
	if recv == nil || len(params) != 1 {
		c.undecided("C20.i", key, fi.Decl.Pos(), "expected Draw(win) with a named receiver")
		return
	}
	g := c.P.Graph(fi)
	x := c20NewExec(c, g, map[types.Object]string{recv: "recv", params[0]: "win"})
	agg := c20NewAgg(c)
	agg.declare("C20.i", key, fi.Decl.Pos())
	sets := g.Calls(func(fn *types.Func, call *ast.CallExpr) bool {
		return fn != nil && repoName(fn) == "vaxis.Window.SetCell"
	})
	at := map[Loc]*ast.CallExpr{}
	for _, h := range sets {
		at[h.Loc] = h.Node.(*ast.CallExpr)
	}
	general := false
	x.run(func(st *c20State, l Loc, n ast.Node) bool {
		call, ok := at[l]
		if !ok || len(call.Args) != 3 {
			return false
		}
		p := call.Pos()
		xv, yv, cell := x.eval(st, call.Args[0]), x.eval(st, call.Args[1]), x.eval(st, call.Args[2])
		// the loop
		var iv, elem *c20Val
		for _, v := range st.vals {
			if v.kind == "rangevar" {
				if v.isKey {
					iv = v
				} else {
					elem = v
				}
			}
		}
		// any other loop structure (nested loops over a rectangle, a row slice per line, a loop over a
		// re-sliced list) is judged by the general form of the rule: element index == row*W + column (c20rect.go)
		if iv == nil || elem == nil || iv.rs != elem.rs {
			general = true
			return true
		}
		rse, _ := unparen(iv.rs.X).(*ast.SelectorExpr)
		if rse == nil || info.Selections[rse] == nil || rootObj(info, rse) != recv {
			general = true
			return true
		}
		if _, isSlice := info.Selections[rse].Obj().Type().Underlying().(*types.Slice); !isSlice {
			general = true
			return true
		}
		isW := func(v *c20Val) bool {
			return v.kind == "root" && v.fld == k.sizeF[0] && strings.HasPrefix(v.disp, recv.Name()+".")
		}
		isQuo := func(v *c20Val) bool { return v.kind == "bin" && v.op == token.QUO && v.args[0] == iv && isW(v.args[1]) }
		isMod := func(v *c20Val) bool {
			if v.kind == "bin" && v.op == token.REM && v.args[0] == iv && isW(v.args[1]) {
				return true
			}
			if v.kind == "bin" && v.op == token.SUB && v.args[0] == iv && v.args[1].kind == "bin" && v.args[1].op == token.MUL {
				m := v.args[1]
				return (isQuo(m.args[0]) && isW(m.args[1])) || (isQuo(m.args[1]) && isW(m.args[0]))
			}
			return false
		}
		var probs []string
		if !isMod(xv) {
			probs = append(probs, fmt.Sprintf("column %s is not i mod %s.%s (the width CellSize reports)", xv.disp, recv.Name(), k.sizeF[0].Name()))
		}
		if !isQuo(yv) {
			probs = append(probs, fmt.Sprintf("row %s is not i div %s.%s", yv.disp, recv.Name(), k.sizeF[0].Name()))
		}
		switch {
		case cell == elem:
		default:
			glyph, fg, bg, ok := x.cellOf(st, call.Args[2])
			halves, known := c20Glyphs[glyph]
			if !ok || !known || halves[0] != halves[1] {
				probs = append(probs, "the cell drawn is neither the stored cell nor a one-colour block literal")
				break
			}
			shown := bg
			if halves[0] == 'F' {
				shown = fg
			}
			if shown == nil || shown != elem {
				probs = append(probs, fmt.Sprintf("the visible colour of glyph %q is not the stored colour of cell i", glyph))
			}
		}
		if len(probs) > 0 {
			agg.bad("C20.i", key, p, "%s", strings.Join(probs, "; "))
		} else {
			agg.ok("C20.i", key, p, "SetCell(%s, %s, cell i)", xv.disp, yv.disp)
		}
		return true
	}, nil)
	if general {
		c20BlockDrawRect(c, k, key)
		return
	}
	agg.flush()
}

// ---------------------------------------------------------------------------
// clause j: toRGB and averageColor keep the channels apart

var c20Channel = []string{"red", "green", "blue", "alpha"}

// c20OnlyChannel: among the results of call, v depends on result k only
// (alpha, result 3, may additionally be used to un-premultiply a colour channel).
func c20OnlyChannel(v, call *c20Val, k int) (bool, string) {
	own := fmt.Sprintf("res%d@%d", k, call.id)
	if !v.deps[own] {
		return false, fmt.Sprintf("%s does not depend on the %s result of %s", v.disp, c20Channel[k], call.disp)
	}
	for j := 0; j < 4; j++ {
		if j == k || (j == 3 && k < 3) {
			continue
		}
		if v.deps[fmt.Sprintf("res%d@%d", j, call.id)] {
			return false, fmt.Sprintf("%s mixes in the %s result of %s", v.disp, c20Channel[j], call.disp)
		}
	}
	return true, ""
}

func c20ColourPlumbing(c *Ctx) {
	// ---- toRGB
	if fi := c.P.Func("vaxis.toRGB"); fi == nil {
		c.undecided("C20.j", "vaxis.toRGB", 0, "function not found")
	} else {
		info := fi.Pkg.TypesInfo
		params := c20Params(info, fi.Decl.Type)
		sig := fi.Obj.Type().(*types.Signature)
		if len(params) != 1 || sig.Results().Len() != 4 {
			c.undecided("C20.j", "vaxis.toRGB/signature", fi.Decl.Pos(), "expected toRGB(color) (r, g, b, a)")
		} else {
			g := c.P.Graph(fi)
			x := c20NewExec(c, g, map[types.Object]string{params[0]: "colour"})
			agg := c20NewAgg(c)
			key := func(k int) string {
				return "vaxis.toRGB/result " + fmt.Sprint(k) + " carries the " + c20Channel[k] + " channel only"
			}
			for k := 0; k < 4; k++ {
				agg.declare("C20.j", key(k), fi.Decl.Pos())
			}
			x.run(func(st *c20State, l Loc, n ast.Node) bool {
				ret, ok := n.(*ast.ReturnStmt)
				if !ok {
					return false
				}
				if len(ret.Results) != 4 {
					for k := 0; k < 4; k++ {
						agg.und("C20.j", key(k), ret.Pos(), "return without four explicit results")
					}
					return true
				}
				var rgba *c20Val
				for _, v := range st.vals {
					if v.kind == "call" && v.fn != nil && v.fn.Name() == "RGBA" && len(v.args) == 1 && v.args[0].role == "colour" {
						rgba = v
					}
				}
				if rgba == nil {
					for k := 0; k < 4; k++ {
						agg.bad("C20.j", key(k), ret.Pos(), "on the path [%s] the colour's RGBA() is never read", c20Conds(st))
					}
					return true
				}
				var pa *c20Val
				for _, v := range st.vals {
					if c20IsResultOf(v, rgba, 3) {
						pa = v
					}
				}
				for k := 0; k < 4; k++ {
					v := x.eval(st, ret.Results[k])
					if k == 3 && v.kind == "const" && v.hasK && v.k == 0 && pa != nil {
						if lo, hi := st.interval(pa); lo == 0 && hi == 0 {
							agg.ok("C20.j", key(k), ret.Pos(), "alpha 0 returned where the colour's alpha is 0")
							continue
						}
					}
					if ok, why := c20OnlyChannel(v, rgba, k); ok {
						agg.ok("C20.j", key(k), ret.Pos(), "depends on %s of RGBA() only", c20Channel[k])
					} else {
						agg.bad("C20.j", key(k), ret.Pos(), "on the path [%s]: %s", c20Conds(st), why)
					}
				}
				return true
			}, nil)
			agg.flush()
		}
	}
	// ---- averageColor
	fi := c.P.Func("vaxis.averageColor")
	toRGB := c.P.Func("vaxis.toRGB")
	if fi == nil || toRGB == nil {
		c.undecided("C20.j", "vaxis.averageColor", 0, "function not found")
		return
	}
	info := fi.Pkg.TypesInfo
	params := c20Params(info, fi.Decl.Type)
	sig := fi.Obj.Type().(*types.Signature)
	if len(params) < 1 || sig.Results().Len() != 4 {
		c.undecided("C20.j", "vaxis.averageColor/signature", fi.Decl.Pos(), "expected averageColor(colours...) (r, g, b, a)")
		return
	}
	roles := map[types.Object]string{}
	for i, p := range params {
		roles[p] = fmt.Sprintf("in.%d", i)
	}
	g := c.P.Graph(fi)
	x := c20NewExec(c, g, roles)
	x.maxIter = 2 // one and two iterations: a counter that stands for the number of colours must follow
	agg := c20NewAgg(c)
	key := func(k int) string {
		return "vaxis.averageColor/result " + fmt.Sprint(k) + " is the mean of the " + c20Channel[k] + " channel"
	}
	keyAll := "vaxis.averageColor/every input colour is averaged and the divisor is their number"
	for k := 0; k < 4; k++ {
		agg.declare("C20.j", key(k), fi.Decl.Pos())
	}
	agg.declare("C20.j", keyAll, fi.Decl.Pos())
	x.run(func(st *c20State, l Loc, n ast.Node) bool {
		ret, ok := n.(*ast.ReturnStmt)
		if !ok {
			return false
		}
		var call, elem *c20Val
		for _, v := range st.vals {
			if v.kind == "call" && v.fn == toRGB.Obj && len(v.args) == 1 {
				call = v
			}
			if v.kind == "rangevar" && !v.isKey {
				elem = v
			}
		}
		if call == nil {
			return true // path with no iteration
		}
		// the four results: written out, or those of one helper call the executor has run
		var results []*c20Val
		switch {
		case len(ret.Results) == 4:
			for _, r := range ret.Results {
				results = append(results, x.eval(st, r))
			}
		case len(ret.Results) == 1:
			if rv := x.eval(st, ret.Results[0]); rv.kind == "tuple" && len(rv.args) == 4 {
				results = rv.args
			}
		}
		if len(results) != 4 {
			agg.und("C20.j", keyAll, ret.Pos(), "return without four explicit results")
			return true
		}
		if elem == nil || call.args[0] != elem {
			agg.und("C20.j", keyAll, ret.Pos(), "toRGB is not applied to the element of a range loop")
			return true
		}
		ranged := x.eval(st, elem.rs.X)
		var missing []string
		for _, r := range roles {
			if !ranged.deps[r] {
				missing = append(missing, r)
			}
		}
		sort.Strings(missing)
		divOK := true
		var divs []string
		iters := c20IterCount(st, g, elem.rs)
		// the number of colours: len of the averaged list, or a counter that starts at zero and has been
		// incremented exactly once per iteration on this path (paths of one and of two iterations are enumerated,
		// so an increment outside the loop, a skipped or a doubled one is seen)
		isCount := func(d *c20Val) bool {
			if d.kind == "len" && len(d.args) == 1 && d.args[0] == ranged {
				return true
			}
			return d.kind == "inc" && iters > 0 && d.inc == iters && d.base != nil && d.base.kind == "const" && d.base.hasK && d.base.k == 0
		}
		for k := 0; k < 4; k++ {
			v := results[k]
			if v.kind != "bin" || v.op != token.QUO {
				agg.und("C20.j", key(k), ret.Pos(), "%s is not a quotient sum/count", v.disp)
				continue
			}
			d := v.args[1]
			if !isCount(d) {
				divOK = false
				divs = append(divs, d.disp)
			}
			if ok, why := c20OnlyChannel(v.args[0], call, k); ok {
				agg.ok("C20.j", key(k), ret.Pos(), "sum of the %s results of toRGB", c20Channel[k])
			} else {
				agg.bad("C20.j", key(k), ret.Pos(), "%s", why)
			}
		}
		switch {
		case len(missing) > 0:
			agg.bad("C20.j", keyAll, ret.Pos(), "the averaged list %s does not contain parameter(s) %v: a pixel is ignored", ranged.disp, missing)
		case !divOK:
			agg.bad("C20.j", keyAll, ret.Pos(), "the divisor %v is not the length of the averaged list %s", divs, ranged.disp)
		default:
			agg.ok("C20.j", keyAll, ret.Pos(), "ranges over %s and divides by its length", ranged.disp)
		}
		return true
	}, nil)
	agg.flush()
}

// ---------------------------------------------------------------------------
// clause b: placement identity

func c20PlacementStruct(c *Ctx) (*types.Named, *types.Struct) {
	pk := c.P.Pkg("vaxis")
	tn, _ := pk.Types.Scope().Lookup("placement").(*types.TypeName)
	if tn == nil {
		return nil, nil
	}
	named, _ := tn.Type().(*types.Named)
	st, _ := tn.Type().Underlying().(*types.Struct)
	return named, st
}

func c20SamePlacement(c *Ctx) {
	const fname = "vaxis.samePlacement"
	fi := c.P.Func(fname)
	_, pst := c20PlacementStruct(c)
	if fi == nil || pst == nil {
		c.undecided("C20.b", fname, 0, "samePlacement or type placement not found")
		return
	}
	info := fi.Pkg.TypesInfo
	params := c20Params(info, fi.Decl.Type)
	if len(params) != 2 {
		c.undecided("C20.b", fname+"/signature", fi.Decl.Pos(), "expected two parameters")
		return
	}
	var fields []*types.Var
	for i := 0; i < pst.NumFields(); i++ {
		if _, isFunc := pst.Field(i).Type().Underlying().(*types.Signature); !isFunc {
			fields = append(fields, pst.Field(i))
		}
	}
	g := c.P.Graph(fi)
	agg := c20NewAgg(c)
	pos := fi.Decl.Pos()
	keyF := func(f *types.Var) string { return fname + "/true only if field " + f.Name() + " is equal" }
	keyRefl := fname + "/identical placements are the same placement"
	for _, f := range fields {
		agg.declare("C20.b", keyF(f), pos)
	}
	agg.declare("C20.b", keyRefl, pos)

	// results of a return statement as (state, truth) alternatives
	type outcome struct {
		st  *c20State
		val bool
	}
	outcomes := func(x *c20Exec, st *c20State, ret *ast.ReturnStmt) ([]outcome, bool) {
		if len(ret.Results) != 1 {
			return nil, false
		}
		e := ret.Results[0]
		if tv, ok := info.Types[e]; ok && tv.Value != nil && tv.Value.Kind() == constant.Bool {
			return []outcome{{st, constant.BoolVal(tv.Value)}}, true
		}
		var out []outcome
		for _, pol := range []bool{true, false} {
			for _, alt := range x.expandAlts(st, c20DNF(e, pol)) {
				s2 := st.clone()
				for _, l := range alt {
					x.applyLeaf(s2, l)
					if s2.dead {
						break
					}
				}
				if !s2.dead {
					out = append(out, outcome{s2, pol})
				}
			}
		}
		return out, true
	}

	// run 1: what "true" implies
	x := c20NewExec(c, g, map[types.Object]string{params[0]: "p1", params[1]: "p2"})
	x.run(func(st *c20State, l Loc, n ast.Node) bool {
		ret, ok := n.(*ast.ReturnStmt)
		if !ok {
			return false
		}
		outs, ok := outcomes(x, st, ret)
		if !ok {
			agg.und("C20.b", keyRefl, ret.Pos(), "return without a single boolean result")
			return true
		}
		for _, o := range outs {
			if !o.val {
				continue
			}
			for _, f := range fields {
				a := o.st.env[fmt.Sprintf("%p.%s", params[0], f.Name())]
				b := o.st.env[fmt.Sprintf("%p.%s", params[1], f.Name())]
				if a != nil && b != nil && o.st.relOf(a, b) == c20EQ {
					agg.ok("C20.b", keyF(f), ret.Pos(), "%s.%s == %s.%s on the path to true", params[0].Name(), f.Name(), params[1].Name(), f.Name())
				} else if o.st.opaque > 0 {
					agg.und("C20.b", keyF(f), ret.Pos(), "true is returned under conditions the executor cannot read: %s", c20Conds(o.st))
				} else {
					agg.bad("C20.b", keyF(f), ret.Pos(), "true is returned on the path [%s] without %s.%s == %s.%s: a placement whose %s changed is not retransmitted (and the old one not deleted)", c20Conds(o.st), params[0].Name(), f.Name(), params[1].Name(), f.Name(), f.Name())
				}
			}
		}
		return true
	}, nil)

	// run 2: with p2 assumed equal to p1, false must be unreachable
	y := c20NewExec(c, g, map[types.Object]string{params[0]: "p1", params[1]: "p2"})
	y.alias = map[string]string{fmt.Sprintf("%p", params[1]): fmt.Sprintf("%p", params[0])}
	reachedTrue := false
	y.run(func(st *c20State, l Loc, n ast.Node) bool {
		ret, ok := n.(*ast.ReturnStmt)
		if !ok {
			return false
		}
		outs, ok := outcomes(y, st, ret)
		if !ok {
			return true
		}
		for _, o := range outs {
			switch {
			case o.val:
				reachedTrue = true
				agg.ok("C20.b", keyRefl, ret.Pos(), "with equal fields only true is reachable")
			case o.st.opaque > 0:
				agg.und("C20.b", keyRefl, ret.Pos(), "false is returned under conditions the executor cannot read: %s", c20Conds(o.st))
			default:
				agg.bad("C20.b", keyRefl, ret.Pos(), "false is reachable for two placements with equal fields (path [%s]): an unchanged placement is deleted and retransmitted every frame", c20Conds(o.st))
			}
		}
		return true
	}, nil)
	if !reachedTrue {
		agg.bad("C20.b", keyRefl, pos, "no path returns true for two placements with equal fields")
	}
	agg.flush()
}

// ---------------------------------------------------------------------------
// clause d: the placement diff in render (CFG reachability with edge filters)

type c20Loop struct {
	head *cfg.Block
	rs   *ast.RangeStmt
	val  types.Object
}

func (l *c20Loop) body() *cfg.Block { return l.head.Succs[0] }
func (l *c20Loop) done() *cfg.Block { return l.head.Succs[1] }

// c20Reach: starting at (b, idx), is a block satisfying target reachable, or a
// node satisfying hit found, without executing a node satisfying avoid,
// following only allowed edges and never passing a block in fence?
func c20Reach(g *FG, b *cfg.Block, idx int, avoid func(ast.Node) bool, allowed func(b *cfg.Block, si int) bool,
	target func(*cfg.Block) bool, hit func(ast.Node) bool, fence map[*cfg.Block]bool) bool {
	if c20ActiveFlags != nil {
		return c20ReachF(c20ActiveFlags, g, b, idx, avoid, allowed, target, hit, fence)
	}
	type item struct {
		b   *cfg.Block
		idx int
	}
	seen := map[*cfg.Block]bool{}
	work := []item{{b, idx}}
	for len(work) > 0 {
		it := work[len(work)-1]
		work = work[:len(work)-1]
		blocked := false
		for i := it.idx; i < len(it.b.Nodes); i++ {
			n := it.b.Nodes[i]
			if hit != nil && containsNode(n, hit) {
				return true
			}
			if avoid != nil && containsNode(n, avoid) {
				blocked = true
				break
			}
		}
		if blocked {
			continue
		}
		two := len(it.b.Succs) == 2 && it.b.Succs[0] != it.b.Succs[1]
		for si, s := range it.b.Succs {
			if si == 1 && !two {
				continue
			}
			if allowed != nil && two && !allowed(it.b, si) {
				continue
			}
			if target != nil && target(s) {
				return true
			}
			if fence[s] || seen[s] {
				continue
			}
			seen[s] = true
			work = append(work, item{s, 0})
		}
	}
	return false
}

func c20Render(c *Ctx) {
	const fname = "vaxis.(*Vaxis).render"
	fi := c.P.Func(fname)
	_, pst := c20PlacementStruct(c)
	if fi == nil || pst == nil {
		c.undecided("C20.d", fname, 0, "render or type placement not found")
		return
	}
	info := fi.Pkg.TypesInfo
	recv := c20RecvObj(info, fi.Decl)
	g := c.P.Graph(fi)
	pos := fi.Decl.Pos()
	pfield := map[string]*types.Var{}
	for i := 0; i < pst.NumFields(); i++ {
		pfield[pst.Field(i).Name()] = pst.Field(i)
	}
	if recv == nil || pfield["deleteFn"] == nil || pfield["writeTo"] == nil || pfield["row"] == nil || pfield["col"] == nil {
		c.undecided("C20.d", fname+"/shape", pos, "receiver or placement fields deleteFn/writeTo/row/col not found")
		return
	}
	// recvField: e selects field name directly on the receiver
	recvField := func(e ast.Expr, name string) bool {
		se, ok := unparen(e).(*ast.SelectorExpr)
		if !ok || se.Sel.Name != name {
			return false
		}
		sel, ok := info.Selections[se]
		if !ok || sel.Kind() != types.FieldVal {
			return false
		}
		id, ok := unparen(se.X).(*ast.Ident)
		return ok && info.Uses[id] == recv
	}
	// loops
	loops := c20ListLoops(g, info)
	loopOfVar := map[types.Object]*c20Loop{}
	for _, l := range loops {
		if l.val != nil {
			loopOfVar[l.val] = l
		}
	}
	callOnVar := func(fld *types.Var, v types.Object) func(ast.Node) bool {
		return func(n ast.Node) bool {
			call, ok := n.(*ast.CallExpr)
			if !ok {
				return false
			}
			se, ok := unparen(call.Fun).(*ast.SelectorExpr)
			if !ok {
				return false
			}
			sel, ok := info.Selections[se]
			if !ok || sel.Obj() != fld {
				return false
			}
			id, ok := unparen(se.X).(*ast.Ident)
			return ok && info.Uses[id] == v
		}
	}
	// L1t / L1f: the loop that deletes last placements on a refresh / without a refresh (one and the same loop
	// in today's tree; a maintainer may give the refresh case a loop of its own, see below)
	var L1t, L1f, L2 *c20Loop
	var D []*c20Loop
	for _, l := range loops {
		if l.val == nil {
			continue
		}
		switch {
		case recvField(l.rs.X, "graphicsLast") && containsNode(l.rs.Body, callOnVar(pfield["deleteFn"], l.val)):
			D = append(D, l)
		case recvField(l.rs.X, "graphicsNext") && containsNode(l.rs.Body, callOnVar(pfield["writeTo"], l.val)):
			if L2 != nil {
				c.undecided("C20.d", fname+"/write loop", l.rs.Pos(), "more than one loop writes new placements")
				return
			}
			L2 = l
		}
	}
	if len(D) == 0 || L2 == nil {
		c.undecided("C20.d", fname+"/loops", pos, "expected a range over %s.graphicsLast calling deleteFn and a range over %s.graphicsNext calling writeTo", recv.Name(), recv.Name())
		return
	}
	// namedScope: the body of the placement loop whose iteration contains b, if nothing that the conditions of the
	// iteration read (the loop variable, refresh, the two lists) is assigned in it: there a local defined once can
	// be replaced by its defining expression wherever it is read
	stableBody := map[*c20Loop]bool{}
	placementLoops := append(append([]*c20Loop(nil), D...), L2)
	for _, l := range placementLoops {
		l := l
		stableBody[l] = !c20AnyNode(l.rs.Body, func(n ast.Node) bool {
			var lhs []ast.Expr
			switch t := n.(type) {
			case *ast.AssignStmt:
				lhs = t.Lhs
			case *ast.IncDecStmt:
				lhs = []ast.Expr{t.X}
			case *ast.RangeStmt:
				lhs = []ast.Expr{t.Key, t.Value}
			case *ast.UnaryExpr:
				if t.Op == token.AND {
					lhs = []ast.Expr{t.X}
				}
			}
			for _, e := range lhs {
				if e == nil {
					continue
				}
				if recvField(e, "refresh") || recvField(e, "graphicsLast") || recvField(e, "graphicsNext") {
					return true
				}
				if id, ok := unparen(e).(*ast.Ident); ok && info.ObjectOf(id) == l.val {
					return true
				}
			}
			return false
		})
	}
	namedScope := func(p token.Pos) ast.Node {
		for _, l := range placementLoops {
			if stableBody[l] && p >= l.rs.Body.Pos() && p <= l.rs.Body.End() {
				return l.rs.Body
			}
		}
		return nil
	}
	// leaves of an edge condition
	edgeAlts := func(b *cfg.Block, si int) [][]c20Leaf {
		cond := g.BranchCond(b)
		if cond == nil {
			return nil
		}
		if cond.Tag != nil {
			if tv, ok := info.Types[cond.Expr]; ok && tv.Value != nil && tv.Value.Kind() == constant.Bool {
				return [][]c20Leaf{{{e: cond.Tag, pol: constant.BoolVal(tv.Value) == (si == 0)}}}
			}
			return [][]c20Leaf{{}}
		}
		alts := c20DNF(cond.Expr, si == 0)
		if c20ActiveFlags != nil && c20CurFlagState != "" {
			// only the alternatives that the current values of the local flags allow
			var keep [][]c20Leaf
			for _, alt := range alts {
				if c20ActiveFlags.altFeasible(alt, c20CurFlagState) {
					keep = append(keep, alt)
				}
			}
			if len(keep) == 0 {
				return [][]c20Leaf{{{e: cond.Expr, pol: si != 0}}} // infeasible edge: an alternative nobody accepts
			}
			alts = keep
		}
		// a local boolean defined once inside a placement loop stands for its defining expression
		if sc := namedScope(cond.Expr.Pos()); sc != nil {
			alts, _ = c20ExpandNamed(info, alts, sc, 0)
		}
		return alts
	}
	// the edge can be taken while recv.refresh == want
	withRefresh := func(want bool) func(*cfg.Block, int) bool {
		return func(b *cfg.Block, si int) bool {
			alts := edgeAlts(b, si)
			if alts == nil {
				return true
			}
			for _, alt := range alts {
				ok := true
				for _, l := range alt {
					if recvField(l.e, "refresh") && l.pol != want {
						ok = false
					}
				}
				if ok {
					return true
				}
			}
			return false
		}
	}
	// listIs: e denotes recv.<list>: the field itself, or a local defined once as the field inside an
	// iteration of outer that does not assign the field
	listIs := func(e ast.Expr, list string, outer *c20Loop) bool {
		if recvField(e, list) {
			return true
		}
		id, ok := unparen(e).(*ast.Ident)
		if !ok || outer == nil {
			return false
		}
		v, ok := info.Uses[id].(*types.Var)
		if !ok || v.IsField() || v.Pos() < outer.rs.Body.Pos() || v.Pos() > outer.rs.Body.End() {
			return false
		}
		def := singleDefOf(info, v)
		if def == nil || !recvField(def, list) {
			return false
		}
		return !containsNode(outer.rs.Body, func(n ast.Node) bool {
			as, ok := n.(*ast.AssignStmt)
			if !ok {
				return false
			}
			for _, l := range as.Lhs {
				if recvField(l, list) {
					return true
				}
			}
			return false
		})
	}
	// the edge is only taken when samePlacement(v, an element of recv.<list>) holds
	isMatchEdge := func(v types.Object, list string) func(*cfg.Block, int) bool {
		outer := loopOfVar[v]
		return func(b *cfg.Block, si int) bool {
			alts := edgeAlts(b, si)
			if len(alts) == 0 {
				return false
			}
			for _, alt := range alts {
				found := false
				for _, l := range alt {
					if objs, ok := c20SamePlacementLeaf(info, l); ok {
						for i := 0; i < 2; i++ {
							if objs[i] == v {
								if il := loopOfVar[objs[1-i]]; il != nil && listIs(il.rs.X, list, outer) {
									found = true
								}
							}
						}
						continue
					}
					// a membership test: a helper H(v, recv.<list>), slices.ContainsFunc / IndexFunc with a
					// samePlacement predicate (see c20mem.go)
					var sc ast.Node
					if outer != nil && stableBody[outer] {
						sc = outer.rs.Body
					}
					if el, lst, _, ok := c20MemberLeaf(c, info, l, sc); ok && el == v && listIs(lst, list, outer) {
						found = true
					}
				}
				if !found {
					return false
				}
			}
			return true
		}
	}
	not := func(f func(*cfg.Block, int) bool) func(*cfg.Block, int) bool {
		return func(b *cfg.Block, si int) bool { return !f(b, si) }
	}
	endOf := func(l *c20Loop) func(*cfg.Block) bool {
		return func(b *cfg.Block) bool { return b == l.head || b == l.done() }
	}
	// a branch on a local boolean variable (a "found" flag) carries information the
	// reachability argument cannot see: report undecided instead of violated then
	hasFlag := func(l *c20Loop) bool {
		return containsNode(l.rs.Body, func(n ast.Node) bool {
			var cond ast.Expr
			switch t := n.(type) {
			case *ast.IfStmt:
				cond = t.Cond
			case *ast.ForStmt:
				cond = t.Cond
			}
			if cond == nil {
				return false
			}
			flag := false
			ast.Inspect(cond, func(m ast.Node) bool {
				if id, ok := m.(*ast.Ident); ok {
					if v, ok := info.Uses[id].(*types.Var); ok && !v.IsField() {
						if b, ok := v.Type().Underlying().(*types.Basic); ok && b.Info()&types.IsBoolean != 0 {
							flag = true
						}
					}
				}
				return true
			})
			return flag
		})
	}
	_ = hasFlag
	// local boolean flags ("found", "keep") are tracked path-sensitively: the searches below run on the
	// product of the control-flow graph with the flags' values
	c20ActiveFlags = c20NewFlags(g, info, fi)
	defer func() { c20ActiveFlags = nil }()
	check := func(l *c20Loop, cond bool, key string, p token.Pos, okReason, badReason string) {
		c.check(cond, "C20.d", key, p, okReason, badReason)
	}
	isEmptying := func(n ast.Node) bool {
		as, ok := n.(*ast.AssignStmt)
		if !ok || len(as.Lhs) != 1 || len(as.Rhs) != 1 || !recvField(as.Lhs[0], "graphicsLast") {
			return false
		}
		switch r := unparen(as.Rhs[0]).(type) {
		case *ast.CompositeLit:
			return len(r.Elts) == 0
		case *ast.Ident:
			return isNilExpr(info, r)
		case *ast.SliceExpr:
			if r.High != nil {
				v, ok := constInt(info, r.High)
				return ok && v == 0
			}
		case *ast.CallExpr:
			if id, ok := r.Fun.(*ast.Ident); ok && id.Name == "make" && len(r.Args) == 2 {
				v, ok := constInt(info, r.Args[1])
				return ok && v == 0
			}
		}
		return false
	}
	// which loop deletes in which case. One loop: both. Several loops (the refresh case written as a loop of
	// its own: `if refresh { for last { delete }; last = {} }` followed or accompanied by the loop that deletes
	// the unmatched ones): the loop of a case is the one that can be reached from the entry in that case with
	// graphicsLast still filled (after the list has been emptied a loop over it does nothing).
	L1t, L1f = D[0], D[0]
	if len(D) > 1 {
		pick := func(refresh bool) []*c20Loop {
			var out []*c20Loop
			for _, l := range D {
				l := l
				if c20Reach(g, g.Blocks[0], 0, isEmptying, withRefresh(refresh), func(b *cfg.Block) bool { return b == l.head }, nil, nil) {
					out = append(out, l)
				}
			}
			return out
		}
		dt, df := pick(true), pick(false)
		if len(dt) != 1 || len(df) != 1 {
			c.undecided("C20.d", fname+"/delete loop", D[1].rs.Pos(), "more than one loop deletes last placements in the same case (%d with refresh, %d without)", len(dt), len(df))
			return
		}
		L1t, L1f = dt[0], df[0]
	}
	delT := callOnVar(pfield["deleteFn"], L1t.val)
	delF := callOnVar(pfield["deleteFn"], L1f.val)
	delAny := func(n ast.Node) bool {
		for _, l := range D {
			if callOnVar(pfield["deleteFn"], l.val)(n) {
				return true
			}
		}
		return false
	}
	wr2 := callOnVar(pfield["writeTo"], L2.val)
	match1 := isMatchEdge(L1f.val, "graphicsNext")
	match2 := isMatchEdge(L2.val, "graphicsLast")
	p1, p2 := L1f.rs.Pos(), L2.rs.Pos()
	// d0: the loop of a case is not bypassed in that case: every path from the entry to the write loop passes it,
	// unless the path needs graphicsLast to be empty (a guard `len(last) > 0` around the loop is harmless)
	notEmptyGuard := func(want bool) func(*cfg.Block, int) bool {
		wr := withRefresh(want)
		return func(b *cfg.Block, si int) bool {
			if !wr(b, si) {
				return false
			}
			alts := edgeAlts(b, si)
			if alts == nil {
				return true
			}
			for _, alt := range alts {
				ok := true
				for _, l := range alt {
					if c20NeedsEmpty(info, l, func(e ast.Expr) bool { return recvField(e, "graphicsLast") }) {
						ok = false
					}
				}
				if ok {
					return true
				}
			}
			return false
		}
	}
	for _, cs := range []struct {
		l       *c20Loop
		refresh bool
		name    string
	}{{L1t, true, "on refresh"}, {L1f, false, "without refresh"}} {
		l := cs.l
		bypass := c20Reach(g, g.Blocks[0], 0, nil, notEmptyGuard(cs.refresh), func(b *cfg.Block) bool { return b == L2.head }, nil, map[*cfg.Block]bool{l.head: true})
		c.check(!bypass, "C20.d", fname+"/"+cs.name+" the delete loop is passed before the write loop", l.rs.Pos(),
			"every path from the entry to the write loop passes the loop over graphicsLast (or needs the list to be empty)",
			"the write loop can be reached "+cs.name+" without passing the loop that deletes the last placements: they are not deleted before the new placements are written (they stay on the screen, or a deletion that comes later removes what has just been written)")
	}

	// d1: dropped placements are deleted
	check(L1f, !c20Reach(g, L1f.body(), 0, delF, not(match1), endOf(L1f), nil, nil), fname+"/a last placement is deleted unless it is matched in graphicsNext", p1,
		"every iteration either calls deleteFn or passes samePlacement(last, next) == true",
		"an iteration of the delete loop can end without deleteFn and without a match among graphicsNext: a dropped placement stays on screen")
	// d2: on refresh every last placement is deleted
	check(L1t, !c20Reach(g, L1t.body(), 0, delT, withRefresh(true), endOf(L1t), nil, nil), fname+"/on refresh every last placement is deleted", L1t.rs.Pos(),
		"with refresh set every iteration calls deleteFn",
		"with refresh set an iteration of the delete loop can end without deleteFn: the placement survives the full redraw")
	// d2b: a matched placement is not deleted (without refresh)
	matchedDeleted := false
	for _, b := range g.Blocks {
		for si := range b.Succs {
			if len(b.Succs) == 2 && b.Succs[0] != b.Succs[1] && match1(b, si) {
				if b.Succs[si] != L1f.head && c20Reach(g, b.Succs[si], 0, nil, withRefresh(false), nil, delF, map[*cfg.Block]bool{L1f.head: true, L1f.done(): true}) {
					matchedDeleted = true
				}
			}
		}
	}
	check(L1f, !matchedDeleted, fname+"/a matched last placement is kept", p1, "the match edge leaves the iteration without deleteFn",
		"after samePlacement(last, next) == true the iteration still reaches deleteFn: an unchanged placement is deleted and, being matched, never rewritten")
	// d3: graphicsLast emptied on refresh between the loops (or the write loop does not skip on refresh)
	isL2 := func(b *cfg.Block) bool { return b == L2.head }
	notEmptied := c20Reach(g, L1t.done(), 0, isEmptying, withRefresh(true), isL2, nil, nil)
	skipsOnRefresh := c20Reach(g, L2.body(), 0, wr2, withRefresh(true), endOf(L2), nil, nil)
	c.check(!notEmptied || !skipsOnRefresh, "C20.d", fname+"/on refresh every next placement is written again", p2,
		"graphicsLast is emptied under refresh before the write loop (or the loop cannot skip under refresh)",
		"with refresh set the write loop is reached with graphicsLast still filled and may skip matched placements: they were just deleted and are not transmitted again")
	emptiedAlways := c20Reach(g, L1f.done(), 0, nil, withRefresh(false), nil, isEmptying, map[*cfg.Block]bool{L2.head: true})
	c.check(!emptiedAlways, "C20.d", fname+"/graphicsLast is emptied only on refresh", p2, "the emptying assignment needs refresh",
		"graphicsLast is emptied before the write loop without refresh: every placement is retransmitted every frame")
	// d4: new or changed placements are written; matched ones are not
	check(L2, !c20Reach(g, L2.body(), 0, wr2, not(match2), endOf(L2), nil, nil), fname+"/a next placement is written unless it is matched in graphicsLast", p2,
		"every iteration either calls writeTo or passes samePlacement(next, last) == true",
		"an iteration of the write loop can end without writeTo and without a match among graphicsLast: a new or changed placement is not transmitted")
	matchedWritten := false
	for _, b := range g.Blocks {
		for si := range b.Succs {
			if len(b.Succs) == 2 && b.Succs[0] != b.Succs[1] && match2(b, si) {
				if b.Succs[si] != L2.head && c20Reach(g, b.Succs[si], 0, nil, nil, nil, wr2, map[*cfg.Block]bool{L2.head: true, L2.done(): true}) {
					matchedWritten = true
				}
			}
		}
	}
	check(L2, !matchedWritten, fname+"/a matched next placement is not written again", p2, "the match edge leaves the iteration without writeTo",
		"after samePlacement(next, last) == true the iteration still reaches writeTo: an unchanged placement is retransmitted every frame")
	// d5: positioned before written
	cupObj := fi.Pkg.Types.Scope().Lookup("cup")
	if cst, ok := cupObj.(*types.Const); ok && cst.Val().Kind() == constant.String {
		c.check(constant.StringVal(cst.Val()) == "\x1b[%d;%dH", "C20.d", "vaxis.cup/is CSI row ; column H", cst.Pos(), "cup = ESC [ %d ; %d H", "the constant cup is not \"\\x1b[%d;%dH\" (row first, column second)")
	} else {
		c.undecided("C20.d", "vaxis.cup/is CSI row ; column H", pos, "cup is not a string constant")
	}
	v2term := func(f string) string { return fmt.Sprintf("%p.%s", L2.val, f) }
	isCup := func(n ast.Node) bool {
		call, ok := n.(*ast.CallExpr)
		if !ok || len(call.Args) != 1 {
			return false
		}
		if fn := calleeOf(info, call); fn == nil || !strings.HasPrefix(repoName(fn), "vaxis.writer.Write") {
			return false
		}
		tp, ok := unparen(call.Args[0]).(*ast.CallExpr)
		if !ok || len(tp.Args) != 3 {
			return false
		}
		if fn := calleeOf(info, tp); fn == nil || repoName(fn) != "vaxis.tparm" {
			return false
		}
		if id, ok := unparen(tp.Args[0]).(*ast.Ident); !ok || info.Uses[id] != cupObj {
			return false
		}
		rt, rk := linForm(info, tp.Args[1])
		ct, ck := linForm(info, tp.Args[2])
		return rt.ID == v2term("row") && rk == 1 && ct.ID == v2term("col") && ck == 1
	}
	c.check(!c20Reach(g, L2.body(), 0, isCup, nil, nil, wr2, map[*cfg.Block]bool{L2.head: true, L2.done(): true}), "C20.d", fname+"/the cursor is moved to the placement's cell (row+1, col+1) before writeTo", p2,
		"writeTo is preceded by WriteString(tparm(cup, next.row+1, next.col+1))",
		"writeTo is reachable in the iteration without the cursor having been moved to (next.row+1 ; next.col+1): the image is drawn at the wrong cell")
	// d6: deletes precede writes
	writeThenDelete := false
	for _, h := range g.Find(wr2) {
		if c20Reach(g, h.B, h.Idx+1, nil, nil, nil, delAny, nil) {
			writeThenDelete = true
		}
	}
	c.check(!writeThenDelete, "C20.d", fname+"/all deletes precede all writes", p2, "no deleteFn is reachable after a writeTo",
		"a deleteFn call is reachable after a writeTo call: a placement that was just (re-)transmitted is deleted again (on refresh all of them; otherwise one that changed at the same origin, whose delete addresses the same image id and placement id)")
	// d7: last := next afterwards, and only afterwards
	isSave := func(n ast.Node) bool {
		as, ok := n.(*ast.AssignStmt)
		return ok && len(as.Lhs) == 1 && len(as.Rhs) == 1 && recvField(as.Lhs[0], "graphicsLast") && recvField(as.Rhs[0], "graphicsNext")
	}
	okFollow, _ := g.MustFollow(Loc{L2.done(), -1}, isSave)
	c.check(okFollow, "C20.d", fname+"/graphicsLast = graphicsNext after the write loop on every path", p2, "every path from the write loop to the exit saves the frame",
		"a path from the write loop to the exit does not save graphicsNext as graphicsLast: the next frame diffs against a stale list")
	early := false
	for _, h := range g.Find(isSave) {
		if c20Reach(g, h.B, h.Idx+1, nil, nil, func(b *cfg.Block) bool { return b == L2.head || b == L1t.head || b == L1f.head }, nil, nil) {
			early = true
		}
	}
	c.check(!early, "C20.d", fname+"/graphicsLast = graphicsNext only after both loops", p2, "the save is not followed by either loop",
		"graphicsLast = graphicsNext is executed before a diff loop: every placement matches itself, nothing is deleted or written")
	// any other assignment to graphicsLast
	others := g.Find(func(n ast.Node) bool {
		as, ok := n.(*ast.AssignStmt)
		if !ok {
			return false
		}
		for _, l := range as.Lhs {
			if recvField(l, "graphicsLast") && !isSave(as) && !isEmptying(as) {
				return true
			}
		}
		return false
	})
	if len(others) > 0 {
		c.undecided("C20.d", fname+"/other assignment to graphicsLast", others[0].Node.Pos(), "graphicsLast is assigned in a form the rule does not understand")
	} else {
		c.ok("C20.d", fname+"/graphicsLast assigned only by the refresh reset and the save", pos, "two assignment forms")
	}
}

// ---------------------------------------------------------------------------
// clauses c, k, m: Draw

// c20FieldsIn collects the fields selected by the root values in v's operand tree.
func c20FieldsIn(v *c20Val, out map[string]bool, seen map[*c20Val]bool) {
	if v == nil || seen[v] {
		return
	}
	seen[v] = true
	if v.kind == "root" && v.fld != nil {
		out[v.fld.Name()] = true
	}
	for _, a := range v.args {
		c20FieldsIn(a, out, seen)
	}
	if v.base != nil {
		c20FieldsIn(v.base, out, seen)
	}
}

// c20WindowAccessors: Window.Size returns (Width, Height); Window.Origin returns (column, row).
func c20WindowAccessors(c *Ctx) {
	for _, acc := range []struct {
		fn   string
		want [2]string
		loop int
	}{{"vaxis.Window.Size", [2]string{"Width", "Height"}, 0}, {"vaxis.Window.Origin", [2]string{"Column", "Row"}, 1}} {
		key := acc.fn + "/returns (" + acc.want[0] + ", " + acc.want[1] + ") in this order"
		fi := c.P.Func(acc.fn)
		if fi == nil {
			c.undecided("C20.k", key, 0, "function not found")
			continue
		}
		g := c.P.Graph(fi)
		x := c20NewExec(c, g, map[types.Object]string{})
		agg := c20NewAgg(c)
		agg.declare("C20.k", key, fi.Decl.Pos())
		x.run(func(st *c20State, l Loc, n ast.Node) bool {
			ret, ok := n.(*ast.ReturnStmt)
			if !ok {
				return false
			}
			if len(ret.Results) != 2 {
				agg.und("C20.k", key, ret.Pos(), "return without two explicit results")
				return true
			}
			for i := 0; i < 2; i++ {
				flds := map[string]bool{}
				c20FieldsIn(x.eval(st, ret.Results[i]), flds, map[*c20Val]bool{})
				if acc.loop == 1 && len(flds) == 0 {
					continue // path that returns before accumulating
				}
				if flds[acc.want[i]] && !flds[acc.want[1-i]] {
					agg.ok("C20.k", key, ret.Pos(), "result %d is built from %s", i, acc.want[i])
				} else {
					agg.bad("C20.k", key, ret.Pos(), "result %d is built from %v, expected %s only: image placements and the fit test use the wrong axis", i, c20SortedKeys(flds), acc.want[i])
				}
			}
			return true
		}, nil)
		agg.flush()
	}
}

func c20DrawMethod(c *Ctx, k *c20Kind) {
	fi := k.draw
	name := fi.Name
	info := fi.Pkg.TypesInfo
	recv := c20RecvObj(info, fi.Decl)
	params := c20Params(info, fi.Decl.Type)
	if recv == nil || len(params) != 1 || !c20IsNamed(params[0].Type(), modPath, "Window") {
		c.undecided("C20.c", name+"/signature", fi.Decl.Pos(), "expected Draw(win Window) with a named receiver")
		return
	}
	win := params[0]
	isWin := func(e ast.Expr) bool {
		id, ok := unparen(e).(*ast.Ident)
		return ok && info.Uses[id] == win
	}
	// ---- c: window use (function literals included: they run during render)
	var foreign []string
	var foreignPos token.Pos
	note := func(p token.Pos, format string, args ...any) {
		foreign = append(foreign, fmt.Sprintf(format, args...))
		if !foreignPos.IsValid() {
			foreignPos = p
		}
	}
	ast.Inspect(fi.Decl.Body, func(n ast.Node) bool {
		switch t := n.(type) {
		case *ast.CallExpr:
			se, ok := unparen(t.Fun).(*ast.SelectorExpr)
			if !ok {
				break
			}
			sel, ok := info.Selections[se]
			if !ok || sel.Kind() != types.MethodVal || !c20IsNamed(sel.Recv(), modPath, "Window") {
				break
			}
			key := fmt.Sprintf("%s/Window.%s is called on the window parameter", name, se.Sel.Name)
			if isWin(se.X) {
				c.ok("C20.c", key, t.Pos(), "receiver is %s", win.Name())
			} else {
				c.bad("C20.c", key, t.Pos(), "Window.%s is called on %s, not on Draw's window: cells outside the target window can be touched", se.Sel.Name, types.ExprString(se.X))
			}
		case *ast.CompositeLit:
			if c20IsNamed(info.TypeOf(t), modPath, "Window") {
				note(t.Pos(), "constructs a Window literal")
			}
		case *ast.SelectorExpr:
			sel, ok := info.Selections[t]
			if !ok || sel.Kind() != types.FieldVal {
				break
			}
			switch {
			case c20IsNamed(sel.Recv(), modPath, "Window"):
				note(t.Pos(), "reads %s.%s (parent, Vaxis handle or geometry of the window bypass SetCell's clipping)", types.ExprString(t.X), t.Sel.Name)
			case t.Sel.Name == "screenNext" || t.Sel.Name == "screenLast":
				note(t.Pos(), "touches %s", types.ExprString(t))
			}
		}
		if e, ok := n.(ast.Expr); ok {
			if call, isCall := e.(*ast.CallExpr); isCall {
				if tv, ok := info.Types[call]; ok && tv.Type != nil && c20IsNamed(tv.Type, modPath, "Window") {
					note(call.Pos(), "obtains another Window from %s", types.ExprString(call.Fun))
				}
			}
		}
		return true
	})
	keyOnly := name + "/no other window, window field or screen handle is used"
	if len(foreign) == 0 {
		c.ok("C20.c", keyOnly, fi.Decl.Pos(), "only method calls on %s", win.Name())
	} else {
		c.bad("C20.c", keyOnly, foreignPos, "%s", strings.Join(foreign, "; "))
	}

	// ---- placements queued by this Draw
	pnamed, pst := c20PlacementStruct(c)
	if pnamed == nil {
		return
	}
	var lits []*ast.CompositeLit
	ast.Inspect(fi.Decl.Body, func(n ast.Node) bool {
		if l, ok := n.(*ast.CompositeLit); ok && c20IsNamed(info.TypeOf(l), modPath, "placement") {
			lits = append(lits, l)
		}
		return true
	})
	if len(lits) == 0 {
		return // cell-based image
	}
	// identity field of this image kind: set from nextGraphicID in a literal of the type
	var idField string
	for _, f := range fi.Pkg.Syntax {
		ast.Inspect(f, func(n ast.Node) bool {
			l, ok := n.(*ast.CompositeLit)
			if !ok || !c20IsNamed(info.TypeOf(l), modPath, k.name) {
				return true
			}
			for _, el := range l.Elts {
				kv, ok := el.(*ast.KeyValueExpr)
				if !ok {
					continue
				}
				if call, ok := unparen(kv.Value).(*ast.CallExpr); ok {
					if fn := calleeOf(info, call); fn != nil && repoName(fn) == "vaxis.Vaxis.nextGraphicID" {
						if id, ok := kv.Key.(*ast.Ident); ok {
							idField = id.Name
						}
					}
				}
			}
			return true
		})
	}
	g := c.P.Graph(fi)
	x := c20NewExec(c, g, map[types.Object]string{recv: "recv", win: "win"})
	agg := c20NewAgg(c)
	pos := lits[0].Pos()
	keyFit := func(ax string) string {
		return name + "/a placement is queued only if the image " + c20AxisName[ax] + " fits the window"
	}
	keyAll := name + "/the placement sets every field"
	keyPos := name + "/the placement position is win.Origin() (col, row)"
	keyID := name + "/the placement identity is the image id and its cell size"
	for _, kk := range []string{keyAll, keyPos, keyID} {
		agg.declare("C20.k", kk, pos)
	}
	agg.declare("C20.c", keyFit("w"), pos)
	agg.declare("C20.c", keyFit("h"), pos)
	litSet := map[*ast.CompositeLit]bool{}
	for _, l := range lits {
		litSet[l] = true
	}
	x.run(func(st *c20State, l Loc, n ast.Node) bool {
		var lit *ast.CompositeLit
		inspectNoLit(n, func(m ast.Node) bool {
			if cl, ok := m.(*ast.CompositeLit); ok && litSet[cl] {
				lit = cl
			}
			return true
		})
		if lit == nil {
			return false
		}
		p := lit.Pos()
		vals := map[string]ast.Expr{}
		for i, el := range lit.Elts {
			if kv, ok := el.(*ast.KeyValueExpr); ok {
				if id, ok := kv.Key.(*ast.Ident); ok {
					vals[id.Name] = kv.Value
				}
			} else if i < pst.NumFields() {
				vals[pst.Field(i).Name()] = el
			}
		}
		var missing []string
		for i := 0; i < pst.NumFields(); i++ {
			f := pst.Field(i).Name()
			e, ok := vals[f]
			if !ok || isNilExpr(info, unparen(e)) {
				missing = append(missing, f)
			}
		}
		if len(missing) > 0 {
			agg.bad("C20.k", keyAll, p, "field(s) %v are not set: render calls writeTo/deleteFn unconditionally and samePlacement compares the rest", missing)
		} else {
			agg.ok("C20.k", keyAll, p, "%d fields set", pst.NumFields())
		}
		var sizeCall, originCall *c20Val
		for _, v := range st.vals {
			if v.kind == "call" && v.fn != nil && len(v.args) == 1 && v.args[0].role == "win" {
				switch repoName(v.fn) {
				case "vaxis.Window.Size":
					sizeCall = v
				case "vaxis.Window.Origin":
					originCall = v
				}
			}
		}
		// position
		var probs []string
		for i, f := range []string{"col", "row"} {
			if e := vals[f]; e == nil || originCall == nil || !c20IsResultOf(x.eval(st, e), originCall, int64(i)) {
				probs = append(probs, fmt.Sprintf("%s is not result %d of %s.Origin()", f, i, win.Name()))
			}
		}
		if len(probs) > 0 {
			agg.bad("C20.k", keyPos, p, "%s: the image is placed (and diffed) at the wrong cell", strings.Join(probs, "; "))
		} else {
			agg.ok("C20.k", keyPos, p, "col, row := %s.Origin()", win.Name())
		}
		// identity
		probs = nil
		isRecvField := func(e ast.Expr, names ...string) string {
			if e == nil {
				return ""
			}
			v := x.eval(st, e)
			if v.kind != "root" || v.fld == nil || v.disp != recv.Name()+"."+v.fld.Name() {
				return ""
			}
			for _, nm := range names {
				if v.fld.Name() == nm {
					return nm
				}
			}
			return ""
		}
		if idField == "" {
			agg.und("C20.k", keyID, p, "no field of %s is initialised from nextGraphicID", k.name)
		} else {
			if isRecvField(vals["id"], idField) == "" {
				probs = append(probs, fmt.Sprintf("id is not %s.%s", recv.Name(), idField))
			}
			a := isRecvField(vals["w"], k.sizeF[0].Name(), k.sizeF[1].Name())
			b := isRecvField(vals["h"], k.sizeF[0].Name(), k.sizeF[1].Name())
			if a == "" || b == "" || a == b {
				probs = append(probs, "w and h are not the two cell-size fields of the image")
			}
			if len(probs) > 0 {
				agg.bad("C20.k", keyID, p, "%s: a different or resized image at the same cell is taken for the same placement", strings.Join(probs, "; "))
			} else {
				agg.ok("C20.k", keyID, p, "id, w, h come from the image")
			}
		}
		// fit
		for i, ax := range []string{"w", "h"} {
			fv := st.env[fmt.Sprintf("%p.%s", recv, k.sizeF[i].Name())]
			var wv *c20Val
			if sizeCall != nil {
				for _, v := range st.vals {
					if c20IsResultOf(v, sizeCall, int64(i)) {
						wv = v
					}
				}
			}
			switch {
			case fv != nil && wv != nil && st.relOf(fv, wv)&c20GT == 0:
				agg.ok("C20.c", keyFit(ax), p, "%s.%s %s window %s", recv.Name(), k.sizeF[i].Name(), c20RelString(st.relOf(fv, wv)), c20AxisName[ax])
			case st.opqDep["win"]:
				agg.und("C20.c", keyFit(ax), p, "the placement is queued under a condition on the window that the executor cannot read: %s", c20Conds(st))
			default:
				agg.bad("C20.c", keyFit(ax), p, "on the path [%s] the placement is queued without %s.%s <= the window %s: the payload is written at the window origin in full size and covers cells outside the window", c20Conds(st), recv.Name(), k.sizeF[i].Name(), c20AxisName[ax])
			}
		}
		return true
	}, nil)
	agg.flush()
	c20KittyCommands(c, k, idField)
}

// c20KittyCommands: graphics-protocol commands written by the placement closures.
func c20KittyCommands(c *Ctx, k *c20Kind, idField string) {
	fi := k.draw
	name := fi.Name
	info := fi.Pkg.TypesInfo
	recv := c20RecvObj(info, fi.Decl)
	type cmd struct {
		keys map[string]string // control key -> literal value, or "%<n>" for the n-th argument
		args []ast.Expr
		pos  token.Pos
	}
	var cmds []cmd
	ast.Inspect(fi.Decl.Body, func(n ast.Node) bool {
		call, ok := n.(*ast.CallExpr)
		if !ok || len(call.Args) < 2 {
			return true
		}
		if fn := calleeOf(info, call); fn == nil || fullName(fn) != "fmt.Fprintf" {
			return true
		}
		tv, ok := info.Types[call.Args[1]]
		if !ok || tv.Value == nil || tv.Value.Kind() != constant.String {
			return true
		}
		f := constant.StringVal(tv.Value)
		if !strings.HasPrefix(f, "\x1b_G") {
			return true
		}
		body := strings.TrimSuffix(strings.TrimPrefix(f, "\x1b_G"), "\x1b\\")
		if i := strings.IndexByte(body, ';'); i >= 0 {
			body = body[:i]
		}
		cm := cmd{keys: map[string]string{}, args: call.Args[2:], pos: call.Pos()}
		argn := 0
		for _, kv := range strings.Split(body, ",") {
			parts := strings.SplitN(kv, "=", 2)
			if len(parts) != 2 {
				continue
			}
			v := parts[1]
			if strings.HasPrefix(v, "%") {
				v = fmt.Sprintf("%%%d", argn)
				argn++
			}
			cm.keys[parts[0]] = v
		}
		cmds = append(cmds, cm)
		return true
	})
	if len(cmds) == 0 {
		return
	}
	argOf := func(cm cmd, key string) ast.Expr {
		v := cm.keys[key]
		var n int
		if _, err := fmt.Sscanf(v, "%%%d", &n); err != nil || n >= len(cm.args) {
			return nil
		}
		return cm.args[n]
	}
	isID := func(e ast.Expr) bool {
		if e == nil || idField == "" {
			return false
		}
		return termOf(info, e).ID == fmt.Sprintf("%p.%s", recv, idField)
	}
	var put, del *cmd
	for i := range cmds {
		switch cmds[i].keys["a"] {
		case "p":
			put = &cmds[i]
		case "d":
			del = &cmds[i]
		}
	}
	keyPut := name + "/the put command places this image id under a placement id"
	keyDel := name + "/the delete command removes exactly that placement and keeps the image data"
	if put == nil || del == nil {
		c.undecided("C20.m", keyPut, cmds[0].pos, "expected one a=p and one a=d graphics command in the placement closures")
		return
	}
	c.check(isID(argOf(*put, "i")) && argOf(*put, "p") != nil, "C20.m", keyPut, put.pos, "a=p,i=<image id>,p=<placement id>",
		"the put command does not carry i=<the image's id> and p=<placement id> (arguments out of order?)")
	pp, dp := argOf(*put, "p"), argOf(*del, "p")
	okDel := del.keys["d"] == "i" && isID(argOf(*del, "i")) && pp != nil && dp != nil && termOf(info, pp).ID == termOf(info, dp).ID
	c.check(okDel, "C20.m", keyDel, del.pos, "a=d,d=i with the same image id and placement id as the put command",
		"the delete command is not d=i (lower case keeps the data that writeTo will not upload again) with the put command's i= and p= values: a dropped placement stays, or a refreshed image never reappears")
}

// ---- path-sensitive treatment of local boolean flags in the placement loops (C20.d)

type c20Flags struct {
	g     *FG
	info  *types.Info
	vars  []*types.Var
	index map[types.Object]int
	flow  *tsFlow
}

var c20ActiveFlags *c20Flags

// c20NewFlags: the local boolean variables of fi that occur in a branch condition; their possible values at
// every block entry (all false at the function entry: Go's zero value, overwritten by the declaration).
func c20NewFlags(g *FG, info *types.Info, fi *FuncInfo) *c20Flags {
	f := &c20Flags{g: g, info: info, index: map[types.Object]int{}}
	for _, b := range g.Blocks {
		cond := g.BranchCond(b)
		if cond == nil || cond.Tag != nil || cond.Alts != nil {
			continue
		}
		for _, alt := range c20DNF(cond.Expr, true) {
			for _, l := range alt {
				if id, ok := unparen(l.e).(*ast.Ident); ok {
					if v, ok := info.Uses[id].(*types.Var); ok && !v.IsField() && v.Parent() != fi.Pkg.Types.Scope() {
						if bt, ok := v.Type().Underlying().(*types.Basic); ok && bt.Info()&types.IsBoolean != 0 {
							if _, seen := f.index[v]; !seen {
								f.index[v] = len(f.vars)
								f.vars = append(f.vars, v)
							}
						}
					}
				}
			}
		}
	}
	if len(f.vars) == 0 || len(f.vars) > 6 {
		return nil
	}
	// a flag whose address is taken or that a literal captures cannot be tracked
	bad := false
	ast.Inspect(fi.Decl.Body, func(n ast.Node) bool {
		switch t := n.(type) {
		case *ast.UnaryExpr:
			if t.Op == token.AND {
				if id, ok := unparen(t.X).(*ast.Ident); ok {
					if _, isFlag := f.index[info.Uses[id]]; isFlag {
						bad = true
					}
				}
			}
		case *ast.FuncLit:
			ast.Inspect(t.Body, func(m ast.Node) bool {
				if id, ok := m.(*ast.Ident); ok {
					if _, isFlag := f.index[info.Uses[id]]; isFlag {
						bad = true
					}
				}
				return true
			})
		}
		return true
	})
	if bad {
		return nil
	}
	f.flow = &tsFlow{g: g, transfer: func(l Loc, n ast.Node, s string) []string { return f.transfer(n, s) },
		refine: func(b *cfg.Block, cd *Cond, truth bool, s string) []string {
			if f.feasible(cd.Expr, truth, s) {
				return []string{s}
			}
			return nil
		}}
	f.flow.run(strings.Repeat("0", len(f.vars)))
	return f
}

func (f *c20Flags) transfer(n ast.Node, s string) []string {
	cur := []string{s}
	set := func(v types.Object, rhs ast.Expr) {
		i, ok := f.index[v]
		if !ok {
			return
		}
		var vals []byte
		if rhs == nil {
			vals = []byte{'0'}
		} else if tv, ok := f.info.Types[rhs]; ok && tv.Value != nil && tv.Value.Kind() == constant.Bool {
			if constant.BoolVal(tv.Value) {
				vals = []byte{'1'}
			} else {
				vals = []byte{'0'}
			}
		} else {
			vals = []byte{'0', '1'}
		}
		var next []string
		for _, c := range cur {
			for _, b := range vals {
				bs := []byte(c)
				bs[i] = b
				next = append(next, string(bs))
			}
		}
		cur = next
	}
	inspectNoLit(n, func(m ast.Node) bool {
		switch t := m.(type) {
		case *ast.AssignStmt:
			for i, lh := range t.Lhs {
				if id, ok := unparen(lh).(*ast.Ident); ok {
					if o := f.info.ObjectOf(id); o != nil {
						if len(t.Lhs) == len(t.Rhs) {
							set(o, t.Rhs[i])
						} else {
							set(o, ast.NewIdent("?"))
						}
					}
				}
			}
		case *ast.ValueSpec:
			for i, nm := range t.Names {
				if o := f.info.Defs[nm]; o != nil {
					if len(t.Values) == len(t.Names) {
						set(o, t.Values[i])
					} else {
						set(o, nil)
					}
				}
			}
		}
		return true
	})
	return cur
}

var c20CurFlagState string

func (f *c20Flags) altFeasible(alt []c20Leaf, s string) bool {
	for _, l := range alt {
		if id, isID := unparen(l.e).(*ast.Ident); isID {
			if i, isFlag := f.index[f.info.Uses[id]]; isFlag {
				if (s[i] == '1') != l.pol {
					return false
				}
			}
		}
	}
	return true
}

// feasible: can the condition evaluate to truth in the valuation s?
func (f *c20Flags) feasible(e ast.Expr, truth bool, s string) bool {
	for _, alt := range c20DNF(e, truth) {
		if f.altFeasible(alt, s) {
			return true
		}
	}
	return false
}

func c20ReachF(f *c20Flags, g *FG, b *cfg.Block, idx int, avoid func(ast.Node) bool, allowed func(b *cfg.Block, si int) bool,
	target func(*cfg.Block) bool, hit func(ast.Node) bool, fence map[*cfg.Block]bool) bool {
	type item struct {
		b   *cfg.Block
		idx int
		s   string
	}
	type key struct {
		b *cfg.Block
		s string
	}
	seen := map[key]bool{}
	var work []item
	for _, s := range f.flow.before(Loc{b, idx}) {
		work = append(work, item{b, idx, s})
	}
	for len(work) > 0 {
		it := work[len(work)-1]
		work = work[:len(work)-1]
		states := []string{it.s}
		blocked := false
		for i := it.idx; i < len(it.b.Nodes); i++ {
			n := it.b.Nodes[i]
			if hit != nil && containsNode(n, hit) {
				return true
			}
			if avoid != nil && containsNode(n, avoid) {
				blocked = true
				break
			}
			var next []string
			for _, s := range states {
				next = append(next, f.transfer(n, s)...)
			}
			states = next
		}
		if blocked {
			continue
		}
		two := len(it.b.Succs) == 2 && it.b.Succs[0] != it.b.Succs[1]
		cond := g.BranchCond(it.b)
		for si, s := range it.b.Succs {
			if si == 1 && !two {
				continue
			}
			for _, stt := range states {
				if two && cond != nil && cond.Tag == nil && cond.Alts == nil && !f.feasible(cond.Expr, si == 0, stt) {
					continue
				}
				if allowed != nil && two {
					c20CurFlagState = stt
					ok := allowed(it.b, si)
					c20CurFlagState = ""
					if !ok {
						continue
					}
				}
				if target != nil && target(s) {
					return true
				}
				if fence[s] || seen[key{s, stt}] {
					continue
				}
				seen[key{s, stt}] = true
				work = append(work, item{s, 0, stt})
			}
		}
	}
	return false
}

// c20NeedsEmpty: the leaf (with its polarity) can only hold when the list is empty: a comparison of len(list)
// with a constant that is false for every length >= 1, or list == nil.
func c20NeedsEmpty(info *types.Info, l c20Leaf, isList func(ast.Expr) bool) bool {
	if l.e == nil {
		return false
	}
	be, ok := unparen(l.e).(*ast.BinaryExpr)
	if !ok {
		return false
	}
	lenOf := func(e ast.Expr) bool {
		call, ok := unparen(e).(*ast.CallExpr)
		if !ok || len(call.Args) != 1 {
			return false
		}
		id, ok := call.Fun.(*ast.Ident)
		if !ok {
			return false
		}
		b, ok := info.Uses[id].(*types.Builtin)
		return ok && b.Name() == "len" && isList(call.Args[0])
	}
	op := be.Op
	var k int64
	switch {
	case lenOf(be.X):
		v, ok := constInt(info, be.Y)
		if !ok {
			return false
		}
		k = v
	case lenOf(be.Y):
		v, ok := constInt(info, be.X)
		if !ok {
			return false
		}
		k = v
		switch op {
		case token.LSS:
			op = token.GTR
		case token.GTR:
			op = token.LSS
		case token.LEQ:
			op = token.GEQ
		case token.GEQ:
			op = token.LEQ
		}
	case isList(be.X) && isNilExpr(info, unparen(be.Y)), isList(be.Y) && isNilExpr(info, unparen(be.X)):
		return (be.Op == token.EQL) == l.pol
	default:
		return false
	}
	if !l.pol {
		op = negOp(op)
	}
	for _, n := range []int64{1, 2, 3, 1 << 20} {
		var holds bool
		switch op {
		case token.EQL:
			holds = n == k
		case token.NEQ:
			holds = n != k
		case token.LSS:
			holds = n < k
		case token.LEQ:
			holds = n <= k
		case token.GTR:
			holds = n > k
		case token.GEQ:
			holds = n >= k
		default:
			return false
		}
		if holds {
			return false
		}
	}
	return true
}
