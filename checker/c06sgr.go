package main

// C06.n — SGR styling: the effect of (*Model).sgr on the pen, parameter by parameter, against a VT/xterm
// reference table.
//
// For every SGR parameter of the property's vocabulary (0, 1-9, 21-29, 30-37, 38, 39, 40-47, 48, 49, 58, 59,
// 90-97, 100-107; the extended colours in their ':' and legacy ';' forms; 4:n) and for a few parameter lists
// (omitted parameter, two parameters, a legacy colour followed by another parameter) the function is evaluated
// on that concrete parameter list from several concrete prior pens (no attribute, every attribute, two
// complementary halves; opaque prior colours), and the pen it leaves is compared with the pen a VT/xterm has
// after the same parameter list. The reference is the table c06SGRCases below, not the code.
//
// Nothing of /repo is built or run: the function body is evaluated over its type-checked AST, by
//   1. the concrete evaluator of c18_interp.go (exact Go semantics over ints/structs/pointers/arrays/closures), or,
//      when that evaluator does not model a construct of the body (package-level map tables, for instance),
//   2. the mini-executor of c12_exec.go on the same concrete inputs (map/array/slice lookup tables are expanded
//      row by row); the pen is obtained by replaying the recorded effects on Model.cursor in order.
// Both see through helper extraction, table-driven forms, pointer aliases of the pen and other control flow,
// because they evaluate instead of matching shapes. If neither can evaluate a case the case is undecided.

import (
	"fmt"
	"go/ast"
	"go/constant"
	"go/token"
	"go/types"
	"os"
	"sort"
	"strings"
)

func init() { registerExtra("C06", c06RuleSGR) }

// ---- pens

// c06Col is a colour of the pen: 'p' a prior (opaque) colour, 'd' the default colour, 'i' palette index a,
// 'r' RGB a,b,c.
type c06Col struct {
	kind    byte
	a, b, c int64
}

func (k c06Col) String() string {
	switch k.kind {
	case 'p':
		return fmt.Sprintf("prior#%d", k.a)
	case 'd':
		return "default"
	case 'i':
		return fmt.Sprintf("idx(%d)", k.a)
	case 'r':
		return fmt.Sprintf("rgb(%d,%d,%d)", k.a, k.b, k.c)
	}
	return "?"
}

type c06Pen struct {
	col  [3]c06Col // Foreground, Background, UnderlineColor
	us   int64     // underline style: 0 off, 1 single, 2 double, 3 curly, 4 dotted, 5 dashed (reference numbering)
	attr int64     // reference bits, see c06AttrNames
}

var c06ColFields = []string{"Foreground", "Background", "UnderlineColor"}
var c06AttrNames = []string{"Bold", "Dim", "Italic", "Blink", "Reverse", "Invisible", "Strikethrough"}
var c06USNames = []string{"Off", "Single", "Double", "Curly", "Dotted", "Dashed"}

const (
	c06Bold = 1 << iota
	c06Dim
	c06Italic
	c06Blink
	c06Reverse
	c06Invisible
	c06Strike
	c06AllAttr = 1<<iota - 1
)

func (p c06Pen) String() string {
	var at []string
	for i, n := range c06AttrNames {
		if p.attr&(1<<uint(i)) != 0 {
			at = append(at, n)
		}
	}
	a := "none"
	if len(at) > 0 {
		a = strings.Join(at, "|")
	}
	us := fmt.Sprint(p.us)
	if p.us >= 0 && int(p.us) < len(c06USNames) {
		us = c06USNames[p.us]
	}
	return fmt.Sprintf("{fg=%s bg=%s ul=%s underline=%s attr=%s}", p.col[0], p.col[1], p.col[2], us, a)
}

// ---- the reference

// c06SGRCase: one parameter list and what a VT/xterm does to the pen. alt (optional) is a second accepted
// behaviour for parameters whose meaning differs between VT-compatible terminals.
type c06SGRCase struct {
	label  string
	params [][]int64
	want   func(p c06Pen) c06Pen
	alt    func(p c06Pen) c06Pen
}

func c06SGRCases() []c06SGRCase {
	var cs []c06SGRCase
	one := func(ps ...int64) [][]int64 { return [][]int64{ps} }
	list := func(ps ...int64) [][]int64 {
		var out [][]int64
		for _, p := range ps {
			out = append(out, []int64{p})
		}
		return out
	}
	same := func(p c06Pen) c06Pen { return p }
	reset := func(p c06Pen) c06Pen {
		return c06Pen{col: [3]c06Col{{kind: 'd'}, {kind: 'd'}, {kind: 'd'}}}
	}
	setAttr := func(b int64) func(c06Pen) c06Pen { return func(p c06Pen) c06Pen { p.attr |= b; return p } }
	clrAttr := func(b int64) func(c06Pen) c06Pen { return func(p c06Pen) c06Pen { p.attr &^= b; return p } }
	setUS := func(u int64) func(c06Pen) c06Pen { return func(p c06Pen) c06Pen { p.us = u; return p } }
	setCol := func(f int, k c06Col) func(c06Pen) c06Pen { return func(p c06Pen) c06Pen { p.col[f] = k; return p } }
	then := func(fs ...func(c06Pen) c06Pen) func(c06Pen) c06Pen {
		return func(p c06Pen) c06Pen {
			for _, f := range fs {
				p = f(p)
			}
			return p
		}
	}
	add := func(label string, params [][]int64, want func(c06Pen) c06Pen) {
		cs = append(cs, c06SGRCase{label: label, params: params, want: want})
	}

	add("0 (reset)", one(0), reset)
	add("omitted parameter (reset)", nil, reset)
	for p, b := range map[int64]int64{1: c06Bold, 2: c06Dim, 3: c06Italic, 5: c06Blink, 7: c06Reverse, 8: c06Invisible, 9: c06Strike} {
		add(fmt.Sprintf("%d (%s on)", p, c06AttrNames[c06Log2(b)]), one(p), setAttr(b))
	}
	add("4 (underline on)", one(4), setUS(1))
	for n := int64(0); n <= 5; n++ {
		add(fmt.Sprintf("4:%d (underline %s)", n, strings.ToLower(c06USNames[n])), one(4, n), setUS(n))
	}
	// 6 (rapid blink), 21 (doubly underlined in xterm, ignored by several VT-compatible terminals) and 26 are not
	// given a single meaning: they may be ignored, or do what xterm does; anything else is a difference
	cs = append(cs, c06SGRCase{label: "6 (ignored, or blink)", params: one(6), want: same, alt: setAttr(c06Blink)})
	cs = append(cs, c06SGRCase{label: "21 (ignored, or doubly underlined)", params: one(21), want: same, alt: setUS(2)})
	add("26 (ignored)", one(26), same)
	add("22 (normal intensity: bold and faint off)", one(22), clrAttr(c06Bold|c06Dim))
	for p, b := range map[int64]int64{23: c06Italic, 25: c06Blink, 27: c06Reverse, 28: c06Invisible, 29: c06Strike} {
		add(fmt.Sprintf("%d (%s off)", p, c06AttrNames[c06Log2(b)]), one(p), clrAttr(b))
	}
	add("24 (underline off)", one(24), setUS(0))
	for n := int64(0); n < 8; n++ {
		add(fmt.Sprintf("%d (foreground %d)", 30+n, n), one(30+n), setCol(0, c06Col{kind: 'i', a: n}))
		add(fmt.Sprintf("%d (background %d)", 40+n, n), one(40+n), setCol(1, c06Col{kind: 'i', a: n}))
		add(fmt.Sprintf("%d (bright foreground %d)", 90+n, 8+n), one(90+n), setCol(0, c06Col{kind: 'i', a: 8 + n}))
		add(fmt.Sprintf("%d (bright background %d)", 100+n, 8+n), one(100+n), setCol(1, c06Col{kind: 'i', a: 8 + n}))
	}
	add("39 (default foreground)", one(39), setCol(0, c06Col{kind: 'd'}))
	add("49 (default background)", one(49), setCol(1, c06Col{kind: 'd'}))
	add("59 (default underline colour)", one(59), setCol(2, c06Col{kind: 'd'}))
	for f, p := range []int64{38, 48, 58} {
		what := strings.ToLower(c06ColFields[f])
		for _, n := range []int64{1, 8, 100, 255} {
			add(fmt.Sprintf("%d:5:%d (%s index)", p, n, what), one(p, 5, n), setCol(f, c06Col{kind: 'i', a: n}))
		}
		add(fmt.Sprintf("%d;5;n (%s index, legacy form)", p, what), list(p, 5, 100), setCol(f, c06Col{kind: 'i', a: 100}))
		rgb := c06Col{kind: 'r', a: 10, b: 20, c: 30}
		add(fmt.Sprintf("%d:2:r:g:b (%s RGB)", p, what), one(p, 2, 10, 20, 30), setCol(f, rgb))
		add(fmt.Sprintf("%d:2::r:g:b (%s RGB with colour space)", p, what), one(p, 2, 0, 10, 20, 30), setCol(f, rgb))
		add(fmt.Sprintf("%d;2;r;g;b (%s RGB, legacy form)", p, what), list(p, 2, 10, 20, 30), setCol(f, rgb))
		// the parameter after a legacy colour is the next parameter, not part of the colour
		add(fmt.Sprintf("%d;5;n;4 (legacy index, then underline)", p), list(p, 5, 1, 4), then(setCol(f, c06Col{kind: 'i', a: 1}), setUS(1)))
		add(fmt.Sprintf("%d;2;r;g;b;7 (legacy RGB, then reverse)", p), list(p, 2, 10, 20, 30, 7), then(setCol(f, rgb), setAttr(c06Reverse)))
	}
	// every parameter of a list is applied, in order
	add("1;3 (bold, italic)", list(1, 3), setAttr(c06Bold|c06Italic))
	add("1;22 (bold on, normal intensity)", list(1, 22), clrAttr(c06Bold|c06Dim))
	add("22;1 (normal intensity, bold on)", list(22, 1), then(clrAttr(c06Bold|c06Dim), setAttr(c06Bold)))
	add("0;1;31 (reset, bold, red)", list(0, 1, 31), then(reset, setAttr(c06Bold), setCol(0, c06Col{kind: 'i', a: 1})))
	add("7;0 (reverse, reset)", list(7, 0), reset)
	add("31;42;4 (foreground, background, underline)", list(31, 42, 4), then(setCol(0, c06Col{kind: 'i', a: 1}), setCol(1, c06Col{kind: 'i', a: 2}), setUS(1)))
	sort.SliceStable(cs, func(i, j int) bool { return c06CaseOrder(cs[i]) < c06CaseOrder(cs[j]) })
	return cs
}

func c06CaseOrder(k c06SGRCase) int64 {
	if len(k.params) == 0 {
		return -1
	}
	return int64(len(k.params))*1000 + k.params[0][0]
}

func c06Log2(b int64) int {
	n := 0
	for b > 1 {
		b >>= 1
		n++
	}
	return n
}

// c06PriorPens: the pens each case starts from.
func c06PriorPens() []c06Pen {
	pr := func(n int64) [3]c06Col {
		return [3]c06Col{{kind: 'p', a: n}, {kind: 'p', a: n + 1}, {kind: 'p', a: n + 2}}
	}
	return []c06Pen{
		{col: [3]c06Col{{kind: 'd'}, {kind: 'd'}, {kind: 'd'}}},
		{col: pr(1), us: 3, attr: c06AllAttr},
		{col: pr(4), us: 1, attr: 0x55 & c06AllAttr},
		{col: pr(7), us: 5, attr: 0x2a & c06AllAttr},
	}
}

// ---- evaluation back ends

// c06SGREval evaluates (*Model).sgr on one parameter list from one pen.
// status "" = evaluated; "panic" = the evaluation ends in a run-time panic (msg); "abort" = not evaluable (msg).
type c06SGREval interface {
	name() string
	run(prior c06Pen, params [][]int64) (after c06Pen, status, msg string)
}

// c06SGRNames: how the code under analysis encodes the reference values (constants of package vaxis).
type c06SGRNames struct {
	attr map[int64]int64 // reference bit -> code bit
	back map[int64]int64 // code bit -> reference bit
	us   map[int64]int64 // reference underline style -> code value
	usB  map[int64]int64
}

func c06LookupNames(c *Ctx) (*c06SGRNames, string) {
	pk := c.P.Pkg("vaxis")
	if pk == nil {
		return nil, "package vaxis not loaded"
	}
	n := &c06SGRNames{attr: map[int64]int64{}, back: map[int64]int64{}, us: map[int64]int64{}, usB: map[int64]int64{}}
	cv := func(name string) (int64, bool) {
		k, ok := pk.Types.Scope().Lookup(name).(*types.Const)
		if !ok {
			return 0, false
		}
		if k.Val().Kind() != constant.Int {
			return 0, false
		}
		return constant.Int64Val(k.Val())
	}
	for i, a := range c06AttrNames {
		v, ok := cv("Attr" + a)
		if !ok || v == 0 {
			return nil, "constant vaxis.Attr" + a + " not found"
		}
		n.attr[1<<uint(i)] = v
		n.back[v] = 1 << uint(i)
	}
	for i, u := range c06USNames {
		v, ok := cv("Underline" + u)
		if !ok {
			return nil, "constant vaxis.Underline" + u + " not found"
		}
		n.us[int64(i)] = v
		n.usB[v] = int64(i)
	}
	return n, ""
}

func (n *c06SGRNames) attrToCode(ref int64) int64 {
	var out int64
	for r, cbit := range n.attr {
		if ref&r != 0 {
			out |= cbit
		}
	}
	return out
}

// attrFromCode: ok=false when the code value has a bit that is no attribute of the reference.
func (n *c06SGRNames) attrFromCode(code int64) (int64, bool) {
	var out int64
	for b := int64(1); b != 0 && b <= code; b <<= 1 {
		if code&b == 0 {
			continue
		}
		r, ok := n.back[b]
		if !ok {
			return 0, false
		}
		out |= r
	}
	return out, code >= 0
}

const c06PriorBase = 0x7a0000

// ---- back end 1: the concrete evaluator (c18_interp.go)

type c06SGRConcrete struct {
	w      *c18World
	fi     *FuncInfo
	names  *c06SGRNames
	modelT types.Type
	path   []int // field indices from Model to the pen's vaxis.Style
	colMem map[c06Col]int64
}

func (e *c06SGRConcrete) name() string { return "concrete evaluation" }

// c06PenPath: the field path from the struct type t to the pen: the vaxis.Style reached through the field
// `cursor` of Model if there is one, else the unique shortest path to a vaxis.Style.
func c06PenPath(t types.Type) ([]int, bool) {
	if p, ok := c06PenPathVia(t, "cursor"); ok {
		return p, true
	}
	return c06PenPathVia(t, "")
}

// c06PenPathVia: breadth-first over plain struct fields (at most 4 deep); via != "" restricts the first step to
// the field of that name. The result must be the only vaxis.Style at the smallest depth.
func c06PenPathVia(t types.Type, via string) ([]int, bool) {
	type item struct {
		t    types.Type
		path []int
	}
	var found [][]int
	level := []item{{t: t}}
	for depth := 0; depth < 4 && len(found) == 0 && len(level) > 0; depth++ {
		var next []item
		for _, it := range level {
			st, ok := it.t.Underlying().(*types.Struct)
			if !ok {
				continue
			}
			for i := 0; i < st.NumFields(); i++ {
				f := st.Field(i)
				if depth == 0 && via != "" && f.Name() != via {
					continue
				}
				p := append(append([]int{}, it.path...), i)
				if c18IsNamed(f.Type(), "Style") {
					if _, isPtr := f.Type().(*types.Pointer); !isPtr {
						found = append(found, p)
						continue
					}
				}
				next = append(next, item{t: f.Type(), path: p})
			}
		}
		level = next
	}
	if len(found) == 1 {
		return found[0], true
	}
	return nil, false
}

func newC06SGRConcrete(c *Ctx, fi *FuncInfo, names *c06SGRNames) (*c06SGRConcrete, string) {
	w := &c18World{c: c, p: c.P, pk: c.P.Pkg("vaxis")}
	if w.pk == nil {
		return nil, "package vaxis not loaded"
	}
	w.m = newC18Machine(c.P)
	w.m.trace = false
	sc := w.pk.Types.Scope()
	st, _ := sc.Lookup("Style").(*types.TypeName)
	if st == nil {
		return nil, "type vaxis.Style not found"
	}
	w.styleT = st.Type()
	sig, _ := fi.Obj.Type().(*types.Signature)
	if sig == nil || sig.Recv() == nil || sig.Params().Len() != 1 || sig.Params().At(0).Type().String() != "[][]int" {
		return nil, "signature of sgr is not (vt *Model) sgr(params [][]int)"
	}
	ptr, ok := sig.Recv().Type().(*types.Pointer)
	if !ok {
		return nil, "sgr has a value receiver"
	}
	e := &c06SGRConcrete{w: w, fi: fi, names: names, modelT: ptr.Elem(), colMem: map[c06Col]int64{}}
	e.path, ok = c06PenPath(e.modelT)
	if !ok {
		return nil, "the pen (a vaxis.Style inside Model.cursor) was not located in the type of Model"
	}
	return e, ""
}

func (e *c06SGRConcrete) colCode(k c06Col) (int64, string) {
	if v, ok := e.colMem[k]; ok {
		return v, ""
	}
	var v int64
	switch k.kind {
	case 'd':
		v = 0
	case 'p':
		v = c06PriorBase + k.a
	case 'i':
		r, why := e.w.callPure("vaxis.IndexColor", c18IntV(k.a))
		if why != "" || r.k != c18Int {
			return 0, "vaxis.IndexColor is not evaluable: " + why
		}
		v = r.i
	case 'r':
		r, why := e.w.callPure("vaxis.RGBColor", c18IntV(k.a), c18IntV(k.b), c18IntV(k.c))
		if why != "" || r.k != c18Int {
			return 0, "vaxis.RGBColor is not evaluable: " + why
		}
		v = r.i
	}
	e.colMem[k] = v
	return v, ""
}

func (e *c06SGRConcrete) run(prior c06Pen, params [][]int64) (after c06Pen, status, msg string) {
	w := e.w
	var s c18Style
	var why string
	if s.fg, why = e.colCode(prior.col[0]); why != "" {
		return after, "abort", why
	}
	s.bg, _ = e.colCode(prior.col[1])
	s.ul, _ = e.colCode(prior.col[2])
	s.us = e.names.us[prior.us]
	s.attr = e.names.attrToCode(prior.attr)
	var out c18Style
	pmsg, amsg := w.m.protect(func() {
		obj := c18Zero(e.modelT)
		cur := &obj
		for _, i := range e.path {
			if cur.k != c18Struct {
				w.m.abort("the pen is not reached through plain struct fields")
			}
			cur = cur.strct().field(i)
		}
		*cur = w.styleVal(s)
		recv := c18PtrV(&obj)
		arg := c18Val{k: c18Nil}
		if params != nil {
			var outer []c18Val
			for _, p := range params {
				var in []c18Val
				for _, v := range p {
					in = append(in, c18IntV(v))
				}
				outer = append(outer, w.sliceVal(in))
			}
			arg = w.sliceVal(outer)
		}
		w.m.callFunc(e.fi, &recv, []c18Val{arg}, false)
		// the pen is read where it was put (sgr may replace the struct, not the location)
		cur = &obj
		for _, i := range e.path {
			cur = cur.strct().field(i)
		}
		var ok bool
		if out, ok = w.readStyle(*cur); !ok {
			w.m.abort("the pen is not a plain value after the call")
		}
	})
	if amsg != "" {
		return after, "abort", amsg
	}
	if pmsg != "" {
		return after, "panic", pmsg
	}
	// back to the reference representation
	for f, v := range []int64{out.fg, out.bg, out.ul} {
		after.col[f] = e.colBack(v)
	}
	u, ok := e.names.usB[out.us]
	if !ok {
		u = 1000 + out.us
	}
	after.us = u
	a, ok := e.names.attrFromCode(out.attr)
	if !ok {
		a = 1<<20 | out.attr
	}
	after.attr = a
	return after, "", ""
}

// colBack names a colour value of the code: the default, a prior colour, or (by evaluating the constructors of
// package vaxis on the candidates of the reference table) an index / RGB colour.
func (e *c06SGRConcrete) colBack(v int64) c06Col {
	if v == 0 {
		return c06Col{kind: 'd'}
	}
	if v > c06PriorBase && v < c06PriorBase+64 {
		return c06Col{kind: 'p', a: v - c06PriorBase}
	}
	for n := int64(0); n < 256; n++ {
		if cv, why := e.colCode(c06Col{kind: 'i', a: n}); why == "" && cv == v {
			return c06Col{kind: 'i', a: n}
		}
	}
	// RGB: the candidates are the permutations and neighbours of the reference triple
	vals := []int64{0, 2, 5, 10, 20, 30, 38, 48, 58}
	for _, r := range vals {
		for _, g := range vals {
			for _, b := range vals {
				k := c06Col{kind: 'r', a: r, b: g, c: b}
				if cv, why := e.colCode(k); why == "" && cv == v {
					return k
				}
			}
		}
	}
	return c06Col{kind: '?', a: v}
}

// ---- back end 2: the mini-executor (c12_exec.go) on concrete inputs

type c06SGRSymbolic struct {
	c      *Ctx
	fi     *FuncInfo
	names  *c06SGRNames
	idxFn  types.Object
	rgbFn  types.Object
	styleT types.Type
	// blocked: a construct in the code sgr can reach that the path executor does not model faithfully
	blocked string
}

func (e *c06SGRSymbolic) name() string { return "path execution" }

func newC06SGRSymbolic(c *Ctx, fi *FuncInfo, names *c06SGRNames) (*c06SGRSymbolic, string) {
	pk := c.P.Pkg("vaxis")
	if pk == nil {
		return nil, "package vaxis not loaded"
	}
	e := &c06SGRSymbolic{c: c, fi: fi, names: names}
	e.idxFn = pk.Types.Scope().Lookup("IndexColor")
	e.rgbFn = pk.Types.Scope().Lookup("RGBColor")
	st, _ := pk.Types.Scope().Lookup("Style").(*types.TypeName)
	if e.idxFn == nil || e.rgbFn == nil || st == nil {
		return nil, "vaxis.IndexColor / vaxis.RGBColor / vaxis.Style not found"
	}
	e.styleT = st.Type()
	e.blocked = c06PathExecBlocked(c, fi)
	return e, ""
}

// c06PathExecBlocked: the code reachable from fi by static calls inside its package (and the initialisers of the
// package-level variables it mentions) contains a construct the path executor gets wrong rather than unknown: an
// array or slice literal with keyed elements (the executor ignores the keys), defer/go/select statements (skipped)
// and function literals (their bodies are not followed when they are called).
func c06PathExecBlocked(c *Ctx, fi *FuncInfo) string {
	info := fi.Pkg.TypesInfo
	seenF := map[*FuncInfo]bool{}
	seenV := map[types.Object]bool{}
	why := ""
	var scan func(n ast.Node, depth int)
	scan = func(n ast.Node, depth int) {
		if n == nil || why != "" || depth > 4 {
			return
		}
		ast.Inspect(n, func(m ast.Node) bool {
			switch t := m.(type) {
			case *ast.DeferStmt, *ast.GoStmt, *ast.SelectStmt:
				why = fmt.Sprintf("%T at %s (skipped by the path executor)", t, c.P.Pos(m.Pos()))
				return false
			case *ast.FuncLit:
				why = "function literal at " + c.P.Pos(t.Pos()) + " (its body is not followed by the path executor)"
				return false
			case *ast.CompositeLit:
				if tt := info.TypeOf(t); tt != nil {
					switch tt.Underlying().(type) {
					case *types.Array, *types.Slice:
						for _, el := range t.Elts {
							if _, keyed := el.(*ast.KeyValueExpr); keyed {
								why = "array or slice literal with keyed elements at " + c.P.Pos(t.Pos())
								return false
							}
						}
					}
				}
			case *ast.CallExpr:
				if fn := calleeOf(info, t); fn != nil {
					if cf := c.P.FuncOfObj(fn); cf != nil && cf.Pkg == fi.Pkg && cf.Decl.Body != nil && !seenF[cf] {
						seenF[cf] = true
						scan(cf.Decl.Body, depth+1)
					}
				}
			case *ast.Ident:
				v, ok := info.Uses[t].(*types.Var)
				if !ok || v.IsField() || v.Pkg() != fi.Pkg.Types || v.Parent() != v.Pkg().Scope() || seenV[v] {
					return true
				}
				seenV[v] = true
				for _, f := range fi.Pkg.Syntax {
					for _, d := range f.Decls {
						gd, ok := d.(*ast.GenDecl)
						if !ok || gd.Tok != token.VAR {
							continue
						}
						for _, sp := range gd.Specs {
							vs := sp.(*ast.ValueSpec)
							for _, nm := range vs.Names {
								if info.Defs[nm] == v {
									for _, val := range vs.Values {
										scan(val, depth+1)
									}
								}
							}
						}
					}
				}
			}
			return why == ""
		})
	}
	seenF[fi] = true
	scan(fi.Decl.Body, 0)
	return why
}

func (e *c06SGRSymbolic) colVal(k c06Col) c12Val {
	switch k.kind {
	case 'p':
		return c12Int{c06PriorBase + k.a}
	}
	return c12Int{0}
}

func (e *c06SGRSymbolic) colBack(v c12Val) (c06Col, bool) {
	switch t := v.(type) {
	case c12Int:
		if t.V == 0 {
			return c06Col{kind: 'd'}, true
		}
		if t.V > c06PriorBase && t.V < c06PriorBase+64 {
			return c06Col{kind: 'p', a: t.V - c06PriorBase}, true
		}
	case c12Conv:
		return e.colBack(t.X)
	case c12App:
		var as []int64
		for _, a := range t.Args {
			i, ok := a.(c12Int)
			if !ok {
				return c06Col{}, false
			}
			as = append(as, i.V)
		}
		if types.Object(t.Fn) == e.idxFn && len(as) == 1 {
			return c06Col{kind: 'i', a: as[0]}, true
		}
		if types.Object(t.Fn) == e.rgbFn && len(as) == 3 {
			return c06Col{kind: 'r', a: as[0], b: as[1], c: as[2]}, true
		}
	}
	return c06Col{}, false
}

func (e *c06SGRSymbolic) run(prior c06Pen, params [][]int64) (after c06Pen, status, msg string) {
	if e.blocked != "" {
		return after, "abort", e.blocked
	}
	init := map[string]c12Val{}
	vals := map[string]c12Val{
		"Foreground":     e.colVal(prior.col[0]),
		"Background":     e.colVal(prior.col[1]),
		"UnderlineColor": e.colVal(prior.col[2]),
		"UnderlineStyle": c12Int{e.names.us[prior.us]},
		"Attribute":      c12Int{e.names.attrToCode(prior.attr)},
	}
	// The pen is NOT put into the executor's store: a stored value would be passed to helpers by value where the
	// code passes a pointer to the pen. Reads of the pen therefore stay symbolic (a body that reads the pen into
	// a local and writes it back is "not evaluable" here); the pen is computed by replaying the effects below.
	var arg c12Val = c12Nil{}
	if params != nil {
		var outer []c12Val
		for _, p := range params {
			var in []c12Val
			for _, v := range p {
				in = append(in, c12Int{v})
			}
			outer = append(outer, c12Slice{Elems: in})
		}
		arg = c12Slice{Elems: outer}
	}
	paths, complete := c12RunOpt(e.c.P, e.fi, &c12Exec{init: init}, arg)
	if !complete || len(paths) != 1 {
		return after, "abort", fmt.Sprintf("the outcome depends on something other than the parameter list and the pen (%d paths)", len(paths))
	}
	p := paths[0]
	if len(p.Panics) > 0 {
		return after, "panic", p.Panics[0]
	}
	if len(p.Unsupp) > 0 {
		return after, "abort", p.Unsupp[0]
	}
	// every call must have been followed (or be unable to reach the pen): a call through a function value, a
	// callee of the package that was not followed, or a foreign callee that is handed a pointer into the cursor
	// may change the pen behind the executor's back
	for _, rec := range p.Calls {
		if rec.Fn == nil {
			return after, "abort", "call through a function value: " + rec.Name
		}
		if rec.Inlined {
			continue
		}
		if rec.Fn.Pkg() == e.fi.Pkg.Types {
			return after, "abort", "callee " + rec.Name + " is not followed"
		}
		for _, a := range append(append([]c12Val{}, rec.Args...), rec.Recv) {
			if r, isRef := a.(c12Ref); isRef && (r.Path == "Model" || r.Path == "Model.cursor" || strings.HasPrefix(r.Path, "Model.cursor.")) {
				return after, "abort", "callee " + rec.Name + " receives a reference to " + r.Path
			}
		}
	}
	// replay the effects on the pen, in order
	cur := map[string]c12Val{}
	for f, v := range vals {
		cur[f] = v
	}
	var setStruct func(s *c12Struct) string
	setStruct = func(s *c12Struct) string {
		if !c18IsNamed(s.Typ, "Style") {
			// a struct that contains the style (the cursor): descend
			st, ok := s.Typ.Underlying().(*types.Struct)
			if !ok {
				return "assignment of a " + typeName(s.Typ)
			}
			for i := 0; i < st.NumFields(); i++ {
				if c18IsNamed(st.Field(i).Type(), "Style") {
					in, _ := s.Fields[st.Field(i).Name()].(*c12Struct)
					if in == nil {
						in = &c12Struct{Typ: st.Field(i).Type(), Fields: map[string]c12Val{}}
					}
					return setStruct(in)
				}
			}
			return "assignment of a " + typeName(s.Typ) + " without a style"
		}
		for f := range vals {
			if v, ok := s.Fields[f]; ok {
				cur[f] = v
			} else {
				cur[f] = c12Int{0}
			}
		}
		return ""
	}
	for _, ef := range p.Effects {
		if ef.Path != "Model.cursor" && !strings.HasPrefix(ef.Path, "Model.cursor.") {
			continue
		}
		if len(ef.Idx) > 0 {
			return after, "abort", "indexed store into " + ef.Path
		}
		val := ef.Val
		if cv, ok := val.(c12Conv); ok {
			if _, isStruct := cv.X.(*c12Struct); isStruct {
				val = cv.X
			}
		}
		if s, ok := val.(*c12Struct); ok {
			if ef.Op != token.ASSIGN && ef.Op != token.DEFINE {
				return after, "abort", "compound assignment of a struct to " + ef.Path
			}
			if why := setStruct(s); why != "" {
				return after, "abort", why + " to " + ef.Path
			}
			continue
		}
		if ef.Field == nil {
			return after, "abort", "store into " + ef.Path
		}
		f := ef.Field.Name()
		if _, isPen := vals[f]; !isPen || !strings.HasPrefix(ef.Path, "Model.cursor.") {
			if ef.Path == "Model.cursor" || c18IsNamed(ef.Field.Type(), "Style") {
				return after, "abort", "store of a value that is not evaluable into " + ef.Path
			}
			continue // row, col, ...
		}
		if rest := strings.TrimPrefix(ef.Path, "Model.cursor."); rest != f && rest != "Style."+f {
			continue // a field of the same name elsewhere under the cursor
		}
		switch ef.Op {
		case token.ASSIGN, token.DEFINE:
			cur[f] = val
		default:
			l, okL := cur[f].(c12Int)
			r, okR := val.(c12Int)
			if cv, isConv := val.(c12Conv); isConv && !okR {
				r, okR = cv.X.(c12Int)
			}
			if !okL || !okR {
				return after, "abort", fmt.Sprintf("%s %s %s is not evaluable", ef.Path, ef.Op, c12Show(val))
			}
			var v int64
			switch ef.Op {
			case token.OR_ASSIGN:
				v = l.V | r.V
			case token.AND_NOT_ASSIGN:
				v = l.V &^ r.V
			case token.AND_ASSIGN:
				v = l.V & r.V
			case token.XOR_ASSIGN:
				v = l.V ^ r.V
			case token.ADD_ASSIGN:
				v = l.V + r.V
			case token.SUB_ASSIGN:
				v = l.V - r.V
			default:
				return after, "abort", fmt.Sprintf("%s %s is not modelled", ef.Path, ef.Op)
			}
			cur[f] = c12Int{v}
		}
	}
	for i, f := range c06ColFields {
		k, ok := e.colBack(cur[f])
		if !ok {
			return after, "abort", fmt.Sprintf("the value of %s (%s) is not evaluable", f, c12Show(cur[f]))
		}
		after.col[i] = k
	}
	intOf := func(v c12Val) (int64, bool) {
		if cv, ok := v.(c12Conv); ok {
			v = cv.X
		}
		i, ok := v.(c12Int)
		return i.V, ok
	}
	us, ok := intOf(cur["UnderlineStyle"])
	if !ok {
		return after, "abort", fmt.Sprintf("the value of UnderlineStyle (%s) is not evaluable", c12Show(cur["UnderlineStyle"]))
	}
	if u, ok := e.names.usB[us]; ok {
		after.us = u
	} else {
		after.us = 1000 + us
	}
	at, ok := intOf(cur["Attribute"])
	if !ok {
		return after, "abort", fmt.Sprintf("the value of Attribute (%s) is not evaluable", c12Show(cur["Attribute"]))
	}
	if a, ok := e.names.attrFromCode(at); ok {
		after.attr = a
	} else {
		after.attr = 1<<20 | at
	}
	return after, "", ""
}

// ---- the rule

func c06RuleSGR(c *Ctx) {
	c.Clauses = append(c.Clauses, "C06.n SGR styling: for every SGR parameter of the vocabulary (0, 1-9, 21-29, 30-37, 38, 39, 40-47, 48, 49, 58, 59, 90-97, 100-107; 4:n; extended colours in ':' and legacy ';' form; omitted parameter; several parameters in one list) (*Model).sgr, evaluated on that parameter list from several prior pens, leaves exactly the pen of a VT/xterm reference table")
	c.expect("C06.n", 90)
	const fname = "widgets/term.(*Model).sgr"
	fi := c.P.Func(fname)
	if fi == nil || fi.Decl.Body == nil {
		c.undecided("C06.n", fname, 0, "function not found")
		return
	}
	if sig, _ := fi.Obj.Type().(*types.Signature); sig == nil || sig.Recv() == nil || sig.Params().Len() != 1 || sig.Params().At(0).Type().String() != "[][]int" || sig.Results().Len() != 0 {
		c.undecided("C06.n", fname, fi.Decl.Pos(), "the signature of sgr is not (vt *Model) sgr(params [][]int): the parameter lists of the reference table cannot be handed to it")
		return
	}
	names, why := c06LookupNames(c)
	if names == nil {
		c.undecided("C06.n", fname, fi.Decl.Pos(), "%s", why)
		return
	}
	var evs []c06SGREval
	var notes []string
	if e, why := newC06SGRConcrete(c, fi, names); e != nil {
		evs = append(evs, e)
	} else {
		notes = append(notes, "concrete evaluation: "+why)
	}
	if e, why := newC06SGRSymbolic(c, fi, names); e != nil {
		evs = append(evs, e)
	} else {
		notes = append(notes, "path execution: "+why)
	}
	if only := os.Getenv("C06_SGR_EVAL"); only != "" { // debugging aid: "concrete" | "path"
		var keep []c06SGREval
		for _, e := range evs {
			if strings.HasPrefix(e.name(), only) {
				keep = append(keep, e)
			}
		}
		evs = keep
	}
	if len(evs) == 0 {
		c.undecided("C06.n", fname, fi.Decl.Pos(), "no evaluator available: %s", strings.Join(notes, "; "))
		return
	}
	priors := c06PriorPens()
	for _, k := range c06SGRCases() {
		key := fname + "/SGR " + k.label
		verdict, reason := "ok", ""
		var usedBy []string
		for _, prior := range priors {
			var got c06Pen
			status, msg, by := "abort", "", ""
			var aborts []string
			for _, ev := range evs {
				got, status, msg = ev.run(prior, k.params)
				by = ev.name()
				if status != "abort" {
					break
				}
				aborts = append(aborts, by+": "+msg)
			}
			switch status {
			case "abort":
				if verdict == "ok" {
					verdict, reason = "undecided", fmt.Sprintf("sgr(%s) from pen %s is not evaluable (%s)", c06ShowParams(k.params), prior, strings.Join(aborts, "; "))
				}
				continue
			case "panic":
				verdict, reason = "bad", fmt.Sprintf("sgr(%s) from pen %s panics: %s", c06ShowParams(k.params), prior, msg)
			default:
				if len(usedBy) == 0 || usedBy[len(usedBy)-1] != by {
					usedBy = append(usedBy, by)
				}
				want := k.want(prior)
				if got == want || (k.alt != nil && got == k.alt(prior)) {
					continue
				}
				verdict, reason = "bad", fmt.Sprintf("CSI %s m from pen %s: a VT/xterm has pen %s afterwards, (*Model).sgr leaves %s (%s)", c06ShowCSI(k.params), prior, want, got, by)
			}
			if verdict == "bad" {
				break
			}
		}
		switch verdict {
		case "ok":
			c.ok("C06.n", key, fi.Decl.Pos(), "pen as in the reference from %d prior pens (%s)", len(priors), strings.Join(usedBy, ", "))
		case "bad":
			c.bad("C06.n", key, fi.Decl.Pos(), "%s", reason)
		default:
			c.undecided("C06.n", key, fi.Decl.Pos(), "%s", reason)
		}
	}
}

func c06ShowParams(ps [][]int64) string {
	if ps == nil {
		return "nil"
	}
	return "[" + c06ShowCSI(ps) + "]"
}

func c06ShowCSI(ps [][]int64) string {
	var out []string
	for _, p := range ps {
		var sub []string
		for _, v := range p {
			sub = append(sub, fmt.Sprint(v))
		}
		out = append(out, strings.Join(sub, ":"))
	}
	return strings.Join(out, ";")
}
