package main

// c01norm — source normalisation of package vaxis for C01 / C07, complementing the global helper inliner
// (gnorm.go / c15norm.go). The rules of both properties read the frame path and the start-up path of package
// vaxis statement by statement; behaviour-preserving refactorings that cut those paths differently are brought
// back to the statement sequences the rules know BEFORE any rule runs. Every step is a purely syntactic,
// conservative rewrite whose side conditions are checked on the type-checked tree; the result is printed,
// re-parsed and re-type-checked (c15Recheck). Nothing is executed. On the tree the rules were confirmed on, the
// pass does nothing (it only touches constructs that are new with respect to the reference lists c01ref.go).
//
//  1. rename      a NEW unexported function/method whose bare name collides with a reference name (the global
//                  inliner keys its "do not inline" list by bare name) gets a fresh name, so that it is inlined.
//  2. devariadic  a NEW variadic helper that is only called, never with a spread argument, takes a slice; its
//                  calls pass the slice literal a variadic call stands for.
//  3. lift        a local closure `name := func(..) {..}` that is only ever called, and captures nothing but
//                  variables that are never written after their definition, becomes a top-level function taking
//                  the captured values as leading parameters (lambda lifting: a copy of an immutable value is the
//                  value). The lifted function is new, hence inlined by the helper inliner wherever possible.
//  4. splice      a closure that cannot be lifted (it writes variables of its function) but is a plain named
//                  block of statements is spliced into its statement-level call sites (c19norm.go).
//  5. func value  `f := x.M` / `f := g`, defined once and only called: f(a) is x.M(a) / g(a), provided x is a path
//                  of variables never written again and fields that cannot be written while the function runs.
//  6. tail        `return f(args)` (or `f(args)` as the last statement of a function without results) with f a NEW helper that the helper inliner refuses because of named (but
//                  unused) results or defer statements: the body is spliced in as it is. The callee's deferred
//                  calls run when the callee returns, i.e. immediately before the caller's own deferred calls and
//                  after the result values were computed — exactly when they run as deferred calls of the caller
//                  registered at the splice point (LIFO).
//  7. inline      the helper inliner of c15norm.go is run again (lifted / renamed helpers; large new helpers —
//                  phase splits — too: they are called once, size is no reason to refuse. If that result does not
//                  type-check the whole pass is repeated with the inliner's usual size limit).
//  8. unroll      `for i, v := range T` / `for i := 0; i < len(T); i++` over a small literal table and
//                  `if v, ok := M[k]; ok` over a small read-only literal map are expanded into the duplicated
//                  blocks / the switch they stand for; constant-index reads T[k].f and field reads of local struct
//                  literals are replaced by the expressions they were given where those are stable (c01unroll.go).
//                  Pointer aliases `p := &x` that are only read and written through are replaced by x.
//  9. drop        NEW unexported helpers that nothing refers to any more are removed.
//
// Set VX_NO_NORMALISE=1 to analyse the text as it is written.

import (
	"fmt"
	"go/ast"
	"go/parser"
	"go/token"
	"go/types"
	"os"
	"sort"
	"strings"

	"golang.org/x/tools/go/ast/astutil"
	"golang.org/x/tools/go/packages"
)

var c01Normalised = map[*packages.Package]bool{}

// c01Normalise is idempotent per loaded package; C01 and C07 both call it first.
func c01Normalise(c *Ctx) {
	if os.Getenv("VX_NO_NORMALISE") != "" {
		return
	}
	pk := c.P.Pkg("vaxis")
	if pk == nil || pk.TypesInfo == nil || c01Normalised[pk] {
		return
	}
	c01Normalised[pk] = true
	if os.Getenv("VX_DUMP_QFUNCS") != "" {
		c01DumpRef(pk)
		os.Exit(0)
	}
	before := len(c.Obs)
	// first with large new helpers inlined as well (phase splits); if that does not give a program that
	// type-checks, again with the helper inliner's usual size limit; if that fails too, the globally normalised
	// text is analysed as it is
	for attempt, limit := range []int{6000, 0} {
		failed := ""
		func() {
			defer func() {
				if r := recover(); r != nil {
					failed = fmt.Sprint(r)
				}
			}()
			failed = c01NormaliseRounds(c, c.P.Pkg("vaxis"), limit)
		}()
		if failed == "" && len(c.Obs) > before {
			failed = "helper inlining gave up"
		}
		if failed == "" {
			break
		}
		// the syntax trees may be half rewritten: load again
		for _, o := range c.Obs[before:] {
			if c.counts[o.Rule]--; c.counts[o.Rule] <= 0 {
				delete(c.counts, o.Rule)
			}
		}
		c.Obs = c.Obs[:before]
		p, err := Load(c.P.Repo, c.P.GOOS, loadNeedSSA)
		if err != nil {
			c.undecided("LOAD", "normalise", 0, "vaxis normalisation failed (%s) and the program could not be reloaded: %v", failed, err)
			return
		}
		c.P = p
		installAccessorResolver(p)
		globalNormalise(c)
		if npk := c.P.Pkg("vaxis"); npk != nil {
			c01Normalised[npk] = true
		}
		if os.Getenv("VX_NORM_LOG") != "" {
			fmt.Fprintln(os.Stderr, "NORM abandoned:", attempt, failed)
		}
		if attempt == 1 {
			c.info("vaxis normalisation abandoned (%s); the globally normalised text is analysed", failed)
		}
	}
	installAccessorResolver(c.P)
	if os.Getenv("VX_NORM_LOG") != "" {
		for _, n := range c.Info {
			fmt.Fprintln(os.Stderr, "NORM", n)
		}
	}
}

func c01NormaliseRounds(c *Ctx, pk *packages.Package, inlineLimit int) string {
	shorts := []string{"vaxis"}
	counter := 0
	startObs := len(c.Obs)
	type stepFn func(*Ctx, *packages.Package, *int, func(*ast.File, string, ...any))
	runSteps := func(steps []stepFn) (bool, string) {
		pk := c.P.Pkg("vaxis")
		changed := map[*ast.File]bool{}
		note := func(f *ast.File, format string, a ...any) {
			changed[f] = true
			c.info("normalised: "+format, a...)
		}
		// one rewrite per round: each works on freshly type-checked trees
		for _, step := range steps {
			step(c, pk, &counter, note)
			if len(changed) > 0 {
				break
			}
		}
		if len(changed) == 0 {
			return false, ""
		}
		if err := c15Recheck(c, shorts, map[*packages.Package]map[*ast.File]bool{pk: changed}); err != nil {
			return false, err.Error()
		}
		installAccessorResolver(c.P)
		return true, ""
	}
	for round := 0; round < 40; round++ {
		if ch, err := runSteps([]stepFn{c01RenameColliding, c01Devariadic, c01LiftClosures, c01SpliceClosures, c01ResolveFuncAliases, c01TailSplice}); err != "" {
			return err
		} else if ch {
			continue
		}
		// the helper inliner (it has its own re-check loop)
		nb := len(c.Info)
		func() {
			// a phase split moves large blocks into new helpers: they are called once, size is no reason to refuse
			saved := c15MaxInlineNodes
			if inlineLimit > saved {
				c15MaxInlineNodes = inlineLimit
			}
			defer func() { c15MaxInlineNodes = saved }()
			c15NormaliseOpt(c, shorts, refFuncNames, false)
		}()
		if len(c.Obs) > startObs {
			return "helper inlining gave up"
		}
		if len(c.Info) > nb {
			installAccessorResolver(c.P)
			continue
		}
		if ch, err := runSteps([]stepFn{c01UnrollTables, c01ExpandMapLookups, c01FoldConstIndex, c01PropagateStructFields, c01ElimPointerAliases, c01DropDeadHelpers}); err != "" {
			return err
		} else if ch {
			continue
		}
		return ""
	}
	return ""
}

func c01QualName(fd *ast.FuncDecl) string { return "vaxis." + funcDeclName(fd) }

// c01IsNewFunc: declared in package vaxis, not part of the tree the rules were confirmed on.
func c01IsNewFunc(fd *ast.FuncDecl) bool {
	return fd != nil && fd.Body != nil && !c01RefFuncs[c01QualName(fd)]
}

func c01DumpRef(pk *packages.Package) {
	var fns, vars, typs []string
	for _, f := range pk.Syntax {
		for _, d := range f.Decls {
			switch t := d.(type) {
			case *ast.FuncDecl:
				fns = append(fns, c01QualName(t))
			case *ast.GenDecl:
				if t.Tok == token.VAR {
					for _, sp := range t.Specs {
						for _, n := range sp.(*ast.ValueSpec).Names {
							vars = append(vars, n.Name)
						}
					}
				}
				if t.Tok == token.TYPE {
					for _, sp := range t.Specs {
						typs = append(typs, sp.(*ast.TypeSpec).Name.Name)
					}
				}
			}
		}
	}
	sort.Strings(fns)
	sort.Strings(vars)
	sort.Strings(typs)
	fmt.Println("package main")
	fmt.Println()
	fmt.Println("// c01RefFuncs / c01RefVars: the functions (qualified) and package-level variables of package vaxis in the tree")
	fmt.Println("// the rules were confirmed on (generated: VX_DUMP_QFUNCS=1 vxcheck -p C01 -repo /repo). Anything else is new.")
	fmt.Println("var c01RefFuncs = map[string]bool{")
	for _, n := range fns {
		fmt.Printf("\t%q: true,\n", n)
	}
	fmt.Println("}")
	fmt.Println()
	fmt.Println("var c01RefVars = map[string]bool{")
	for _, n := range vars {
		fmt.Printf("\t%q: true,\n", n)
	}
	fmt.Println("}")
	fmt.Println()
	fmt.Println("var c01RefTypes = map[string]bool{")
	for _, n := range typs {
		fmt.Printf("\t%q: true,\n", n)
	}
	fmt.Println("}")
}

// ---------------------------------------------------------------------------
// helpers

// c01TypeString renders t so that it is valid in file (package-local names unqualified, imported packages by the
// name the file imports them under).
func c01TypeString(pk *packages.Package, file *ast.File, t types.Type) (string, bool) {
	ok := true
	s := types.TypeString(t, func(p *types.Package) string {
		if p == pk.Types {
			return ""
		}
		for _, imp := range file.Imports {
			if strings.Trim(imp.Path.Value, `"`) == p.Path() {
				if imp.Name != nil {
					if imp.Name.Name == "_" || imp.Name.Name == "." {
						ok = false
					}
					return imp.Name.Name
				}
				return p.Name()
			}
		}
		ok = false
		return p.Name()
	})
	return s, ok
}

func c01TypeExpr(pk *packages.Package, file *ast.File, t types.Type) ast.Expr {
	s, ok := c01TypeString(pk, file, t)
	if !ok {
		return nil
	}
	e, err := parser.ParseExpr(s)
	if err != nil {
		return nil
	}
	return c15Copy(e, nil).(ast.Expr) // positions of the scratch parse dropped
}

// c01ImportsAvailable: every package name used in n is imported under the same name in file.
func c01ImportsAvailable(info *types.Info, n ast.Node, file *ast.File) bool {
	ok := true
	ast.Inspect(n, func(m ast.Node) bool {
		id, isID := m.(*ast.Ident)
		if !isID || !ok {
			return ok
		}
		pn, isPkg := info.Uses[id].(*types.PkgName)
		if !isPkg {
			return true
		}
		found := false
		for _, imp := range file.Imports {
			name := pn.Imported().Name()
			if imp.Name != nil {
				name = imp.Name.Name
			}
			if strings.Trim(imp.Path.Value, `"`) == pn.Imported().Path() && name == id.Name {
				found = true
			}
		}
		if !found {
			ok = false
		}
		return ok
	})
	return ok
}

func c01FileOf(pk *packages.Package, n ast.Node) *ast.File {
	for _, f := range pk.Syntax {
		if f.Pos() <= n.Pos() && n.End() <= f.End() {
			return f
		}
	}
	return nil
}

// c01Lists calls f for every statement list below n (function literals included when lits is true).
func c01Lists(n ast.Node, lits bool, f func(list *[]ast.Stmt)) {
	ast.Inspect(n, func(m ast.Node) bool {
		if _, isLit := m.(*ast.FuncLit); isLit && !lits {
			return false
		}
		if l := c19StmtList(m); l != nil {
			f(l)
		}
		return true
	})
}

// c01WriteCounts: for the local variables of fd, how often each is written as a whole (definition included),
// and whether its storage can change otherwise (address taken, element/field of a value-typed variable assigned,
// pointer-receiver method called on it).
type c01VarUse struct {
	writes  int
	escaped bool
}

func c01VarUses(info *types.Info, body ast.Node) map[types.Object]*c01VarUse {
	out := map[types.Object]*c01VarUse{}
	get := func(o types.Object) *c01VarUse {
		if out[o] == nil {
			out[o] = &c01VarUse{}
		}
		return out[o]
	}
	isValueAggregate := func(t types.Type) bool {
		switch t.Underlying().(type) {
		case *types.Struct, *types.Array:
			return true
		}
		return false
	}
	lhs := func(l ast.Expr) {
		l = unparen(l)
		if id, ok := l.(*ast.Ident); ok {
			if o := info.ObjectOf(id); o != nil {
				get(o).writes++
			}
			return
		}
		// x.f = v / x[i] = v with x a struct or array VALUE modifies x (through a pointer, slice or map it does not)
		cur := l
		for {
			switch t := cur.(type) {
			case *ast.SelectorExpr:
				if _, isField := info.Selections[t]; !isField {
					return
				}
				if !isValueAggregate(info.TypeOf(t.X)) {
					return
				}
				cur = unparen(t.X)
				continue
			case *ast.IndexExpr:
				if !isValueAggregate(info.TypeOf(t.X)) {
					return
				}
				cur = unparen(t.X)
				continue
			case *ast.Ident:
				if o := info.ObjectOf(t); o != nil {
					get(o).escaped = true
				}
			}
			return
		}
	}
	ast.Inspect(body, func(n ast.Node) bool {
		switch t := n.(type) {
		case *ast.AssignStmt:
			for _, l := range t.Lhs {
				lhs(l)
			}
		case *ast.IncDecStmt:
			lhs(t.X)
		case *ast.RangeStmt:
			if t.Key != nil {
				lhs(t.Key)
			}
			if t.Value != nil {
				lhs(t.Value)
			}
		case *ast.ValueSpec:
			for _, nm := range t.Names {
				if o := info.Defs[nm]; o != nil {
					get(o).writes++
				}
			}
		case *ast.UnaryExpr:
			if t.Op == token.AND {
				if o := rootObj(info, t.X); o != nil {
					if _, isLit := unparen(t.X).(*ast.CompositeLit); !isLit {
						// &x, &x.f, &x[i] of a value aggregate: the storage of x is reachable through the pointer
						cur := unparen(t.X)
						through := true
						for through {
							switch s := cur.(type) {
							case *ast.Ident:
								get(o).escaped = true
								through = false
							case *ast.SelectorExpr:
								if _, isField := info.Selections[s]; !isField || !isValueAggregate(info.TypeOf(s.X)) {
									through = false
								} else {
									cur = unparen(s.X)
								}
							case *ast.IndexExpr:
								if !isValueAggregate(info.TypeOf(s.X)) {
									through = false
								} else {
									cur = unparen(s.X)
								}
							default:
								through = false
							}
						}
					}
				}
			}
		case *ast.CallExpr:
			// x.M() with M on *T and x an addressable value of type T takes &x
			if sel, ok := t.Fun.(*ast.SelectorExpr); ok {
				if s := info.Selections[sel]; s != nil && s.Kind() == types.MethodVal {
					if sig, ok := s.Obj().Type().(*types.Signature); ok && sig.Recv() != nil {
						if _, ptrRecv := sig.Recv().Type().(*types.Pointer); ptrRecv {
							if _, isPtr := info.TypeOf(sel.X).Underlying().(*types.Pointer); !isPtr {
								if id, ok := unparen(sel.X).(*ast.Ident); ok {
									if o := info.ObjectOf(id); o != nil {
										get(o).escaped = true
									}
								}
							}
						}
					}
				}
			}
		}
		return true
	})
	return out
}

// ---------------------------------------------------------------------------
// 1. rename colliding new functions

func c01RenameColliding(c *Ctx, pk *packages.Package, counter *int, note func(*ast.File, string, ...any)) {
	info := pk.TypesInfo
	for _, f := range pk.Syntax {
		for _, d := range f.Decls {
			fd, ok := d.(*ast.FuncDecl)
			if !ok || !c01IsNewFunc(fd) || fd.Name.IsExported() || !refFuncNames[fd.Name.Name] || fd.Name.Name == "init" || fd.Name.Name == "main" {
				continue
			}
			obj := info.Defs[fd.Name]
			if obj == nil {
				continue
			}
			// a method that (by its name) may be needed to satisfy an interface declared in the repository keeps its name
			if fd.Recv != nil && c01InterfaceMethodName(c, fd.Name.Name) {
				continue
			}
			*counter++
			nn := fmt.Sprintf("%s_nw%d", fd.Name.Name, *counter)
			for _, g := range pk.Syntax {
				touched := false
				ast.Inspect(g, func(n ast.Node) bool {
					if id, ok := n.(*ast.Ident); ok && (info.Uses[id] == obj || info.Defs[id] == obj) {
						id.Name = nn
						touched = true
					}
					return true
				})
				if touched {
					note(g, "new function %s renamed %s (its name collides with a reference function)", c01QualName(fd), nn)
				}
			}
			return // one per round
		}
	}
}

func c01InterfaceMethodName(c *Ctx, name string) bool {
	for _, pk := range c.P.All {
		if pk.TypesInfo == nil {
			continue
		}
		for _, tv := range pk.TypesInfo.Types {
			if it, ok := tv.Type.Underlying().(*types.Interface); ok && tv.IsType() {
				for i := 0; i < it.NumMethods(); i++ {
					if it.Method(i).Name() == name {
						return true
					}
				}
			}
		}
	}
	return false
}

// c01DropDeadHelpers removes NEW unexported functions that nothing refers to any more (their bodies live on in
// their former callers): the rules enumerate the functions of the package, and code that cannot run is not part
// of the behaviour.
func c01DropDeadHelpers(c *Ctx, pk *packages.Package, counter *int, note func(*ast.File, string, ...any)) {
	info := pk.TypesInfo
	used := map[types.Object]bool{}
	for _, f := range pk.Syntax {
		ast.Inspect(f, func(n ast.Node) bool {
			if id, ok := n.(*ast.Ident); ok {
				if o := info.Uses[id]; o != nil {
					used[o] = true
				}
			}
			return true
		})
	}
	for _, f := range pk.Syntax {
		var keep []ast.Decl
		for _, d := range f.Decls {
			fd, ok := d.(*ast.FuncDecl)
			if ok && c01IsNewFunc(fd) && !fd.Name.IsExported() && fd.Name.Name != "init" && fd.Name.Name != "main" && fd.Name.Name != "_" {
				if o := info.Defs[fd.Name]; o != nil && !used[o] && (fd.Recv == nil || !c01InterfaceMethodName(c, fd.Name.Name)) {
					note(f, "new helper %s is no longer referenced and is dropped", c01QualName(fd))
					continue
				}
			}
			keep = append(keep, d)
		}
		f.Decls = keep
	}
}

// c01Devariadic: a NEW unexported function `f(a T, rest ...E)` that is only ever called, never with a spread
// argument, becomes `f(a T, rest []E)` and every call `f(x, p, q)` becomes `f(x, []E{p, q})` — which is what a
// variadic call means. The helper inliner (which refuses variadic helpers) and the table unroller take it from there.
func c01Devariadic(c *Ctx, pk *packages.Package, counter *int, note func(*ast.File, string, ...any)) {
	info := pk.TypesInfo
	for _, f := range pk.Syntax {
		for _, d := range f.Decls {
			fd, ok := d.(*ast.FuncDecl)
			if !ok || !c01IsNewFunc(fd) || fd.Name.IsExported() || fd.Type.Params == nil || len(fd.Type.Params.List) == 0 {
				continue
			}
			last := fd.Type.Params.List[len(fd.Type.Params.List)-1]
			ell, ok := last.Type.(*ast.Ellipsis)
			if !ok {
				continue
			}
			obj, _ := info.Defs[fd.Name].(*types.Func)
			if obj == nil || (fd.Recv != nil && c01InterfaceMethodName(c, fd.Name.Name)) {
				continue
			}
			sig := obj.Type().(*types.Signature)
			nfixed := sig.Params().Len() - 1
			elemT := sig.Params().At(nfixed).Type().(*types.Slice).Elem()
			// every use is the callee of a call without spread
			type site struct {
				call *ast.CallExpr
				file *ast.File
			}
			var sites []site
			okUses := true
			for _, g := range pk.Syntax {
				var stack []ast.Node
				ast.Inspect(g, func(n ast.Node) bool {
					if n == nil {
						stack = stack[:len(stack)-1]
						return true
					}
					stack = append(stack, n)
					id, isID := n.(*ast.Ident)
					if !isID || info.Uses[id] != types.Object(obj) {
						return true
					}
					k := len(stack) - 2
					var child ast.Node = id
					if k >= 0 {
						if sel, isSel := stack[k].(*ast.SelectorExpr); isSel && sel.Sel == id {
							child = sel
							k--
						}
					}
					if k < 0 {
						okUses = false
						return true
					}
					call, isCall := stack[k].(*ast.CallExpr)
					if !isCall || call.Fun != child || call.Ellipsis.IsValid() || len(call.Args) < nfixed {
						okUses = false
						return true
					}
					sites = append(sites, site{call, g})
					return true
				})
			}
			if !okUses {
				continue
			}
			okTypes := true
			for _, st := range sites {
				if c01TypeExpr(pk, st.file, elemT) == nil {
					okTypes = false
				}
			}
			if !okTypes {
				continue
			}
			for _, st := range sites {
				te := c01TypeExpr(pk, st.file, elemT)
				var rest ast.Expr
				if len(st.call.Args) == nfixed {
					// no variadic arguments: the parameter is a nil slice
					rest = &ast.CallExpr{Fun: &ast.ParenExpr{X: &ast.ArrayType{Elt: te}}, Args: []ast.Expr{ast.NewIdent("nil")}}
				} else {
					rest = &ast.CompositeLit{Type: &ast.ArrayType{Elt: te}, Elts: append([]ast.Expr{}, st.call.Args[nfixed:]...)}
				}
				st.call.Args = append(append([]ast.Expr{}, st.call.Args[:nfixed]...), rest)
				note(st.file, "call of variadic helper %s made explicit", c01QualName(fd))
			}
			last.Type = &ast.ArrayType{Elt: ell.Elt}
			note(f, "new variadic helper %s takes a slice", c01QualName(fd))
			return
		}
	}
}

// ---------------------------------------------------------------------------
// 2. lambda lifting of local closures

func c01LiftClosures(c *Ctx, pk *packages.Package, counter *int, note func(*ast.File, string, ...any)) {
	for _, f := range pk.Syntax {
		for _, d := range f.Decls {
			fd, ok := d.(*ast.FuncDecl)
			if !ok || fd.Body == nil || fd.Type.TypeParams != nil {
				continue
			}
			if nd, name := c01LiftOne(c, pk, f, fd, counter); nd != nil {
				f.Decls = append(f.Decls, nd)
				note(f, "local closure %s of %s lifted to %s", name, c01QualName(fd), nd.Name.Name)
				return // one per round: the next one is found on the re-checked tree
			}
		}
	}
}

func c01LiftOne(c *Ctx, pk *packages.Package, file *ast.File, fd *ast.FuncDecl, counter *int) (*ast.FuncDecl, string) {
	info := pk.TypesInfo
	parents := map[ast.Node]ast.Node{}
	var stack []ast.Node
	ast.Inspect(fd.Body, func(n ast.Node) bool {
		if n == nil {
			stack = stack[:len(stack)-1]
			return true
		}
		if len(stack) > 0 {
			parents[n] = stack[len(stack)-1]
		}
		stack = append(stack, n)
		return true
	})
	type cand struct {
		def  ast.Stmt
		name *ast.Ident
		lit  *ast.FuncLit
	}
	var cands []cand
	inspectNoLit(fd.Body, func(n ast.Node) bool {
		switch s := n.(type) {
		case *ast.AssignStmt:
			if s.Tok == token.DEFINE && len(s.Lhs) == 1 && len(s.Rhs) == 1 {
				if id, ok := s.Lhs[0].(*ast.Ident); ok && id.Name != "_" {
					if lit, ok := s.Rhs[0].(*ast.FuncLit); ok {
						cands = append(cands, cand{s, id, lit})
					}
				}
			}
		case *ast.DeclStmt:
			if gd, ok := s.Decl.(*ast.GenDecl); ok && gd.Tok == token.VAR && len(gd.Specs) == 1 {
				if vs, ok := gd.Specs[0].(*ast.ValueSpec); ok && len(vs.Names) == 1 && len(vs.Values) == 1 && vs.Type == nil && vs.Names[0].Name != "_" {
					if lit, ok := vs.Values[0].(*ast.FuncLit); ok {
						cands = append(cands, cand{s, vs.Names[0], lit})
					}
				}
			}
		}
		return true
	})
	if len(cands) == 0 {
		return nil, ""
	}
	uses := c01VarUses(info, fd.Body)
	// parameters, receiver and named results of fd are written by the caller only
	isParam := map[types.Object]bool{}
	for _, fl := range []*ast.FieldList{fd.Recv, fd.Type.Params} {
		if fl != nil {
			for _, fld := range fl.List {
				for _, nm := range fld.Names {
					isParam[info.Defs[nm]] = true
				}
			}
		}
	}
	for _, cd := range cands {
		obj := info.Defs[cd.name]
		lit := cd.lit
		if obj == nil || c19StmtList(parents[cd.def]) == nil {
			continue
		}
		if u := uses[obj]; u == nil || u.writes != 1 || u.escaped {
			continue
		}
		sig, _ := info.TypeOf(lit).(*types.Signature)
		if sig == nil || sig.Variadic() {
			continue
		}
		if c15CountNodes(lit.Body) > 400 {
			continue
		}
		// every use is the callee of a call outside the literal
		var calls []*ast.CallExpr
		okUses := true
		ast.Inspect(fd.Body, func(n ast.Node) bool {
			id, ok := n.(*ast.Ident)
			if !ok || !okUses || info.Uses[id] != obj {
				return okUses
			}
			if id.Pos() >= lit.Pos() && id.End() <= lit.End() {
				okUses = false
				return false
			}
			call, isCall := parents[id].(*ast.CallExpr)
			if !isCall || call.Fun != ast.Expr(id) || call.Ellipsis.IsValid() {
				okUses = false
				return false
			}
			calls = append(calls, call)
			return true
		})
		if !okUses || len(calls) == 0 {
			continue
		}
		// what the body takes from its surroundings
		var caps []*types.Var
		seen := map[types.Object]bool{}
		okBody := true
		ast.Inspect(lit.Body, func(n ast.Node) bool {
			if !okBody {
				return false
			}
			switch t := n.(type) {
			case *ast.BranchStmt:
				if t.Tok == token.GOTO {
					okBody = false
				}
			case *ast.CallExpr:
				if id, ok := t.Fun.(*ast.Ident); ok && id.Name == "recover" {
					okBody = false
				}
			case *ast.Ident:
				o := info.Uses[t]
				if o == nil || o.Pkg() == nil || o.Parent() == nil || o.Parent() == pk.Types.Scope() {
					return true
				}
				if o.Pos() >= lit.Pos() && o.Pos() < lit.End() {
					return true // the literal's own parameters, results and locals
				}
				v, isVar := o.(*types.Var)
				if !isVar || v.IsField() {
					okBody = false // a local type, constant or label of the enclosing function
					return false
				}
				if !seen[o] {
					seen[o] = true
					caps = append(caps, v)
				}
			}
			return true
		})
		if !okBody {
			continue
		}
		okCaps := true
		for _, v := range caps {
			u := uses[v]
			switch {
			case isParam[v]:
				if u != nil && (u.writes > 0 || u.escaped) {
					okCaps = false
				}
			case u == nil || u.writes != 1 || u.escaped:
				okCaps = false
			case v.Pos() >= lit.Pos():
				okCaps = false // defined after the closure
			}
			// named results of fd are assigned by return statements
			if fd.Type.Results != nil {
				for _, fld := range fd.Type.Results.List {
					for _, nm := range fld.Names {
						if info.Defs[nm] == v {
							okCaps = false
						}
					}
				}
			}
			// the name means the same variable at every call site
			for _, call := range calls {
				inner := pk.Types.Scope().Innermost(call.Pos())
				if inner == nil {
					okCaps = false
					continue
				}
				if _, found := inner.LookupParent(v.Name(), call.Pos()); found != types.Object(v) {
					okCaps = false
				}
			}
		}
		if !okCaps {
			continue
		}
		// build the declaration
		*counter++
		nn := fmt.Sprintf("%s_lift%d", cd.name.Name, *counter)
		if pk.Types.Scope().Lookup(nn) != nil {
			continue
		}
		params := &ast.FieldList{}
		okTypes := true
		for _, v := range caps {
			te := c01TypeExpr(pk, file, v.Type())
			if te == nil {
				okTypes = false
				break
			}
			params.List = append(params.List, &ast.Field{Names: []*ast.Ident{ast.NewIdent(v.Name())}, Type: te})
		}
		if !okTypes {
			continue
		}
		if lit.Type.Params != nil {
			for _, fld := range lit.Type.Params.List {
				params.List = append(params.List, c15Copy(fld, nil).(*ast.Field))
			}
		}
		ft := &ast.FuncType{Params: params}
		if lit.Type.Results != nil {
			ft.Results = c15Copy(lit.Type.Results, nil).(*ast.FieldList)
		}
		nd := &ast.FuncDecl{Name: ast.NewIdent(nn), Type: ft, Body: c15Copy(lit.Body, nil).(*ast.BlockStmt)}
		// call sites
		for _, call := range calls {
			call.Fun = ast.NewIdent(nn)
			var args []ast.Expr
			for _, v := range caps {
				args = append(args, ast.NewIdent(v.Name()))
			}
			call.Args = append(args, call.Args...)
		}
		// drop the definition
		list := c19StmtList(parents[cd.def])
		var out []ast.Stmt
		for _, s := range *list {
			if s != cd.def {
				out = append(out, s)
			}
		}
		*list = out
		return nd, cd.name.Name
	}
	return nil, ""
}

// c01SpliceClosures: a closure that cannot be lifted (it writes variables of its function) but is nothing but a
// named block of statements is spliced into its statement-level call sites (c19norm.go).
func c01SpliceClosures(c *Ctx, pk *packages.Package, counter *int, note func(*ast.File, string, ...any)) {
	for _, f := range pk.Syntax {
		for _, d := range f.Decls {
			fd, ok := d.(*ast.FuncDecl)
			if !ok || fd.Body == nil {
				continue
			}
			if n := c19InlineClosuresIn(pk, fd); n != "" {
				note(f, "local closure %s spliced into %s", n, c01QualName(fd))
				return
			}
		}
	}
}

// c01ResolveFuncAliases: `f := x.M` (a method value) or `f := g` (a function), defined once and only ever called:
// a call f(a) is x.M(a) / g(a). A method value binds its receiver when it is made; the rewrite evaluates x at the
// call instead, so x must be a path of variables that are never written again and fields that cannot be written
// while the function runs.
func c01ResolveFuncAliases(c *Ctx, pk *packages.Package, counter *int, note func(*ast.File, string, ...any)) {
	info := pk.TypesInfo
	for _, f := range pk.Syntax {
		for _, d := range f.Decls {
			fd, ok := d.(*ast.FuncDecl)
			if !ok || fd.Body == nil {
				continue
			}
			uses := c01VarUses(info, fd.Body)
			var done string
			c01Lists(fd.Body, false, func(list *[]ast.Stmt) {
				if done != "" {
					return
				}
				for i, st := range *list {
					as, ok := st.(*ast.AssignStmt)
					if !ok || as.Tok != token.DEFINE || len(as.Lhs) != 1 || len(as.Rhs) != 1 {
						continue
					}
					id, ok := as.Lhs[0].(*ast.Ident)
					if !ok || id.Name == "_" {
						continue
					}
					obj := info.Defs[id]
					if u := uses[obj]; obj == nil || u == nil || u.writes != 1 || u.escaped {
						continue
					}
					rhs := unparen(as.Rhs[0])
					switch r := rhs.(type) {
					case *ast.Ident:
						if _, isFn := info.Uses[r].(*types.Func); !isFn {
							continue
						}
					case *ast.SelectorExpr:
						sel := info.Selections[r]
						if sel == nil {
							if _, isFn := info.Uses[r.Sel].(*types.Func); !isFn {
								continue
							}
						} else {
							if sel.Kind() != types.MethodVal || !c01StablePath(c, pk, fd, r.X, uses) {
								continue
							}
							// an interface method value is dispatched on the dynamic type bound at the definition: same
							// value at the call when the path is stable
						}
					default:
						continue
					}
					// every use is the callee of a call after the definition, outside function literals that might run later
					okUses := true
					var sites []*ast.CallExpr
					var stack []ast.Node
					ast.Inspect(fd.Body, func(n ast.Node) bool {
						if n == nil {
							stack = stack[:len(stack)-1]
							return true
						}
						stack = append(stack, n)
						x, ok := n.(*ast.Ident)
						if !ok || info.Uses[x] != obj {
							return true
						}
						if len(stack) < 2 {
							okUses = false
							return true
						}
						call, isCall := stack[len(stack)-2].(*ast.CallExpr)
						if !isCall || call.Fun != ast.Expr(x) {
							okUses = false
							return true
						}
						for _, a := range stack {
							if _, isLit := a.(*ast.FuncLit); isLit {
								okUses = false
							}
						}
						sites = append(sites, call)
						return true
					})
					if !okUses || len(sites) == 0 || !c01NamesMeanSame(pk, rhs, as.End(), nil) {
						continue
					}
					shadow := false
					for _, call := range sites {
						if !c01NamesMeanSame(pk, rhs, call.Pos(), nil) {
							shadow = true
						}
					}
					if shadow {
						continue
					}
					for _, call := range sites {
						call.Fun = c15Copy(rhs, nil).(ast.Expr)
					}
					out := append([]ast.Stmt{}, (*list)[:i]...)
					out = append(out, (*list)[i+1:]...)
					*list = out
					done = id.Name
					return
				}
			})
			if done != "" {
				note(f, "function value %s in %s replaced by the function it names", done, c01QualName(fd))
				return
			}
		}
	}
}

// c01ElimPointerAliases: `p := &x` with x a local variable, or `p := &a.b.c` with a.b a stable path (c01StablePath),
// p defined once and used only as *p and p.f: every *p is x (a.b.c), every p.f is x.f. The address of a local
// variable, and of a field reached through a path that cannot change, denotes the same storage for as long as p
// lives. (The reference tree has no alias of this form; they come from refactorings and from helper inlining.)
// The rules then see the assignment targets they know.
func c01ElimPointerAliases(c *Ctx, pk *packages.Package, counter *int, note func(*ast.File, string, ...any)) {
	info := pk.TypesInfo
	for _, f := range pk.Syntax {
		for _, d := range f.Decls {
			fd, ok := d.(*ast.FuncDecl)
			if !ok || fd.Body == nil {
				continue
			}
			uses := c01VarUses(info, fd.Body)
			var done string
			c01Lists(fd.Body, false, func(list *[]ast.Stmt) {
				if done != "" {
					return
				}
				for i, st := range *list {
					as, ok := st.(*ast.AssignStmt)
					if !ok || as.Tok != token.DEFINE || len(as.Lhs) != len(as.Rhs) {
						continue
					}
					for k := range as.Lhs {
						id, ok := as.Lhs[k].(*ast.Ident)
						if !ok || id.Name == "_" {
							continue
						}
						obj := info.Defs[id]
						u, isU := unparen(as.Rhs[k]).(*ast.UnaryExpr)
						if obj == nil || !isU || u.Op != token.AND {
							continue
						}
						if pu := uses[obj]; pu == nil || pu.writes != 1 || pu.escaped {
							continue
						}
						target := unparen(u.X)
						switch t := target.(type) {
						case *ast.Ident:
							v, isVar := info.ObjectOf(t).(*types.Var)
							if !isVar || v.IsField() || v.Pkg() == nil || v.Parent() == v.Pkg().Scope() {
								continue
							}
						case *ast.SelectorExpr:
							if sel := info.Selections[t]; sel == nil || sel.Kind() != types.FieldVal || !c01StablePath(c, pk, fd, t.X, uses) {
								continue
							}
						default:
							continue
						}
						// uses of p: *p, p.f (field), `_ = p`; not inside function literals (they may run later)
						okUses := true
						type use struct {
							parent ast.Node
							id     *ast.Ident
						}
						var sites []use
						var stack []ast.Node
						ast.Inspect(fd.Body, func(n ast.Node) bool {
							if n == nil {
								stack = stack[:len(stack)-1]
								return true
							}
							stack = append(stack, n)
							x, isID := n.(*ast.Ident)
							if !isID || info.Uses[x] != obj {
								return true
							}
							for _, a := range stack {
								if _, isLit := a.(*ast.FuncLit); isLit {
									okUses = false
								}
							}
							par := stack[len(stack)-2]
							switch pt := par.(type) {
							case *ast.StarExpr:
								sites = append(sites, use{pt, x})
							case *ast.SelectorExpr:
								if sel := info.Selections[pt]; pt.X == ast.Expr(x) && sel != nil && sel.Kind() == types.FieldVal {
									sites = append(sites, use{pt, x})
								} else {
									okUses = false
								}
							case *ast.AssignStmt:
								blank := pt.Tok == token.ASSIGN && len(pt.Lhs) == 1
								if blank {
									if lid, isL := pt.Lhs[0].(*ast.Ident); !isL || lid.Name != "_" {
										blank = false
									}
								}
								if !blank {
									okUses = false
								}
							default:
								okUses = false
							}
							return true
						})
						if !okUses || len(sites) == 0 {
							continue
						}
						shadow := false
						for _, s2 := range sites {
							if !c01NamesMeanSame(pk, target, s2.id.Pos(), nil) {
								shadow = true
							}
						}
						if shadow {
							continue
						}
						// rewrite
						astutil.Apply(fd.Body, func(cur *astutil.Cursor) bool {
							switch t := cur.Node().(type) {
							case *ast.StarExpr:
								if x, isID := unparen(t.X).(*ast.Ident); isID && info.Uses[x] == obj {
									cp := c15Copy(target, nil).(ast.Expr)
									cur.Replace(cp)
									return false
								}
							case *ast.SelectorExpr:
								if x, isID := unparen(t.X).(*ast.Ident); isID && info.Uses[x] == obj {
									t.X = c15Copy(target, nil).(ast.Expr)
									return false
								}
							case *ast.AssignStmt:
								// `_ = p`
								if t.Tok == token.ASSIGN && len(t.Lhs) == 1 && len(t.Rhs) == 1 {
									if x, isID := unparen(t.Rhs[0]).(*ast.Ident); isID && info.Uses[x] == obj {
										cur.Replace(&ast.EmptyStmt{Implicit: false})
										return false
									}
								}
							}
							return true
						}, nil)
						// drop the definition
						if len(as.Lhs) == 1 {
							out := append([]ast.Stmt{}, (*list)[:i]...)
							out = append(out, (*list)[i+1:]...)
							*list = out
						} else {
							as.Lhs = append(append([]ast.Expr{}, as.Lhs[:k]...), as.Lhs[k+1:]...)
							as.Rhs = append(append([]ast.Expr{}, as.Rhs[:k]...), as.Rhs[k+1:]...)
						}
						done = id.Name
						return
					}
				}
			})
			if done != "" {
				note(f, "pointer alias %s in %s replaced by what it points to", done, c01QualName(fd))
				return
			}
		}
	}
}

// c01StablePath: x is built from local variables that are never written after their definition and struct fields
// that cannot be written while fd runs (pointer dereferences included: the pointee's fields are what is checked).
func c01StablePath(c *Ctx, pk *packages.Package, fd *ast.FuncDecl, x ast.Expr, uses map[types.Object]*c01VarUse) bool {
	info := pk.TypesInfo
	for {
		switch t := unparen(x).(type) {
		case *ast.Ident:
			v, ok := info.ObjectOf(t).(*types.Var)
			if !ok || v.IsField() || v.Pkg() == nil {
				return false
			}
			if v.Parent() == v.Pkg().Scope() {
				return v.Pkg() == pk.Types && !c01WrittenDuring(c, pk, fd, v)
			}
			u := uses[v]
			isParam := false
			for _, fl := range []*ast.FieldList{fd.Recv, fd.Type.Params} {
				if fl != nil {
					for _, fld := range fl.List {
						for _, nm := range fld.Names {
							if info.Defs[nm] == types.Object(v) {
								isParam = true
							}
						}
					}
				}
			}
			if isParam {
				return u == nil || (u.writes == 0 && !u.escaped)
			}
			return u != nil && u.writes == 1 && !u.escaped
		case *ast.SelectorExpr:
			s := info.Selections[t]
			if s == nil || s.Kind() != types.FieldVal {
				return false
			}
			fld, ok := s.Obj().(*types.Var)
			if !ok || c01FieldWrittenDuring(c, pk, fd, fld) {
				return false
			}
			x = t.X
		case *ast.StarExpr:
			x = t.X
		default:
			return false
		}
	}
}

// ---------------------------------------------------------------------------
// 3. tail-call splice

func c01TailSplice(c *Ctx, pk *packages.Package, counter *int, note func(*ast.File, string, ...any)) {
	info := pk.TypesInfo
	decls := map[*types.Func]*ast.FuncDecl{}
	for _, f := range pk.Syntax {
		for _, d := range f.Decls {
			if fd, ok := d.(*ast.FuncDecl); ok && fd.Body != nil {
				if o, ok := info.Defs[fd.Name].(*types.Func); ok {
					decls[o] = fd
				}
			}
		}
	}
	for _, f := range pk.Syntax {
		for _, d := range f.Decls {
			fd, ok := d.(*ast.FuncDecl)
			if !ok || fd.Body == nil {
				continue
			}
			self, _ := info.Defs[fd.Name].(*types.Func)
			done := false
			// the last statement of a function without results is a tail position as well: `f(args)` there is
			// followed by nothing but the caller's return
			if n := len(fd.Body.List); n > 0 && (fd.Type.Results == nil || len(fd.Type.Results.List) == 0) {
				if es, ok := fd.Body.List[n-1].(*ast.ExprStmt); ok {
					if call, ok := unparen(es.X).(*ast.CallExpr); ok {
						fn := calleeOf(info, call)
						callee := decls[fn]
						if fn != nil && callee != nil && fn != self && c01IsNewFunc(callee) && !callee.Name.IsExported() {
							if rep := c01SpliceBody(pk, f, fd, call, fn, callee, counter, true); rep != nil {
								fd.Body.List[n-1] = rep
								note(f, "%s spliced into %s (last statement)", c01QualName(callee), c01QualName(fd))
								return
							}
						}
					}
				}
			}
			c01Lists(fd.Body, false, func(list *[]ast.Stmt) {
				if done {
					return
				}
				for i, st := range *list {
					rs, ok := st.(*ast.ReturnStmt)
					if !ok || len(rs.Results) != 1 {
						continue
					}
					call, ok := unparen(rs.Results[0]).(*ast.CallExpr)
					if !ok {
						continue
					}
					fn := calleeOf(info, call)
					callee := decls[fn]
					if fn == nil || callee == nil || fn == self || !c01IsNewFunc(callee) || callee.Name.IsExported() {
						continue
					}
					rep := c01SpliceBody(pk, f, fd, call, fn, callee, counter, false)
					if rep == nil {
						continue
					}
					out := append([]ast.Stmt{}, (*list)[:i]...)
					out = append(out, rep)
					out = append(out, (*list)[i+1:]...)
					*list = out
					note(f, "%s spliced into %s (tail call)", c01QualName(callee), c01QualName(fd))
					done = true
					return
				}
			})
			if done {
				return
			}
		}
	}
}

// c01SpliceBody: the block that replaces `return callee(args)` in caller, or nil.
func c01SpliceBody(pk *packages.Package, file *ast.File, caller *ast.FuncDecl, call *ast.CallExpr, fn *types.Func, callee *ast.FuncDecl, counter *int, stmtTail bool) ast.Stmt {
	info := pk.TypesInfo
	sig := fn.Type().(*types.Signature)
	if sig.Variadic() || sig.TypeParams() != nil || sig.RecvTypeParams() != nil || call.Ellipsis.IsValid() {
		return nil
	}
	// `return f()` needs results, the statement form none
	if (sig.Results().Len() == 0) != stmtTail {
		return nil
	}
	// only what the helper inliner refuses: named results, defer, function literals
	hasDefer, named := false, false
	if callee.Type.Results != nil {
		for _, fld := range callee.Type.Results.List {
			if len(fld.Names) > 0 {
				named = true
			}
		}
	}
	okBody := true
	var resObjs = map[types.Object]bool{}
	if callee.Type.Results != nil {
		for _, fld := range callee.Type.Results.List {
			for _, nm := range fld.Names {
				resObjs[info.Defs[nm]] = true
			}
		}
	}
	ast.Inspect(callee.Body, func(n ast.Node) bool {
		switch t := n.(type) {
		case *ast.DeferStmt:
			hasDefer = true
		case *ast.FuncLit:
			hasDefer = true // (refused by the helper inliner like a defer)
			return false    // its returns are its own
		case *ast.ReturnStmt:
			if len(t.Results) == 0 && !stmtTail {
				okBody = false // bare return of named results
			}
		case *ast.Ident:
			if o := info.Uses[t]; o != nil && resObjs[o] {
				okBody = false // a named result is used as a variable
			}
		case *ast.BranchStmt:
			if t.Tok == token.GOTO {
				okBody = false
			}
		case *ast.CallExpr:
			if id, ok := t.Fun.(*ast.Ident); ok && id.Name == "recover" {
				okBody = false
			}
			if cal := calleeOf(info, t); cal != nil && cal == fn {
				okBody = false
			}
		}
		return okBody
	})
	ast.Inspect(callee.Body, func(n ast.Node) bool {
		if id, ok := n.(*ast.Ident); ok && id.Name == "recover" {
			if _, isB := info.Uses[id].(*types.Builtin); isB {
				okBody = false // (also inside function literals)
			}
		}
		return okBody
	})
	if !okBody || (!hasDefer && !named) || c15CountNodes(callee.Body) > 600 {
		return nil
	}
	// a return inside a function literal of the callee belongs to the literal: fine. The caller must not be inside
	// a literal (c01Lists does not enter them).
	cfile := c01FileOf(pk, callee)
	if cfile != file && !c01ImportsAvailable(info, callee.Body, file) {
		return nil
	}
	// package-level names used by the callee must not be hidden by locals of the caller at the splice point
	shadowed := false
	inner := pk.Types.Scope().Innermost(call.Pos())
	ast.Inspect(callee.Body, func(n ast.Node) bool {
		id, ok := n.(*ast.Ident)
		if !ok || shadowed {
			return !shadowed
		}
		o := info.Uses[id]
		if o == nil || o.Parent() != pk.Types.Scope() {
			return true
		}
		if inner == nil {
			shadowed = true
			return false
		}
		if _, found := inner.LookupParent(id.Name, call.Pos()); found != o {
			shadowed = true
		}
		return !shadowed
	})
	if shadowed {
		return nil
	}
	*counter++
	sfx := fmt.Sprintf("_inl%d", *counter)
	subst := map[types.Object]ast.Expr{}
	rename := map[types.Object]string{}
	var pre []ast.Stmt
	assigned := c15AssignedObjs(info, callee.Body)
	pure := func(e ast.Expr) bool {
		e = unparen(e)
		if tv, ok := info.Types[e]; ok && tv.Value != nil {
			return true
		}
		if id, ok := e.(*ast.Ident); ok {
			switch o := info.ObjectOf(id).(type) {
			case *types.Var:
				return !o.IsField() && o.Pkg() != nil && o.Parent() != o.Pkg().Scope()
			case *types.Nil, *types.Const:
				return true
			}
		}
		return false
	}
	bind := func(pobj types.Object, arg ast.Expr, argType types.Type) bool {
		if pobj == nil {
			return false
		}
		if pure(arg) && argType != nil && types.Identical(argType, pobj.Type()) && !assigned[pobj] {
			subst[pobj] = arg
			return true
		}
		nn := pobj.Name() + sfx
		rename[pobj] = nn
		if argType == nil || !types.Identical(argType, pobj.Type()) {
			te := c01TypeExpr(pk, file, pobj.Type())
			if te == nil {
				return false
			}
			pre = append(pre, &ast.DeclStmt{Decl: &ast.GenDecl{Tok: token.VAR, Specs: []ast.Spec{&ast.ValueSpec{Names: []*ast.Ident{ast.NewIdent(nn)}, Type: te, Values: []ast.Expr{c15Copy(arg, nil).(ast.Expr)}}}}})
		} else {
			pre = append(pre, &ast.AssignStmt{Lhs: []ast.Expr{ast.NewIdent(nn)}, Tok: token.DEFINE, Rhs: []ast.Expr{c15Copy(arg, nil).(ast.Expr)}})
		}
		pre = append(pre, &ast.AssignStmt{Lhs: []ast.Expr{ast.NewIdent("_")}, Tok: token.ASSIGN, Rhs: []ast.Expr{ast.NewIdent(nn)}})
		return true
	}
	if callee.Recv != nil && len(callee.Recv.List) == 1 {
		sel, ok := unparen(call.Fun).(*ast.SelectorExpr)
		if !ok {
			return nil
		}
		si := info.Selections[sel]
		if si == nil || si.Kind() != types.MethodVal || len(si.Index()) != 1 {
			return nil
		}
		if names := callee.Recv.List[0].Names; len(names) == 1 && names[0].Name != "_" {
			robj := info.Defs[names[0]]
			var recvArg ast.Expr = sel.X
			_, wantPtr := sig.Recv().Type().(*types.Pointer)
			_, havePtr := info.TypeOf(sel.X).Underlying().(*types.Pointer)
			at := info.TypeOf(sel.X)
			switch {
			case wantPtr && !havePtr:
				recvArg = &ast.UnaryExpr{Op: token.AND, X: sel.X}
				at = types.NewPointer(at)
			case !wantPtr && havePtr:
				recvArg = &ast.StarExpr{X: sel.X}
				at = at.Underlying().(*types.Pointer).Elem()
			}
			if !bind(robj, recvArg, at) {
				return nil
			}
		} else if !pure(sel.X) {
			pre = append(pre, &ast.AssignStmt{Lhs: []ast.Expr{ast.NewIdent("_")}, Tok: token.ASSIGN, Rhs: []ast.Expr{c15Copy(sel.X, nil).(ast.Expr)}})
		}
	} else if _, isID := unparen(call.Fun).(*ast.Ident); !isID {
		return nil
	}
	ai := 0
	for _, fld := range callee.Type.Params.List {
		if len(fld.Names) == 0 {
			// unnamed parameter: the argument is evaluated for its effects only
			if ai >= len(call.Args) {
				return nil
			}
			if !pure(call.Args[ai]) {
				pre = append(pre, &ast.AssignStmt{Lhs: []ast.Expr{ast.NewIdent("_")}, Tok: token.ASSIGN, Rhs: []ast.Expr{c15Copy(call.Args[ai], nil).(ast.Expr)}})
			}
			ai++
			continue
		}
		for _, nm := range fld.Names {
			if ai >= len(call.Args) {
				return nil
			}
			arg := call.Args[ai]
			ai++
			if nm.Name == "_" {
				if !pure(arg) {
					pre = append(pre, &ast.AssignStmt{Lhs: []ast.Expr{ast.NewIdent("_")}, Tok: token.ASSIGN, Rhs: []ast.Expr{c15Copy(arg, nil).(ast.Expr)}})
				}
				continue
			}
			if !bind(info.Defs[nm], arg, info.TypeOf(arg)) {
				return nil
			}
		}
	}
	if ai != len(call.Args) {
		return nil
	}
	// locals and labels of the callee get fresh names
	ast.Inspect(callee.Body, func(n ast.Node) bool {
		if id, ok := n.(*ast.Ident); ok && id.Name != "_" {
			if o := info.Defs[id]; o != nil {
				if v, isVar := o.(*types.Var); !isVar || !v.IsField() {
					if _, bound := rename[o]; !bound {
						rename[o] = id.Name + sfx
					}
				}
			}
		}
		if cc, ok := n.(*ast.CaseClause); ok {
			if o := info.Implicits[cc]; o != nil {
				rename[o] = o.Name() + sfx
			}
		}
		return true
	})
	body := c15Copy(callee.Body, func(id *ast.Ident) ast.Node {
		o := info.ObjectOf(id)
		if o == nil {
			return nil
		}
		if e, ok := subst[o]; ok {
			cpy := c15Copy(unparen(e), nil).(ast.Expr)
			switch cpy.(type) {
			case *ast.Ident, *ast.BasicLit:
				return cpy
			}
			return &ast.ParenExpr{X: cpy}
		}
		if nn, ok := rename[o]; ok {
			return ast.NewIdent(nn)
		}
		return nil
	}).(*ast.BlockStmt)
	return &ast.BlockStmt{List: append(pre, body.List...)}
}
