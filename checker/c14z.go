package main

// C14.f — exact addressing, judged store by store.
//
// "WriteCell(col,row) changes only index row*Width+col": EVERY store into an element of
// Surface.Buffer that WriteCell makes is judged by the VALUE of its index, not by the
// spelling of the index expression. The value is computed by a small flow-sensitive
// symbolic evaluation of the integer variables of WriteCell over its control-flow graph:
//
//	value ::= polynomial over atoms  +  constant offset interval [lo,hi]   |   unknown
//
// Atoms are the integer parameters (col, row), integer fields reached from the receiver
// or a parameter (s.Size.Width, cell.Width — canonical access-path terms, a local copy of a
// struct is the struct it copies) and len(...) of such paths. Locals are followed through
// definitions, assignments, op-assignments, ++/--, helpers whose body is `return expr`
// (also local closures) and integer conversions; at a control-flow join equal polynomials
// keep the hull of their offsets (widened to infinity in loops), different ones become
// unknown. So
//
//	i := int(row)*int(s.Size.Width) + int(col)            -> row*Width+col + [0,0]
//	i := int(row) * stride; i += int(col)                 -> row*Width+col + [0,0]
//	for j := i + 1; j < i+w && j < len(s.Buffer); j++     -> row*Width+col + [1,+inf)
//	i + k  (k := 1; k < w; k++)                           -> row*Width+col + [1,+inf)
//
// Verdict of a store s.Buffer[x]...:
//   - x = a*Width + b + [0,0] for two distinct parameters a, b: the addressed cell (a is the
//     row, b the column; C14.b then checks the guard of exactly these roles);
//   - x has any other determinate value (another polynomial, or the addressed polynomial
//     with an offset interval that is not exactly 0): VIOLATED — a cell other than the
//     addressed one is (or can be) changed. No guard makes that acceptable: `j <
//     len(s.Buffer)` keeps the store inside the buffer, not inside the addressed cell; the
//     cell after the last column of a row is the first cell of the next row;
//   - x unknown (opaque call, division, range key, variable whose address is taken):
//     UNDECIDED under C14.b, as before.
//
// Writes into Buffer that are not element stores (re-slicing for copy/clear, &Buffer[k],
// whole replacement) are C14.b ownership violations already (checkOwnership).

import (
	"fmt"
	"go/ast"
	"go/token"
	"go/types"
	"sort"
	"strings"

	"golang.org/x/tools/go/cfg"
)

// ---------------------------------------------------------------- symbolic values

type c14Sym struct {
	top          bool
	p            map[string]int64 // monomial (sorted atom ids joined by '*') -> coefficient, no constant term
	lo, hi       int64            // constant offset interval
	loInf, hiInf bool
}

const c14SymBig = int64(1) << 40

func c14SymTop() c14Sym          { return c14Sym{top: true} }
func c14SymConst(k int64) c14Sym { return c14Sym{lo: k, hi: k} }
func c14SymAtom(id string) c14Sym {
	return c14Sym{p: map[string]int64{id: 1}}
}

func (a c14Sym) exact() bool { return !a.top && !a.loInf && !a.hiInf && a.lo == a.hi }

func (a c14Sym) norm() c14Sym {
	if a.top {
		return a
	}
	for k, c := range a.p {
		if c == 0 {
			delete(a.p, k)
		} else if c > c14SymBig || c < -c14SymBig {
			return c14SymTop()
		}
	}
	if (!a.loInf && (a.lo > c14SymBig || a.lo < -c14SymBig)) || (!a.hiInf && (a.hi > c14SymBig || a.hi < -c14SymBig)) {
		return c14SymTop()
	}
	if a.loInf {
		a.lo = 0
	}
	if a.hiInf {
		a.hi = 0
	}
	return a
}

func c14SymScale(a c14Sym, k int64) c14Sym {
	if a.top {
		return a
	}
	if k == 0 {
		return c14SymConst(0)
	}
	out := c14Sym{p: map[string]int64{}}
	for m, c := range a.p {
		out.p[m] = c * k
	}
	if k > 0 {
		out.lo, out.hi, out.loInf, out.hiInf = a.lo*k, a.hi*k, a.loInf, a.hiInf
	} else {
		out.lo, out.hi, out.loInf, out.hiInf = a.hi*k, a.lo*k, a.hiInf, a.loInf
	}
	return out.norm()
}

func c14SymAdd(a, b c14Sym) c14Sym {
	if a.top || b.top {
		return c14SymTop()
	}
	out := c14Sym{p: map[string]int64{}, lo: a.lo + b.lo, hi: a.hi + b.hi, loInf: a.loInf || b.loInf, hiInf: a.hiInf || b.hiInf}
	for m, c := range a.p {
		out.p[m] += c
	}
	for m, c := range b.p {
		out.p[m] += c
	}
	return out.norm()
}

func c14MonoMul(x, y string) string {
	var fs []string
	if x != "" {
		fs = append(fs, strings.Split(x, "*")...)
	}
	if y != "" {
		fs = append(fs, strings.Split(y, "*")...)
	}
	sort.Strings(fs)
	return strings.Join(fs, "*")
}

func c14SymMul(a, b c14Sym) c14Sym {
	if a.top || b.top {
		return c14SymTop()
	}
	if len(b.p) == 0 && b.exact() {
		return c14SymScale(a, b.lo)
	}
	if len(a.p) == 0 && a.exact() {
		return c14SymScale(b, a.lo)
	}
	if !a.exact() || !b.exact() {
		return c14SymTop()
	}
	// (pa + ca) * (pb + cb)
	out := c14Sym{p: map[string]int64{}, lo: a.lo * b.lo, hi: a.lo * b.lo}
	for ma, ca := range a.p {
		for mb, cb := range b.p {
			m := c14MonoMul(ma, mb)
			if strings.Count(m, "*") > 3 {
				return c14SymTop()
			}
			out.p[m] += ca * cb
		}
		out.p[ma] += ca * b.lo
	}
	for mb, cb := range b.p {
		out.p[mb] += cb * a.lo
	}
	return out.norm()
}

func c14PolyEq(a, b map[string]int64) bool {
	if len(a) != len(b) {
		return false
	}
	for m, c := range a {
		if b[m] != c {
			return false
		}
	}
	return true
}

func c14SymEq(a, b c14Sym) bool {
	if a.top || b.top {
		return a.top == b.top
	}
	return c14PolyEq(a.p, b.p) && a.loInf == b.loInf && a.hiInf == b.hiInf && (a.loInf || a.lo == b.lo) && (a.hiInf || a.hi == b.hi)
}

// c14SymJoin: old ⊔ nw; with widen, a bound that moved goes to infinity.
func c14SymJoin(old, nw c14Sym, widen bool) c14Sym {
	if old.top || nw.top || !c14PolyEq(old.p, nw.p) {
		return c14SymTop()
	}
	out := c14Sym{p: old.p, lo: old.lo, hi: old.hi, loInf: old.loInf || nw.loInf, hiInf: old.hiInf || nw.hiInf}
	if !out.loInf && nw.lo < old.lo {
		out.lo = nw.lo
		if widen {
			out.loInf = true
		}
	}
	if !out.hiInf && nw.hi > old.hi {
		out.hi = nw.hi
		if widen {
			out.hiInf = true
		}
	}
	return out.norm()
}

type c14SymState map[types.Object]c14Sym

func (s c14SymState) clone() c14SymState {
	out := make(c14SymState, len(s))
	for k, v := range s {
		out[k] = v
	}
	return out
}

// ---------------------------------------------------------------- evaluator

type c14SymEval struct {
	e       *c14Env
	root    *c14Scope
	g       *FG
	disp    map[string]string
	untrack map[types.Object]bool
	in      map[*cfg.Block]c14SymState
}

func (e *c14Env) newSymEval(fi *FuncInfo, sc *c14Scope, g *FG) *c14SymEval {
	ev := &c14SymEval{e: e, root: sc, g: g, disp: map[string]string{}, untrack: map[types.Object]bool{}, in: map[*cfg.Block]c14SymState{}}
	info := sc.info
	body := fi.Decl.Body
	ast.Inspect(body, func(n ast.Node) bool {
		switch t := n.(type) {
		case *ast.UnaryExpr:
			if t.Op == token.AND {
				if o := c14IdentObj(info, t.X); o != nil {
					ev.untrack[o] = true
				}
			}
		case *ast.RangeStmt:
			for _, x := range []ast.Expr{t.Key, t.Value} {
				if x != nil {
					if o := c14IdentObj(info, x); o != nil {
						ev.untrack[o] = true
					}
				}
			}
		case *ast.FuncLit:
			// a variable of the function that a literal writes can change whenever the literal runs
			ast.Inspect(t.Body, func(m ast.Node) bool {
				mark := func(x ast.Expr) {
					if o := c14IdentObj(info, x); o != nil && (o.Pos() < t.Pos() || o.Pos() >= t.End()) {
						ev.untrack[o] = true
					}
				}
				switch s := m.(type) {
				case *ast.AssignStmt:
					for _, l := range s.Lhs {
						mark(l)
					}
				case *ast.IncDecStmt:
					mark(s.X)
				}
				return true
			})
		}
		return true
	})
	init := c14SymState{}
	for _, p := range c14Params(info, fi.Decl) {
		if p != nil && ev.tracked(p) {
			id := c14ID(p, "")
			ev.disp[id] = p.Name()
			init[p] = c14SymAtom(id)
		}
	}
	ev.run(init)
	return ev
}

// tracked: an integer variable declared in the function (parameters included) whose every
// write is a CFG node of the function.
func (ev *c14SymEval) tracked(o types.Object) bool {
	lv, ok := o.(*types.Var)
	if !ok || lv.IsField() || !c14IsInt(lv.Type()) || ev.untrack[o] {
		return false
	}
	fd := ev.root.fd
	return fd.Pos() <= lv.Pos() && lv.Pos() < fd.End()
}

func (ev *c14SymEval) lookup(o types.Object, st c14SymState) c14Sym {
	if !ev.tracked(o) {
		return c14SymTop()
	}
	if v, ok := st[o]; ok {
		return v
	}
	return c14SymTop()
}

func (ev *c14SymEval) atom(id, disp string) c14Sym {
	if _, ok := ev.disp[id]; !ok {
		ev.disp[id] = disp
	}
	return c14SymAtom(id)
}

// stableRoot: the access path x is rooted at the receiver / a parameter (of the root
// function or, through the call's bindings, of an inlined helper) or at a local with
// exactly one definition — so that the path term denotes one value throughout.
func (ev *c14SymEval) stableRoot(v c14V) bool {
	info := v.sc.info
	x := v.x
	for {
		switch t := unparen(x).(type) {
		case *ast.SelectorExpr:
			if _, ok := info.Selections[t]; !ok {
				return false // package-level variable
			}
			x = t.X
			continue
		case *ast.StarExpr:
			x = t.X
			continue
		case *ast.Ident:
			o, ok := info.ObjectOf(t).(*types.Var)
			if !ok || o.IsField() || o.Pkg() == nil || o.Parent() == o.Pkg().Scope() {
				return false
			}
			if b, bound := v.sc.env[o]; bound {
				if defs, dirty := c14Defs(info, v.sc.body, o); dirty || len(defs) > 0 {
					return false
				}
				return ev.stableRoot(b)
			}
			defs, dirty := c14Defs(info, v.sc.body, o)
			if v.sc.outer != nil && (o.Pos() < v.sc.body.Pos() || o.Pos() >= v.sc.body.End()) {
				defs, dirty = c14Defs(v.sc.outer.info, v.sc.outer.body, o)
			}
			isParam := v.sc.fd != nil && v.sc.fd.Body != nil && (o.Pos() < v.sc.fd.Body.Pos())
			if isParam {
				return !dirty && len(defs) == 0
			}
			return !dirty && len(defs) == 1
		}
		return false
	}
}

func (ev *c14SymEval) eval(v c14V, st c14SymState, d int) c14Sym {
	if d > 24 {
		return c14SymTop()
	}
	v = v.strip()
	info := v.sc.info
	if k, ok := constInt(info, v.x); ok {
		return c14SymConst(k)
	}
	switch t := v.x.(type) {
	case *ast.Ident:
		lv, ok := info.ObjectOf(t).(*types.Var)
		if !ok || lv.IsField() || lv.Pkg() == nil || lv.Parent() == lv.Pkg().Scope() {
			return c14SymTop()
		}
		if b, bound := v.sc.env[lv]; bound {
			if defs, dirty := c14Defs(info, v.sc.body, lv); dirty || len(defs) > 0 {
				return c14SymTop()
			}
			return ev.eval(b, st, d+1)
		}
		if v.sc == ev.root {
			return ev.lookup(lv, st)
		}
		if out := v.sc.outer; out != nil && (lv.Pos() < v.sc.body.Pos() || lv.Pos() >= v.sc.body.End()) {
			return ev.eval(c14V{x: v.x, sc: out}, st, d+1)
		}
		defs, dirty := c14Defs(info, v.sc.body, lv)
		if dirty || len(defs) != 1 || defs[0].rhs == nil || defs[0].tuple >= 0 {
			return c14SymTop()
		}
		return ev.eval(v.with(defs[0].rhs), st, d+1)
	case *ast.SelectorExpr:
		if !c14IsInt(v.typ()) {
			return c14SymTop()
		}
		if c := v.canon(); c.x != v.x {
			// field of a local struct built by a literal: the literal's element
			return ev.eval(c, st, d+1)
		}
		if !ev.stableRoot(v) {
			return c14SymTop()
		}
		tm := v.term()
		if strings.Contains(tm, "expr:") {
			return c14SymTop()
		}
		return ev.atom(tm, types.ExprString(v.x))
	case *ast.UnaryExpr:
		switch t.Op {
		case token.SUB:
			return c14SymScale(ev.eval(v.with(t.X), st, d+1), -1)
		case token.ADD:
			return ev.eval(v.with(t.X), st, d+1)
		}
	case *ast.BinaryExpr:
		switch t.Op {
		case token.ADD:
			return c14SymAdd(ev.eval(v.with(t.X), st, d+1), ev.eval(v.with(t.Y), st, d+1))
		case token.SUB:
			return c14SymAdd(ev.eval(v.with(t.X), st, d+1), c14SymScale(ev.eval(v.with(t.Y), st, d+1), -1))
		case token.MUL:
			return c14SymMul(ev.eval(v.with(t.X), st, d+1), ev.eval(v.with(t.Y), st, d+1))
		}
	case *ast.CallExpr:
		if id := c14FunIdent(t); id != nil {
			if b, isB := info.Uses[id].(*types.Builtin); isB {
				if b.Name() == "len" && len(t.Args) == 1 {
					a := v.with(t.Args[0])
					if tm := a.term(); !strings.Contains(tm, "expr:") && ev.stableRoot(a.canon()) {
						return ev.atom("len("+tm+")", "len("+types.ExprString(t.Args[0])+")")
					}
				}
				return c14SymTop()
			}
		}
		ns := v.sc.enter(t)
		if ns == nil {
			ns = v.sc.enterLit(t)
		}
		if ns == nil {
			return c14SymTop()
		}
		r := ns.pureReturn()
		if r == nil {
			return c14SymTop()
		}
		return ev.eval(ns.v(r), st, d+1)
	}
	return c14SymTop()
}

func (ev *c14SymEval) transfer(st c14SymState, n ast.Node) {
	info := ev.root.info
	set := func(lhs ast.Expr, val c14Sym) {
		o := c14IdentObj(info, lhs)
		if o == nil || !ev.tracked(o) {
			return
		}
		st[o] = val
	}
	switch t := n.(type) {
	case *ast.AssignStmt:
		switch {
		case t.Tok == token.DEFINE || t.Tok == token.ASSIGN:
			if len(t.Lhs) != len(t.Rhs) {
				for _, l := range t.Lhs {
					set(l, c14SymTop())
				}
				return
			}
			vals := make([]c14Sym, len(t.Rhs))
			for i, r := range t.Rhs {
				if o := c14IdentObj(info, t.Lhs[i]); o != nil && ev.tracked(o) {
					vals[i] = ev.eval(ev.root.v(r), st, 0)
				}
			}
			for i, l := range t.Lhs {
				set(l, vals[i])
			}
		case len(t.Lhs) == 1 && len(t.Rhs) == 1:
			o := c14IdentObj(info, t.Lhs[0])
			if o == nil || !ev.tracked(o) {
				return
			}
			cur, rhs := ev.lookup(o, st), ev.eval(ev.root.v(t.Rhs[0]), st, 0)
			switch t.Tok {
			case token.ADD_ASSIGN:
				st[o] = c14SymAdd(cur, rhs)
			case token.SUB_ASSIGN:
				st[o] = c14SymAdd(cur, c14SymScale(rhs, -1))
			case token.MUL_ASSIGN:
				st[o] = c14SymMul(cur, rhs)
			default:
				st[o] = c14SymTop()
			}
		}
	case *ast.IncDecStmt:
		o := c14IdentObj(info, t.X)
		if o == nil || !ev.tracked(o) {
			return
		}
		k := int64(1)
		if t.Tok == token.DEC {
			k = -1
		}
		st[o] = c14SymAdd(ev.lookup(o, st), c14SymConst(k))
	case *ast.DeclStmt:
		if gd, ok := t.Decl.(*ast.GenDecl); ok {
			for _, sp := range gd.Specs {
				if vs, ok := sp.(*ast.ValueSpec); ok {
					ev.transfer(st, vs)
				}
			}
		}
	case *ast.ValueSpec:
		for i, name := range t.Names {
			o := info.Defs[name]
			if o == nil || !ev.tracked(o) {
				continue
			}
			switch {
			case len(t.Values) == 0:
				st[o] = c14SymConst(0)
			case len(t.Values) == len(t.Names):
				st[o] = ev.eval(ev.root.v(t.Values[i]), st, 0)
			default:
				st[o] = c14SymTop()
			}
		}
	}
}

func (ev *c14SymEval) run(init c14SymState) {
	g := ev.g
	if g == nil || len(g.Blocks) == 0 {
		return
	}
	entry := g.Blocks[0]
	ev.in[entry] = init.clone()
	work := []*cfg.Block{entry}
	growth := map[*cfg.Block]map[types.Object]int{}
	for steps := 0; len(work) > 0 && steps < 5000; steps++ {
		b := work[len(work)-1]
		work = work[:len(work)-1]
		st := ev.in[b].clone()
		for _, n := range b.Nodes {
			ev.transfer(st, n)
		}
		for _, s := range b.Succs {
			old, seen := ev.in[s]
			if !seen {
				ev.in[s] = st.clone()
				work = append(work, s)
				continue
			}
			gs := growth[s]
			if gs == nil {
				gs = map[types.Object]int{}
				growth[s] = gs
			}
			changed := false
			for o, nv := range st {
				ov, has := old[o]
				if !has {
					old[o] = nv
					changed = true
					continue
				}
				j := c14SymJoin(ov, nv, gs[o] >= 2)
				if !c14SymEq(j, ov) {
					gs[o]++
					old[o] = j
					changed = true
				}
			}
			if changed {
				work = append(work, s)
			}
		}
	}
}

func (ev *c14SymEval) valueAt(l Loc, x ast.Expr) c14Sym {
	in, ok := ev.in[l.B]
	if !ok {
		return c14SymTop()
	}
	st := in.clone()
	for i := 0; i < l.Idx && i < len(l.B.Nodes); i++ {
		ev.transfer(st, l.B.Nodes[i])
	}
	return ev.eval(ev.root.v(x), st, 0)
}

func (ev *c14SymEval) monoString(m string) string {
	var fs []string
	for _, f := range strings.Split(m, "*") {
		if d, ok := ev.disp[f]; ok {
			f = d
		}
		fs = append(fs, f)
	}
	return strings.Join(fs, "*")
}

func (ev *c14SymEval) polyString(p map[string]int64) string {
	var ms []string
	for m := range p {
		ms = append(ms, m)
	}
	sort.Slice(ms, func(i, j int) bool {
		ci, cj := strings.Count(ms[i], "*"), strings.Count(ms[j], "*")
		if ci != cj {
			return ci > cj
		}
		return ev.monoString(ms[i]) < ev.monoString(ms[j])
	})
	var sb strings.Builder
	for i, m := range ms {
		c := p[m]
		switch {
		case c < 0:
			sb.WriteString(" - ")
			c = -c
		case i > 0:
			sb.WriteString(" + ")
		}
		if c != 1 {
			fmt.Fprintf(&sb, "%d*", c)
		}
		sb.WriteString(ev.monoString(m))
	}
	if sb.Len() == 0 {
		return "0"
	}
	return strings.TrimSpace(sb.String())
}

func (ev *c14SymEval) offsetString(v c14Sym) string {
	if v.exact() {
		return fmt.Sprintf("%+d", v.lo)
	}
	lo, hi := "-inf", "+inf"
	if !v.loInf {
		lo = fmt.Sprint(v.lo)
	}
	if !v.hiInf {
		hi = fmt.Sprint(v.hi)
	}
	open, cl := "[", "]"
	if v.loInf {
		open = "("
	}
	if v.hiInf {
		cl = ")"
	}
	return " + " + open + lo + "," + hi + cl
}

func (ev *c14SymEval) describe(v c14Sym) string {
	if v.top {
		return "unknown"
	}
	if len(v.p) == 0 {
		if v.exact() {
			return fmt.Sprint(v.lo)
		}
		return strings.TrimPrefix(ev.offsetString(v), " + ")
	}
	if v.exact() && v.lo == 0 {
		return ev.polyString(v.p)
	}
	if v.exact() {
		return fmt.Sprintf("%s %c %d", ev.polyString(v.p), map[bool]rune{true: '-', false: '+'}[v.lo < 0], c14Abs(v.lo))
	}
	return ev.polyString(v.p) + ev.offsetString(v)
}

func c14Abs(k int64) int64 {
	if k < 0 {
		return -k
	}
	return k
}

// ---------------------------------------------------------------- verdicts

type c14IdxVerdict struct {
	kind   string // "addr": the addressed cell; "other": a determinate other index; "unknown"
	ri, ci int    // parameter indexes of row and column (kind addr, and kind other when the polynomial is the addressed one)
	val    c14Sym
	desc   string
	why    string
}

// c14AddrRoles: p = a*Width + b for two distinct parameters a (row), b (col).
func c14AddrRoles(p map[string]int64, wID string, params []types.Object) (ri, ci int, ok bool) {
	ri, ci = -1, -1
	if len(p) != 2 {
		return -1, -1, false
	}
	pidx := func(id string) int {
		for i, q := range params {
			if q != nil && c14ID(q, "") == id {
				return i
			}
		}
		return -1
	}
	for m, c := range p {
		if c != 1 {
			return -1, -1, false
		}
		fs := strings.Split(m, "*")
		switch len(fs) {
		case 1:
			ci = pidx(fs[0])
		case 2:
			switch {
			case fs[0] == wID:
				ri = pidx(fs[1])
			case fs[1] == wID:
				ri = pidx(fs[0])
			}
		default:
			return -1, -1, false
		}
	}
	if ri < 0 || ci < 0 || ri == ci {
		return -1, -1, false
	}
	return ri, ci, true
}

func (ev *c14SymEval) verdict(l Loc, x ast.Expr, wID string, params []types.Object) c14IdxVerdict {
	v := ev.valueAt(l, x)
	out := c14IdxVerdict{kind: "unknown", ri: -1, ci: -1, val: v, desc: ev.describe(v)}
	if v.top {
		return out
	}
	ri, ci, isAddr := c14AddrRoles(v.p, wID, params)
	out.ri, out.ci = ri, ci
	switch {
	case isAddr && v.exact() && v.lo == 0:
		out.kind = "addr"
	case isAddr && ((!v.loInf && v.lo > 0) || (!v.hiInf && v.hi < 0)):
		out.kind = "other"
		out.why = "it is never the addressed index"
	case isAddr:
		out.kind = "other"
		out.why = "it is not only the addressed index"
	default:
		out.kind = "other"
		out.why = "it is not <row parameter>*Width + <col parameter>"
	}
	return out
}

// c14WCStore is one element store `recv.Buffer[x]... = / ++` of WriteCell.
type c14WCStore struct {
	ix  *ast.IndexExpr
	loc Loc
	ok  bool // found as a CFG node of WriteCell (not inside a function literal)
}

func (e *c14Env) checkExactStores() {
	c := e.c
	const fn = "vxfw.(*Surface).WriteCell"
	fi := c.P.Func(fn)
	if fi == nil || fi.Decl.Body == nil {
		return // reported by C14.b
	}
	sc := e.scopeOf(fi)
	info := sc.info
	g := c.P.Graph(fi)
	recv := c14RecvObj(info, fi.Decl)
	if recv == nil || g == nil {
		return
	}
	params := c14Params(info, fi.Decl)
	par := c.P.Parents(fi.Pkg)
	ev := e.wcEval(fi, sc, g)
	wID := c14ID(recv, "Size.Width")
	isBufIx := func(n ast.Node) *ast.IndexExpr {
		ix, ok := n.(*ast.IndexExpr)
		if !ok {
			return nil
		}
		sel, ok := unparen(ix.X).(*ast.SelectorExpr)
		if !ok {
			return nil
		}
		if s, ok := info.Selections[sel]; !ok || s.Obj() != e.fBuffer {
			return nil
		}
		if classifyAccess(info, par, sel).kind != "write" {
			return nil
		}
		return ix
	}
	located := map[*ast.IndexExpr]Loc{}
	for _, h := range g.Find(func(n ast.Node) bool { return isBufIx(n) != nil }) {
		located[h.Node.(*ast.IndexExpr)] = h.Loc
	}
	e.checkNoStoreThroughCall(fi)
	const key = fn + "/every store writes the addressed cell"
	ast.Inspect(fi.Decl.Body, func(n ast.Node) bool {
		ix := isBufIx(n)
		if ix == nil {
			return true
		}
		loc, ok := located[ix]
		if !ok {
			c.undecided("C14.f", key, ix.Pos(), "the store into %s is made inside a function literal: which cell it changes is not followed", types.ExprString(ix))
			return true
		}
		if rootObj(info, ix.X) != recv {
			c.undecided("C14.f", key, ix.Pos(), "%s is not the receiver's Buffer", types.ExprString(ix.X))
			return true
		}
		vd := ev.verdict(loc, ix.Index, wID, params)
		switch vd.kind {
		case "addr":
			c.ok("C14.f", key, ix.Pos(), "%s = %s", types.ExprString(ix), vd.desc)
		case "other":
			c.bad("C14.f", key, ix.Pos(), "WriteCell stores into %s whose index is %s: %s, so WriteCell(col,row) changes a cell other than (col,row) — a bound such as `< len(Buffer)` keeps the store inside the buffer, not inside the addressed cell (the cell after the last column is the first cell of the next row)", types.ExprString(ix), vd.desc, vd.why)
		default:
			// the index is not understood: C14.b reports an assignment as undecided; other statements are reported here
			var st ast.Node = ix
			for st != nil {
				if _, isStmt := st.(ast.Stmt); isStmt {
					break
				}
				st = par[st]
			}
			if _, isAssign := st.(*ast.AssignStmt); !isAssign {
				c.undecided("C14.f", key, ix.Pos(), "the index of %s is not understood (%s)", types.ExprString(ix), types.ExprString(ix.Index))
			}
		}
		return true
	})
}

// checkNoStoreThroughCall: WriteCell changes no cell through a call. A function that stores into (or re-slices /
// takes the address of) Surface.Buffer and is reachable from a call inside WriteCell — WriteCell itself for a
// neighbouring coordinate, Fill — changes cells that WriteCell(col,row) was not asked to change. (New helpers
// called at statement level are inlined by the pre-pass and judged as stores of WriteCell.)
func (e *c14Env) checkNoStoreThroughCall(fi *FuncInfo) {
	c := e.c
	writers := map[string]bool{}
	for _, f := range c.P.AllFuncs() {
		if f.Decl.Body == nil || f.Pkg == nil || !e.inVxfw(f.Pkg.Types) {
			continue
		}
		info, par := f.Pkg.TypesInfo, c.P.Parents(f.Pkg)
		ast.Inspect(f.Decl.Body, func(n ast.Node) bool {
			sel, ok := n.(*ast.SelectorExpr)
			if !ok || writers[f.Name] {
				return !writers[f.Name]
			}
			if s, ok := info.Selections[sel]; ok && s.Kind() == types.FieldVal && s.Obj() == e.fBuffer {
				if classifyAccess(info, par, sel).kind != "read" {
					writers[f.Name] = true
				}
			}
			return true
		})
	}
	info := fi.Pkg.TypesInfo
	key := fi.Name + "/no cell is changed through a call"
	n := 0
	ast.Inspect(fi.Decl.Body, func(nd ast.Node) bool {
		call, ok := nd.(*ast.CallExpr)
		if !ok {
			return true
		}
		fn := calleeOf(info, call)
		if fn == nil {
			return true
		}
		cf := c.P.FuncOfObj(fn)
		if cf == nil || cf.Decl.Body == nil {
			return true
		}
		var via []string
		for name := range staticReach(c.P, cf) {
			if writers[name] {
				via = append(via, name)
			}
		}
		if len(via) > 0 {
			sort.Strings(via)
			n++
			c.bad("C14.f", key, call.Pos(), "WriteCell calls %s, which stores into Surface.Buffer (%s): WriteCell(col,row) then changes cells other than (col,row)", types.ExprString(call.Fun), strings.Join(via, ", "))
		}
		return true
	})
	if n == 0 {
		c.okTrivial("C14.f", key, fi.Decl.Pos(), "no call inside WriteCell reaches a function that writes Surface.Buffer")
	}
}

// wcEval: the (memoised) symbolic evaluation of WriteCell.
func (e *c14Env) wcEval(fi *FuncInfo, sc *c14Scope, g *FG) *c14SymEval {
	if e.wcSym == nil || e.wcSym.g != g {
		e.wcSym = e.newSymEval(fi, sc, g)
	}
	return e.wcSym
}

// ---------------------------------------------------------------- orphan helpers

// c14OrphanHelpers: declarations of NEW (name not on the reference list), unexported functions that nothing in
// the program references any more because the global pre-pass (gnorm.go) inlined every call. Such a declaration
// can never execute; the code it contains is judged where it was inlined (same criterion as dropOrphanHelpers of
// c08y.go, computed without touching the shared function index).
func c14OrphanHelpers(c *Ctx) map[*ast.FuncDecl]bool {
	out := map[*ast.FuncDecl]bool{}
	orphan := map[*types.Func]bool{}
	for changed := true; changed; {
		changed = false
		used := map[*types.Func]bool{}
		for _, pk := range c.P.All {
			info := pk.TypesInfo
			for _, f := range pk.Syntax {
				for _, d := range f.Decls {
					var self *types.Func
					if fd, ok := d.(*ast.FuncDecl); ok {
						self, _ = info.Defs[fd.Name].(*types.Func)
						if self != nil && orphan[self] {
							continue
						}
					}
					ast.Inspect(d, func(n ast.Node) bool {
						if id, ok := n.(*ast.Ident); ok {
							if fn, ok := info.Uses[id].(*types.Func); ok && fn != self {
								used[fn] = true
								if o := fn.Origin(); o != nil && o != self {
									used[o] = true
								}
							}
						}
						return true
					})
				}
			}
		}
		for _, pk := range c.P.All {
			info := pk.TypesInfo
			// an unexported method can still be called through an interface of its package
			ifaceMethods := map[string]bool{}
			for _, f := range pk.Syntax {
				ast.Inspect(f, func(n ast.Node) bool {
					if it, ok := n.(*ast.InterfaceType); ok && it.Methods != nil {
						for _, m := range it.Methods.List {
							for _, nm := range m.Names {
								ifaceMethods[nm.Name] = true
							}
						}
					}
					return true
				})
			}
			for _, f := range pk.Syntax {
				for _, d := range f.Decls {
					fd, ok := d.(*ast.FuncDecl)
					if !ok || fd.Body == nil || out[fd] {
						continue
					}
					fn, _ := info.Defs[fd.Name].(*types.Func)
					nm := fd.Name.Name
					if fn == nil || refFuncNames[nm] || fn.Exported() || nm == "init" || nm == "main" || used[fn] {
						continue
					}
					if fd.Recv != nil && ifaceMethods[nm] {
						continue
					}
					out[fd] = true
					orphan[fn] = true
					changed = true
				}
			}
		}
	}
	return out
}
