package main

// C15, third robustness round: helpers for rules of C15 that live in shared files.

import (
	"go/ast"
	"go/token"
	"go/types"
)

// c15SortedSlice returns the expression whose backing array a sort call permutes:
// the operand of a slice-to-slice conversion (`sort.Sort(byZIndex(s.Children))`: a named
// slice type converted from s.Children shares its backing array, so the sort IS in
// place), or the only slice-typed element of a sort.Interface wrapper literal
// (`sort.Stable(zOrder{s.Children})`, `&zOrder{c: s.Children}`); otherwise e itself.
func c15SortedSlice(info *types.Info, e ast.Expr) ast.Expr {
	for i := 0; i < 4; i++ {
		e = unparen(e)
		if in := c14SliceConv(info, e); in != nil {
			e = in
			continue
		}
		x := e
		if u, ok := x.(*ast.UnaryExpr); ok && u.Op == token.AND {
			x = unparen(u.X)
		}
		lit, ok := x.(*ast.CompositeLit)
		if !ok {
			return e
		}
		t := info.TypeOf(lit)
		if t == nil {
			return e
		}
		if _, isStruct := t.Underlying().(*types.Struct); !isStruct {
			return e
		}
		var found ast.Expr
		n := 0
		for _, el := range lit.Elts {
			val := el
			if kv, ok := el.(*ast.KeyValueExpr); ok {
				val = kv.Value
			}
			if vt := info.TypeOf(val); vt != nil {
				if _, isSlice := vt.Underlying().(*types.Slice); isSlice {
					found = val
					n++
				}
			}
		}
		if n != 1 {
			return e
		}
		e = found
	}
	return e
}

// c15UnwrapBatchBody strips what a behaviour-preserving rewrite (or the global helper
// inlining) puts around the loop of a batch case: plain blocks and labels, alias
// definitions of the batch (`var cmds []Command = cmd`, `cmds := cmd`; the loop's
// collection is resolved through them), and the one-shot `switch { default: ... }`
// wrapper of an inlined helper body.
func c15UnwrapBatchBody(info *types.Info, list []ast.Stmt) []ast.Stmt {
	isAlias := func(st ast.Stmt) bool {
		plain := func(x ast.Expr) bool {
			_, ok := c16StripConv(info, x).(*ast.Ident)
			return ok
		}
		switch t := st.(type) {
		case *ast.DeclStmt:
			gd, ok := t.Decl.(*ast.GenDecl)
			if !ok || gd.Tok != token.VAR {
				return false
			}
			for _, sp := range gd.Specs {
				vs, ok := sp.(*ast.ValueSpec)
				if !ok || len(vs.Names) != 1 || len(vs.Values) != 1 || !plain(vs.Values[0]) {
					return false
				}
			}
			return true
		case *ast.AssignStmt:
			if t.Tok != token.DEFINE || len(t.Lhs) != 1 || len(t.Rhs) != 1 {
				return false
			}
			_, isID := t.Lhs[0].(*ast.Ident)
			return isID && plain(t.Rhs[0])
		}
		return false
	}
	for i := 0; i < 8; i++ {
		list = c15Flat(list)
		var keep []ast.Stmt
		for _, st := range list {
			if !isAlias(st) {
				keep = append(keep, st)
			}
		}
		list = keep
		if len(list) != 1 {
			return list
		}
		sw, ok := list[0].(*ast.SwitchStmt)
		if !ok || sw.Init != nil || sw.Tag != nil || len(sw.Body.List) != 1 {
			return list
		}
		cc := sw.Body.List[0].(*ast.CaseClause)
		if cc.List != nil {
			return list
		}
		list = cc.Body
	}
	return list
}

// c15LoopExits lists the statements by which the loop can be left before its
// collection is exhausted: return, break of this loop (plain, not nested in an inner
// breakable statement, or with a label that is not declared inside the loop body),
// goto / continue to a label outside (scope is where the loop's own labels are looked
// up: `continue L` with L the loop itself is not an exit). Function literals are not entered.
func c15LoopExits(info *types.Info, scope ast.Node, loop ast.Stmt) []ast.Stmt {
	var body *ast.BlockStmt
	switch t := loop.(type) {
	case *ast.ForStmt:
		body = t.Body
	case *ast.RangeStmt:
		body = t.Body
	}
	if body == nil {
		return nil
	}
	inner := map[types.Object]bool{}
	ast.Inspect(body, func(n ast.Node) bool {
		if l, ok := n.(*ast.LabeledStmt); ok {
			inner[info.Defs[l.Label]] = true
		}
		return true
	})
	own := map[types.Object]bool{} // labels of the loop itself: `continue L` goes on with the next element
	ast.Inspect(scope, func(n ast.Node) bool {
		if l, ok := n.(*ast.LabeledStmt); ok && l.Stmt == loop {
			own[info.Defs[l.Label]] = true
		}
		return true
	})
	var out []ast.Stmt
	var walk func(n ast.Node, breakable bool)
	walk = func(n ast.Node, breakable bool) {
		ast.Inspect(n, func(m ast.Node) bool {
			if m == nil || m == n {
				return true
			}
			switch t := m.(type) {
			case *ast.FuncLit:
				return false
			case *ast.ReturnStmt:
				out = append(out, t)
			case *ast.BranchStmt:
				switch {
				case t.Label != nil:
					if l := info.Uses[t.Label]; !inner[l] && !(t.Tok == token.CONTINUE && own[l]) {
						out = append(out, t)
					}
				case t.Tok == token.BREAK && !breakable:
					out = append(out, t)
				}
			case *ast.ForStmt, *ast.RangeStmt, *ast.SwitchStmt, *ast.TypeSwitchStmt, *ast.SelectStmt:
				walk(t, true)
				return false
			}
			return true
		})
	}
	walk(body, false)
	return out
}
