package main

// C09.i — Caps Lock and Num Lock never affect matching, END TO END (decoder and matcher together).
//
// C09.d decides the lock clause inside Key.Matches (every compared mask went through &^ of both lock
// constants). That is not the whole clause: Matches also compares Key.Text, Key.ShiftedCode and
// Key.BaseLayoutCode, which decodeKey computes, and decodeKey sees the lock bits of the report (the
// trailing Shift-text work-around forces Text from Keycode when, after removing the lock bits, only Shift
// is left). A decoder that lets a lock bit decide one of those fields makes the lock bit decide a match
// although the matcher strips it (seed C09_b_r5: Shift|CapsLock forced Text "a", Shift alone "A").
//
// The condition, by concrete interpretation (c09vm), over the composition Matches ∘ decodeKey:
//
//   for every kitty report R (key, modifier mask m without lock bits, with / without the shifted-code
//   sub-field, with / without the associated-text field) and every lock combination L in
//   {Caps, Num, Caps|Num}: let R' be R with L added to the modifier parameter and nothing else changed.
//   Then for every binding b of a family around the chord (the key and its upper-case form, with m,
//   m without Shift, m with Shift, and m plus/minus one other modifier; the binding mask also with lock
//   bits on the binding side):   Matches(decodeKey(R), b) == Matches(decodeKey(R'), b),
//   and for every binding string s in {String(decodeKey(R)), String(decodeKey(R'))}:
//   MatchString(decodeKey(R), s) == MatchString(decodeKey(R'), s).
//
// It is a necessary condition of "Caps Lock and Num Lock never affect matching": R and R' differ in
// nothing but lock bits. It is independent of how decodeKey and Matches are written (helpers, tables,
// switch/if, where the stripping happens): only results of interpretation are compared, and no field of
// the decoded Key is constrained by this rule (what the fields must be is C09.e).

import (
	"fmt"
	"unicode"
)

var c09lastEnv *c09env

func init() { registerExtra("C09", c09LockInvariance) }

func c09LockInvariance(c *Ctx) {
	c.Clauses = append(c.Clauses, "C09.i Caps Lock and Num Lock never affect matching, end to end: for kitty reports that differ in nothing but the lock bits of the modifier parameter (letters of several scripts, graphic non-letters, special keys; all 64 masks on 'a', a sample elsewhere; with/without shifted code and associated text), Matches ∘ decodeKey gives the same answer for every binding of a family around the chord (lock bits on the binding side included) and MatchString for the String() of either event")
	c.expect("C09.i", 40) // 26 ASCII letters + 5 letters of other scripts + 5 graphic non-letters + 6 special keys, minus slack for keys a future table may drop
	e := c09lastEnv
	if e == nil || e.c != c || e.vm == nil {
		return // runC09 stopped early and said why
	}
	pos := e.fDecode.Decl.Pos()
	for _, n := range []string{"ModShift", "ModAlt", "ModCtrl", "ModSuper", "ModCapsLock", "ModNumLock"} {
		if _, ok := e.named[n]; !ok {
			c.undecided("C09.i", "constants/"+n, pos, "constant %s not found", n)
			return
		}
	}
	// binding-side constants are the library's; report-side bits are the protocol's (C09.e checks they agree)
	bShift, bCaps, bNum := e.named["ModShift"], e.named["ModCapsLock"], e.named["ModNumLock"]
	bOther := []int64{e.named["ModCtrl"], e.named["ModAlt"]}
	// kitty bit -> library constant, for the binding masks derived from the report's mask
	lib := func(m int64) int64 {
		var out int64
		for i, n := range []string{"ModShift", "ModAlt", "ModCtrl", "ModSuper", "ModHyper", "ModMeta"} {
			if m&(1<<uint(i)) != 0 {
				out |= e.named[n]
			}
		}
		return out
	}
	csi := func(final rune, params ...[]int) c09Seq { return c09Seq{kind: "csi", r: final, params: params} }
	locks := []int64{c09Caps, c09Num, c09Caps | c09Num}
	sample := []int64{0, c09Shift, c09Ctrl, c09Alt, c09Ctrl | c09Shift, c09Alt | c09Shift, c09Super, c09Ctrl | c09Alt | c09Shift, c09Super | c09Shift}
	var all64 []int64
	for m := int64(0); m < 64; m++ {
		all64 = append(all64, m)
	}

	type target struct {
		label string
		code  int  // first field of the report
		final rune // CSI final
		key   int64
		cased bool
	}
	var targets []target
	for r := 'a'; r <= 'z'; r++ {
		targets = append(targets, target{fmt.Sprintf("letter %q", r), int(r), 'u', int64(r), true})
	}
	for _, r := range []rune{'ф', 'é', 'ü', 'λ', 'ש'} {
		targets = append(targets, target{fmt.Sprintf("letter U+%04X %q", r, r), int(r), 'u', int64(r), unicode.ToUpper(r) != r})
	}
	for _, r := range []rune{' ', ';', '1', '/', '-'} {
		targets = append(targets, target{fmt.Sprintf("graphic non-letter %q", r), int(r), 'u', int64(r), false})
	}
	for _, s := range []struct {
		name  string
		code  int
		final rune
	}{{"KeyEnter", 13, 'u'}, {"KeyTab", 9, 'u'}, {"KeyEsc", 27, 'u'}, {"KeyBackspace", 127, 'u'}, {"KeyUp", 1, 'A'}, {"KeyF05", 15, '~'}} {
		if v, ok := e.named[s.name]; ok {
			targets = append(targets, target{s.name, s.code, s.final, v, false})
		}
	}

	for _, t := range targets {
		masks := sample
		if t.code == 'a' {
			masks = all64
		}
		upper := t.key
		if t.cased {
			upper = int64(unicode.ToUpper(rune(t.key)))
		}
		// shifted-code / text conventions of the protocol for the sample reports
		shiftedOf := func() int {
			switch {
			case t.cased:
				return int(upper)
			case t.key == ';':
				return ':'
			case t.key == '1':
				return '!'
			case t.key == '/':
				return '?'
			case t.key == '-':
				return '_'
			}
			return 0
		}()
		var problems, errs []string
		n := 0
		for _, m := range masks {
			// report shapes: bare; with shifted code; with shifted code and text
			type shape struct {
				what string
				mk   func(mod int) c09Seq
			}
			shapes := []shape{{"no text", func(mod int) c09Seq { return csi(t.final, []int{t.code}, []int{mod}) }}}
			if t.final == 'u' && shiftedOf != 0 {
				shapes = append(shapes, shape{"shifted code, no text", func(mod int) c09Seq { return csi(t.final, []int{t.code, shiftedOf}, []int{mod}) }})
				if m&^c09Shift == 0 { // text is reported for text-producing chords only
					txt := t.code
					if m&c09Shift != 0 {
						txt = shiftedOf
					}
					shapes = append(shapes, shape{"shifted code and text", func(mod int) c09Seq { return csi(t.final, []int{t.code, shiftedOf}, []int{mod}, []int{txt}) }})
				}
			}
			bm := lib(m)
			bindMasks := []int64{bm, bm &^ bShift, bm | bShift}
			for _, o := range bOther {
				bindMasks = append(bindMasks, bm^o)
			}
			bindKeys := []int64{t.key}
			if upper != t.key {
				bindKeys = append(bindKeys, upper)
			}
			if shiftedOf != 0 && int64(shiftedOf) != upper {
				bindKeys = append(bindKeys, int64(shiftedOf))
			}
			for _, sh := range shapes {
				r0 := sh.mk(int(m) + 1)
				ev0, er := e.decode(r0)
				if er != "" {
					errs = append(errs, er)
					continue
				}
				s0, er := e.str(ev0)
				if er != "" {
					errs = append(errs, "String: "+er)
					continue
				}
				for _, l := range locks {
					r1 := sh.mk(int(m|l) + 1)
					ev1, er := e.decode(r1)
					if er != "" {
						errs = append(errs, er)
						continue
					}
					s1, er := e.str(ev1)
					if er != "" {
						errs = append(errs, "String: "+er)
						continue
					}
					found := false
					for _, bk := range bindKeys {
						for _, bmask := range bindMasks {
							for _, bl := range []int64{0, bCaps | bNum} {
								n++
								a, er1 := e.matches(ev0, bk, bmask|bl)
								b, er2 := e.matches(ev1, bk, bmask|bl)
								if er1+er2 != "" {
									errs = append(errs, er1+er2)
									continue
								}
								if a != b && !found {
									found = true
									problems = append(problems, fmt.Sprintf("the reports %s and %s differ only in lock bits, but the binding (%s, mods %d) matches the first: %v and the second: %v (decoded %s and %s)",
										r0, r1, e.keyLabel(bk), bmask|bl, a, b, ev0, ev1))
								}
							}
						}
					}
					strs := []string{s0}
					if s1 != s0 {
						strs = append(strs, s1)
					}
					for _, s := range strs {
						n++
						a, er1 := e.matchString(ev0, s)
						b, er2 := e.matchString(ev1, s)
						if er1+er2 != "" {
							errs = append(errs, "MatchString: "+er1+er2)
							continue
						}
						if a != b && !found {
							found = true
							problems = append(problems, fmt.Sprintf("the reports %s and %s differ only in lock bits, but MatchString(%q) is %v on the first and %v on the second (decoded %s and %s)", r0, r1, s, a, b, ev0, ev1))
						}
					}
				}
			}
		}
		e.report("C09.i", "locks/decode+match invariant for "+t.label, pos, n, problems, errs, "reports that differ only in Caps Lock / Num Lock match the same bindings")
	}
}
