package main

// C03.l — no stale reply. "Replies to Vaxis's own queries … update exactly the capability or answer they
// report, and an unsolicited, repeated, truncated or malformed reply can neither wedge the loop nor crash the
// program": a reply that arrives while nobody waits for it (unsolicited, repeated, or late for a request that
// already timed out) must have no lasting effect.
//
// The hand-over of a reply is a send by the input goroutine on a channel field of Vaxis that a query function
// receives from, every send being an arm of a select with another way out (a reply may be dropped; the event
// queue, which is also sent on unconditionally, is no reply slot). Whether such a reply can outlive the moment it arrives is a property of the channel alone:
//
//   * unbuffered channel: a send (non-blocking or bounded by a timer) completes only while a receiver is
//     parked in its receive — a reply nobody waits for is dropped. Nothing to require of the waiter.
//   * buffered channel: the send succeeds with nobody waiting and the value stays in the buffer indefinitely.
//     Then EVERY function that waits on the channel must discard a parked value (a receive on the channel
//     in a select with a default arm) on every path to its wait, and before it writes anything to the
//     terminal from which the wait is reachable (the query): otherwise the next request returns the parked
//     reply of an earlier one and every later answer is one reply behind.
//
// The capacity is read from every `make(chan T, n)` stored into the field anywhere in the package (assignment
// or composite-literal key); a capacity that is not a constant counts as buffered.

import (
	"fmt"
	"go/ast"
	"go/token"
	"go/types"
	"sort"
	"strings"

	"golang.org/x/tools/go/packages"
)

func init() { registerExtra("C03", c03NoStaleReply) }

func c03NoStaleReply(c *Ctx) {
	c.Clauses = append(c.Clauses, "C03.l a reply nobody waits for has no lasting effect: a reply channel the input goroutine hands over on is unbuffered, or every query function waiting on it discards a parked value (receive in a select with default) on every path to its wait and before it writes its query")
	c.expect("C03.l", 4)
	pk := c.P.Pkg("vaxis")
	handle := c.P.Func("vaxis.(*Vaxis).handleSequence")
	if pk == nil || handle == nil {
		c.undecided("C03.l", "vaxis.(*Vaxis).handleSequence", 0, "handleSequence not found")
		return
	}
	info := pk.TypesInfo
	par := c.P.Parents(pk)
	inInput := staticReach(c.P, handle)
	paramChans, isRecvOf := c03RecvMatcher(c, pk)

	// ---- channels handed over on in the input context
	handed := map[string]token.Pos{}
	lossless := map[string]bool{}
	for _, fi := range c.P.FuncsIn("vaxis") {
		if fi.Decl.Body == nil || !inInput[fi.Name] {
			continue
		}
		g := c.P.Graph(fi)
		for _, h := range g.Find(func(n ast.Node) bool { _, ok := n.(*ast.SendStmt); return ok }) {
			send := h.Node.(*ast.SendStmt)
			// a hand-over never blocks the input goroutine: the send is an arm of a select with another way out
			lossy := false
			if cc, ok := par[ast.Node(send)].(*ast.CommClause); ok && cc.Comm == ast.Stmt(send) {
				if sel, _ := par[par[cc]].(*ast.SelectStmt); sel != nil && len(sel.Body.List) >= 2 {
					lossy = true
				}
			}
			targets, resolved := c03ChanTargets(c, fi, send.Chan, 0)
			if !resolved {
				// a hand-over helper that takes the reply channel as a parameter: the fields its call sites bind it to
				if id, isID := unparen(send.Chan).(*ast.Ident); isID {
					for ch := range paramChans[info.ObjectOf(id)] {
						targets = append(targets, ch)
					}
					sort.Strings(targets)
					resolved = len(targets) > 0
				}
			}
			if !resolved {
				c.undecided("C03.l", fmt.Sprintf("%s/send on %s", fi.Name, c03Short(send.Chan)), send.Pos(), "the channel of a send in the input context cannot be resolved to a field of Vaxis: %s", types.ExprString(send.Chan))
				continue
			}
			for _, ch := range targets {
				if _, ok := handed[ch]; !ok {
					handed[ch] = send.Pos()
				}
				if !lossy {
					lossless[ch] = true
				}
			}
		}
	}
	// a channel that is (also) sent on unconditionally is a queue whose every element must be delivered (the event
	// queue: PostEventBlocking), not a reply slot; C03.b/c decide those sends
	for ch := range lossless {
		delete(handed, ch)
	}

	// ---- capacity of every channel field of Vaxis
	type capInfo struct {
		n     int64 // largest constant capacity
		known bool  // every make has a constant capacity
		sites int
		text  string
		pos   token.Pos
	}
	caps := map[string]*capInfo{}
	noteMake := func(ch string, val ast.Expr) {
		if !strings.HasPrefix(ch, "Vaxis.") {
			return
		}
		call, ok := unparen(val).(*ast.CallExpr)
		if !ok {
			return
		}
		id, ok := unparen(call.Fun).(*ast.Ident)
		if !ok || len(call.Args) == 0 {
			return
		}
		if b, isBuiltin := info.Uses[id].(*types.Builtin); !isBuiltin || b.Name() != "make" {
			return
		}
		ci := caps[ch]
		if ci == nil {
			ci = &capInfo{known: true}
			caps[ch] = ci
		}
		ci.sites++
		n := int64(0)
		if len(call.Args) > 1 {
			v, ok := constInt(info, call.Args[1])
			if !ok {
				ci.known = false
				ci.text, ci.pos = c03Short(call), call.Pos()
				return
			}
			n = v
		}
		if n >= ci.n || ci.text == "" {
			if n > ci.n || ci.text == "" {
				ci.text, ci.pos = c03Short(call), call.Pos()
			}
			if n > ci.n {
				ci.n = n
			}
		}
	}
	vaxisT := pk.Types.Scope().Lookup("Vaxis")
	for _, f := range pk.Syntax {
		ast.Inspect(f, func(n ast.Node) bool {
			switch t := n.(type) {
			case *ast.AssignStmt:
				if len(t.Lhs) == len(t.Rhs) {
					for i, l := range t.Lhs {
						noteMake(canonPath(info, l), t.Rhs[i])
					}
				}
			case *ast.CompositeLit:
				tp := info.TypeOf(t)
				if tp == nil || vaxisT == nil {
					return true
				}
				if pt, ok := tp.(*types.Pointer); ok {
					tp = pt.Elem()
				}
				if nt, ok := tp.(*types.Named); !ok || nt.Obj() != vaxisT {
					return true
				}
				for _, el := range t.Elts {
					if kv, ok := el.(*ast.KeyValueExpr); ok {
						if id, ok := kv.Key.(*ast.Ident); ok {
							noteMake("Vaxis."+id.Name, kv.Value)
						}
					}
				}
			}
			return true
		})
	}

	// the receive is the comm of a select arm and the select has a default arm
	inDrainSelect := func(u ast.Node) bool {
		for cur := par[u]; cur != nil; cur = par[cur] {
			switch t := cur.(type) {
			case *ast.CommClause:
				// the receive must be the communication itself, not something in the arm's body
				if t.Comm == nil || !(t.Comm.Pos() <= u.Pos() && u.End() <= t.Comm.End()) {
					return false
				}
				sel, _ := par[par[t]].(*ast.SelectStmt)
				if sel == nil {
					return false
				}
				for _, cl := range sel.Body.List {
					if cl.(*ast.CommClause).Comm == nil {
						return true
					}
				}
				return false
			case *ast.FuncLit, *ast.FuncDecl:
				return false
			}
		}
		return false
	}
	n := 0
	var chans []string
	for ch := range handed {
		chans = append(chans, ch)
	}
	sort.Strings(chans)
	for _, ch := range chans {
		for _, fi := range c.P.FuncsIn("vaxis") {
			if fi.Decl.Body == nil || inInput[fi.Name] {
				continue
			}
			g := c.P.Graph(fi)
			var waits []Hit
			for _, h := range g.Find(func(m ast.Node) bool { return isRecvOf(m, ch) }) {
				if !inDrainSelect(h.Node) {
					waits = append(waits, h)
				}
			}
			if len(waits) == 0 {
				continue
			}
			n++
			key := fmt.Sprintf("%s/no stale reply on %s", fi.Name, ch)
			ci := caps[ch]
			switch {
			case ci == nil:
				c.undecided("C03.l", key, waits[0].Node.Pos(), "no `make(chan …)` stored into %s was found: its capacity is unknown", ch)
				continue
			case ci.known && ci.n == 0:
				c.ok("C03.l", key, waits[0].Node.Pos(), "%s is unbuffered (%s): a hand-over completes only while a receiver waits, a reply nobody waits for is dropped", ch, ci.text)
				continue
			}
			isDrain := func(m ast.Node) bool { return isRecvOf(m, ch) && inDrainSelect(m) }
			why := ""
			for _, w := range waits {
				if !g.MustPrecede(isDrain, w.Loc) {
					why = fmt.Sprintf("%s waits on %s without first discarding a parked value on every path (no receive on the channel in a select with default before the wait)", fi.Name, ch)
					break
				}
			}
			if why == "" {
				for _, em := range ExtractEmissions(c.P, []*FuncInfo{fi}, vaxisTerminalSink) {
					if em.G != g {
						continue
					}
					leads := false
					for _, w := range waits {
						if g.ReachesAvoiding(em.Loc, w.Loc, nil) {
							leads = true
						}
					}
					if leads && !g.MustPrecede(isDrain, em.Loc) {
						why = fmt.Sprintf("%s writes to the terminal (%s) before it has discarded a parked value of %s: the answer to the query just written can be the one that is thrown away", fi.Name, c03Short(em.Call), ch)
						break
					}
				}
			}
			capText := fmt.Sprintf("capacity %d", ci.n)
			if !ci.known {
				capText = "a capacity that is not a constant"
			}
			if why == "" {
				c.ok("C03.l", key, waits[0].Node.Pos(), "%s is buffered (%s); the function discards a parked reply before its query and on every path to its wait", ch, ci.text)
			} else {
				c.bad("C03.l", key, waits[0].Node.Pos(), "%s has %s (%s), so the hand-over in the input goroutine succeeds with nobody waiting and the reply stays parked; %s: an unsolicited, repeated or late reply is returned as the answer to the next request, whose own answer is parked in turn — every later answer is one reply behind", ch, capText, ci.text, why)
			}
		}
	}
	if n == 0 {
		c.undecided("C03.l", "vaxis/reply channels", handle.Decl.Pos(), "no query function waiting on a channel that the input context hands replies over on was found")
	}
}

// c03ChanTargets: the channel fields of Vaxis that the channel expression of a send may denote ("Vaxis.chFg", …).
// Besides a plain field path it follows
//   - r.f with r the value variable of a range over a constant table (a literal, a local defined once by a literal,
//     or an unexported package-level table that is only read: c03Tables): one target set per row;
//   - a call of a function literal, of a declared function/method (also as a method expression) or of such a
//     function-valued row field whose body is a single `return e`: the targets of e (paths are canonical, i.e.
//     anchored at the struct type, so the parameter needs no substitution).
//
// ok == false: some alternative could not be resolved.
func c03ChanTargets(c *Ctx, fi *FuncInfo, e ast.Expr, depth int) (out []string, ok bool) {
	info := fi.Pkg.TypesInfo
	if depth > 6 {
		return nil, false
	}
	e = unparen(e)
	if p := canonPath(info, e); strings.HasPrefix(p, "Vaxis.") {
		return []string{p}, true
	}
	// the body `return e` of a function value
	var retOf func(f ast.Expr, d int) ([]ast.Expr, bool)
	single := func(body *ast.BlockStmt) ([]ast.Expr, bool) {
		if body == nil || len(body.List) != 1 {
			return nil, false
		}
		rs, isRet := body.List[0].(*ast.ReturnStmt)
		if !isRet || len(rs.Results) != 1 {
			return nil, false
		}
		return []ast.Expr{rs.Results[0]}, true
	}
	retOf = func(f ast.Expr, d int) ([]ast.Expr, bool) {
		if d > 4 {
			return nil, false
		}
		f = unparen(f)
		switch t := f.(type) {
		case *ast.FuncLit:
			return single(t.Body)
		case *ast.Ident, *ast.SelectorExpr:
			var obj types.Object
			if id, isID := t.(*ast.Ident); isID {
				obj = info.ObjectOf(id)
			} else {
				sel := t.(*ast.SelectorExpr)
				if s, has := info.Selections[sel]; has {
					if s.Kind() == types.FieldVal {
						// a function-valued field of a table row
						var all []ast.Expr
						rows, isRow := c03RowField(c, fi, sel)
						if !isRow {
							return nil, false
						}
						for _, r := range rows {
							es, good := retOf(r, d+1)
							if !good {
								return nil, false
							}
							all = append(all, es...)
						}
						return all, true
					}
					obj = s.Obj() // method value / method expression
				} else {
					obj = info.ObjectOf(sel.Sel)
				}
			}
			fn, isFn := obj.(*types.Func)
			if !isFn {
				return nil, false
			}
			for _, cand := range c.P.FuncsIn("vaxis") {
				if cand.Obj == fn {
					return single(cand.Decl.Body)
				}
			}
		}
		return nil, false
	}
	switch t := e.(type) {
	case *ast.CallExpr:
		if tv, isType := info.Types[t.Fun]; isType && tv.IsType() {
			return nil, false
		}
		rets, good := retOf(t.Fun, 0)
		if !good {
			return nil, false
		}
		for _, r := range rets {
			ts, good := c03ChanTargets(c, fi, r, depth+1)
			if !good {
				return nil, false
			}
			out = append(out, ts...)
		}
		return out, len(out) > 0
	case *ast.SelectorExpr:
		rows, isRow := c03RowField(c, fi, t)
		if !isRow {
			return nil, false
		}
		for _, r := range rows {
			ts, good := c03ChanTargets(c, fi, r, depth+1)
			if !good {
				return nil, false
			}
			out = append(out, ts...)
		}
		return out, len(out) > 0
	}
	return nil, false
}

// c03RowField: sel is r.f with r the value variable of a range over a constant table; the expressions the field
// holds, one per row.
func c03RowField(c *Ctx, fi *FuncInfo, sel *ast.SelectorExpr) ([]ast.Expr, bool) {
	info := fi.Pkg.TypesInfo
	rid, ok := unparen(sel.X).(*ast.Ident)
	if !ok {
		return nil, false
	}
	robj := info.ObjectOf(rid)
	if robj == nil {
		return nil, false
	}
	st, ok := robj.Type().Underlying().(*types.Struct)
	if !ok {
		return nil, false
	}
	var rs *ast.RangeStmt
	ast.Inspect(fi.Decl.Body, func(n ast.Node) bool {
		if r, ok := n.(*ast.RangeStmt); ok && r.Value != nil && r.Tok == token.DEFINE {
			if id, ok := r.Value.(*ast.Ident); ok && info.ObjectOf(id) == robj {
				rs = r
			}
		}
		return rs == nil
	})
	if rs == nil {
		return nil, false
	}
	// the range variable must not be assigned in the loop
	if assignsAny(info, rs.Body, map[types.Object]bool{robj: true}) {
		return nil, false
	}
	var rowsLit []ast.Expr
	switch t := unparen(rs.X).(type) {
	case *ast.CompositeLit:
		rowsLit = t.Elts
	case *ast.Ident:
		v, isVar := info.ObjectOf(t).(*types.Var)
		if !isVar {
			return nil, false
		}
		if v.Parent() == fi.Pkg.Types.Scope() {
			tb := c03Tables(fi.Pkg)[v]
			if tb == nil {
				return nil, false
			}
			rowsLit = tb.rows
		} else if def, _ := c19LocalDef(fi, v); def != nil {
			if cl, isLit := unparen(def).(*ast.CompositeLit); isLit {
				rowsLit = cl.Elts
			}
		}
	}
	if len(rowsLit) == 0 {
		return nil, false
	}
	var out []ast.Expr
	for _, el := range rowsLit {
		row, ok := unparen(el).(*ast.CompositeLit)
		if !ok {
			return nil, false
		}
		var val ast.Expr
		for j, e := range row.Elts {
			if kv, isKV := e.(*ast.KeyValueExpr); isKV {
				if id, isID := kv.Key.(*ast.Ident); isID && id.Name == sel.Sel.Name {
					val = kv.Value
				}
			} else if j < st.NumFields() && st.Field(j).Name() == sel.Sel.Name {
				val = e
			}
		}
		if val == nil {
			return nil, false // zero value of the field: a nil channel / function
		}
		out = append(out, val)
	}
	return out, true
}

// c03RecvMatcher: "n is a receive from the channel field ch of Vaxis". A query helper may take the reply channel as
// a parameter (`queryReply(query, vx.chBg)`): the parameter stands for every channel field some call site of the
// package binds it to (paramChans, also returned).
func c03RecvMatcher(c *Ctx, pk *packages.Package) (map[types.Object]map[string]bool, func(n ast.Node, ch string) bool) {
	info := pk.TypesInfo
	// a query helper may take the reply channel as a parameter (`queryReply(query, vx.chBg)`): the parameter stands
	// for every channel field some call site of the package binds it to
	paramChans := map[types.Object]map[string]bool{}
	for _, fi := range c.P.FuncsIn("vaxis") {
		if fi.Decl.Body == nil {
			continue
		}
		ast.Inspect(fi.Decl.Body, func(n ast.Node) bool {
			call, ok := n.(*ast.CallExpr)
			if !ok {
				return true
			}
			fn := calleeOf(info, call)
			if fn == nil || fn.Pkg() != pk.Types {
				return true
			}
			sig := fn.Type().(*types.Signature)
			for i, a := range call.Args {
				if i >= sig.Params().Len() {
					break
				}
				pv := sig.Params().At(i)
				if _, isChan := pv.Type().Underlying().(*types.Chan); !isChan {
					continue
				}
				if path := canonPath(info, a); strings.HasPrefix(path, "Vaxis.") {
					if paramChans[pv] == nil {
						paramChans[pv] = map[string]bool{}
					}
					paramChans[pv][path] = true
				}
			}
			return true
		})
	}
	isRecvOf := func(n ast.Node, ch string) bool {
		u, ok := n.(*ast.UnaryExpr)
		if !ok || u.Op != token.ARROW {
			return false
		}
		if canonPath(info, u.X) == ch {
			return true
		}
		if id, isID := unparen(u.X).(*ast.Ident); isID {
			return paramChans[info.ObjectOf(id)][ch]
		}
		return false
	}
	return paramChans, isRecvOf
}
