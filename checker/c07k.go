package main

// c07k — C07.k: every well-formed positive reply to a start-up query reaches its capability event.
//
// C07.c decides "a capability event is posted only for its reply" (no over-reporting). The property also says the
// capabilities Vaxis reports are EXACTLY those the replies established, so the converse is necessary as well: a reply
// with which a standards-conforming terminal advertises a feature must not be dropped on the way from handleSequence
// to the event queue, or Can*() under-reports and the fallback is applied to a terminal that does not need it.
//
// The reply forms are a reference list taken from the protocol documents (xterm ctlseqs: DA1, DECRPM, XTGETTCAP,
// XTSMGRAPHICS, XTVERSION, DA3; kitty keyboard / graphics protocol; OSC 4/10/11 colour reports; CSI 4/8/48 t size
// reports). XTGETTCAP answers a boolean capability WITHOUT a "=value" part (`DCS 1 + r 524742 ST` = RGB present) and
// a string/number capability WITH one; both forms are listed.
//
// Each form is built as the concrete ansi.Sequence value the parser delivers and handleSequence is run on it in the
// concrete AST interpreter of c09.go (c09vm; nothing of the repository is compiled or executed) on a freshly
// constructed Vaxis (all fields zero = the state in which the start-up replies arrive: nothing advertised yet, no
// request pending). The guards of handleSequence (type switch, final byte, intermediates, parameter counts, split
// payloads, tables, helpers, early returns) are thereby evaluated, not pattern-matched, so any behaviour-preserving
// way of writing them is judged alike. PostEventBlocking is the observation point: the dynamic type of every posted
// event is recorded.
//
//	the expected event was posted                                   -> ok (whatever happens afterwards)
//	the run ends (returns or panics) without the expected event     -> violated (the reply is dropped)
//	the interpreter meets a construct it cannot evaluate before the
//	  event was posted                                              -> nothing is said for this form (c.info)

import (
	"fmt"
	"go/ast"
	"go/constant"
	"go/types"
	"sort"
	"strings"
)

func init() {
	registerExtra("C07", c07ReplyReachesEvent)
	// pure library functions a reply decoder is likely to be written with (added to the whitelist of c09vm)
	add := func(name string, f func(vm *c09vm, recv any, a []any) []any) {
		if _, have := c09natives[name]; !have {
			c09natives[name] = f
		}
	}
	strs := func(xs []string) any {
		out := []any{}
		for _, x := range xs {
			out = append(out, x)
		}
		return out
	}
	add("strings.Cut", func(vm *c09vm, _ any, a []any) []any {
		b, af, ok := strings.Cut(vm.asStr(a[0]), vm.asStr(a[1]))
		return []any{b, af, ok}
	})
	add("strings.SplitN", func(vm *c09vm, _ any, a []any) []any {
		return []any{strs(strings.SplitN(vm.asStr(a[0]), vm.asStr(a[1]), int(vm.asInt(a[2], nil))))}
	})
	add("strings.Fields", func(vm *c09vm, _ any, a []any) []any { return []any{strs(strings.Fields(vm.asStr(a[0])))} })
	add("strings.IndexByte", func(vm *c09vm, _ any, a []any) []any {
		return []any{int64(strings.IndexByte(vm.asStr(a[0]), byte(vm.asInt(a[1], nil))))}
	})
	add("strings.IndexRune", func(vm *c09vm, _ any, a []any) []any {
		return []any{int64(strings.IndexRune(vm.asStr(a[0]), rune(vm.asInt(a[1], nil))))}
	})
	add("strings.ContainsRune", func(vm *c09vm, _ any, a []any) []any {
		return []any{strings.ContainsRune(vm.asStr(a[0]), rune(vm.asInt(a[1], nil)))}
	})
	add("encoding/hex.EncodeToString", func(vm *c09vm, _ any, a []any) []any {
		var sb strings.Builder
		if a[0] != nil {
			for _, x := range a[0].([]any) {
				fmt.Fprintf(&sb, "%02x", byte(vm.asInt(x, nil)))
			}
		}
		return []any{sb.String()}
	})
}

type c07kForm struct {
	name  string    // how the reply is written in the protocol documents
	kind  string    // CSI DCS APC OSC
	inter string    // intermediates
	csi   [][]int64 // CSI parameters
	dcs   []int64   // DCS parameters
	final rune
	data  string   // DCS data / APC data / OSC payload
	want  []string // event types that must be posted
}

func c07kHex(s string) string { return fmt.Sprintf("%X", s) }

func c07kForms() []c07kForm {
	p := func(v ...int64) [][]int64 {
		out := [][]int64{}
		for _, x := range v {
			out = append(out, []int64{x})
		}
		return out
	}
	fs := []c07kForm{
		// DA1: the reply ends the start-up query loop; attribute 4 advertises sixel
		{name: "CSI ? 62 c (DA1 without sixel)", kind: "CSI", inter: "?", csi: p(62), final: 'c', want: []string{"primaryDeviceAttribute"}},
		{name: "CSI ? 4 c (DA1, attribute 4 = sixel)", kind: "CSI", inter: "?", csi: p(4), final: 'c', want: []string{"capabilitySixel", "primaryDeviceAttribute"}},
		{name: "CSI ? 62 ; 4 ; 22 c (DA1, attribute 4 = sixel)", kind: "CSI", inter: "?", csi: p(62, 4, 22), final: 'c', want: []string{"capabilitySixel", "primaryDeviceAttribute"}},
		{name: "CSI ? 65 ; 1 ; 9 ; 4 c (DA1, attribute 4 last)", kind: "CSI", inter: "?", csi: p(65, 1, 9, 4), final: 'c', want: []string{"capabilitySixel", "primaryDeviceAttribute"}},
		// kitty keyboard protocol: CSI ? flags u
		{name: "CSI ? 0 u (kitty keyboard flags)", kind: "CSI", inter: "?", csi: p(0), final: 'u', want: []string{"kittyKeyboard"}},
		{name: "CSI ? 31 u (kitty keyboard flags)", kind: "CSI", inter: "?", csi: p(31), final: 'u', want: []string{"kittyKeyboard"}},
		// XTSMGRAPHICS: item 2 (sixel geometry), status 0 = success
		{name: "CSI ? 2 ; 0 ; 800 S (XTSMGRAPHICS sixel geometry, success)", kind: "CSI", inter: "?", csi: p(2, 0, 800), final: 'S', want: []string{"capabilitySixel"}},
		{name: "CSI ? 2 ; 0 ; 800 ; 600 S (XTSMGRAPHICS sixel geometry, success)", kind: "CSI", inter: "?", csi: p(2, 0, 800, 600), final: 'S', want: []string{"capabilitySixel"}},
		// size reports at start-up
		{name: "CSI 4 ; 600 ; 800 t (text area in pixels)", kind: "CSI", csi: p(4, 600, 800), final: 't', want: []string{"textAreaPix"}},
		{name: "CSI 8 ; 24 ; 80 t (text area in characters)", kind: "CSI", csi: p(8, 24, 80), final: 't', want: []string{"textAreaChar"}},
		{name: "CSI 48 ; 24 ; 80 ; 600 ; 800 t (in-band resize report)", kind: "CSI", csi: p(48, 24, 80, 600, 800), final: 't', want: []string{"inBandResizeEvents"}},
		// XTVERSION, DA3
		{name: "DCS > | name ST (XTVERSION)", kind: "DCS", inter: ">", final: '|', data: "kitty(0.35.2)", want: []string{"terminalID"}},
		{name: "DCS ! | 7E565445 ST (DA3 of VTE)", kind: "DCS", inter: "!", final: '|', data: c07kHex("~VTE"), want: []string{"styledUnderlines"}},
		// kitty graphics
		{name: "APC G i=1;OK ST (kitty graphics reply)", kind: "APC", data: "Gi=1;OK", want: []string{"kittyGraphics"}},
		// colour reports
		{name: "OSC 4 ; 0 ; rgb:0000/0000/0000 ST", kind: "OSC", data: "4;0;rgb:0000/0000/0000", want: []string{"capabilityOsc4"}},
		{name: "OSC 10 ; rgb:ffff/ffff/ffff ST", kind: "OSC", data: "10;rgb:ffff/ffff/ffff", want: []string{"capabilityOsc10"}},
		{name: "OSC 11 ; rgb:0000/0000/0000 ST", kind: "OSC", data: "11;rgb:0000/0000/0000", want: []string{"capabilityOsc11"}},
	}
	// DECRPM: CSI ? mode ; status $ y with status 1 (set) or 2 (reset) = the mode is recognised
	for _, m := range []struct {
		mode int64
		ev   string
	}{{2026, "synchronizedUpdates"}, {2027, "unicodeCoreCap"}, {2031, "notifyColorChange"}} {
		for _, st := range []int64{1, 2} {
			fs = append(fs, c07kForm{name: fmt.Sprintf("CSI ? %d ; %d $ y (DECRPM, mode recognised)", m.mode, st), kind: "CSI", inter: "?$",
				csi: p(m.mode, st), final: 'y', want: []string{m.ev}})
		}
	}
	// XTGETTCAP: DCS 1 + r <hex name> [= <hex value>] ST
	for _, cp := range []struct{ name, ev string }{{"Smulx", "styledUnderlines"}, {"RGB", "truecolor"}} {
		fs = append(fs,
			c07kForm{name: fmt.Sprintf("DCS 1 + r %s ST (XTGETTCAP %s, boolean form without value)", c07kHex(cp.name), cp.name), kind: "DCS", inter: "+",
				dcs: []int64{1}, final: 'r', data: c07kHex(cp.name), want: []string{cp.ev}},
			c07kForm{name: fmt.Sprintf("DCS 1 + r %s=%s ST (XTGETTCAP %s with value)", c07kHex(cp.name), c07kHex("8/8/8"), cp.name), kind: "DCS", inter: "+",
				dcs: []int64{1}, final: 'r', data: c07kHex(cp.name) + "=" + c07kHex("8/8/8"), want: []string{cp.ev}},
			c07kForm{name: fmt.Sprintf("DCS 1 + r %s= ST (XTGETTCAP %s with empty value)", c07kHex(cp.name), cp.name), kind: "DCS", inter: "+",
				dcs: []int64{1}, final: 'r', data: c07kHex(cp.name) + "=", want: []string{cp.ev}})
	}
	return fs
}

// c07kSink receives the dynamic types of the events handed to PostEventBlocking during one interpreted run.
var c07kSink *[]string

func c07kTypeName(v any) string {
	var t types.Type
	switch x := v.(type) {
	case *c09struct:
		if x != nil {
			t = x.typ
		}
	case c09typed:
		t = x.typ
	case string:
		// a named string type converted from the payload (terminalID(seq.Data)): the interpreter keeps the value only
		return "?string"
	}
	if t == nil {
		return "?"
	}
	if p, ok := t.(*types.Pointer); ok {
		t = p.Elem()
	}
	if n, ok := t.(*types.Named); ok {
		return n.Obj().Name()
	}
	return t.String()
}

func c07kRunes(s string) []any {
	out := []any{}
	for _, r := range s {
		out = append(out, int64(r))
	}
	return out
}

// c07kHarness runs handleSequence on concrete sequences in the interpreter and records the posted events.
type c07kHarness struct {
	c     *Ctx
	vm    *c09vm
	hs    *FuncInfo
	build func(f c07kForm) *c09struct
	newVx func() *c09struct
	done  func()
}

// c07kNewHarness: nil and a reason when the pieces are not found. The caller must call h.done().
func c07kNewHarness(c *Ctx) (*c07kHarness, string) {
	pk := c.P.Pkg("vaxis")
	ap := c.P.Pkg("ansi")
	hs := c.P.Func("vaxis.(*Vaxis).handleSequence")
	if pk == nil || ap == nil || hs == nil || hs.Decl.Body == nil {
		return nil, "handleSequence not found"
	}
	vxTN, _ := pk.Types.Scope().Lookup("Vaxis").(*types.TypeName)
	if vxTN == nil {
		return nil, "type Vaxis not found"
	}
	seqT := map[string]*types.TypeName{}
	for _, n := range []string{"CSI", "DCS", "APC", "OSC"} {
		tn, _ := ap.Types.Scope().Lookup(n).(*types.TypeName)
		if tn == nil {
			return nil, "sequence type ansi." + n + " not found"
		}
		seqT[n] = tn
	}
	// logging is inert
	if lp := c.P.Pkg("log"); lp != nil {
		for _, n := range lp.Types.Scope().Names() {
			if fn, ok := lp.Types.Scope().Lookup(n).(*types.Func); ok && fn.Exported() {
				nres := fn.Type().(*types.Signature).Results().Len()
				if _, have := c09natives[fullName(fn)]; !have && nres == 0 {
					c09natives[fullName(fn)] = func(vm *c09vm, _ any, _ []any) []any { return nil }
				}
			}
		}
	}
	vm := newC09vm(c, pk)
	// the observation point: PostEventBlocking / PostEvent hand the event to the queue; they are not interpreted
	var posts []*types.Func
	for fn := range vm.decls {
		if fn.Name() == "PostEventBlocking" || fn.Name() == "PostEvent" {
			if sig := fn.Type().(*types.Signature); sig.Recv() != nil && sig.Params().Len() == 1 {
				posts = append(posts, fn)
			}
		}
	}
	if len(posts) == 0 {
		return nil, "PostEventBlocking not found"
	}
	for _, post := range posts {
		delete(vm.decls, post)
		c09natives[fullName(post)] = func(vm *c09vm, _ any, a []any) []any {
			if c07kSink != nil && len(a) == 1 {
				*c07kSink = append(*c07kSink, c07kTypeName(a[0]))
			}
			return nil
		}
	}
	h := &c07kHarness{c: c, vm: vm, hs: hs}
	h.done = func() {
		for _, post := range posts {
			delete(c09natives, fullName(post))
		}
	}

	// a fresh Vaxis: every field the interpreter can represent has its zero value, the others (channels, ...) are nil
	zeroField := func(t types.Type) (v any) {
		defer func() {
			if r := recover(); r != nil {
				if _, ok := r.(c09abort); ok {
					v = nil
					return
				}
				panic(r)
			}
		}()
		return vm.zero(t)
	}
	h.newVx = func() *c09struct {
		s := &c09struct{typ: vxTN.Type(), f: map[string]any{}}
		if st, ok := vxTN.Type().Underlying().(*types.Struct); ok {
			for i := 0; i < st.NumFields(); i++ {
				s.f[st.Field(i).Name()] = zeroField(st.Field(i).Type())
			}
		}
		return s
	}
	h.build = func(f c07kForm) *c09struct {
		seq := vm.zero(seqT[f.kind].Type()).(*c09struct)
		switch f.kind {
		case "CSI":
			seq.f["Final"] = int64(f.final)
			seq.f["Intermediate"] = c07kRunes(f.inter)
			ps := []any{}
			for _, p := range f.csi {
				sub := []any{}
				for _, v := range p {
					sub = append(sub, v)
				}
				ps = append(ps, sub)
			}
			seq.f["Parameters"] = ps
		case "DCS":
			seq.f["Final"] = int64(f.final)
			seq.f["Intermediate"] = c07kRunes(f.inter)
			ps := []any{}
			for _, v := range f.dcs {
				ps = append(ps, v)
			}
			seq.f["Parameters"] = ps
			seq.f["Data"] = c07kRunes(f.data)
		case "APC":
			seq.f["Data"] = f.data
		case "OSC":
			seq.f["Payload"] = c07kRunes(f.data)
		}
		return seq
	}
	return h, ""
}

// run: the events posted by handleSequence(f) on a fresh Vaxis; er != "": the interpreter gave up (got holds the events
// posted up to that point); pn != "": the code panics.
func (h *c07kHarness) run(f c07kForm) (got []string, er, pn string) {
	c07kSink = &got
	defer func() { c07kSink = nil }()
	func() {
		defer func() {
			if r := recover(); r != nil {
				if a, ok := r.(c09abort); ok {
					er = a.msg
					return
				}
				panic(r)
			}
		}()
		seq := h.build(f)
		_, er, pn = h.vm.run(h.hs.Obj, h.newVx(), seq)
	}()
	return got, er, pn
}

func c07ReplyReachesEvent(c *Ctx) {
	const rule = "C07.k"
	c.expect(rule, 12)
	c.Clauses = append(c.Clauses, "C07.k every well-formed positive reply to a start-up query (DA1 with/without attribute 4, DECRPM status 1|2 for 2026/2027/2031, XTGETTCAP `1+r<hexname>` with and without `=value`, kitty keyboard/graphics replies, XTSMGRAPHICS success, XTVERSION, DA3 of VTE, OSC 4/10/11, CSI 4|8|48 t) reaches its capability event: handleSequence, evaluated on the concrete sequence in the start-up state, posts it")
	h, why := c07kNewHarness(c)
	if h == nil {
		c.undecided(rule, "vaxis.(*Vaxis).handleSequence", 0, "%s", why)
		return
	}
	defer h.done()
	hs := h.hs
	pos := hs.Decl.Pos()
	for _, f := range c07kForms() {
		got, er, pn := h.run(f)
		has := func(n string) bool {
			for _, g := range got {
				if g == n || (n == "terminalID" && g == "?string") {
					return true
				}
			}
			return false
		}
		for _, w := range f.want {
			key := "vaxis.(*Vaxis).handleSequence/" + f.name + " -> " + w
			switch {
			case has(w):
				c.ok(rule, key, pos, "the reply reaches PostEventBlocking(%s{}) (evaluated on the concrete sequence in the start-up state)", w)
			case er != "":
				c.info("C07.k: %s: handleSequence could not be evaluated up to the event %s (%s); nothing is said for this form", f.name, w, er)
			default:
				end := "returns"
				if pn != "" {
					end = "panics (" + pn + ")"
				}
				posted := "no event at all"
				if len(got) > 0 {
					posted = "only " + strings.Join(got, ", ")
				}
				c.bad(rule, key, pos, "the reply %s is a well-formed positive answer of the terminal, but handleSequence %s having posted %s: %s is never posted, the capability the terminal advertised is not reported (Can*() under-reports and the fallback is used on a terminal that does not need it)", f.name, end, posted, w)
			}
		}
	}
}

// ---------------------------------------------------------------------------------------------------------------
// C07.c by effect: when the guard-key formulation of c07Chain does not recognise the context of a post site (table of
// events, event chosen by a helper, payload cut another way), handleSequence is evaluated over a grid of concrete
// sequences around the reply forms and the capability events it posts are compared, point by point, with the
// reference decoding of the replies (both directions: posted where the reference says so, and nowhere else). The grid
// is built from the reference forms AND from every integer / string constant that occurs in handleSequence, in the
// functions of the package through which it can reach PostEvent*, and in the package-level tables they read — so a
// guard on a value the reference does not know (`case 2048:` posting synchronizedUpdates) is exercised as well.

type c07kGridResult struct {
	why  string            // != "": the grid could not be evaluated at all
	runs int               // decided runs
	hit  map[string]int    // event -> decided runs in which the reference expects it and it is posted
	bad  map[string]string // event -> first counter-example
}

var c07kCapEvents = map[string]bool{"synchronizedUpdates": true, "unicodeCoreCap": true, "notifyColorChange": true, "capabilitySixel": true,
	"kittyKeyboard": true, "kittyGraphics": true, "truecolor": true, "styledUnderlines": true, "capabilityOsc4": true, "capabilityOsc10": true,
	"capabilityOsc11": true, "textAreaPix": true, "textAreaChar": true, "inBandResizeEvents": true}

// c07kReference: the capability events the reply f establishes (xterm ctlseqs / kitty protocol documents, with the
// acceptance conditions of the library's decoder: DECRPM is recognised by its final byte and parameters alone).
func c07kReference(f c07kForm) map[string]bool {
	out := map[string]bool{}
	p := func(i int) (int64, bool) {
		if i < len(f.csi) && len(f.csi[i]) > 0 {
			return f.csi[i][0], true
		}
		return 0, false
	}
	switch f.kind {
	case "CSI":
		p0, _ := p(0)
		p1, _ := p(1)
		switch f.final {
		case 'c':
			if f.inter == "?" {
				for i := range f.csi {
					if v, ok := p(i); ok && v == 4 {
						out["capabilitySixel"] = true
					}
				}
			}
		case 'S':
			if f.inter == "?" && len(f.csi) >= 3 && p0 == 2 && p1 == 0 {
				out["capabilitySixel"] = true
			}
		case 'y':
			if len(f.csi) >= 2 && (p1 == 1 || p1 == 2) {
				switch p0 {
				case 2026:
					out["synchronizedUpdates"] = true
				case 2027:
					out["unicodeCoreCap"] = true
				case 2031:
					out["notifyColorChange"] = true
				}
			}
		case 'u':
			if f.inter == "?" {
				out["kittyKeyboard"] = true
			}
		case 't':
			if len(f.csi) >= 3 {
				switch {
				case p0 == 4:
					out["textAreaPix"] = true
				case p0 == 8:
					out["textAreaChar"] = true
				case p0 == 48 && len(f.csi) == 5:
					out["inBandResizeEvents"] = true
				}
			}
		}
	case "DCS":
		in0 := rune(0)
		if len(f.inter) > 0 {
			in0 = rune(f.inter[0])
		}
		switch {
		case f.final == 'r' && in0 == '+' && len(f.dcs) >= 1 && f.dcs[0] != 0:
			switch strings.Split(f.data, "=")[0] {
			case c07kHex("Smulx"):
				out["styledUnderlines"] = true
			case c07kHex("RGB"):
				out["truecolor"] = true
			}
		case f.final == '|' && in0 == '!' && f.data == c07kHex("~VTE"):
			out["styledUnderlines"] = true
		}
	case "APC":
		if strings.HasPrefix(f.data, "G") {
			out["kittyGraphics"] = true
		}
	case "OSC":
		for pre, ev := range map[string]string{"4": "capabilityOsc4", "10": "capabilityOsc10", "11": "capabilityOsc11"} {
			if strings.HasPrefix(f.data, pre) {
				out[ev] = true
			}
		}
	}
	return out
}

func (f c07kForm) String() string {
	switch f.kind {
	case "CSI":
		s := "CSI " + f.inter
		for i, p := range f.csi {
			if i > 0 {
				s += ";"
			}
			for j, v := range p {
				if j > 0 {
					s += ":"
				}
				s += fmt.Sprint(v)
			}
		}
		return s + " " + string(f.final)
	case "DCS":
		s := "DCS "
		for i, v := range f.dcs {
			if i > 0 {
				s += ";"
			}
			s += fmt.Sprint(v)
		}
		return s + " " + f.inter + " " + string(f.final) + " " + f.data + " ST"
	}
	return f.kind + " " + f.data + " ST"
}

// c07kHarvest: the integer and string constants of handleSequence, of the package functions on a call path from it to
// PostEvent*, and of the package-level tables those functions read.
func c07kHarvest(h *c07kHarness) (ints []int64, strs []string) {
	c := h.c
	info := h.hs.Pkg.TypesInfo
	iset := map[int64]bool{}
	sset := map[string]bool{}
	var scanExpr func(n ast.Node, budget *int)
	seenVar := map[types.Object]bool{}
	scanExpr = func(n ast.Node, budget *int) {
		ast.Inspect(n, func(m ast.Node) bool {
			if *budget <= 0 {
				return false
			}
			e, ok := m.(ast.Expr)
			if !ok {
				return true
			}
			if tv, ok := info.Types[e]; ok && tv.Value != nil {
				switch tv.Value.Kind() {
				case constant.Int:
					if v, ok := constant.Int64Val(tv.Value); ok && v >= 0 && v <= 0xFFFF {
						iset[v] = true
						*budget--
					}
				case constant.String:
					if s := constant.StringVal(tv.Value); len(s) <= 16 && !strings.ContainsAny(s, "%\n") {
						sset[s] = true
						*budget--
					}
				}
				return false
			}
			if id, ok := e.(*ast.Ident); ok {
				if v, ok := info.Uses[id].(*types.Var); ok && v.Parent() == h.hs.Pkg.Types.Scope() && !seenVar[v] {
					seenVar[v] = true
					if init := h.vm.ginit[v]; init != nil {
						b := 120
						scanExpr(init, &b)
					}
				}
			}
			return true
		})
	}
	// functions through which a post can be reached
	memo := map[*FuncInfo]int{} // 1 = in progress / no, 2 = yes
	var reaches func(fi *FuncInfo, depth int) bool
	reaches = func(fi *FuncInfo, depth int) bool {
		if fi == nil || fi.Decl.Body == nil || depth > 5 {
			return false
		}
		if st := memo[fi]; st != 0 {
			return st == 2
		}
		memo[fi] = 1
		yes := false
		ast.Inspect(fi.Decl.Body, func(m ast.Node) bool {
			call, ok := m.(*ast.CallExpr)
			if !ok {
				return true
			}
			fn := calleeOf(info, call)
			if fn == nil {
				return true
			}
			if fn.Name() == "PostEventBlocking" || fn.Name() == "PostEvent" {
				yes = true
				return true
			}
			if cf := c.P.FuncOfObj(fn); cf != nil && cf.Pkg == fi.Pkg && cf != fi && reaches(cf, depth+1) {
				yes = true
			}
			return true
		})
		if yes {
			memo[fi] = 2
		}
		return yes
	}
	reaches(h.hs, 0)
	memo[h.hs] = 2
	for fi, st := range memo {
		if st == 2 && fi.Decl.Body != nil {
			b := 400
			scanExpr(fi.Decl.Body, &b)
		}
	}
	for v := range iset {
		ints = append(ints, v)
	}
	sort.Slice(ints, func(i, j int) bool { return ints[i] < ints[j] })
	for s := range sset {
		strs = append(strs, s)
	}
	sort.Strings(strs)
	return ints, strs
}

func c07kGrid(c *Ctx) *c07kGridResult {
	res := &c07kGridResult{hit: map[string]int{}, bad: map[string]string{}}
	h, why := c07kNewHarness(c)
	if h == nil {
		res.why = why
		return res
	}
	defer h.done()
	ints, strs := c07kHarvest(h)
	addI := func(set []int64, v ...int64) []int64 {
		for _, x := range v {
			dup := false
			for _, y := range set {
				if y == x {
					dup = true
				}
			}
			if !dup {
				set = append(set, x)
			}
		}
		return set
	}
	finals := addI(nil, 'c', 'S', 'y', 'u', 't', 'n', 'r', '|', 'q')
	p0s := addI(nil, 0, 1, 2, 3, 4, 8, 48, 62, 997, 2026, 2027, 2031)
	inters := []string{"", "?", "?$", ">", "<", "$"}
	dinters := []string{"", "+", "!", ">", "$", "?"}
	base0 := append([]int64{}, p0s...)
	// second parameter (DECRPM status 0..4, XTSMGRAPHICS status 0..3): every small value, every small constant of the
	// decoder with every first parameter, and every larger constant of the decoder with the reference first parameters
	p1s := addI(nil, 0, 1, 2, 3, 4, 5)
	var p1big []int64
	for _, v := range ints {
		if v >= 0x40 && v <= 0x7E && len(finals) < 40 {
			finals = addI(finals, v)
		}
		if len(p0s) < 70 {
			p0s = addI(p0s, v)
		}
		if v <= 16 {
			p1s = addI(p1s, v)
		} else if len(p1big) < 60 {
			p1big = addI(p1big, v)
		}
	}
	one := func(v ...int64) [][]int64 {
		out := [][]int64{}
		for _, x := range v {
			out = append(out, []int64{x})
		}
		return out
	}
	var grid []c07kForm
	for _, fin := range finals {
		for _, in := range inters {
			grid = append(grid, c07kForm{kind: "CSI", inter: in, final: rune(fin)})
			for _, p0 := range p0s {
				grid = append(grid, c07kForm{kind: "CSI", inter: in, final: rune(fin), csi: one(p0)},
					c07kForm{kind: "CSI", inter: in, final: rune(fin), csi: one(62, p0)},
					c07kForm{kind: "CSI", inter: in, final: rune(fin), csi: one(62, 9, p0)})
				for _, p1 := range p1s {
					grid = append(grid, c07kForm{kind: "CSI", inter: in, final: rune(fin), csi: one(p0, p1)},
						c07kForm{kind: "CSI", inter: in, final: rune(fin), csi: one(p0, p1, 7)})
				}
				grid = append(grid, c07kForm{kind: "CSI", inter: in, final: rune(fin), csi: one(p0, 24, 80, 600)},
					c07kForm{kind: "CSI", inter: in, final: rune(fin), csi: one(p0, 24, 80, 600, 800)})
			}
		}
	}
	for _, fin := range finals {
		for _, in := range []string{"", "?", "?$"} {
			for _, p0 := range base0 {
				for _, p1 := range p1big {
					grid = append(grid, c07kForm{kind: "CSI", inter: in, final: rune(fin), csi: one(p0, p1)},
						c07kForm{kind: "CSI", inter: in, final: rune(fin), csi: one(p0, p1, 7)})
				}
			}
		}
	}
	datas := []string{"", "x", "="}
	for _, s := range append([]string{"Smulx", "RGB", "~VTE", "Su", "Tc"}, strs...) {
		for _, d := range []string{s, c07kHex(s), strings.ToLower(c07kHex(s))} {
			if len(d) > 24 {
				continue
			}
			datas = append(datas, d, d+"=", d+"="+c07kHex("8"), "="+d, "1"+d)
		}
	}
	for _, fin := range finals {
		for _, in := range dinters {
			for _, ps := range [][]int64{nil, {0}, {1}, {2}} {
				for _, d := range datas {
					grid = append(grid, c07kForm{kind: "DCS", inter: in, final: rune(fin), dcs: ps, data: d})
				}
			}
		}
	}
	for _, s := range append([]string{"", "G", "Gi=1;OK", "g", " G", "X"}, strs...) {
		grid = append(grid, c07kForm{kind: "APC", data: s})
	}
	for _, s := range append([]string{"", "4", "10", "11", "1", "0", "5", "12", "104", "110", "176;app", "52;c;QQ=="}, strs...) {
		grid = append(grid, c07kForm{kind: "OSC", data: s}, c07kForm{kind: "OSC", data: s + ";rgb:0000/0000/0000"}, c07kForm{kind: "OSC", data: s + ";0;rgb:0000/0000/0000"})
	}
	for _, f := range grid {
		got, er, _ := h.run(f)
		want := c07kReference(f)
		posted := map[string]bool{}
		for _, g := range got {
			if c07kCapEvents[g] {
				posted[g] = true
			}
		}
		// over-reporting is visible even in a run the interpreter could not finish
		for g := range posted {
			if !want[g] && res.bad[g] == "" {
				res.bad[g] = fmt.Sprintf("%s posts %s, but this sequence is not the reply that advertises it", f, g)
			}
		}
		if er != "" {
			continue
		}
		res.runs++
		for w := range want {
			if posted[w] {
				res.hit[w]++
			} else if res.bad[w] == "" {
				res.bad[w] = fmt.Sprintf("%s is a positive reply for %s, but the event is not posted", f, w)
			}
		}
	}
	return res
}
