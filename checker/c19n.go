package main

// C19.n — widgets/pager: every newline of the text ends a line.
//
// "The pager presents every line of its text": a text with k consecutive newlines has k line ends, blank lines
// included. The layout function walks the grapheme clusters; a cluster that is a newline must close the pending
// line (store it in the lines). The one liberty a layout may take is to absorb THE newline that directly follows
// a wrap (the line was closed because it filled the window; that newline terminates the line just closed). The
// rule follows the layout function's supergraph with the predicate abstraction of c19_flow.go (the function's
// own flags - "wrapped", "pendingBreak", ... - are tracked as predicates, so that the verdict is path sensitive
// in them) and three ghost bits:
//
//	W  the last line event was a line end in an iteration that is not a newline iteration (a wrap), and no cell
//	   was appended and no newline seen since: the next newline may be absorbed
//	D  one line end is owed: a newline was seen that neither ended a line nor was excused by W
//	I  the current iteration of the cluster loop is known to be a newline iteration and has been accounted for
//
// Events: an EDGE of a branch whose condition decides "this cluster is a newline" in the affirmative (once per
// iteration; the test may be written in any polarity, through a flag variable, a conjunct or a predicate helper):
// W set -> excused, W cleared; else D set -> VIOLATION (two newlines, fewer than two line ends between the first and
// here, and the first did not follow a wrap); else D := 1. A line end (lines = append(lines, l), also into a local
// slice that is stored in Model.lines): D set -> D := 0 (the line end owed is delivered, possibly one iteration
// late), else W := not I. An append of a cell: W := 0. Entering a loop body: I := 0.
//
// The condition is necessary: on the reported path the text contains two newline clusters in a row and the lines
// hold at most one line end for them although no wrap preceded the first - a blank line of the text is not
// presented. It says nothing about how the line end is produced, in which order the branch is written, or whether
// the work is done in helpers (they are part of the supergraph).

import (
	"go/ast"
	"go/token"
	"go/types"
	"sort"
	"strings"
)

func init() {
	registerExtra("C19", func(c *Ctx) {
		// the obligations are produced by c19PagerNewlines, called from c19Pager for every layout function
		c.Clauses = append(c.Clauses, "C19.n widgets/pager: every newline cluster ends a line: on no path through the layout loop do two consecutive newlines produce fewer than two line ends (one, when the first newline directly follows a wrap and is absorbed by it)")
		c.expect("C19.n", 1)
	})
}

const (
	c19nW = 1 << (c19GhostShift + iota)
	c19nD
	c19nI
)

// c19NLAtom: e (without && and ||, unless both operands agree) is true exactly when / exactly unless the cluster
// is a newline: +1 / -1; 0 when e is not a newline test. Call in the alias context of the node.
func c19NLAtom(fl *c19Flow, fr *c19Frame, e ast.Expr, depth int) int {
	info := fl.info
	e = unparen(e)
	if depth > 4 {
		return 0
	}
	switch t := e.(type) {
	case *ast.UnaryExpr:
		if t.Op == token.NOT {
			return -c19NLAtom(fl, fr, t.X, depth+1)
		}
		return 0
	case *ast.BinaryExpr:
		switch t.Op {
		case token.LAND, token.LOR:
			// "\n" || "\r\n" enumerations and the like: both operands are newline tests of the same polarity
			a, b := c19NLAtom(fl, fr, t.X, depth+1), c19NLAtom(fl, fr, t.Y, depth+1)
			if a != 0 && a == b {
				return a
			}
			return 0
		case token.EQL, token.NEQ:
			if c19IsBoolType(info.TypeOf(t.X)) {
				// flag == true / flag != false
				for k, side := range []ast.Expr{t.X, t.Y} {
					if v, ok := c19BoolConst(info, side); ok {
						other := []ast.Expr{t.Y, t.X}[k]
						p := c19NLAtom(fl, fr, other, depth+1)
						if !v {
							p = -p
						}
						if t.Op == token.NEQ {
							p = -p
						}
						return p
					}
				}
				return 0
			}
		}
		if !c19MentionsNewline(info, t) {
			return 0
		}
		// comparisons: text == "\n"; strings.Index*(text, '\n') compared with 0 / -1
		for k, side := range []ast.Expr{t.X, t.Y} {
			other := []ast.Expr{t.Y, t.X}[k]
			if s, ok := constString(info, side); ok && strings.Contains(s, "\n") {
				switch t.Op {
				case token.EQL:
					return 1
				case token.NEQ:
					return -1
				}
				return 0
			}
			if v, ok := constInt(info, side); ok {
				if _, isCall := unparen(other).(*ast.CallExpr); !isCall || !c19MentionsNewline(info, other) {
					continue
				}
				op := t.Op
				if k == 0 { // const OP call  ->  call OP' const
					switch op {
					case token.LSS:
						op = token.GTR
					case token.LEQ:
						op = token.GEQ
					case token.GTR:
						op = token.LSS
					case token.GEQ:
						op = token.LEQ
					}
				}
				// the call yields -1 when there is no newline, an index >= 0 otherwise
				switch {
				case (op == token.GEQ && v == 0) || (op == token.GTR && v == -1) || (op == token.NEQ && v == -1):
					return 1
				case (op == token.LSS && v == 0) || (op == token.LEQ && v == -1) || (op == token.EQL && v == -1):
					return -1
				}
				return 0
			}
		}
		return 0
	case *ast.CallExpr:
		if !c19IsBoolType(info.TypeOf(t)) {
			return 0
		}
		if c19MentionsNewline(info, t) {
			return 1 // strings.ContainsRune(text, '\n'), strings.Contains(text, "\n"), uniseg.HasTrailingLineBreak...(text)
		}
		// a predicate helper of the package: func isBreak(ch vaxis.Character) bool { return <newline test> }
		if ret, hfr, bind := c19PureHelper(info, t); ret != nil && c19IsBoolType(info.TypeOf(ret)) {
			oldC, oldB := c19Ctx, c19Bind
			c19Ctx, c19Bind = hfr, bind
			c19PureDepth++
			p := c19NLAtom(fl, hfr, ret, depth+1)
			c19PureDepth--
			c19Ctx, c19Bind = oldC, oldB
			return p
		}
		return 0
	case *ast.Ident:
		// a flag variable: every value it is ever assigned is a newline test of one polarity
		v, ok := info.ObjectOf(t).(*types.Var)
		if !ok || v.IsField() || !c19IsBoolType(v.Type()) || fr == nil || fr.fi == nil || v.Parent() == fr.fi.Pkg.Types.Scope() {
			return 0
		}
		pol, bad := 0, false
		see := func(rhs ast.Expr) {
			p := c19NLAtom(fl, fr, rhs, depth+1)
			if p == 0 || (pol != 0 && p != pol) {
				bad = true
			}
			pol = p
		}
		is := func(x ast.Expr) bool {
			id, ok := unparen(x).(*ast.Ident)
			return ok && info.ObjectOf(id) == types.Object(v)
		}
		ast.Inspect(fr.fi.Decl, func(m ast.Node) bool {
			switch st := m.(type) {
			case *ast.AssignStmt:
				for i, lh := range st.Lhs {
					if is(lh) {
						if len(st.Lhs) == len(st.Rhs) && (st.Tok == token.ASSIGN || st.Tok == token.DEFINE) {
							see(st.Rhs[i])
						} else {
							bad = true
						}
					}
				}
			case *ast.ValueSpec:
				for i, name := range st.Names {
					if is(name) && len(st.Values) > 0 {
						if len(st.Values) == len(st.Names) {
							see(st.Values[i])
						} else {
							bad = true
						}
					}
				}
			case *ast.UnaryExpr:
				if st.Op == token.AND && is(st.X) {
					bad = true
				}
			case *ast.Field:
				for _, name := range st.Names {
					if is(name) {
						bad = true // a parameter: its value comes from elsewhere
					}
				}
			}
			return !bad
		})
		if bad {
			return 0
		}
		return pol
	}
	return 0
}

// c19MentionsNewline: the expression contains a literal with a line feed in it or calls a line-break test.
func c19MentionsNewline(info *types.Info, e ast.Node) bool {
	return containsNode(e, func(m ast.Node) bool {
		switch t := m.(type) {
		case *ast.BasicLit:
			if s, isStr := constString(info, t); isStr && strings.Contains(s, "\n") {
				return true
			}
			if v, isInt := constInt(info, t); isInt && v == '\n' && t.Kind == token.CHAR {
				return true
			}
		case *ast.CallExpr:
			if f := calleeOf(info, t); f != nil && strings.Contains(f.Name(), "LineBreak") {
				return true
			}
		}
		return false
	})
}

// c19NLOnEdge: what taking the edge (cond evaluates to truth) says about the cluster: +1 it is a newline, -1 it is
// not, 0 nothing.
func c19NLOnEdge(fl *c19Flow, fr *c19Frame, cond ast.Expr, truth bool, depth int) int {
	cond = unparen(cond)
	if depth > 6 {
		return 0
	}
	if p := c19NLAtom(fl, fr, cond, 0); p != 0 {
		if truth {
			return p
		}
		return -p
	}
	switch t := cond.(type) {
	case *ast.UnaryExpr:
		if t.Op == token.NOT {
			return c19NLOnEdge(fl, fr, t.X, !truth, depth+1)
		}
	case *ast.BinaryExpr:
		if (t.Op == token.LAND && truth) || (t.Op == token.LOR && !truth) {
			// every operand has the value `truth`
			a, b := c19NLOnEdge(fl, fr, t.X, truth, depth+1), c19NLOnEdge(fl, fr, t.Y, truth, depth+1)
			switch {
			case a != 0 && b != 0 && a != b:
				return 0 // contradictory: the edge is dead
			case a != 0:
				return a
			}
			return b
		}
	}
	return 0
}

func c19PagerNewlines(c *Ctx, pi *c19PagerInfo, fi *FuncInfo) {
	key := fi.Name + "/every newline ends a line"
	type nlEdge struct {
		b *c19SBlk
		k int
	}
	type attempt struct {
		fl    *c19Flow
		edges map[nlEdge]bool
		first token.Pos
	}
	// seedMode 0: every branch condition of the function is tracked; 1: the boolean flags only; 2: nothing (path
	// insensitive: more paths, never fewer)
	build := func(seedMode int) *attempt {
		fl := c19NewFlow(c, fi, c19WithLen(c19TypeBounds(c, pi.pk)), pi.p.allow)
		at := &attempt{fl: fl, edges: map[nlEdge]bool{}}
		for _, b := range fl.blks {
			if b.cnd == nil || b.cnd.Tag != nil || b.cnd.Alts != nil || len(b.succs) != 2 {
				continue
			}
			c19With(b.fr, func() {
				for k, truth := range []bool{true, false} {
					if c19NLOnEdge(fl, b.fr, b.cnd.Expr, truth, 0) > 0 {
						at.edges[nlEdge{b, k}] = true
						if !at.first.IsValid() || b.cnd.Expr.Pos() < at.first {
							at.first = b.cnd.Expr.Pos()
						}
					}
				}
			})
			if seedMode == 2 {
				continue
			}
			if f := fl.formOf(b); f != nil {
				ps := map[*c19Pred]bool{}
				f.preds(ps)
				for p := range ps {
					if seedMode == 0 || p.kind == "bool" {
						fl.goal(p.atom())
					}
				}
			}
		}
		return at
	}
	var at *attempt
	var witness string
	var witPos token.Pos
	for mode := 0; mode <= 2; mode++ {
		at = build(mode)
		if len(at.edges) == 0 {
			c.undecided("C19.n", key, fi.Decl.Pos(), "no branch that decides whether a cluster is a newline was found in %s or the helpers inlined in it", fi.Name)
			return
		}
		fl := at.fl
		pi.builders = pi.findBuilders(fl)
		evCache := map[*c19SNode][]c19LineEvent{}
		eventsOf := func(sn *c19SNode) []c19LineEvent {
			if evs, ok := evCache[sn]; ok {
				return evs
			}
			var evs []c19LineEvent
			c19With(sn.fr, func() { evs = pi.events(sn) })
			evCache[sn] = evs
			return evs
		}
		nFlush := 0
		for _, b := range fl.blks {
			for _, sn := range b.nodes {
				for _, ev := range eventsOf(sn) {
					if ev.kind == "flush" {
						nFlush++
					}
				}
			}
		}
		if nFlush == 0 {
			c.undecided("C19.n", key, fi.Decl.Pos(), "no store of a line in the lines was recognised in %s", fi.Name)
			return
		}
		fl.ghost = func(sn *c19SNode, st uint32) []uint32 {
			evs := eventsOf(sn)
			if len(evs) == 0 {
				return nil
			}
			out := st
			for _, ev := range evs {
				switch ev.kind {
				case "flush":
					if out&c19nD != 0 {
						out &^= c19nD | c19nW // the line end that was owed
					} else if out&c19nI != 0 {
						out &^= c19nW // a line end of a newline iteration
					} else {
						out |= c19nW // a line end of a cell iteration: a wrap
					}
				case "append":
					out &^= c19nW
				}
			}
			if out == st {
				return nil
			}
			return []uint32{out}
		}
		witness, witPos = "", token.NoPos
		edges := at.edges
		fl.ghostEdge = func(b *c19SBlk, k int, s *c19SBlk, st uint32) uint32 {
			if edges[nlEdge{b, k}] && st&c19nI == 0 {
				st |= c19nI
				switch {
				case st&c19nW != 0:
					st &^= c19nW // the newline directly after a wrap may be absorbed
				case st&c19nD != 0:
					if witness == "" || b.cnd.Expr.Pos() < witPos {
						witness, witPos = fl.describe(st), b.cnd.Expr.Pos()
					}
				default:
					st |= c19nD
				}
			}
			if s.loop {
				st &^= c19nI
			}
			return st
		}
		fl.solve()
		if fl.err == "" {
			break
		}
		if mode == 2 {
			c.undecided("C19.n", key, fi.Decl.Pos(), "the flow analysis does not understand %s: %s", fi.Name, fl.err)
			return
		}
	}
	fl := at.fl
	// every newline edge must have been reached (otherwise the rule's model of the guards is wrong)
	var unreached []string
	for e := range at.edges {
		if len(e.b.in) == 0 {
			unreached = append(unreached, types.ExprString(e.b.cnd.Expr))
		}
	}
	sort.Strings(unreached)
	if len(unreached) == len(at.edges) {
		c.undecided("C19.n", key, at.first, "no abstract state reaches the newline test %s of %s", unreached[0], fi.Name)
		return
	}
	pos := at.first
	if witPos.IsValid() {
		pos = witPos
	}
	_ = fl
	c.check(witness == "", "C19.n", key, pos,
		"on every path through the layout loop a newline cluster ends a line (stores the pending line), or is the one newline directly after a wrap, or the line end it owes is stored before the next newline",
		"a newline cluster can pass through the layout loop without a line end although the newline before it has not produced its line end either and did not follow a wrap ("+witness+"): two consecutive newlines yield fewer than two line ends (the state that lets the first newline be absorbed is still in force for the second), so blank lines of the text, e.g. the empty line of \"abc\\n\\nxyz\" after a line that fills the window exactly, are never presented")
}
