package main

// C14, fifth robustness round: slices that are FILLED BY A LOOP from Children.
//
// Surface.render may paint its children through an auxiliary local slice instead of
// sorting Children in place (the child list is kept as the last frame and addressed by
// position, so a maintainer may not want to reorder it):
//
//   * an INDEX PERMUTATION  `order := make([]int, len(S)); for i := range order { order[i] = i }`
//     (or `var order []int; for i := range S { order = append(order, i) }`), sorted, and
//     painted as S[order[k]];
//   * an ELEMENT / POINTER copy made by a loop
//     `ptrs := make([]*SubSurface, len(S)); for i := range S { ptrs[i] = &S[i] }`.
//
// The recogniser (childrenFills) proves, structurally, that after the fill loop the local
// holds exactly one entry per index of S, in index order: one declaration (sized by
// len(S), or empty), one fill statement that is a direct statement of a loop over every
// index of S (or of the sized local) whose body cannot leave early, index and value
// built from the loop key, no other write, alias or escape of the local except to the
// sort/slices packages. What the sort then does with it is judged by judgeSort: for an
// index permutation the keys of the less function are S[order[i]].ZIndex and
// S[order[j]].ZIndex (sort.Slice/SliceStable, sort.Sort/Stable: i, j are POSITIONS of the
// permutation) or S[a].ZIndex and S[b].ZIndex (slices.SortFunc/SortStableFunc: a, b are
// the ELEMENTS, i.e. indexes of S). A less function that reads S[i].ZIndex, S[j].ZIndex
// with the positions compares children that are not the ones being ordered: violated.

import (
	"go/ast"
	"go/token"
	"go/types"
)

type c14Fill struct {
	obj  types.Object
	term string
	kind string   // "index": local[k] = k;  "elem": local[k] = S[k] or &S[k]
	head ast.Node // CFG node evaluated exactly once, when the fill loop is entered
	loop ast.Node // the fill loop
}

// c14Painted is a local slice through which the children are painted: a fresh copy of
// Children ("copy": the child of step k is local[k]) or an index permutation ("index":
// the child of step k is Children[local[k]]), made in render itself or in a helper that
// returns it.
type c14Painted struct {
	kind string
	obj  types.Object
	term string   // term of the local in the scope it is made in (what a sort there names)
	use  string   // term under which render sees it (what the child loop ranges over)
	made c14At    // the event after which it holds the elements / indexes of Children
	loop ast.Node // the fill loop, if it is filled by one
}

// c14Within: is n written inside the statement outer?
func c14Within(n, outer ast.Node) bool {
	return n != nil && outer != nil && outer.Pos() <= n.Pos() && n.End() <= outer.End()
}

// c14InLoopOrLit: is n nested in a loop or a function literal of the function fd?
func c14InLoopOrLit(par map[ast.Node]ast.Node, n ast.Node, fd *ast.FuncDecl) bool {
	for cur := par[n]; cur != nil && cur != ast.Node(fd); cur = par[cur] {
		switch cur.(type) {
		case *ast.ForStmt, *ast.RangeStmt, *ast.FuncLit:
			return true
		}
	}
	return false
}

func (e *c14Env) childrenFills(sc *c14Scope, src string) []c14Fill {
	info := sc.info
	par := e.c.P.Parents(sc.pkg)
	var out []c14Fill
	builtin := func(call *ast.CallExpr, name string) bool {
		b, ok := info.Uses[c14FunIdent(call)].(*types.Builtin)
		return ok && b.Name() == name
	}
	emptyInit := func(x ast.Expr) bool {
		if x == nil {
			return true
		}
		x = unparen(x)
		if tv, ok := info.Types[x]; ok && tv.IsNil() {
			return true
		}
		switch t := x.(type) {
		case *ast.CompositeLit:
			return len(t.Elts) == 0
		case *ast.CallExpr:
			if tv, ok := info.Types[t.Fun]; ok && tv.IsType() && len(t.Args) == 1 {
				if av, ok := info.Types[unparen(t.Args[0])]; ok && av.IsNil() {
					return true
				}
			}
			if builtin(t, "make") && len(t.Args) >= 2 {
				if k, isC := constInt(info, t.Args[1]); isC && k == 0 {
					return true
				}
			}
		}
		return false
	}
	consider := func(id *ast.Ident) {
		obj := info.Defs[id]
		if obj == nil {
			return
		}
		sl, ok := obj.Type().Underlying().(*types.Slice)
		if !ok {
			return
		}
		kind, ptrElem := "", false
		switch {
		case c14IsInt(sl.Elem()):
			kind = "index"
		case types.Identical(sl.Elem(), e.subT):
			kind = "elem"
		default:
			if p, ok := sl.Elem().(*types.Pointer); ok && types.Identical(p.Elem(), e.subT) {
				kind, ptrElem = "elem", true
			}
		}
		if kind == "" {
			return
		}
		defs, dirty := c14Defs(info, sc.body, obj)
		if dirty || len(defs) == 0 || len(defs) > 2 {
			return
		}
		own := sc.v(id).term()
		// (1) the declaration: sized by len(S), or empty
		sized := false
		if call, ok := unparenOrNil(defs[0].rhs).(*ast.CallExpr); ok && defs[0].tuple < 0 && builtin(call, "make") && len(call.Args) >= 2 && sc.v(call.Args[1]).term() == "len("+src+")" {
			sized = true
		} else if defs[0].tuple >= 0 || !emptyInit(defs[0].rhs) {
			return
		}
		if c14InLoopOrLit(par, defs[0].at, sc.fd) {
			return
		}
		// (2) the fill statement
		var stores []*ast.AssignStmt
		clean := true
		ast.Inspect(sc.body, func(n ast.Node) bool {
			switch t := n.(type) {
			case *ast.AssignStmt:
				for _, l := range t.Lhs {
					if _, isId := unparen(l).(*ast.Ident); !isId && rootObj(info, l) == obj {
						stores = append(stores, t)
					}
				}
			case *ast.IncDecStmt:
				if rootObj(info, t.X) == obj {
					clean = false
				}
			case *ast.UnaryExpr:
				if t.Op == token.AND && rootObj(info, t.X) == obj {
					clean = false
				}
			case *ast.SliceExpr:
				if rootObj(info, t.X) == obj {
					clean = false
				}
			}
			return true
		})
		if !clean {
			return
		}
		var fill *ast.AssignStmt
		var idxX, valX ast.Expr
		if sized {
			if len(defs) != 1 || len(stores) != 1 {
				return
			}
			fill = stores[0]
			if fill.Tok != token.ASSIGN || len(fill.Lhs) != 1 || len(fill.Rhs) != 1 {
				return
			}
			ix, ok := unparen(fill.Lhs[0]).(*ast.IndexExpr)
			if !ok || c14IdentObj(info, ix.X) != obj {
				return
			}
			idxX, valX = ix.Index, fill.Rhs[0]
		} else {
			if len(defs) != 2 || len(stores) != 0 {
				return
			}
			as, ok := defs[1].at.(*ast.AssignStmt)
			if !ok || as.Tok != token.ASSIGN || len(as.Lhs) != 1 || len(as.Rhs) != 1 {
				return
			}
			call, ok := unparen(as.Rhs[0]).(*ast.CallExpr)
			if !ok || !builtin(call, "append") || call.Ellipsis.IsValid() || len(call.Args) != 2 || c14IdentObj(info, call.Args[0]) != obj {
				return
			}
			fill, valX = as, call.Args[1]
		}
		// (3) the fill loop: the fill is a direct statement of a loop over every index of S
		// (or of the sized local), whose body cannot leave early and does not touch the key
		body, _ := par[fill].(*ast.BlockStmt)
		if body == nil {
			return
		}
		var loop, head ast.Node
		var key string
		var keyObj types.Object
		slices := []string{src}
		if sized {
			slices = append(slices, own)
		}
		switch l := par[body].(type) {
		case *ast.RangeStmt:
			if l.Body != body {
				return
			}
			xt := sc.v(l.X).term()
			for _, s := range slices {
				if xt == s {
					loop, head, key = l, l.X, sc.keyID(l)
				}
			}
			keyObj = c14IdentObj(info, l.Key)
			if l.Tok != token.DEFINE {
				return
			}
		case *ast.ForStmt:
			if l.Body != body {
				return
			}
			for _, s := range slices {
				if k, ok := sc.indexLoop(l, s); ok && loop == nil {
					loop, head, key = l, l.Init, k
				}
			}
		}
		if loop == nil || c14InLoopOrLit(par, loop, sc.fd) {
			return
		}
		early := false
		inspectNoLit(body, func(n ast.Node) bool {
			switch n.(type) {
			case *ast.BranchStmt, *ast.ReturnStmt, *ast.GoStmt, *ast.DeferStmt:
				early = true
			}
			return !early
		})
		if early {
			return
		}
		if keyObj != nil {
			if d, dirty := c14Defs(info, body, keyObj); dirty || len(d) > 0 {
				return
			}
		}
		// (4) index and value come from the loop key
		if idxX != nil && sc.v(idxX).term() != key {
			return
		}
		switch {
		case kind == "index":
			if sc.v(valX).term() != key {
				return
			}
		case ptrElem:
			// &S[k] — not the address of the range value variable (one variable for all
			// iterations before Go 1.22)
			u, ok := unparen(valX).(*ast.UnaryExpr)
			if !ok || u.Op != token.AND {
				return
			}
			if _, isIx := unparen(u.X).(*ast.IndexExpr); !isIx || sc.v(u.X).term() != src+"["+key+"]" {
				return
			}
		default:
			if sc.v(valX).term() != src+"["+key+"]" {
				return
			}
		}
		// (5) every other use of the local reads it, or hands it to sort/slices
		if !e.usesOK(sc, obj, fill, sc.site != nil, 0) {
			return
		}
		out = append(out, c14Fill{obj: obj, term: own, kind: kind, head: head, loop: loop})
	}
	inspectNoLit(sc.body, func(n ast.Node) bool {
		switch t := n.(type) {
		case *ast.AssignStmt:
			if t.Tok == token.DEFINE {
				for _, l := range t.Lhs {
					if id, ok := l.(*ast.Ident); ok {
						consider(id)
					}
				}
			}
		case *ast.ValueSpec:
			for _, id := range t.Names {
				consider(id)
			}
		}
		return true
	})
	return out
}

// usesOK: every use of the local slice obj in the scope reads it (index, range, len/cap),
// is the fill statement, hands it to the sort/slices packages (directly or in a wrapper
// literal), hands it to a repository function that itself only does these things with
// the parameter, or (allowReturn) returns it. It is never stored into, sliced, aliased or
// captured by address.
func (e *c14Env) usesOK(sc *c14Scope, obj types.Object, fill *ast.AssignStmt, allowReturn bool, depth int) bool {
	if obj == nil || depth > 2 {
		return false
	}
	info := sc.info
	par := e.c.P.Parents(sc.pkg)
	builtin := func(call *ast.CallExpr, name string) bool {
		b, ok := info.Uses[c14FunIdent(call)].(*types.Builtin)
		return ok && b.Name() == name
	}
	up := func(n ast.Node) ast.Node {
		p := par[n]
		for {
			if pe, ok := p.(*ast.ParenExpr); ok {
				p = par[pe]
				continue
			}
			return p
		}
	}
	sortArg := func(x ast.Node) bool { // x is an argument of a sort/slices function
		p := up(x)
		if u, ok := p.(*ast.UnaryExpr); ok && u.Op == token.AND {
			p = up(u)
		}
		call, ok := p.(*ast.CallExpr)
		return ok && c14IsSortPkg(calleeOf(info, call))
	}
	okUses := true
	ast.Inspect(sc.body, func(n ast.Node) bool {
		if !okUses {
			return false
		}
		switch t := n.(type) {
		case *ast.IncDecStmt:
			if rootObj(info, t.X) == obj {
				okUses = false
			}
		case *ast.UnaryExpr:
			if t.Op == token.AND && rootObj(info, t.X) == obj {
				okUses = false
			}
		case *ast.SliceExpr:
			if rootObj(info, t.X) == obj {
				okUses = false
			}
		}
		uid, ok := n.(*ast.Ident)
		if !ok || !okUses || info.ObjectOf(uid) != obj {
			return okUses
		}
		switch p := up(uid).(type) {
		case *ast.IndexExpr:
			if unparen(p.X) != ast.Expr(uid) {
				okUses = false // the local used as an index
				return false
			}
			if as, isAs := up(p).(*ast.AssignStmt); isAs && as != fill {
				for _, l := range as.Lhs {
					if unparen(l) == ast.Expr(p) {
						okUses = false
					}
				}
			}
		case *ast.RangeStmt:
			if unparen(p.X) != ast.Expr(uid) {
				okUses = false
			}
		case *ast.CallExpr:
			switch {
			case builtin(p, "len"), builtin(p, "cap"):
			case builtin(p, "append") && fill != nil && up(p) == ast.Node(fill):
			case c14IsSortPkg(calleeOf(info, p)) && len(p.Args) > 0 && unparen(p.Args[0]) == ast.Expr(uid):
			default:
				// a repository function that only reads / sorts its parameter
				ai := -1
				for i, a := range p.Args {
					if unparen(a) == ast.Expr(uid) {
						ai = i
					}
				}
				ns := sc.enter(p)
				if ai < 0 || ns == nil {
					okUses = false
					break
				}
				ps := c14Params(ns.info, ns.fd)
				if ai >= len(ps) || ps[ai] == nil {
					okUses = false
					break
				}
				if d, dirty := c14Defs(ns.info, ns.body, ps[ai]); dirty || len(d) > 0 || !e.usesOK(ns, ps[ai], nil, false, depth+1) {
					okUses = false
				}
			}
		case *ast.AssignStmt:
			isLhs := false
			for _, l := range p.Lhs {
				if unparen(l) == ast.Expr(uid) {
					isLhs = true
				}
			}
			if !isLhs {
				okUses = false // aliased
			}
		case *ast.ValueSpec:
			for _, v := range p.Values {
				if unparen(v) == ast.Expr(uid) {
					okUses = false
				}
			}
		case *ast.CompositeLit:
			if !sortArg(p) {
				okUses = false
			}
		case *ast.KeyValueExpr:
			lit, isLit := up(p).(*ast.CompositeLit)
			if !isLit || unparen(p.Value) != ast.Expr(uid) || !sortArg(lit) {
				okUses = false
			}
		case *ast.ReturnStmt:
			if !allowReturn {
				okUses = false
			}
		default:
			okUses = false
		}
		return okUses
	})
	return okUses
}

// c14ReturnedLocal: the helper's only return statement is its last statement and returns
// one local variable.
func c14ReturnedLocal(hs *c14Scope) (types.Object, *ast.ReturnStmt) {
	bl, ok := hs.body.(*ast.BlockStmt)
	if !ok || len(bl.List) == 0 {
		return nil, nil
	}
	last, ok := bl.List[len(bl.List)-1].(*ast.ReturnStmt)
	if !ok || len(last.Results) != 1 {
		return nil, nil
	}
	n := 0
	inspectNoLit(bl, func(m ast.Node) bool {
		if _, ok := m.(*ast.ReturnStmt); ok {
			n++
		}
		return true
	})
	id, ok := unparen(last.Results[0]).(*ast.Ident)
	if n != 1 || !ok {
		return nil, nil
	}
	v, _ := hs.info.ObjectOf(id).(*types.Var)
	if v == nil || v.IsField() || v.Pos() < bl.Pos() || v.Pos() >= bl.End() {
		return nil, nil
	}
	return v, last
}

func (e *c14Env) graphOfDecl(sc *c14Scope) *FG {
	if sc == nil || sc.fd == nil {
		return nil
	}
	fn, _ := sc.info.Defs[sc.fd.Name].(*types.Func)
	fi := e.c.P.FuncOfObj(fn)
	if fi == nil || fi.Decl != sc.fd {
		return nil
	}
	return e.c.P.Graph(fi)
}

// paintedCandidates lists the locals through which render may paint its children.
func (e *c14Env) paintedCandidates(sc *c14Scope, src string) []c14Painted {
	var out []c14Painted
	collect := func(in *c14Scope) []c14Painted {
		var l []c14Painted
		for _, cp := range e.childrenCopies(in, src) {
			l = append(l, c14Painted{kind: "copy", obj: cp.obj, term: cp.term, use: cp.term, made: c14At{n: cp.madeAt, sc: in}})
		}
		fills := e.childrenFills(in, src)
		for _, pass := range []string{"elem", "index"} {
			for _, f := range fills {
				if f.kind != pass {
					continue
				}
				k := "copy"
				if f.kind == "index" {
					k = "index"
				}
				l = append(l, c14Painted{kind: k, obj: f.obj, term: f.term, use: f.term, made: c14At{n: f.head, sc: in}, loop: f.loop})
			}
		}
		return l
	}
	out = append(out, collect(sc)...)
	// a helper of the package that builds the slice and returns it
	par := e.c.P.Parents(sc.pkg)
	inspectNoLit(sc.body, func(n ast.Node) bool {
		call, ok := n.(*ast.CallExpr)
		if !ok {
			return true
		}
		fn := calleeOf(sc.info, call)
		if fn == nil || fn.Pkg() == nil || fn.Pkg() != sc.pkg.Types {
			return true
		}
		sig := fn.Type().(*types.Signature)
		if sig.Results().Len() != 1 {
			return true
		}
		if _, isSlice := sig.Results().At(0).Type().Underlying().(*types.Slice); !isSlice {
			return true
		}
		hs := sc.enter(call)
		if hs == nil {
			return true
		}
		R, ret := c14ReturnedLocal(hs)
		gh := e.graphOfDecl(hs)
		if R == nil || gh == nil {
			return true
		}
		retLoc, okR := gh.Locate(ret)
		if !okR {
			return true
		}
		// how render holds the result: ranged over directly, or the only definition of a
		// local that is then only read / sorted
		p := par[call]
		for {
			if pe, ok := p.(*ast.ParenExpr); ok {
				p = par[pe]
				continue
			}
			break
		}
		switch t := p.(type) {
		case *ast.RangeStmt:
			if unparen(t.X) != ast.Expr(call) {
				return true
			}
		case *ast.AssignStmt:
			if t.Tok != token.DEFINE || len(t.Lhs) != 1 || len(t.Rhs) != 1 {
				return true
			}
			id, ok := t.Lhs[0].(*ast.Ident)
			if !ok {
				return true
			}
			L := sc.info.Defs[id]
			if d, dirty := c14Defs(sc.info, sc.body, L); L == nil || dirty || len(d) != 1 || !e.usesOK(sc, L, nil, false, 0) {
				return true
			}
		default:
			return true
		}
		for _, c := range collect(hs) {
			made := c.made.n
			if c.obj != R || !gh.MustPrecede(func(n ast.Node) bool { return n == made }, retLoc) {
				continue
			}
			c.use = sc.v(call).term()
			out = append(out, c)
		}
		return true
	})
	return out
}

// evOrder orders two events that may lie in different (inlined) helpers: both are lifted
// to the innermost function instance that contains them, and compared on its CFG.
// must: every path to b passes a; noBack: a does not happen (again) after b; ok: the two
// events could be placed on one control-flow graph.
func (e *c14Env) evOrder(a, b c14At) (must, noBack, ok bool) {
	chain := func(at c14At) []c14At {
		var l []c14At
		for x := &at; x != nil; x = x.sc.site {
			l = append([]c14At{*x}, l...)
		}
		return l
	}
	la, lb := chain(a), chain(b)
	d := 0
	for d+1 < len(la) && d+1 < len(lb) && la[d].n == lb[d].n {
		d++
	}
	na, nb := la[d].n, lb[d].n
	if na == nil || nb == nil || na == nb || la[d].sc.fd != lb[d].sc.fd {
		return false, false, false
	}
	g := e.graphOfDecl(la[d].sc)
	if g == nil {
		return false, false, false
	}
	A, okA := g.Locate(na)
	B, okB := g.Locate(nb)
	if !okA || !okB || A == B {
		return false, false, false
	}
	return g.MustPrecede(func(n ast.Node) bool { return n == na }, B), !g.ReachesAvoiding(B, A, nil), true
}
