package main

// C01.m — the record render leaves for a cell covered by a wide glyph is distinguishable from what the screen holds.
//
// render() draws a wide glyph at column c and records the columns c+1.. it covers in the last-frame copy as a
// "forgotten" value S. When the glyph is later replaced by something narrower, column c+1 is visited by the
// diff again and is redrawn only if screenNext[c+1] != S. So S must be a value that the cell the application
// has there can never be equal to; otherwise the covered column is skipped and what the terminal shows there is
// whatever it leaves of a half-overwritten wide glyph.
//
// Two necessary conditions are decided, by evaluating Cell values to trees of constants:
//
//	(1) the cell Window.Clear fills the window with (the one cell value the library itself writes everywhere at
//	    the start of an ordinary frame) differs from every S;
//	(2) S is not a value an application can place in the screen: it is not the zero Cell (what never-written
//	    cells hold after a resize) and it sets something other than exported fields.
//
// The evaluator follows composite literals, locals defined once (with later field assignments in straight-line
// code), unmodified package-level struct variables, `var x T`, helper functions that return such a value, and
// promoted fields; whatever it cannot evaluate stays "unknown" for that field only, so that two values with a
// known differing field are still told apart.

import (
	"fmt"
	"go/ast"
	"go/constant"
	"go/token"
	"go/types"
	"sort"
	"strings"
)

func init() { registerExtra("C01", c01CoveredRecordDistinct) }

// c01CV: a struct value as a tree of constants, flattened: path ("Character.Grapheme") -> non-zero constant.
type c01CV struct {
	fields  map[string]constant.Value
	unknown map[string]string // path ("" = the whole value) -> the expression that is not a constant
}

func newC01CV() *c01CV {
	return &c01CV{fields: map[string]constant.Value{}, unknown: map[string]string{}}
}

func (v *c01CV) String() string {
	var ks []string
	for k := range v.fields {
		ks = append(ks, k)
	}
	sort.Strings(ks)
	var parts []string
	for _, k := range ks {
		parts = append(parts, k+": "+v.fields[k].ExactString())
	}
	var us []string
	for k, e := range v.unknown {
		if k == "" {
			k = "(value)"
		}
		us = append(us, k+": "+e+" (not a constant)")
	}
	sort.Strings(us)
	parts = append(parts, us...)
	return "Cell{" + strings.Join(parts, ", ") + "}"
}

func c01JoinPath(prefix, name string) string {
	if prefix == "" {
		return name
	}
	return prefix + "." + name
}

func c01IsZeroConst(v constant.Value) bool {
	switch v.Kind() {
	case constant.Bool:
		return !constant.BoolVal(v)
	case constant.String:
		return constant.StringVal(v) == ""
	case constant.Int, constant.Float, constant.Complex:
		return constant.Sign(v) == 0
	}
	return false
}

// clearUnder removes everything recorded at or below path.
func (v *c01CV) clearUnder(path string) {
	for k := range v.fields {
		if k == path || strings.HasPrefix(k, path+".") || path == "" {
			delete(v.fields, k)
		}
	}
	for k := range v.unknown {
		if k == path || strings.HasPrefix(k, path+".") || path == "" {
			delete(v.unknown, k)
		}
	}
}

// unknownCovers: some unknown part overlaps path.
func (v *c01CV) unknownCovers(path string) bool {
	for k := range v.unknown {
		if k == "" || k == path || strings.HasPrefix(path, k+".") || strings.HasPrefix(k, path+".") {
			return true
		}
	}
	return false
}

// project: the sub-value at path.
func (v *c01CV) project(path string) *c01CV {
	out := newC01CV()
	for k, c := range v.fields {
		if strings.HasPrefix(k, path+".") {
			out.fields[k[len(path)+1:]] = c
		} else if k == path {
			out.fields[""] = c
		}
	}
	for k, e := range v.unknown {
		switch {
		case k == "" || strings.HasPrefix(path, k+".") || k == path:
			out.unknown[""] = e
		case strings.HasPrefix(k, path+"."):
			out.unknown[k[len(path)+1:]] = e
		}
	}
	return out
}

// graft stores sub at path.
func (v *c01CV) graft(path string, sub *c01CV) {
	v.clearUnder(path)
	for k, c := range sub.fields {
		if k == "" {
			v.fields[path] = c
		} else {
			v.fields[c01JoinPath(path, k)] = c
		}
	}
	for k, e := range sub.unknown {
		if k == "" {
			v.unknown[path] = e
		} else {
			v.unknown[c01JoinPath(path, k)] = e
		}
	}
}

// c01CompareCV: "differ" (some field known on both sides has different values), "equal" (both fully known and
// the same), or "" (cannot tell).
func c01CompareCV(a, b *c01CV) (verdict, where string) {
	keys := map[string]bool{}
	for k := range a.fields {
		keys[k] = true
	}
	for k := range b.fields {
		keys[k] = true
	}
	var ks []string
	for k := range keys {
		ks = append(ks, k)
	}
	sort.Strings(ks)
	for _, k := range ks {
		if a.unknownCovers(k) || b.unknownCovers(k) {
			continue
		}
		x, okX := a.fields[k]
		y, okY := b.fields[k]
		if okX != okY || !constant.Compare(x, token.EQL, y) {
			return "differ", k
		}
	}
	if len(a.unknown) == 0 && len(b.unknown) == 0 {
		return "equal", ""
	}
	return "", ""
}

type c01CellEval struct {
	c     *Ctx
	depth int
}

func c01Unknown(e ast.Expr) *c01CV {
	v := newC01CV()
	v.unknown[""] = types.ExprString(e)
	return v
}

// selPath: the field names a selector stands for (promoted fields spelled out), and the expression they are
// selected from; ok=false if it is not a field selection.
func c01SelPath(info *types.Info, sel *ast.SelectorExpr) ([]string, bool) {
	s := info.Selections[sel]
	if s == nil || s.Kind() != types.FieldVal {
		return nil, false
	}
	t := s.Recv()
	var names []string
	for _, ix := range s.Index() {
		if p, isP := t.Underlying().(*types.Pointer); isP {
			t = p.Elem()
		}
		st, isS := t.Underlying().(*types.Struct)
		if !isS || ix >= st.NumFields() {
			return nil, false
		}
		names = append(names, st.Field(ix).Name())
		t = st.Field(ix).Type()
	}
	return names, true
}

// eval: the value of e (of a struct or basic type) as a tree of constants.
func (ev *c01CellEval) eval(info *types.Info, e ast.Expr) *c01CV {
	if ev.depth > 8 {
		return c01Unknown(e)
	}
	ev.depth++
	defer func() { ev.depth-- }()
	e = unparen(e)
	if tv, ok := info.Types[e]; ok && tv.Value != nil {
		out := newC01CV()
		if !c01IsZeroConst(tv.Value) {
			out.fields[""] = tv.Value
		}
		return out
	}
	switch t := e.(type) {
	case *ast.CompositeLit:
		typ := info.TypeOf(t)
		if typ == nil {
			return c01Unknown(e)
		}
		st, isS := typ.Underlying().(*types.Struct)
		if !isS {
			return c01Unknown(e)
		}
		out := newC01CV()
		for i, el := range t.Elts {
			name := ""
			val := el
			if kv, isKV := el.(*ast.KeyValueExpr); isKV {
				id, isID := kv.Key.(*ast.Ident)
				if !isID {
					return c01Unknown(e)
				}
				name, val = id.Name, kv.Value
			} else if i < st.NumFields() {
				name = st.Field(i).Name()
			} else {
				return c01Unknown(e)
			}
			out.graft(name, ev.eval(info, val))
		}
		return out
	case *ast.UnaryExpr:
		if t.Op == token.AND {
			return ev.eval(info, t.X)
		}
	case *ast.StarExpr:
		return ev.eval(info, t.X)
	case *ast.SelectorExpr:
		if names, ok := c01SelPath(info, t); ok {
			base := ev.eval(info, t.X)
			return base.project(strings.Join(names, "."))
		}
	case *ast.Ident:
		return ev.evalIdent(info, t)
	case *ast.CallExpr:
		// conversion
		if tv, ok := info.Types[t.Fun]; ok && tv.IsType() && len(t.Args) == 1 {
			return ev.eval(info, t.Args[0])
		}
		// a helper that does nothing but return a value: func blankCell() Cell { return Cell{...} }
		if fn := calleeOf(info, t); fn != nil {
			if fi := ev.c.P.FuncOfObj(fn); fi != nil && fi.Decl.Body != nil && len(fi.Decl.Body.List) == 1 {
				if rs, isRet := fi.Decl.Body.List[0].(*ast.ReturnStmt); isRet && len(rs.Results) == 1 {
					// parameters (and the receiver) are not bound: what depends on them stays unknown
					return ev.eval(fi.Pkg.TypesInfo, rs.Results[0])
				}
			}
		}
	}
	return c01Unknown(e)
}

// evalIdent: a local defined once (plus field assignments in straight-line code before any other use is NOT
// required: every assignment to a field of it anywhere in the function is applied if it is a statement of the
// function body itself, otherwise that field is unknown), `var x T`, or an unmodified package-level struct variable.
func (ev *c01CellEval) evalIdent(info *types.Info, id *ast.Ident) *c01CV {
	v, ok := info.ObjectOf(id).(*types.Var)
	if !ok || v.IsField() || v.Pkg() == nil {
		return c01Unknown(id)
	}
	if v.Parent() == v.Pkg().Scope() {
		if lit := pkgStructLit(info, id); lit != nil {
			return ev.eval(info, lit)
		}
		return c01Unknown(id)
	}
	pk := pkgOfInfo(info)
	fd := enclosingFuncDecl(pk, v.Pos())
	if fd == nil || fd.Body == nil {
		return c01Unknown(id)
	}
	// a parameter, receiver or named result: not visible here
	if v.Pos() < fd.Body.Pos() {
		return c01Unknown(id)
	}
	var cur *c01CV
	bad := false
	// nesting: an assignment that is not a statement of the function body itself is conditional
	top := map[ast.Stmt]bool{}
	for _, s := range fd.Body.List {
		top[s] = true
	}
	use := id.Pos()
	ast.Inspect(fd.Body, func(n ast.Node) bool {
		if bad {
			return false
		}
		switch s := n.(type) {
		case *ast.FuncLit:
			// a closure that mentions the variable may modify it at any time
			ast.Inspect(s.Body, func(m ast.Node) bool {
				if x, isID := m.(*ast.Ident); isID && info.ObjectOf(x) == types.Object(v) {
					bad = true
				}
				return !bad
			})
			return false
		case *ast.DeclStmt:
			gd, isGD := s.Decl.(*ast.GenDecl)
			if !isGD {
				return true
			}
			for _, sp := range gd.Specs {
				vs, isVS := sp.(*ast.ValueSpec)
				if !isVS {
					continue
				}
				for i, nm := range vs.Names {
					if info.Defs[nm] != types.Object(v) {
						continue
					}
					switch {
					case len(vs.Values) == 0:
						cur = newC01CV()
					case len(vs.Values) == len(vs.Names):
						cur = ev.eval(info, vs.Values[i])
					default:
						bad = true
					}
				}
			}
		case *ast.AssignStmt:
			for i, l := range s.Lhs {
				l = unparen(l)
				root := rootObj(info, l)
				if root != types.Object(v) {
					continue
				}
				if s.Pos() > use {
					// after the use in source order: harmless in straight-line code, but inside a loop it may
					// reach the use again
					if !top[ast.Stmt(s)] || c01InsideLoop(fd, use) {
						bad = true
					}
					continue
				}
				if len(s.Lhs) != len(s.Rhs) || (s.Tok != token.DEFINE && s.Tok != token.ASSIGN) {
					bad = true
					continue
				}
				switch lt := l.(type) {
				case *ast.Ident:
					if !top[ast.Stmt(s)] && s.Tok != token.DEFINE {
						bad = true
						continue
					}
					cur = ev.eval(info, s.Rhs[i])
				case *ast.SelectorExpr:
					names, okP := c01FieldChain(info, lt, v)
					if !okP || cur == nil {
						bad = true
						continue
					}
					path := strings.Join(names, ".")
					if top[ast.Stmt(s)] {
						cur.graft(path, ev.eval(info, s.Rhs[i]))
					} else {
						cur.clearUnder(path)
						cur.unknown[path] = types.ExprString(lt) + " (assigned conditionally)"
					}
				default:
					bad = true
				}
			}
		case *ast.UnaryExpr:
			// &x (or &x.f) handed to someone else
			if s.Op == token.AND && rootObj(info, s.X) == types.Object(v) {
				bad = true
			}
		case *ast.IncDecStmt:
			if rootObj(info, s.X) == types.Object(v) {
				bad = true
			}
		case *ast.RangeStmt:
			for _, kx := range []ast.Expr{s.Key, s.Value} {
				if kx != nil && rootObj(info, kx) == types.Object(v) {
					bad = true
				}
			}
		case *ast.CallExpr:
			// a pointer-receiver method called on the variable may modify it
			if sel, isSel := s.Fun.(*ast.SelectorExpr); isSel && rootObj(info, sel.X) == types.Object(v) {
				if si := info.Selections[sel]; si != nil && si.Kind() == types.MethodVal {
					if sig, _ := si.Obj().Type().(*types.Signature); sig != nil && sig.Recv() != nil {
						if _, ptr := sig.Recv().Type().(*types.Pointer); ptr {
							bad = true
						}
					}
				}
			}
		}
		return true
	})
	if bad || cur == nil {
		return c01Unknown(id)
	}
	return cur
}

// c01FieldChain: sel is x.f.g with x the variable v (no indexing, no pointer hops through other objects).
func c01FieldChain(info *types.Info, sel *ast.SelectorExpr, v *types.Var) ([]string, bool) {
	names, ok := c01SelPath(info, sel)
	if !ok {
		return nil, false
	}
	switch x := unparen(sel.X).(type) {
	case *ast.Ident:
		if info.ObjectOf(x) == types.Object(v) {
			return names, true
		}
	case *ast.SelectorExpr:
		head, ok := c01FieldChain(info, x, v)
		if ok {
			return append(head, names...), true
		}
	}
	return nil, false
}

func c01InsideLoop(fd *ast.FuncDecl, pos token.Pos) bool {
	in := false
	ast.Inspect(fd.Body, func(n ast.Node) bool {
		switch s := n.(type) {
		case *ast.ForStmt:
			if s.Pos() <= pos && pos < s.End() {
				in = true
			}
		case *ast.RangeStmt:
			if s.Pos() <= pos && pos < s.End() {
				in = true
			}
		}
		return !in
	})
	return in
}

// exportedOnly: every part of the value that is not zero lies on a path of exported field names.
func (v *c01CV) exportedOnly() bool {
	for k := range v.fields {
		for _, n := range strings.Split(k, ".") {
			if n != "" && !ast.IsExported(n) {
				return false
			}
		}
	}
	return true
}

// c01CellArgsOf: the Cell-typed values fi hands on (arguments of calls, stores into a screen buffer), following
// same-package callees that are given no Cell themselves (a helper that does the clearing), to a small depth.
type c01CellSrc struct {
	info *types.Info
	expr ast.Expr
	in   string
}

func c01CellSources(c *Ctx, fi *FuncInfo, depth int, seen map[*FuncInfo]bool) []c01CellSrc {
	if fi == nil || fi.Decl.Body == nil || seen[fi] || depth > 3 {
		return nil
	}
	seen[fi] = true
	info := fi.Pkg.TypesInfo
	isCell := func(t types.Type) bool { return t != nil && typeName(t) == modPath+".Cell" }
	var out []c01CellSrc
	ast.Inspect(fi.Decl.Body, func(n ast.Node) bool {
		switch s := n.(type) {
		case *ast.CallExpr:
			if tv, ok := info.Types[s.Fun]; ok && tv.IsType() {
				return true
			}
			passed := false
			for _, a := range s.Args {
				if isCell(info.TypeOf(a)) {
					out = append(out, c01CellSrc{info, a, fi.Name})
					passed = true
				}
			}
			if !passed {
				if fn := calleeOf(info, s); fn != nil {
					if hf := c.P.FuncOfObj(fn); hf != nil && hf.Pkg == fi.Pkg {
						out = append(out, c01CellSources(c, hf, depth+1, seen)...)
					}
				}
			}
		case *ast.AssignStmt:
			for i, l := range s.Lhs {
				if _, isIx := unparen(l).(*ast.IndexExpr); isIx && len(s.Lhs) == len(s.Rhs) && isCell(info.TypeOf(l)) {
					out = append(out, c01CellSrc{info, s.Rhs[i], fi.Name})
				}
			}
		}
		return true
	})
	return out
}

func c01CoveredRecordDistinct(c *Ctx) {
	const rule = "C01.m"
	c.Clauses = append(c.Clauses, rule+" the value render records for a cell covered by a wide glyph differs from the cell Window.Clear fills with, from the never-written (zero) cell and from every cell an application can set: otherwise the covered column is skipped when the glyph is replaced by something narrower")
	c.expect(rule, 2)
	render := c.P.Func("vaxis.(*Vaxis).render")
	if render == nil {
		c.undecided(rule, "vaxis.(*Vaxis).render", 0, "render not found")
		return
	}
	info := render.Pkg.TypesInfo
	g := c.P.Graph(render)
	stores, _ := c01NullStoreSites(c, info, g, render.Name)
	if len(stores) == 0 {
		// C01.i reports the missing nulling; nothing to compare with
		return
	}
	ev := &c01CellEval{c: c}
	type rec struct {
		st  c01StoreSite
		val *c01CV
	}
	var recs []rec
	for _, st := range stores {
		recs = append(recs, rec{st, ev.eval(st.info, st.as.Rhs[0])})
	}
	// (2) the record is no value the screen can hold
	{
		key := render.Name + "/the record left for a covered cell is no cell the screen can hold"
		var bad, und []string
		for _, r := range recs {
			at := fmt.Sprintf("%s (%s)", types.ExprString(r.st.as.Rhs[0]), c.P.Pos(r.st.as.Pos()))
			switch {
			case len(r.val.unknown) > 0:
				und = append(und, at+": "+r.val.String())
			case len(r.val.fields) == 0:
				bad = append(bad, at+" is the zero Cell, which is also what a never-written cell (screen.resize) and a cell set to Cell{} hold")
			case r.val.exportedOnly():
				bad = append(bad, at+" sets exported fields only: SetCell can place the same value in the screen")
			}
		}
		switch {
		case len(bad) > 0:
			c.bad(rule, key, recs[0].st.as.Pos(), "a column covered by a wide glyph is recorded as %s; when the glyph is replaced by something narrower and the application has that same value in the covered column, the column compares unchanged, is skipped, and shows whatever the terminal leaves of the half-overwritten glyph", strings.Join(bad, "; "))
		case len(und) > 0:
			c.undecided(rule, key, recs[0].st.as.Pos(), "the recorded value is not a constant: %s", strings.Join(und, "; "))
		default:
			c.ok(rule, key, recs[0].st.as.Pos(), "the record sets an unexported field: no cell the application sets equals it")
		}
	}
	// (1) Clear's fill differs from the record
	clear := c.P.Func("vaxis.Window.Clear")
	if clear == nil {
		c.undecided(rule, "vaxis.Window.Clear", 0, "Window.Clear not found")
		return
	}
	srcs := c01CellSources(c, clear, 0, map[*FuncInfo]bool{})
	if len(srcs) == 0 {
		c.undecided(rule, clear.Name+"/cleared cells differ from the record left for a covered cell", clear.Decl.Pos(), "no Cell value is written or handed on by Window.Clear: the cell it clears with cannot be identified")
		return
	}
	for i, src := range srcs {
		key := clear.Name + "/cleared cells differ from the record left for a covered cell"
		if i > 0 {
			key += fmt.Sprintf("#%d", i+1)
		}
		fill := ev.eval(src.info, src.expr)
		verdict := "differ"
		var why string
		for _, r := range recs {
			v, where := c01CompareCV(fill, r.val)
			switch v {
			case "equal":
				verdict = "equal"
				why = fmt.Sprintf("%s clears with %s = %s, and %s records a covered cell as the same value (%s)", src.in, types.ExprString(src.expr), fill, r.st.fn, c.P.Pos(r.st.as.Pos()))
			case "":
				if verdict != "equal" {
					verdict = ""
					why = fmt.Sprintf("%s clears with %s = %s; the record is %s: not comparable", src.in, types.ExprString(src.expr), fill, r.val)
				}
			default:
				_ = where
			}
			if verdict == "equal" {
				break
			}
		}
		switch verdict {
		case "differ":
			c.ok(rule, key, src.expr.Pos(), "%s differs from every covered-cell record", fill)
		case "equal":
			c.bad(rule, key, src.expr.Pos(), "%s: after Clear, a wide glyph at column c and Render, then Clear, a narrow glyph at c and Render, column c+1 compares equal to the record, is never redrawn and shows the remains of the half-overwritten glyph", why)
		default:
			c.undecided(rule, key, src.expr.Pos(), "%s", why)
		}
	}
}
