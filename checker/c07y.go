package main

// c07y — C07.l: every width method of gwidth answers the reference width.
//
// "Graphemes are measured with the width method that matches [the capabilities]" has two halves: the method is
// selected from the capabilities (C07.g) and the method, once selected, measures what its name says:
//
//	wcwidth     the sum of runewidth.RuneWidth over the code points, variation selectors skipped
//	noZWJ       uniseg.StringWidth of the grapheme with every U+200D removed (the terminal shapes emoji but
//	            does not join them), measured as ONE string: code points after a removed joiner attach to the
//	            cluster before it (variation selector, emoji modifier, keycap, second regional indicator)
//	unicodeStd  uniseg.StringWidth of the grapheme
//
// The second half is value-level in general (the width tables of two libraries), but gwidth is a small pure function
// of (string, method) over two library measuring functions, so it is decided the way C01.l decides characterWidth: by
// evaluating gwidth on the type-checked AST (the concrete evaluator of c18_interp.go; nothing of the repository is
// built or run) on a set of probe graphemes for each of the three methods, with the two library functions modelled
// by a reference table, and requiring the number returned to be the reference width of (probe, method). The tables
// (uniseg.StringWidth of every contiguous run of code points of a probe and of the probe without some or all of its joiners,
// runewidth.RuneWidth of every code point of a probe, and gwidth(probe, method) of the reference tree) were
// obtained once by a probe test in a scratch copy of the repository. The probes are chosen so that the known ways of
// getting a method wrong differ on at least one: joiners not removed / removed for the wrong method (woman ZWJ
// laptop: 4 vs 2), the pieces between the joiners measured separately and summed (heart ZWJ VS16: 1 vs 2; RI ZWJ RI:
// 4 vs 2; '1' ZWJ VS16 keycap; index ZWJ skin tone), variation selectors counted by wcwidth (heart VS16: 2 vs 1),
// leading / trailing / doubled joiners, no joiner at all, the empty string.
//
// What is NOT judged by shape: whether the joiners are removed with strings.ReplaceAll, strings.Map, a builder loop,
// Split+Join or a helper; whether the branches are a switch, an if chain or merged; a fast path for strings without
// a joiner; a loop over the grapheme clusters of a string that the table knows. The run is concrete, so all of
// these evaluate to the same number (uniseg.FirstGraphemeClusterInString is answered from a reference segmentation of
// the same strings). A measuring function the table cannot answer (another library function, a string that is not a
// run of code points of a probe, the Graphemes / Step iterators of uniseg) makes the method undecided.
//
// The judgement is relative to one consistent snapshot of the two libraries (uniseg v0.4.4, go-runewidth v0.0.14): the
// expected widths and the model answers come from the same tables, so what is decided is how gwidth COMPOSES the
// library functions (which string is handed to which measuring function, once, and what is returned), not the width
// data of the libraries; an upgrade of a library does not invalidate the verdict.

import (
	"fmt"
	"go/ast"
	"go/constant"
	"go/types"
	"strings"
	"unicode/utf8"
)

func init() { registerExtra("C07", c07MethodWidths) }

// c07RefStringWidth: uniseg.StringWidth (v0.4.4, runewidth v0.0.14: the versions of go.mod) of every contiguous run of code points
// of a probe and of a probe with any subset of its joiners removed.
var c07RefStringWidth = map[string]int{
	"":                                 0,
	"1":                                1,
	"1\u200d":                          1,
	"1\u200d\ufe0f":                    2,
	"1\u200d\ufe0f\u20e3":              2,
	"1\ufe0f":                          2,
	"1\ufe0f\u20e3":                    2,
	"a":                                1,
	"ab":                               2,
	"a\u200d":                          1,
	"a\u200db":                         2,
	"a\u200d\u200d":                    1,
	"a\u200d\u200db":                   2,
	"b":                                1,
	"\u200d":                           0,
	"\u200da":                          1,
	"\u200db":                          1,
	"\u200d\u200d":                     0,
	"\u200d\u200db":                    1,
	"\u200d\ufe0f":                     2,
	"\u200d\ufe0f\u20e3":               2,
	"\u200d\U0001f1ea":                 2,
	"\u200d\U0001f3fd":                 0,
	"\u200d\U0001f467":                 2,
	"\u200d\U0001f469":                 2,
	"\u200d\U0001f469\u200d":           2,
	"\u200d\U0001f469\u200d\U0001f467": 2,
	"\u200d\U0001f469\U0001f467":       4,
	"\u200d\U0001f4bb":                 2,
	"\u20e3":                           0,
	"\u261d":                           1,
	"\u261d\u200d":                     2,
	"\u261d\u200d\U0001f3fd":           2,
	"\u261d\U0001f3fd":                 2,
	"\u2764":                           1,
	"\u2764\u200d":                     2,
	"\u2764\u200d\ufe0f":               2,
	"\u2764\ufe0f":                     2,
	"\u4e2d":                           2,
	"\ufe0f":                           0,
	"\ufe0f\u20e3":                     0,
	"\U0001f1e9":                       2,
	"\U0001f1e9\u200d":                 2,
	"\U0001f1e9\u200d\U0001f1ea":       4,
	"\U0001f1e9\U0001f1ea":             2,
	"\U0001f1ea":                       2,
	"\U0001f3fd":                       0,
	"\U0001f467":                       2,
	"\U0001f468":                       2,
	"\U0001f468\u200d":                 2,
	"\U0001f468\u200d\U0001f469":       2,
	"\U0001f468\u200d\U0001f469\u200d": 2,
	"\U0001f468\u200d\U0001f469\u200d\U0001f467": 2,
	"\U0001f468\u200d\U0001f469\U0001f467":       4,
	"\U0001f468\U0001f469":                       4,
	"\U0001f468\U0001f469\u200d":                 4,
	"\U0001f468\U0001f469\u200d\U0001f467":       4,
	"\U0001f468\U0001f469\U0001f467":             6,
	"\U0001f469":                                 2,
	"\U0001f469\u200d":                           2,
	"\U0001f469\u200d\U0001f467":                 2,
	"\U0001f469\u200d\U0001f4bb":                 2,
	"\U0001f469\U0001f467":                       4,
	"\U0001f469\U0001f4bb":                       4,
	"\U0001f4bb":                                 2,
}

// c07RefFirstCluster: uniseg.FirstGraphemeClusterInString(x, -1) of every non-empty string of c07RefStringWidth: the
// length in bytes and the width of the first cluster. (The probe test also confirmed that on these strings iterating
// with the carried state and restarting with -1 on every rest give the same clusters, and that every rest is a string
// of the table, so the model may ignore the state.)
var c07RefFirstCluster = map[string][2]int{
	"1":                                {1, 1},
	"1\u200d":                          {4, 1},
	"1\u200d\ufe0f":                    {7, 2},
	"1\u200d\ufe0f\u20e3":              {10, 2},
	"1\ufe0f":                          {4, 2},
	"1\ufe0f\u20e3":                    {7, 2},
	"a":                                {1, 1},
	"ab":                               {1, 1},
	"a\u200d":                          {4, 1},
	"a\u200db":                         {4, 1},
	"a\u200d\u200d":                    {7, 1},
	"a\u200d\u200db":                   {7, 1},
	"b":                                {1, 1},
	"\u200d":                           {3, 0},
	"\u200da":                          {3, 0},
	"\u200db":                          {3, 0},
	"\u200d\u200d":                     {6, 0},
	"\u200d\u200db":                    {6, 0},
	"\u200d\ufe0f":                     {6, 2},
	"\u200d\ufe0f\u20e3":               {9, 2},
	"\u200d\U0001f1ea":                 {3, 0},
	"\u200d\U0001f3fd":                 {7, 0},
	"\u200d\U0001f467":                 {3, 0},
	"\u200d\U0001f469":                 {3, 0},
	"\u200d\U0001f469\u200d":           {3, 0},
	"\u200d\U0001f469\u200d\U0001f467": {3, 0},
	"\u200d\U0001f469\U0001f467":       {3, 0},
	"\u200d\U0001f4bb":                 {3, 0},
	"\u20e3":                           {3, 0},
	"\u261d":                           {3, 1},
	"\u261d\u200d":                     {6, 2},
	"\u261d\u200d\U0001f3fd":           {10, 2},
	"\u261d\U0001f3fd":                 {7, 2},
	"\u2764":                           {3, 1},
	"\u2764\u200d":                     {6, 2},
	"\u2764\u200d\ufe0f":               {9, 2},
	"\u2764\ufe0f":                     {6, 2},
	"\u4e2d":                           {3, 2},
	"\ufe0f":                           {3, 0},
	"\ufe0f\u20e3":                     {6, 0},
	"\U0001f1e9":                       {4, 2},
	"\U0001f1e9\u200d":                 {7, 2},
	"\U0001f1e9\u200d\U0001f1ea":       {7, 2},
	"\U0001f1e9\U0001f1ea":             {8, 2},
	"\U0001f1ea":                       {4, 2},
	"\U0001f3fd":                       {4, 0},
	"\U0001f467":                       {4, 2},
	"\U0001f468":                       {4, 2},
	"\U0001f468\u200d":                 {7, 2},
	"\U0001f468\u200d\U0001f469":       {11, 2},
	"\U0001f468\u200d\U0001f469\u200d": {14, 2},
	"\U0001f468\u200d\U0001f469\u200d\U0001f467": {18, 2},
	"\U0001f468\u200d\U0001f469\U0001f467":       {11, 2},
	"\U0001f468\U0001f469":                       {4, 2},
	"\U0001f468\U0001f469\u200d":                 {4, 2},
	"\U0001f468\U0001f469\u200d\U0001f467":       {4, 2},
	"\U0001f468\U0001f469\U0001f467":             {4, 2},
	"\U0001f469":                                 {4, 2},
	"\U0001f469\u200d":                           {7, 2},
	"\U0001f469\u200d\U0001f467":                 {11, 2},
	"\U0001f469\u200d\U0001f4bb":                 {11, 2},
	"\U0001f469\U0001f467":                       {4, 2},
	"\U0001f469\U0001f4bb":                       {4, 2},
	"\U0001f4bb":                                 {4, 2},
}

// c07RefRuneWidth: runewidth.RuneWidth of every code point of a probe.
var c07RefRuneWidth = map[rune]int{
	0x31:    1,
	0x61:    1,
	0x62:    1,
	0x200D:  0,
	0x20E3:  0,
	0x261D:  1,
	0x2764:  1,
	0x4E2D:  2,
	0xFE0F:  1,
	0x1F1E9: 1,
	0x1F1EA: 1,
	0x1F3FD: 2,
	0x1F467: 2,
	0x1F468: 2,
	0x1F469: 2,
	0x1F4BB: 2,
}

// c07RefGwidth: gwidth(probe, method) of the reference tree; columns wcwidth, noZWJ, unicodeStd.
var c07RefGwidth = []struct {
	s string
	w [3]int
}{
	{"\u2764\u200d\ufe0f", [3]int{1, 2, 2}},
	{"1\u200d\ufe0f\u20e3", [3]int{1, 2, 2}},
	{"\u261d\u200d\U0001f3fd", [3]int{3, 2, 2}},
	{"\U0001f1e9\u200d\U0001f1ea", [3]int{2, 2, 4}},
	{"\U0001f469\u200d\U0001f4bb", [3]int{4, 4, 2}},
	{"\U0001f468\u200d\U0001f469\u200d\U0001f467", [3]int{6, 6, 2}},
	{"a", [3]int{1, 1, 1}},
	{"\u200d", [3]int{0, 0, 0}},
	{"\u200da", [3]int{1, 1, 1}},
	{"a\u200d", [3]int{1, 1, 1}},
	{"a\u200d\u200db", [3]int{2, 2, 2}},
	{"\u2764\ufe0f", [3]int{1, 2, 2}},
	{"\u4e2d", [3]int{2, 2, 2}},
	{"", [3]int{0, 0, 0}},
}

var c07MethodNames = [3]string{"wcwidth", "noZWJ", "unicodeStd"}

var c07MethodMeans = [3]string{
	"the sum of runewidth.RuneWidth over the code points, variation selectors skipped",
	"uniseg.StringWidth of the grapheme with every U+200D removed, measured as one string",
	"uniseg.StringWidth of the grapheme",
}

func c07MethodWidths(c *Ctx) {
	const rule = "C07.l"
	c.expect(rule, 3)
	c.Clauses = append(c.Clauses, "C07.l every width method of gwidth answers the reference width: gwidth, evaluated on the AST for each probe grapheme and each of wcwidth / noZWJ / unicodeStd with uniseg.StringWidth and runewidth.RuneWidth answered from a reference table, returns the width of the method (noZWJ: ONE measurement of the whole grapheme without its joiners, not the sum of the pieces between them)")
	pk := c.P.Pkg("vaxis")
	if pk == nil {
		return
	}
	fi := c.P.Func("vaxis.gwidth")
	if fi == nil || fi.Decl.Body == nil {
		c.undecided(rule, "vaxis.gwidth", 0, "gwidth not found")
		return
	}
	sig := fi.Obj.Type().(*types.Signature)
	// the parameters: one string and one width method, in either order
	si, mi := -1, -1
	var methodT types.Type
	for i := 0; i < sig.Params().Len(); i++ {
		t := sig.Params().At(i).Type()
		if bt, ok := t.Underlying().(*types.Basic); ok {
			switch {
			case bt.Info()&types.IsString != 0 && si < 0:
				si = i
				continue
			case bt.Info()&types.IsInteger != 0 && mi < 0:
				if _, named := t.(*types.Named); named {
					mi, methodT = i, t
					continue
				}
			}
		}
		si, mi = -1, -1
		break
	}
	if si < 0 || mi < 0 || sig.Params().Len() != 2 || sig.Results().Len() != 1 {
		c.undecided(rule, "vaxis.gwidth/signature", fi.Decl.Pos(), "gwidth is not a function of one string and one width method returning one number: %s", sig)
		return
	}
	for col, name := range c07MethodNames {
		key := fmt.Sprintf("vaxis.gwidth/method %s answers the reference width", name)
		cst, _ := pk.Types.Scope().Lookup(name).(*types.Const)
		if cst == nil || !types.Identical(cst.Type(), methodT) {
			c.undecided(rule, key, fi.Decl.Pos(), "the constant %s of the width method type was not found", name)
			continue
		}
		mv, exact := constant.Int64Val(constant.ToInt(cst.Val()))
		if !exact {
			c.undecided(rule, key, fi.Decl.Pos(), "the constant %s is not an integer", name)
			continue
		}
		bad, und := "", ""
		n := 0
		for _, pr := range c07RefGwidth {
			got, pmsg, amsg := c07EvalGwidth(c, fi, si, pr.s, mv)
			switch {
			case amsg != "":
				if und == "" {
					und = fmt.Sprintf("gwidth(%+q, %s) cannot be evaluated: %s", pr.s, name, amsg)
				}
			case pmsg != "":
				if bad == "" {
					bad = fmt.Sprintf("gwidth(%+q, %s) panics: %s", pr.s, name, pmsg)
				}
			case got != int64(pr.w[col]):
				if bad == "" {
					bad = fmt.Sprintf("gwidth(%+q, %s) returns %d, the width of the method (%s) is %d: graphemes are laid out with a width that does not match the capabilities the method stands for, every following cell of the line lands in another column than the terminal puts it%s", pr.s, name, got, c07MethodMeans[col], pr.w[col], c07PartsHint(col, pr.s, got))
				}
			default:
				n++
			}
		}
		switch {
		case bad != "":
			c.bad(rule, key, fi.Decl.Pos(), "%s", bad)
		case und != "":
			c.undecided(rule, key, fi.Decl.Pos(), "%s", und)
		default:
			c.ok(rule, key, fi.Decl.Pos(), "gwidth returns the reference width of %s (%s) on all %d probe graphemes", name, c07MethodMeans[col], n)
		}
	}
}

// c07PartsHint: the wrong noZWJ width is what measuring the pieces between the joiners separately gives.
func c07PartsHint(col int, s string, got int64) string {
	if col != 1 || !strings.Contains(s, "\u200D") {
		return ""
	}
	sum := 0
	for _, p := range strings.Split(s, "\u200D") {
		w, ok := c07RefStringWidth[p]
		if !ok {
			return ""
		}
		sum += w
	}
	if int64(sum) == got && sum != c07RefStringWidth[strings.ReplaceAll(s, "\u200D", "")] {
		return " (the returned number is the sum of the widths of the pieces between the joiners: the code points after a joiner attach to the cluster before it once the joiner is gone and must be measured with it)"
	}
	return ""
}

// c07EvalGwidth evaluates gwidth(s, method) on the AST. The library measuring functions are answered from the
// reference tables; a question the tables cannot answer aborts the run.
func c07EvalGwidth(c *Ctx, fi *FuncInfo, si int, s string, method int64) (got int64, pmsg, amsg string) {
	m := newC18Machine(c.P)
	m.trace = false
	m.ext = c07WidthExt
	m.extSegmenter = true
	args := []c18Val{c18IntV(method), c18IntV(method)}
	args[si] = c18StrV(s)
	pmsg, amsg = m.protect(func() {
		ret := m.callFunc(fi, nil, args, false)
		if len(ret) != 1 || ret[0].k != c18Int {
			m.abort("the result is not a known number")
		}
		got = ret[0].i
	})
	return
}

// c07WidthExt models the functions outside the repository a width method may use.
func c07WidthExt(m *c18Machine, fr *c18Frame, full string, call *ast.CallExpr) (c18Val, bool) {
	str := func(i int) string {
		v := m.eval(fr, call.Args[i])
		if v.k != c18Str {
			m.abort("%s of an unknown string", full)
		}
		return v.s
	}
	num := func(i int) int64 {
		v := m.eval(fr, call.Args[i])
		if v.k != c18Int {
			m.abort("%s of an unknown number", full)
		}
		return v.i
	}
	tuple := func(vs ...c18Val) (c18Val, bool) { return c18Val{k: c18Tuple, ref: vs}, true }
	switch full {
	case "github.com/rivo/uniseg.StringWidth":
		x := str(0)
		w, ok := c07RefStringWidth[x]
		if !ok {
			m.abort("uniseg.StringWidth(%+q): the string is not a run of code points of a probe (no reference width)", x)
		}
		return c18IntV(int64(w)), true
	case "github.com/mattn/go-runewidth.RuneWidth":
		r := num(0)
		w, ok := c07RefRuneWidth[rune(r)]
		if !ok {
			m.abort("runewidth.RuneWidth(%#x): not a code point of a probe (no reference width)", r)
		}
		return c18IntV(int64(w)), true
	case "strings.ContainsRune":
		return c18BoolV(strings.ContainsRune(str(0), rune(num(1)))), true
	case "strings.IndexRune":
		return c18IntV(int64(strings.IndexRune(str(0), rune(num(1))))), true
	case "strings.IndexByte":
		return c18IntV(int64(strings.IndexByte(str(0), byte(num(1))))), true
	case "strings.LastIndex":
		return c18IntV(int64(strings.LastIndex(str(0), str(1)))), true
	case "strings.Count":
		return c18IntV(int64(strings.Count(str(0), str(1)))), true
	case "strings.ContainsAny":
		return c18BoolV(strings.ContainsAny(str(0), str(1))), true
	case "strings.IndexAny":
		return c18IntV(int64(strings.IndexAny(str(0), str(1)))), true
	case "strings.Replace":
		return c18StrV(strings.Replace(str(0), str(1), str(2), int(num(3)))), true
	case "strings.Trim":
		return c18StrV(strings.Trim(str(0), str(1))), true
	case "strings.TrimLeft":
		return c18StrV(strings.TrimLeft(str(0), str(1))), true
	case "strings.TrimRight":
		return c18StrV(strings.TrimRight(str(0), str(1))), true
	case "strings.Map":
		fv := m.eval(fr, call.Args[0])
		if fv.k != c18Func || fv.fn() == nil {
			m.abort("strings.Map with an unknown mapping")
		}
		x := str(1)
		var b strings.Builder
		for _, r := range x {
			ret := m.callValue(fv.fn(), []c18Val{c18IntV(int64(r))}, false)
			if len(ret) != 1 || ret[0].k != c18Int {
				m.abort("strings.Map: the mapping does not return a known rune")
			}
			if ret[0].i >= 0 {
				b.WriteRune(rune(ret[0].i))
			}
		}
		return c18StrV(b.String()), true
	case "unicode/utf8.DecodeRuneInString":
		r, n := utf8.DecodeRuneInString(str(0))
		return tuple(c18IntV(int64(r)), c18IntV(int64(n)))
	case "unicode/utf8.DecodeLastRuneInString":
		r, n := utf8.DecodeLastRuneInString(str(0))
		return tuple(c18IntV(int64(r)), c18IntV(int64(n)))
	case "unicode/utf8.RuneCountInString":
		return c18IntV(int64(utf8.RuneCountInString(str(0)))), true
	case "unicode/utf8.RuneLen":
		return c18IntV(int64(utf8.RuneLen(rune(num(0))))), true
	case "unicode/utf8.ValidString":
		return c18BoolV(utf8.ValidString(str(0))), true
	case "github.com/rivo/uniseg.FirstGraphemeClusterInString":
		// (cluster, rest, width, newState); the state is an opaque number that only speeds the real function up
		x := str(0)
		m.eval(fr, call.Args[1])
		if x == "" {
			return tuple(c18StrV(""), c18StrV(""), c18IntV(0), c18IntV(0))
		}
		fc, ok := c07RefFirstCluster[x]
		if !ok {
			m.abort("uniseg.FirstGraphemeClusterInString(%+q): the string is not a run of code points of a probe (no reference segmentation)", x)
		}
		return tuple(c18StrV(x[:fc[0]]), c18StrV(x[fc[0]:]), c18IntV(int64(fc[1])), c18IntV(0))
	case "github.com/rivo/uniseg.GraphemeClusterCount":
		x, n := str(0), 0
		for x != "" {
			fc, ok := c07RefFirstCluster[x]
			if !ok {
				m.abort("uniseg.GraphemeClusterCount: no reference segmentation of %+q", x)
			}
			x = x[fc[0]:]
			n++
		}
		return c18IntV(int64(n)), true
	case "github.com/rivo/uniseg.FirstGraphemeCluster", "github.com/rivo/uniseg.StepString", "github.com/rivo/uniseg.Step",
		"github.com/rivo/uniseg.NewGraphemes":
		m.abort("%s: this cluster iterator of uniseg has no reference model", full)
	}
	return c18Val{}, false
}
