package main

// C05.n — a burst of events raised by ONE sequence fits the hand-off channel.
//
// Model.events is received only by the goroutine that also runs update(): while one call made by that goroutine
// (update(seq), the deferred recover()) is executing, nobody takes anything out of the channel. Every blocking
// send on the channel executed during such a call therefore consumes one free slot, and the (capacity+1)-th send
// of the same call blocks for ever — with vt.mu held, so the host's Draw/Update/Resize stall as well. Necessary
// condition of "events never stall further processing however many occur", decided here:
//
//	for every function the receiving goroutine calls, the maximum number of blocking sends on the channel along
//	any path through the call (callees included) is at most the channel's capacity; in particular no blocking
//	send (direct or through a callee) lies on a cycle of the control-flow graph — a loop whose trip count is
//	controlled by the input (the parameter loop of decset/decrst, a repeat count) raises unboundedly many.
//
// The count is a longest-path computation over the go/cfg graph of each function (strongly connected components
// condensed; calls weighted with the callee's own count, deferred calls included). It does not depend on the
// shape of the loop (for/range/goto, helper extraction, recursion) or on where the send is written (postEvent, a
// new wrapper, inline). Not counted: sends that are select arms with a default/timer arm (they cannot block),
// sends in `go` statements (another goroutine), and a send in a loop that is provably raised at most once per
// execution of the loop:
//   - the loop has a constant trip count (`for i := 0; i < 2; i++`), counted trip × weight;
//   - the send is guarded by a boolean field/variable that is cleared (set, for a negative guard) before control
//     can come back to the guard, and nothing else in the loop writes that flag
//     (`if vt.mode.sync { vt.mode.sync = false; vt.postEvent(...) }`).

import (
	"fmt"
	"go/ast"
	"go/constant"
	"go/token"
	"go/types"
	"sort"
	"strings"

	"golang.org/x/tools/go/cfg"
)

func init() { registerExtra("C05", c05RuleEventBurst) }

const c05nInf = int64(1) << 40

type c05nEng struct {
	c       *Ctx
	e       *c05Eng
	field   *types.Var
	memo    map[*FuncInfo]int64
	busy    map[*FuncInfo]bool
	loops   map[string]c05nLoop // offending loop sites, by key
	assigns map[*FuncInfo]map[string]bool
}

type c05nLoop struct {
	pos  token.Pos
	what string
}

func c05RuleEventBurst(c *Ctx) {
	c.Clauses = append(c.Clauses, "C05.n one sequence raises at most as many events as Model.events can hold: along every path through a call made by the goroutine that is the channel's only receiver (update, recover) the number of blocking sends on the channel is at most its capacity; no blocking send lies in a loop whose trip count the input controls")
	// what must exist whatever the code shape: the call that processes a sequence (today also the deferred recover)
	c.expect("C05.n", 1)
	e := c05Engine(c)
	pk := e.pk
	if pk == nil || e.model == nil {
		c.undecided("C05.n", "widgets/term", 0, "package widgets/term or type Model not found")
		return
	}
	info := pk.TypesInfo
	parents := c.P.Parents(pk)
	mst, _ := e.model.Underlying().(*types.Struct)
	chanFields := map[*types.Var]bool{}
	for i := 0; mst != nil && i < mst.NumFields(); i++ {
		if _, ok := mst.Field(i).Type().Underlying().(*types.Chan); ok {
			chanFields[mst.Field(i)] = true
		}
	}
	fieldOf := func(x ast.Expr) *types.Var { return c05nChanField(info, chanFields, x) }
	// receives and the goroutine literals they are in
	// a receive happens in a body (function literal or declaration); the calls that body makes run on the goroutine
	// that receives
	type recvSite struct {
		f    *types.Var
		body *ast.BlockStmt
	}
	var recvs []recvSite
	bodyOf := func(n ast.Node) *ast.BlockStmt {
		for cur := n; cur != nil; cur = parents[cur] {
			switch t := cur.(type) {
			case *ast.FuncLit:
				return t.Body
			case *ast.FuncDecl:
				return t.Body
			}
		}
		return nil
	}
	sent := map[*types.Var]bool{}
	for _, file := range pk.Syntax {
		ast.Inspect(file, func(n ast.Node) bool {
			switch t := n.(type) {
			case *ast.UnaryExpr:
				if t.Op == token.ARROW {
					if f := fieldOf(t.X); f != nil {
						recvs = append(recvs, recvSite{f, bodyOf(t)})
					}
				}
			case *ast.RangeStmt:
				if f := fieldOf(t.X); f != nil {
					recvs = append(recvs, recvSite{f, bodyOf(t)})
				}
			case *ast.SendStmt:
				if f := fieldOf(t.Chan); f != nil {
					sent[f] = true
				}
			}
			return true
		})
	}
	var fields []*types.Var
	for f := range sent {
		fields = append(fields, f)
	}
	sort.Slice(fields, func(i, j int) bool { return fields[i].Name() < fields[j].Name() })
	n := 0
	for _, f := range fields {
		var body *ast.BlockStmt
		only := true
		cnt := 0
		for _, r := range recvs {
			if r.f != f {
				continue
			}
			cnt++
			if r.body == nil || (body != nil && r.body != body) {
				only = false
			}
			if body == nil {
				body = r.body
			}
		}
		if cnt == 0 || !only || body == nil {
			continue // received in several places (or by nobody: C05.a)
		}
		n++
		capacity, capKnown := c05nCapacity(c, f)
		en := &c05nEng{c: c, e: e, field: f, memo: map[*FuncInfo]int64{}, busy: map[*FuncInfo]bool{}, loops: map[string]c05nLoop{}, assigns: map[*FuncInfo]map[string]bool{}}
		// the calls the receiving goroutine makes
		seen := map[*FuncInfo]bool{}
		var entries []*FuncInfo
		ast.Inspect(body, func(m ast.Node) bool {
			switch t := m.(type) {
			case *ast.GoStmt:
				return false
			case *ast.CallExpr:
				if fn := calleeOf(info, t); fn != nil {
					if fi := c.P.FuncOfObj(fn); fi != nil && fi.Decl.Body != nil && fi.Pkg == pk && !seen[fi] {
						seen[fi] = true
						entries = append(entries, fi)
					}
				}
			}
			return true
		})
		sort.Slice(entries, func(i, j int) bool { return entries[i].Name < entries[j].Name })
		for _, fi := range entries {
			k := en.count(fi)
			if k == 0 && !en.sendsTransitively(fi, map[*FuncInfo]bool{}) {
				continue
			}
			key := fmt.Sprintf("%s/blocking sends on Model.%s during one call from the goroutine that receives it fit the channel", fi.Name, f.Name())
			switch {
			case k >= c05nInf:
				c.bad("C05.n", key, fi.Decl.Pos(), "a blocking send on Model.%s is repeated by a loop during one call of %s (%s): the goroutine that runs it is the channel's only receiver, so once the buffer is full the send waits for ever while vt.mu is held", f.Name(), c05ShortFn(fi), en.loopList())
			case capKnown && k > capacity:
				c.bad("C05.n", key, fi.Decl.Pos(), "one call of %s can execute %d blocking sends on Model.%s, whose capacity is %d, and nobody receives during the call: the last send waits for ever while vt.mu is held", c05ShortFn(fi), k, f.Name(), capacity)
			case k == 0:
				c.ok("C05.n", key, fi.Decl.Pos(), "no send on the channel during the call can block")
			case !capKnown:
				c.ok("C05.n", key, fi.Decl.Pos(), "at most %d send(s) per call, none in a loop (the capacity of the channel is not a constant)", k)
			default:
				c.ok("C05.n", key, fi.Decl.Pos(), "at most %d send(s) per call, capacity %d", k, capacity)
			}
		}
		var lk []string
		for k := range en.loops {
			lk = append(lk, k)
		}
		sort.Strings(lk)
		for _, k := range lk {
			c.bad("C05.n", k, en.loops[k].pos, "%s", en.loops[k].what)
		}
	}
	if n == 0 {
		c.okTrivial("C05.n", "widgets/term/no channel of Model is received only by the goroutine that sends on it", 0, "no self-received hand-off channel")
	}
}

func c05nChanField(info *types.Info, chanFields map[*types.Var]bool, x ast.Expr) *types.Var {
	sel, ok := unparen(x).(*ast.SelectorExpr)
	if !ok {
		return nil
	}
	s, ok := info.Selections[sel]
	if !ok {
		return nil
	}
	v, _ := s.Obj().(*types.Var)
	if chanFields[v] {
		return v
	}
	return nil
}

// c05nCapacity: the smallest constant capacity the field is made with (0 for an unbuffered make).
func c05nCapacity(c *Ctx, f *types.Var) (int64, bool) {
	p := c.P.Pkg("widgets/term")
	info := p.TypesInfo
	best, found, unknown := int64(0), false, false
	note := func(rhs ast.Expr) {
		call, ok := unparen(rhs).(*ast.CallExpr)
		if !ok {
			unknown = true
			return
		}
		id, ok := call.Fun.(*ast.Ident)
		if !ok || id.Name != "make" {
			unknown = true
			return
		}
		if _, isB := info.Uses[id].(*types.Builtin); !isB {
			unknown = true
			return
		}
		k := int64(0)
		if len(call.Args) >= 2 {
			v, ok := constInt(info, call.Args[1])
			if !ok {
				unknown = true
				return
			}
			k = v
		}
		if !found || k < best {
			best = k
		}
		found = true
	}
	for _, file := range p.Syntax {
		ast.Inspect(file, func(n ast.Node) bool {
			switch t := n.(type) {
			case *ast.KeyValueExpr:
				if id, ok := t.Key.(*ast.Ident); ok && info.Uses[id] == types.Object(f) {
					note(t.Value)
				}
			case *ast.AssignStmt:
				for i, l := range t.Lhs {
					if sel, ok := unparen(l).(*ast.SelectorExpr); ok {
						if s, ok := info.Selections[sel]; ok && s.Obj() == types.Object(f) && len(t.Lhs) == len(t.Rhs) {
							note(t.Rhs[i])
						}
					}
				}
			}
			return true
		})
	}
	return best, found && !unknown
}

func (en *c05nEng) loopList() string {
	var out []string
	for _, l := range en.loops {
		out = append(out, en.c.P.Pos(l.pos))
	}
	sort.Strings(out)
	if len(out) == 0 {
		return "recursion"
	}
	return strings.Join(out, ", ")
}

// count: the maximum number of blocking sends on the field along any path through fi (c05nInf = unbounded).
func (en *c05nEng) count(fi *FuncInfo) int64 {
	if v, ok := en.memo[fi]; ok {
		return v
	}
	if en.busy[fi] {
		return -1 // recursion: resolved by the caller of the cycle
	}
	en.busy[fi] = true
	defer delete(en.busy, fi)
	g := en.c.P.Graph(fi)
	if g == nil || len(g.Blocks) == 0 {
		en.memo[fi] = 0
		return 0
	}
	type site struct {
		b *cfg.Block
		n ast.Node
		w int64
	}
	weight := map[*cfg.Block]int64{}
	var sites []site
	recursive := false
	for _, b := range g.Blocks {
		for _, n := range b.Nodes {
			w := en.nodeWeightRec(fi, n, &recursive)
			if w > 0 {
				weight[b] += w
				sites = append(sites, site{b, n, w})
			}
		}
	}
	if recursive {
		// a function that reaches itself and sends: the number of sends is not bounded by the code
		key := fmt.Sprintf("%s/blocking send on Model.%s is not repeated by a loop", fi.Name, en.field.Name())
		en.loops[key] = c05nLoop{fi.Decl.Pos(), fmt.Sprintf("%s sends on Model.%s and calls itself (directly or through callees): the number of sends in one call is not bounded", c05ShortFn(fi), en.field.Name())}
		en.memo[fi] = c05nInf
		return c05nInf
	}
	if len(sites) == 0 {
		en.memo[fi] = 0
		return 0
	}
	// strongly connected components of the live blocks (Tarjan)
	index := map[*cfg.Block]int{}
	low := map[*cfg.Block]int{}
	on := map[*cfg.Block]bool{}
	comp := map[*cfg.Block]int{}
	var stack []*cfg.Block
	var comps [][]*cfg.Block
	next := 0
	var strong func(v *cfg.Block)
	strong = func(v *cfg.Block) {
		index[v], low[v] = next, next
		next++
		stack = append(stack, v)
		on[v] = true
		for _, s := range v.Succs {
			if !s.Live {
				continue
			}
			if _, ok := index[s]; !ok {
				strong(s)
				if low[s] < low[v] {
					low[v] = low[s]
				}
			} else if on[s] && index[s] < low[v] {
				low[v] = index[s]
			}
		}
		if low[v] == index[v] {
			var cc []*cfg.Block
			for {
				w := stack[len(stack)-1]
				stack = stack[:len(stack)-1]
				on[w] = false
				comp[w] = len(comps)
				cc = append(cc, w)
				if w == v {
					break
				}
			}
			comps = append(comps, cc)
		}
	}
	for _, b := range g.Blocks {
		if _, ok := index[b]; !ok {
			strong(b)
		}
	}
	cyclic := func(ci int) bool {
		cc := comps[ci]
		if len(cc) > 1 {
			return true
		}
		for _, s := range cc[0].Succs {
			if s == cc[0] {
				return true
			}
		}
		return false
	}
	compW := make([]int64, len(comps))
	for ci, cc := range comps {
		inC := map[*cfg.Block]bool{}
		for _, b := range cc {
			inC[b] = true
		}
		for _, b := range cc {
			compW[ci] += weight[b]
		}
		if compW[ci] == 0 || !cyclic(ci) {
			continue
		}
		// sends inside a cycle
		total := int64(0)
		for _, s := range sites {
			if !inC[s.b] {
				continue
			}
			mult, why := en.repeatOf(fi, g, inC, s.b, s.n)
			if mult >= c05nInf || s.w >= c05nInf {
				total = c05nInf
				if s.w < c05nInf || mult >= c05nInf {
					key := fmt.Sprintf("%s/blocking send on Model.%s is not repeated by a loop", fi.Name, en.field.Name())
					if _, dup := en.loops[key]; !dup {
						en.loops[key] = c05nLoop{s.n.Pos(), fmt.Sprintf("%s executes a blocking send on Model.%s (%s) inside a loop%s: one sequence with enough parameters raises more events than the channel holds, and the goroutine that runs this code is the channel's only receiver", c05ShortFn(fi), en.field.Name(), en.c.P.Pos(s.n.Pos()), why)}
					}
				}
				continue
			}
			if total < c05nInf {
				total += mult * s.w
			}
		}
		if total > c05nInf {
			total = c05nInf
		}
		compW[ci] = total
	}
	// longest path over the condensation (components are numbered in reverse topological order by Tarjan)
	best := make([]int64, len(comps))
	for ci := 0; ci < len(comps); ci++ {
		m := int64(0)
		for _, b := range comps[ci] {
			for _, s := range b.Succs {
				if !s.Live {
					continue
				}
				if cj := comp[s]; cj != ci && best[cj] > m {
					m = best[cj]
				}
			}
		}
		best[ci] = compW[ci] + m
		if best[ci] > c05nInf {
			best[ci] = c05nInf
		}
	}
	res := best[comp[g.Blocks[0]]]
	en.memo[fi] = res
	return res
}

// nodeWeightRec is nodeWeight that notes a recursive call chain instead of following it.
func (en *c05nEng) nodeWeightRec(fi *FuncInfo, n ast.Node, recursive *bool) int64 {
	info := fi.Pkg.TypesInfo
	parents := en.c.P.Parents(fi.Pkg)
	chanFields := map[*types.Var]bool{en.field: true}
	w := int64(0)
	add := func(k int64) {
		w += k
		if w > c05nInf {
			w = c05nInf
		}
	}
	var blocking map[ast.Node]bool
	ast.Inspect(n, func(m ast.Node) bool {
		switch t := m.(type) {
		case *ast.GoStmt:
			return false
		case *ast.FuncLit:
			if call, ok := parents[t].(*ast.CallExpr); ok && call.Fun == ast.Expr(t) {
				if _, isGo := parents[call].(*ast.GoStmt); !isGo {
					return true
				}
			}
			return false
		case *ast.SendStmt:
			if c05nChanField(info, chanFields, t.Chan) != nil {
				if blocking == nil {
					blocking = map[ast.Node]bool{}
					for _, b := range c05Blocking(info, parents, n) {
						blocking[b] = true
					}
				}
				if blocking[t] {
					add(1)
				}
			}
		case *ast.CallExpr:
			if fn := calleeOf(info, t); fn != nil {
				if cf := en.c.P.FuncOfObj(fn); cf != nil && cf.Decl.Body != nil && cf.Pkg == fi.Pkg {
					k := en.count(cf)
					if k < 0 {
						// the callee is being counted: fi lies on a call cycle. It matters only if the cycle sends.
						if en.sendsTransitively(cf, map[*FuncInfo]bool{}) {
							*recursive = true
						}
						return true
					}
					add(k)
				}
			}
		}
		return true
	})
	return w
}

func (en *c05nEng) sendsTransitively(fi *FuncInfo, seen map[*FuncInfo]bool) bool {
	if seen[fi] {
		return false
	}
	seen[fi] = true
	info := fi.Pkg.TypesInfo
	chanFields := map[*types.Var]bool{en.field: true}
	found := false
	ast.Inspect(fi.Decl.Body, func(m ast.Node) bool {
		if found {
			return false
		}
		switch t := m.(type) {
		case *ast.GoStmt:
			return false
		case *ast.SendStmt:
			if c05nChanField(info, chanFields, t.Chan) != nil {
				found = true
			}
		case *ast.CallExpr:
			if fn := calleeOf(info, t); fn != nil {
				if cf := en.c.P.FuncOfObj(fn); cf != nil && cf.Decl.Body != nil && cf.Pkg == fi.Pkg && en.sendsTransitively(cf, seen) {
					found = true
				}
			}
		}
		return true
	})
	return found
}

// repeatOf: how often the node n of block b (which lies on a CFG cycle, the blocks of which are inC) can run
// during one execution of the function: a constant trip count of the enclosing loops, 1 when a flag makes the
// send a one-off, c05nInf otherwise (with the reason for the message).
func (en *c05nEng) repeatOf(fi *FuncInfo, g *FG, inC map[*cfg.Block]bool, b *cfg.Block, n ast.Node) (int64, string) {
	if en.onceByFlag(fi, g, inC, b, n) {
		return 1, ""
	}
	parents := en.c.P.Parents(fi.Pkg)
	info := fi.Pkg.TypesInfo
	mult := int64(1)
	why := ""
	for cur := parents[n]; cur != nil; cur = parents[cur] {
		switch t := cur.(type) {
		case *ast.FuncDecl, *ast.FuncLit:
			cur = nil
		case *ast.RangeStmt:
			// is this loop part of the cycle? (a loop that is always left after the send is not)
			if !c05nLoopInCycle(g, inC, t) {
				continue
			}
			k, ok := c05nRangeTrips(info, t)
			if !ok {
				return c05nInf, fmt.Sprintf(" over %s, whose length the input decides", types.ExprString(t.X))
			}
			mult *= k
		case *ast.ForStmt:
			if !c05nLoopInCycle(g, inC, t) {
				continue
			}
			k, ok := c05nForTrips(info, t)
			if !ok {
				why = " whose trip count is not a constant"
				if t.Cond != nil {
					why = fmt.Sprintf(" that runs while %s", types.ExprString(t.Cond))
				}
				return c05nInf, why
			}
			mult *= k
		}
		if cur == nil {
			break
		}
		if mult > 1<<20 {
			return c05nInf, " with a huge trip count"
		}
	}
	// a cycle that is not a for/range statement (goto) has no bound we can read
	if mult == 1 && !c05nInAnyLoop(parents, n) {
		return c05nInf, " (a backward goto)"
	}
	return mult, why
}

func c05nInAnyLoop(parents map[ast.Node]ast.Node, n ast.Node) bool {
	for cur := parents[n]; cur != nil; cur = parents[cur] {
		switch cur.(type) {
		case *ast.ForStmt, *ast.RangeStmt:
			return true
		case *ast.FuncDecl, *ast.FuncLit:
			return false
		}
	}
	return false
}

// c05nLoopInCycle: the head of the loop statement belongs to the strongly connected component.
func c05nLoopInCycle(g *FG, inC map[*cfg.Block]bool, loop ast.Stmt) bool {
	for b := range inC {
		if b.Stmt == loop {
			return true
		}
	}
	return false
}

// c05nForTrips: `for i := a; i < b; i++` with constant a, b and no other write of i.
func c05nForTrips(info *types.Info, fs *ast.ForStmt) (int64, bool) {
	as, ok := fs.Init.(*ast.AssignStmt)
	if !ok || len(as.Lhs) != 1 || len(as.Rhs) != 1 || fs.Cond == nil || fs.Post == nil {
		return 0, false
	}
	id, ok := as.Lhs[0].(*ast.Ident)
	if !ok {
		return 0, false
	}
	obj := info.ObjectOf(id)
	lo, ok := constInt(info, as.Rhs[0])
	if !ok || obj == nil {
		return 0, false
	}
	be, ok := unparen(fs.Cond).(*ast.BinaryExpr)
	if !ok {
		return 0, false
	}
	xi, ok := unparen(be.X).(*ast.Ident)
	if !ok || info.ObjectOf(xi) != obj {
		return 0, false
	}
	hi, ok := constInt(info, be.Y)
	if !ok {
		return 0, false
	}
	switch be.Op {
	case token.LSS:
	case token.LEQ:
		hi++
	default:
		return 0, false
	}
	inc, ok := fs.Post.(*ast.IncDecStmt)
	if !ok || inc.Tok != token.INC {
		return 0, false
	}
	if pi, ok := unparen(inc.X).(*ast.Ident); !ok || info.ObjectOf(pi) != obj {
		return 0, false
	}
	if assignsAny(info, fs.Body, map[types.Object]bool{obj: true}) {
		return 0, false
	}
	if hi < lo {
		return 0, true
	}
	return hi - lo, true
}

// c05nRangeTrips: range over a constant integer, an array, or a composite literal.
func c05nRangeTrips(info *types.Info, rs *ast.RangeStmt) (int64, bool) {
	if k, ok := constInt(info, rs.X); ok {
		return k, true
	}
	t := info.TypeOf(rs.X)
	if t == nil {
		return 0, false
	}
	if a, ok := t.Underlying().(*types.Array); ok {
		return a.Len(), true
	}
	if p, ok := t.Underlying().(*types.Pointer); ok {
		if a, ok := p.Elem().Underlying().(*types.Array); ok {
			return a.Len(), true
		}
	}
	if cl, ok := unparen(rs.X).(*ast.CompositeLit); ok {
		for _, el := range cl.Elts {
			if _, isKV := el.(*ast.KeyValueExpr); isKV {
				return 0, false
			}
		}
		return int64(len(cl.Elts)), true
	}
	return 0, false
}

// onceByFlag: the node is reached only through a guard on a boolean access path P (P or !P), every way from the
// node back to that guard inside the cycle passes an assignment of the constant that falsifies the guard (or the
// assignment precedes the node on every way from the guard), and nothing else inside the cycle writes P.
func (en *c05nEng) onceByFlag(fi *FuncInfo, g *FG, inC map[*cfg.Block]bool, b *cfg.Block, n ast.Node) bool {
	info := fi.Pkg.TypesInfo
	loc, ok := g.Locate(n)
	if !ok {
		return false
	}
	for _, gd := range g.Guards(loc) {
		if gd.Cond == nil || gd.Cond.Tag != nil || gd.Cond.Alts != nil || !inC[gd.From] {
			continue
		}
		for _, fl := range c05nFlagConjuncts(info, gd.Cond.Expr, gd.Pol) {
			if en.flagClears(fi, g, inC, gd, loc, fl) {
				return true
			}
		}
	}
	return false
}

type c05nFlag struct {
	path string
	pol  bool // the guard requires path == pol
}

// c05nFlagConjuncts: the boolean access paths that must have a definite value for cond to have polarity pol.
func c05nFlagConjuncts(info *types.Info, cond ast.Expr, pol bool) []c05nFlag {
	cond = unparen(cond)
	switch t := cond.(type) {
	case *ast.UnaryExpr:
		if t.Op == token.NOT {
			return c05nFlagConjuncts(info, t.X, !pol)
		}
	case *ast.BinaryExpr:
		switch {
		case t.Op == token.LAND && pol, t.Op == token.LOR && !pol:
			return append(c05nFlagConjuncts(info, t.X, pol), c05nFlagConjuncts(info, t.Y, pol)...)
		case t.Op == token.EQL || t.Op == token.NEQ:
			for _, pair := range [][2]ast.Expr{{t.X, t.Y}, {t.Y, t.X}} {
				if tv, ok := info.Types[pair[1]]; ok && tv.Value != nil && tv.Value.Kind() == constant.Bool {
					want := tv.Value.String() == "true"
					if t.Op == token.NEQ {
						want = !want
					}
					if !pol {
						want = !want
					}
					return c05nFlagConjuncts(info, pair[0], want)
				}
			}
		}
		return nil
	case *ast.SelectorExpr, *ast.Ident:
		if tv := info.TypeOf(cond); tv != nil {
			if bt, ok := tv.Underlying().(*types.Basic); ok && bt.Info()&types.IsBoolean != 0 {
				if tvv, ok := info.Types[cond]; ok && tvv.Value != nil {
					return nil
				}
				if p := canonPath(info, cond); p != "" {
					return []c05nFlag{{p, pol}}
				}
			}
		}
	}
	return nil
}

// flagWrites: the writes of the access path in node n: +1 constant true, -1 constant false, 2 anything else
// (also: a call of a package function that may write it).
func (en *c05nEng) flagWrites(fi *FuncInfo, n ast.Node, path string) []int {
	info := fi.Pkg.TypesInfo
	var out []int
	inspectNoLit(n, func(m ast.Node) bool {
		switch t := m.(type) {
		case *ast.AssignStmt:
			for i, l := range t.Lhs {
				lp := canonPath(info, l)
				if lp == "" {
					continue
				}
				switch {
				case lp == path:
					k := 2
					if t.Tok == token.ASSIGN || t.Tok == token.DEFINE {
						if len(t.Lhs) == len(t.Rhs) {
							if tv, ok := info.Types[t.Rhs[i]]; ok && tv.Value != nil {
								if tv.Value.String() == "true" {
									k = 1
								} else if tv.Value.String() == "false" {
									k = -1
								}
							}
						}
					}
					out = append(out, k)
				case strings.HasPrefix(path, lp+"."):
					out = append(out, 2) // the enclosing struct is replaced
				}
			}
		case *ast.UnaryExpr:
			if t.Op == token.AND {
				if lp := canonPath(info, t.X); lp != "" && (lp == path || strings.HasPrefix(path, lp+".")) {
					out = append(out, 2) // address taken
				}
			}
		case *ast.CallExpr:
			if fn := calleeOf(info, t); fn != nil {
				if cf := en.c.P.FuncOfObj(fn); cf != nil && cf.Decl.Body != nil && cf.Pkg == fi.Pkg {
					if en.mayAssign(cf, path, map[*FuncInfo]bool{}) {
						out = append(out, 2)
					}
				}
			}
		}
		return true
	})
	return out
}

// mayAssign: fi (or a package function it calls) contains an assignment to the canonical path or to a struct
// that contains it.
func (en *c05nEng) mayAssign(fi *FuncInfo, path string, seen map[*FuncInfo]bool) bool {
	if seen[fi] {
		return false
	}
	seen[fi] = true
	if m, ok := en.assigns[fi]; ok {
		if v, ok := m[path]; ok {
			return v
		}
	} else {
		en.assigns[fi] = map[string]bool{}
	}
	info := fi.Pkg.TypesInfo
	found := false
	ast.Inspect(fi.Decl.Body, func(m ast.Node) bool {
		if found {
			return false
		}
		switch t := m.(type) {
		case *ast.AssignStmt:
			for _, l := range t.Lhs {
				if lp := canonPath(info, l); lp != "" && (lp == path || strings.HasPrefix(path, lp+".")) {
					found = true
				}
			}
		case *ast.UnaryExpr:
			if t.Op == token.AND {
				if lp := canonPath(info, t.X); lp != "" && (lp == path || strings.HasPrefix(path, lp+".")) {
					found = true
				}
			}
		case *ast.CallExpr:
			if fn := calleeOf(info, t); fn != nil {
				if cf := en.c.P.FuncOfObj(fn); cf != nil && cf.Decl.Body != nil && cf.Pkg == fi.Pkg && en.mayAssign(cf, path, seen) {
					found = true
				}
			}
		}
		return true
	})
	en.assigns[fi][path] = found
	return found
}

func (en *c05nEng) flagClears(fi *FuncInfo, g *FG, inC map[*cfg.Block]bool, gd Guard, at Loc, fl c05nFlag) bool {
	falsify := -1
	if !fl.pol {
		falsify = 1
	}
	// every write of the flag inside the cycle is the falsifying constant
	clearing := map[ast.Node]bool{}
	for b := range inC {
		for _, n := range b.Nodes {
			for _, k := range en.flagWrites(fi, n, fl.path) {
				if k != falsify {
					return false
				}
				clearing[n] = true
			}
		}
	}
	if len(clearing) == 0 {
		return false
	}
	// the node that sends may itself be the clearing statement's neighbour: the flag must be falsified on every way
	// from the guard through the node back to the guard. Either the clearing precedes the node on every way from
	// the guard edge, or every way from the node to the guard block passes it.
	edge := 1
	if gd.Pol {
		edge = 0
	}
	if edge >= len(gd.From.Succs) {
		return false
	}
	stop := func(n ast.Node) bool { return clearing[n] }
	if !g.reachesUnder(Loc{gd.From.Succs[edge], -1}, at, stop, nil) {
		return true
	}
	return !g.reachesUnder(at, Loc{gd.From, 0}, stop, nil)
}
