package main

// C04 — terminal state restored on every exit path.

import (
	"fmt"
	"go/ast"
	"go/types"
	"sort"
	"strings"
)

// staticReach: functions of the repository reachable from root through static calls
// (function literals inside a function belong to it).
func staticReach(p *Program, root *FuncInfo) map[string]bool {
	seen := map[string]bool{}
	var visit func(fi *FuncInfo)
	visit = func(fi *FuncInfo) {
		if fi == nil || seen[fi.Name] || fi.Decl.Body == nil {
			return
		}
		seen[fi.Name] = true
		ast.Inspect(fi.Decl.Body, func(n ast.Node) bool {
			if call, ok := n.(*ast.CallExpr); ok {
				if fn := calleeOf(fi.Pkg.TypesInfo, call); fn != nil {
					visit(p.FuncOfObj(fn))
				}
			}
			return true
		})
	}
	visit(root)
	return seen
}

type modeSeq struct {
	class string // identity of the state being set, e.g. "DECSET 1049", "kitty-keyboard", "keypad", "cursor-style", "sgr", "pointer-shape", "app-id"
	set   bool   // true: changes state away from default; false: restores
}

// classifySeq maps a parsed sequence to the terminal state it sets or restores (nil: neither).
func classifySeq(s Seq) *modeSeq {
	switch s.Kind {
	case "CSI":
		switch {
		case s.Private == "?" && (s.Final == "h" || s.Final == "l") && s.Inter == "":
			set := s.Final == "h"
			if s.Params == "25" {
				set = !set // hiding the cursor is the change, showing it the restoration
			}
			return &modeSeq{class: "DECSET " + s.Params, set: set}
		case s.Private == ">" && s.Final == "u":
			return &modeSeq{class: "kitty-keyboard", set: true}
		case s.Private == "<" && s.Final == "u":
			return &modeSeq{class: "kitty-keyboard", set: false}
		case s.Private == "" && s.Inter == " " && s.Final == "q":
			// DECSCUSR: during the session it sets the application's style, on exit the user's
			return &modeSeq{class: "cursor-style", set: true}
		case s.Private == "" && s.Inter == "" && s.Final == "m":
			return &modeSeq{class: "sgr", set: s.Params != "" && s.Params != "0"}
		}
	case "ESC":
		if s.Inter == "" && s.Final == "=" {
			return &modeSeq{class: "keypad", set: true}
		}
		if s.Inter == "" && s.Final == ">" {
			return &modeSeq{class: "keypad", set: false}
		}
	case "OSC":
		switch s.OSCSel {
		case "22":
			return &modeSeq{class: "pointer-shape", set: true}
		case "176":
			if s.Data != "?" {
				return &modeSeq{class: "app-id", set: true}
			}
		}
	}
	return nil
}

// c04Site: one mode-setting or mode-restoring sequence of an emission.
type c04Site struct {
	em  *Emission
	seq Seq
	ms  *modeSeq
}

// c04ModeSites enumerates the resolved emissions of package vaxis: the restoring sequences on the exit path
// (functions reachable from Suspend, the terminal writer excluded) and the setting sequences everywhere else.
func c04ModeSites(c *Ctx, suspend *FuncInfo) (setters, restorers []c04Site) {
	restoreFns := staticReach(c.P, suspend)
	ems := ExtractEmissions(c.P, c.P.FuncsIn("vaxis"), vaxisTerminalSink)
	isWriterFn := func(n string) bool { return strings.HasPrefix(n, "vaxis.(*writer).") }
	for _, e := range ems {
		if !e.Resolved {
			continue
		}
		base := e.FnName
		if i := strings.Index(base, "$"); i >= 0 {
			base = base[:i]
		}
		inRestore := restoreFns[base] && !isWriterFn(base)
		seenClass := map[string]bool{}
		for _, t := range e.Templates {
			for _, s := range parseSeqs(t) {
				ms := classifySeq(s)
				if ms == nil {
					continue
				}
				k := fmt.Sprintf("%s/%v", ms.class, ms.set)
				if seenClass[k] {
					continue
				}
				seenClass[k] = true
				st := c04Site{e, s, ms}
				if inRestore {
					// a valid once-guard of the exit sequence (c04once.go) is no capability condition of the restorer
					if once := c04OnceKeys(c, e); once != nil {
						cp := *e
						cp.GuardKeys = nil
						for _, gk := range e.GuardKeys {
							if !once[gk] {
								cp.GuardKeys = append(cp.GuardKeys, gk)
							}
						}
						st.em = &cp
					}
					if !ms.set || ms.class == "cursor-style" || ms.class == "pointer-shape" || ms.class == "app-id" {
						restorers = append(restorers, st)
					}
				} else if ms.set {
					setters = append(setters, st)
				}
			}
		}
	}
	return
}

func runC04(c *Ctx) {
	c.Clauses = []string{
		"C04.a every mode-setting sequence emitted outside the exit path has a restoring sequence on the exit path whose guards are implied by the setter's guards",
		"C04.b Close reaches Suspend then console.Close unless already closed, marks closed first; Suspend runs parser shutdown, disableModes, exitAltScreen, cursor restore, flush, signal stop, console reset in that order; signal arm and panic handler call Close",
		"C04.c Resume emits the same mode-establishing calls in the same order as New after the query phase",
		"C04.d capability flags are not written after the modes were enabled (pairing by equal guards is stable)",
	}
	c.NotDec = []string{"that restored values equal the terminal's values from before start-up for modes Vaxis cannot read back"}
	c.expect("C04.a", 18)
	c.expect("C04.b", 14)
	c.expect("C04.c", 2)
	c.expect("C04.d", 3)

	c04Normalise(c)
	pk := c.P.Pkg("vaxis")
	info := pk.TypesInfo
	suspend := c.P.Func("vaxis.(*Vaxis).Suspend")
	if suspend == nil {
		c.undecided("C04.b", "vaxis.(*Vaxis).Suspend", 0, "Suspend not found")
		return
	}
	isWriterFn := func(n string) bool { return strings.HasPrefix(n, "vaxis.(*writer).") }
	setters, restorers := c04ModeSites(c, suspend)
	// capability-implied guards: a restorer may additionally be guarded by the capability flag
	// that the terminal's reply to the feature's own query establishes (a terminal that honoured
	// the setter also answered the query). C04.l (c04l.go) decides what that argument rests on: after the
	// unguarded set nothing clears the flag, and the reply is recorded whatever the configuration.
	capImplied := map[string]string{
		"DECSET 2048": "+Vaxis.caps.inBandResize", // blind enable in the probe; the report it triggers sets the flag
		"app-id":      "+Vaxis.caps.osc176",       // SetAppID is honoured only by terminals that answered OSC 176 ;?
	}
	perFrame := map[string]string{
		"DECSET 2026": "balanced per flush (C01.a)",
	}
	for _, s := range setters {
		key := fmt.Sprintf("%s/sets %s", s.em.FnName, s.ms.class)
		if why, ok := perFrame[s.ms.class]; ok {
			c.okTrivial("C04.a", key, s.em.Call.Pos(), "%s", why)
			continue
		}
		if isWriterFn(s.em.FnName) && s.ms.class == "DECSET 25" {
			// frame prologue hides the cursor; the frame epilogue / exit path shows it: exit path checked below
		}
		var best string
		found := false
		for _, r := range restorers {
			if r.ms.class != s.ms.class {
				continue
			}
			missing := []string{}
			for _, gk := range r.em.GuardKeys {
				if !containsStr(s.em.GuardKeys, gk) && capImplied[s.ms.class] != gk {
					missing = append(missing, gk)
				}
			}
			if len(missing) == 0 {
				found = true
				best = fmt.Sprintf("restored by %q in %s under %v", r.seq.Raw, r.em.FnName, r.em.GuardKeys)
				break
			}
			best = fmt.Sprintf("candidate %q in %s needs %v which the setter's guards %v do not imply", r.seq.Raw, r.em.FnName, missing, s.em.GuardKeys)
		}
		if found {
			c.ok("C04.a", key, s.em.Call.Pos(), "%q: %s", s.seq.Raw, best)
		} else {
			if best == "" {
				best = "no restoring sequence of this class is emitted on the exit path (functions reachable from Suspend)"
			}
			c.bad("C04.a", key, s.em.Call.Pos(), "%q is set but not restored on exit for some capability set: %s", s.seq.Raw, best)
		}
	}
	// the exit path must always show the cursor and leave the alternate screen, unguarded
	for _, need := range []struct{ class, what string }{{"DECSET 25", "cursor shown"}, {"DECSET 1049", "primary screen active"}, {"sgr", "SGR reset"}, {"keypad", "numeric keypad"}} {
		ok := false
		var pos tokenPos = suspend.Decl.Pos()
		for _, r := range restorers {
			if r.ms.class == need.class && !r.ms.set && len(r.em.GuardKeys) == 0 {
				ok = true
				pos = r.em.Call.Pos()
			}
		}
		c.check(ok, "C04.a", "exit path/unconditional "+need.what, pos, "emitted unguarded on the exit path", "the exit path does not unconditionally restore: "+need.what)
	}

	// ---- C04.b
	c04Close(c, info)
	c04Suspend(c, suspend, info)
	c04InputGoroutine(c, info)

	// ---- C04.c
	c04Resume(c, info)

	// ---- C04.d
	c04GuardStability(c, info)
}

func containsStr(a []string, s string) bool {
	for _, x := range a {
		if x == s {
			return true
		}
	}
	return false
}

func isCallTo(info *types.Info, n ast.Node, names ...string) bool {
	call, ok := n.(*ast.CallExpr)
	if !ok {
		return false
	}
	fn := calleeOf(info, call)
	if fn == nil {
		return false
	}
	rn := repoName(fn)
	for _, nm := range names {
		if rn == nm || fullName(fn) == nm {
			return true
		}
	}
	return false
}

func c04Close(c *Ctx, info *types.Info) {
	fi := c.P.Func("vaxis.(*Vaxis).Close")
	if fi == nil {
		c.undecided("C04.b", "vaxis.(*Vaxis).Close", 0, "Close not found")
		return
	}
	g := c.P.Graph(fi)
	name := fi.Name
	isSuspendCall := func(n ast.Node) bool { return isCallTo(info, n, "vaxis.Vaxis.Suspend") }
	isConsoleClose := func(n ast.Node) bool {
		call, ok := n.(*ast.CallExpr)
		if !ok {
			return false
		}
		sel, ok := call.Fun.(*ast.SelectorExpr)
		return ok && sel.Sel.Name == "Close" && canonPath(info, sel.X) == "Vaxis.console"
	}
	isCloseQuit := func(n ast.Node) bool {
		call, ok := n.(*ast.CallExpr)
		if !ok || len(call.Args) != 1 {
			return false
		}
		id, ok := unparen(call.Fun).(*ast.Ident)
		if !ok || id.Name != "close" {
			return false
		}
		if _, isBuiltin := info.Uses[id].(*types.Builtin); !isBuiltin {
			return false
		}
		return canonPath(info, call.Args[0]) == "Vaxis.chQuit"
	}
	// The rules are decided by a path-sensitive search over the value of vx.closed (and of boolean locals
	// computed from it), so that `if closed { return }; body` and `if !closed { body }`, a switch, a local
	// copy of the flag or an accessor are all judged alike.
	const closed = "Vaxis.closed"
	closedWriters := map[string]bool{}
	for _, f := range c.P.FuncsIn("vaxis") {
		if f.Decl.Body == nil {
			continue
		}
		ast.Inspect(f.Decl.Body, func(n ast.Node) bool {
			switch t := n.(type) {
			case *ast.AssignStmt:
				for _, l := range t.Lhs {
					if lhsPath(f.Pkg.TypesInfo, l) == closed {
						closedWriters[f.Name] = true
					}
				}
			case *ast.UnaryExpr:
				if t.Op.String() == "&" && lhsPath(f.Pkg.TypesInfo, t.X) == closed {
					closedWriters[f.Name] = true
				}
			}
			return true
		})
	}
	killMemo := map[string]bool{}
	flow := &c04Flow{p: c.P, g: g, fields: map[string]bool{closed: true}}
	flow.kills = func(call *ast.CallExpr) []string {
		cf := c.P.FuncOfObj(calleeOf(info, call))
		if cf == nil {
			return nil
		}
		v, ok := killMemo[cf.Name]
		if !ok {
			for fn := range staticReach(c.P, cf) {
				if closedWriters[fn] {
					v = true
				}
			}
			killMemo[cf.Name] = v
		}
		if v {
			return []string{closed}
		}
		return nil
	}
	// helpers a refactoring introduced (not on the reference list) are analysed in place
	flow.descend = func(call *ast.CallExpr) *FG {
		cf := c.P.FuncOfObj(calleeOf(info, call))
		if cf == nil || cf.Decl.Body == nil || cf.Pkg != fi.Pkg || refFuncNames[cf.Decl.Name.Name] {
			return nil
		}
		return c.P.Graph(cf)
	}
	// (1) first Close (closed == false on entry): every normal return has passed Suspend and then
	//     console.Close, and at Suspend the closed mark is already set.
	const evSusp, evCons, evConsDeferred = "#suspend", "#console.Close", "#deferred console.Close"
	okBypass, okMark, okC := true, true, true
	var suspPos tokenPos
	flow.effect = func(n ast.Node, env c04Env) c04Env {
		if containsNode(n, isSuspendCall) {
			if suspPos == 0 {
				suspPos = n.Pos()
			}
			if v, known := env[closed]; !known || !v {
				okMark = false
			}
			env = env.clone()
			env[evSusp] = true
			delete(env, evCons)
		}
		if containsNode(n, isConsoleClose) {
			env = env.clone()
			if _, isDefer := n.(*ast.DeferStmt); isDefer {
				env[evConsDeferred] = true
			} else if env[evSusp] {
				env[evCons] = true
			}
		}
		return env
	}
	flow.run(c04Env{closed: false}, nil, func(env c04Env) {
		if !env[evSusp] {
			okBypass = false
		} else if !env[evCons] && !env[evConsDeferred] {
			okC = false
		}
	})
	if suspPos == 0 {
		c.bad("C04.b", name+"/calls Suspend", fi.Decl.Pos(), "Close must call Suspend (no call is reached when `closed` is unset)")
		return
	}
	c.check(okBypass, "C04.b", name+"/every return without Suspend is the already-closed early-out", fi.Decl.Pos(),
		"a Close that finds `closed` unset cannot return without running Suspend", "Close can return without restoring the terminal on a path not guarded by `closed`")
	// closed = true precedes Suspend (idempotence even under re-entry from the signal/panic paths)
	c.check(okMark, "C04.b", name+"/closed=true precedes Suspend", suspPos,
		"the closed mark is set before the terminal is restored, a second Close is a no-op", "Suspend can run before Close marks itself closed: a second Close restores twice / closes chQuit twice")
	c.check(okC, "C04.b", name+"/console.Close follows Suspend", suspPos, "console closed after the restore", "console.Close does not follow Suspend on every path")
	// (2) second Close (closed == true on entry): the shutdown is not run again
	early := true
	flow.effect = nil
	flow.run(c04Env{closed: true}, func(n ast.Node, env c04Env) bool {
		if containsNode(n, isSuspendCall) || containsNode(n, isConsoleClose) || containsNode(n, isCloseQuit) {
			early = false
			return false
		}
		return true
	}, nil)
	c.check(early, "C04.b", name+"/early-out on closed", fi.Decl.Pos(), "second Close returns without running the shutdown again", "Close has no early return on `closed`: a second Close re-runs the shutdown")
}

func c04Suspend(c *Ctx, fi *FuncInfo, info *types.Info) {
	g := c.P.Graph(fi)
	name := fi.Name
	type step struct {
		label string
		match func(n ast.Node) bool
	}
	callSel := func(recvPath, method string) func(ast.Node) bool {
		return func(n ast.Node) bool {
			call, ok := n.(*ast.CallExpr)
			if !ok {
				return false
			}
			sel, ok := call.Fun.(*ast.SelectorExpr)
			return ok && sel.Sel.Name == method && canonPath(info, sel.X) == recvPath
		}
	}
	emits := func(sub string) func(ast.Node) bool {
		se := newStrEval(c.P, fi.Pkg)
		return func(n ast.Node) bool {
			call, ok := n.(*ast.CallExpr)
			if !ok {
				return false
			}
			fn := calleeOf(info, call)
			arg, isFmt, _, ok := vaxisTerminalSink(fi.Pkg, call, fn)
			if !ok || arg >= len(call.Args) {
				return false
			}
			vals, ok := se.eval(call.Args[arg], nil)
			if !ok {
				return false
			}
			for _, v := range vals {
				if isFmt {
					v = se.applyFormat(v, call.Args[arg+1:], false, nil)
				}
				if strings.Contains(v, sub) {
					return true
				}
			}
			return false
		}
	}
	steps := []step{
		{"parser.Close", callSel("Vaxis.parser", "Close")},
		{"parser.WaitClose", callSel("Vaxis.parser", "WaitClose")},
		{"disableModes", func(n ast.Node) bool { return isCallTo(info, n, "vaxis.Vaxis.disableModes") }},
		{"exitAltScreen", func(n ast.Node) bool { return isCallTo(info, n, "vaxis.Vaxis.exitAltScreen") }},
		{"cursor style restored", emits(" q")},
		{"cursor shown", emits("\x1b[?25h")},
		{"Flush", func(n ast.Node) bool { return isCallTo(info, n, "vaxis.writer.Flush") }},
		{"signal.Stop", func(n ast.Node) bool { return isCallTo(info, n, "os/signal.Stop") }},
		{"console.Reset", callSel("Vaxis.console", "Reset")},
	}
	// "every path through Suspend": with a once-guard of the exit sequence (c04once.go) the paths that latch it
	entry := Loc{g.Blocks[0], -1}
	if once := c04OnceGuard(c); once != nil {
		key := name + "/early return under " + once.flag + " is the once-guard of the exit sequence"
		if once.valid {
			entry = once.start
			c.ok("C04.b", key, once.pos, "%s; nothing else sets it and only Resume clears it, after openTty and with the modes re-established: set means restored and not resumed since (the histories are decided by C04.m)", once.why)
		} else {
			c.bad("C04.b", key, once.pos, "%s", once.why)
		}
	}
	var prevMatch func(ast.Node) bool
	var prevLabel string
	for _, st := range steps {
		hits := g.Find(st.match)
		key := fmt.Sprintf("%s/%s", name, st.label)
		if len(hits) == 0 {
			c.bad("C04.b", key+" present", fi.Decl.Pos(), "Suspend no longer performs: %s", st.label)
			continue
		}
		// on every path from entry to exit
		okAll, _ := g.MustFollow(entry, st.match)
		c.check(okAll, "C04.b", key+" on every path", hits[0].Node.Pos(), "every path through Suspend performs it", "some path through Suspend skips: "+st.label)
		if prevMatch != nil {
			first := hits[0].Loc
			c.check(g.MustPrecede(prevMatch, first), "C04.b", fmt.Sprintf("%s/%s before %s", name, prevLabel, st.label), hits[0].Node.Pos(),
				"ordered", fmt.Sprintf("%s can run before %s", st.label, prevLabel))
		}
		prevMatch, prevLabel = st.match, st.label
	}
}

func c04InputGoroutine(c *Ctx, info *types.Info) {
	fi := c.P.Func("vaxis.(*Vaxis).openTty")
	if fi == nil {
		c.undecided("C04.b", "vaxis.(*Vaxis).openTty", 0, "openTty not found")
		return
	}
	// the input goroutine: `go func(){...}()` or `go vx.loop(...)` in openTty
	var lit ast.Node
	var litBody *ast.BlockStmt
	ast.Inspect(fi.Decl.Body, func(n ast.Node) bool {
		if gs, ok := n.(*ast.GoStmt); ok && lit == nil {
			switch f := unparen(gs.Call.Fun).(type) {
			case *ast.FuncLit:
				lit, litBody = f, f.Body
			default:
				if cf := c.P.FuncOfObj(calleeOf(info, gs.Call)); cf != nil && cf.Decl.Body != nil {
					lit, litBody = cf.Decl, cf.Decl.Body
				}
			}
		}
		return true
	})
	if lit == nil {
		c.undecided("C04.b", fi.Name+"/input goroutine", fi.Decl.Pos(), "no `go func(){...}()` or `go <method>()` found in openTty")
		return
	}
	// a thin wrapper (`go func() { vx.inputLoop() }()`): the body that runs is the callee's
	for depth := 0; depth < 3 && litBody != nil && len(litBody.List) == 1; depth++ {
		es, ok := litBody.List[0].(*ast.ExprStmt)
		if !ok {
			break
		}
		call, ok := unparen(es.X).(*ast.CallExpr)
		if !ok {
			break
		}
		cf := c.P.FuncOfObj(calleeOf(info, call))
		if cf == nil || cf.Decl.Body == nil || cf.Pkg != fi.Pkg {
			break
		}
		lit, litBody = cf.Decl, cf.Decl.Body
	}
	name := fi.Name + "$input"
	// deferred recover handler calls Close before re-panicking
	okDefer := false
	for _, s := range litBody.List {
		ds, ok := s.(*ast.DeferStmt)
		if !ok {
			continue
		}
		var dg *FG
		var dlBody *ast.BlockStmt
		switch f := unparen(ds.Call.Fun).(type) {
		case *ast.FuncLit:
			dg, dlBody = c.P.GraphOfLit(fi.Pkg, name+"$recover", f), f.Body
		default:
			if cf := c.P.FuncOfObj(calleeOf(info, ds.Call)); cf != nil && cf.Decl.Body != nil {
				dg, dlBody = c.P.Graph(cf), cf.Decl.Body
			}
		}
		if dg == nil {
			continue
		}
		closeCalls := dg.Calls(func(fn *types.Func, _ *ast.CallExpr) bool { return fn != nil && repoName(fn) == "vaxis.Vaxis.Close" })
		panics := dg.Find(func(n ast.Node) bool {
			call, ok := n.(*ast.CallExpr)
			if !ok {
				return false
			}
			id, ok := call.Fun.(*ast.Ident)
			return ok && id.Name == "panic"
		})
		hasRecover := containsNode(dlBody, func(n ast.Node) bool {
			call, ok := n.(*ast.CallExpr)
			if !ok {
				return false
			}
			id, ok := call.Fun.(*ast.Ident)
			return ok && id.Name == "recover"
		})
		if hasRecover && len(closeCalls) > 0 {
			okOrder := true
			for _, p := range panics {
				if !dg.MustPrecede(func(n ast.Node) bool { return isCallTo(info, n, "vaxis.Vaxis.Close") }, p.Loc) {
					okOrder = false
				}
			}
			okDefer = okOrder
		}
	}
	c.check(okDefer, "C04.b", name+"/panic handler restores the terminal before re-panicking", lit.Pos(),
		"deferred recover() calls Close before panic", "a panic in the input goroutine no longer restores the terminal (no deferred recover→Close before the re-panic)")
	// the kill-signal arm calls Close
	okSig := false
	ast.Inspect(litBody, func(n ast.Node) bool {
		cc, ok := n.(*ast.CommClause)
		if !ok || cc.Comm == nil {
			return true
		}
		recvFrom := ""
		ast.Inspect(cc.Comm, func(m ast.Node) bool {
			if u, ok := m.(*ast.UnaryExpr); ok && u.Op.String() == "<-" {
				recvFrom = canonPath(info, u.X)
			}
			return true
		})
		if recvFrom == "Vaxis.chSigKill" {
			for _, s := range cc.Body {
				if containsNode(s, func(m ast.Node) bool { return isCallTo(info, m, "vaxis.Vaxis.Close") }) {
					okSig = true
				}
			}
		}
		return true
	})
	c.check(okSig, "C04.b", name+"/kill-signal arm calls Close", lit.Pos(), "termination signal restores the terminal", "the chSigKill arm of the input loop does not call Close")
}

// emittingCalls lists, in source order along the straight-line body, the calls to mode-establishing functions.
func c04ModeCalls(c *Ctx, fi *FuncInfo, after func(ast.Node) bool) []string {
	info := fi.Pkg.TypesInfo
	var out []string
	started := after == nil
	for _, s := range fi.Decl.Body.List {
		inspectNoLit(s, func(n ast.Node) bool {
			if !started && after(n) {
				started = true
				return true
			}
			if !started {
				return true
			}
			if call, ok := n.(*ast.CallExpr); ok {
				if fn := calleeOf(info, call); fn != nil {
					switch repoName(fn) {
					case "vaxis.Vaxis.enterAltScreen", "vaxis.Vaxis.enableModes", "vaxis.Vaxis.exitAltScreen", "vaxis.Vaxis.disableModes":
						out = append(out, fn.Name())
					}
				}
			}
			return true
		})
	}
	return out
}

func c04Resume(c *Ctx, info *types.Info) {
	nw := c.P.Func("vaxis.New")
	rs := c.P.Func("vaxis.(*Vaxis).Resume")
	if nw == nil || rs == nil {
		c.undecided("C04.c", "vaxis.New/Resume", 0, "New or Resume not found")
		return
	}
	a := c04ModeCalls(c, nw, func(n ast.Node) bool { return isCallTo(info, n, "vaxis.Vaxis.sendQueries") })
	b := c04ModeCalls(c, rs, nil)
	c.check(len(a) > 0 && strings.Join(a, ",") == strings.Join(b, ","), "C04.c", "vaxis.(*Vaxis).Resume/same mode-establishing calls as New", rs.Decl.Pos(),
		"New after the query phase and Resume both run ["+strings.Join(a, ",")+"]", fmt.Sprintf("New establishes [%s] but Resume establishes [%s]", strings.Join(a, ","), strings.Join(b, ",")))
	// both open the tty before establishing modes
	g := c.P.Graph(rs)
	en := g.Calls(func(fn *types.Func, _ *ast.CallExpr) bool {
		return fn != nil && repoName(fn) == "vaxis.Vaxis.enableModes"
	})
	okOpen := len(en) > 0 && g.MustPrecede(func(n ast.Node) bool { return isCallTo(info, n, "vaxis.Vaxis.openTty") }, en[0].Loc)
	c.check(okOpen, "C04.c", "vaxis.(*Vaxis).Resume/openTty precedes enableModes", rs.Decl.Pos(), "raw mode and parser re-established first", "Resume enables modes before reopening the tty")
}

func c04GuardStability(c *Ctx, info *types.Info) {
	// functions that assign Vaxis.caps.*
	writers := map[string]bool{}
	for _, fi := range c.P.FuncsIn("vaxis") {
		if fi.Decl.Body == nil {
			continue
		}
		ast.Inspect(fi.Decl.Body, func(n ast.Node) bool {
			as, ok := n.(*ast.AssignStmt)
			if !ok {
				return true
			}
			for _, l := range as.Lhs {
				if strings.HasPrefix(lhsPath(info, l), "Vaxis.caps.") {
					writers[fi.Name] = true
				}
			}
			return true
		})
	}
	names := []string{}
	for n := range writers {
		names = append(names, n)
	}
	sort.Strings(names)
	allowed := map[string]bool{"vaxis.New": true, "vaxis.(*Vaxis).sendQueries": true, "vaxis.(*Vaxis).applyQuirks": true}
	for _, n := range names {
		if allowed[n] {
			c.ok("C04.d", n+"/writes caps", c.P.Func(n).Decl.Pos(), "start-up phase writer of capability flags")
			continue
		}
		// a writer that is only a part of a start-up function: an unexported function, never used as a value or
		// called dynamically, whose every call is a plain call (no go/defer, not inside a function literal) in the
		// body of a start-up function or of another such part. Where New calls it is judged below (calls that
		// reach a writer count as writes for "no capability write after enableModes"), and the frame/exit/resume
		// roots must still not reach it.
		if c04NeverReferenced(c, c.P.Func(n)) {
			c.okTrivial("C04.d", n+"/writes caps", c.P.Func(n).Decl.Pos(), "unexported and never referenced (dead, or a helper whose calls were all inlined into their callers): it never runs")
			continue
		}
		if root := c04StartupPartOf(c, c.P.Func(n), allowed); root != "" {
			c.ok("C04.d", n+"/writes caps", c.P.Func(n).Decl.Pos(), "writer of capability flags that runs only as a part of %s (unexported, plain calls only)", root)
			continue
		}
		c.bad("C04.d", n+"/writes caps", c.P.Func(n).Decl.Pos(), "capability flags are written outside the start-up phase: a mode enabled under a flag may never be reset")
	}
	nw := c.P.Func("vaxis.New")
	if nw == nil {
		return
	}
	// a call counts as a capability write when the callee reaches a writer through static calls
	reachMemo := map[string]bool{}
	reachesWriter := func(fi *FuncInfo) bool {
		if v, ok := reachMemo[fi.Name]; ok {
			return v
		}
		r := false
		for fn := range staticReach(c.P, fi) {
			if writers[fn] && fn != "vaxis.New" {
				r = true
			}
		}
		reachMemo[fi.Name] = r
		return r
	}
	g := c.P.Graph(nw)
	en := g.Calls(func(fn *types.Func, _ *ast.CallExpr) bool {
		return fn != nil && repoName(fn) == "vaxis.Vaxis.enableModes"
	})
	if len(en) != 1 {
		c.undecided("C04.d", "vaxis.New/enableModes", nw.Decl.Pos(), "expected one call of enableModes in New, found %d", len(en))
		return
	}
	isCapsWrite := func(n ast.Node) bool {
		switch t := n.(type) {
		case *ast.AssignStmt:
			for _, l := range t.Lhs {
				if strings.HasPrefix(lhsPath(info, l), "Vaxis.caps.") {
					return true
				}
			}
		case *ast.CallExpr:
			if fn := calleeOf(info, t); fn != nil {
				if fi := c.P.FuncOfObj(fn); fi != nil && fi.Name != "vaxis.New" && reachesWriter(fi) {
					return true
				}
			}
		}
		return false
	}
	// any caps write reachable after enableModes?
	var offender ast.Node
	g.walk(Loc{en[0].Loc.B, en[0].Loc.Idx + 1}, func(l Loc, n ast.Node) bool {
		if offender == nil {
			inspectNoLit(n, func(m ast.Node) bool {
				if offender == nil && isCapsWrite(m) {
					offender = m
				}
				return offender == nil
			})
		}
		return true
	}, nil)
	if offender == nil {
		c.ok("C04.d", "vaxis.New/no capability write after enableModes", en[0].Node.Pos(), "all capability writers run before the modes are enabled")
	} else {
		c.bad("C04.d", "vaxis.New/no capability write after enableModes", offender.Pos(), "%s runs after enableModes and writes capability flags: a mode enabled under the old value is reset under the new one (or never)", c04NodeString(offender))
	}
	// nothing reachable from the frame / exit path writes caps
	for _, root := range []string{"vaxis.(*Vaxis).Render", "vaxis.(*Vaxis).Suspend", "vaxis.(*Vaxis).Resume"} {
		fi := c.P.Func(root)
		if fi == nil {
			continue
		}
		bad := ""
		for fn := range staticReach(c.P, fi) {
			if writers[fn] {
				bad = fn
			}
		}
		c.check(bad == "", "C04.d", root+"/reaches no capability writer", fi.Decl.Pos(), "capability flags are stable after start-up", "reaches "+bad+" which writes capability flags")
	}
}

func c04NodeString(n ast.Node) string {
	switch t := n.(type) {
	case ast.Expr:
		return types.ExprString(t)
	case *ast.AssignStmt:
		var l []string
		for _, e := range t.Lhs {
			l = append(l, types.ExprString(e))
		}
		return "the assignment to " + strings.Join(l, ", ")
	}
	return fmt.Sprintf("%T", n)
}
