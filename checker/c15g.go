package main

// C15.g (hit testing) and the hit-test obligations of C15.d, formulated on what the code does rather than on what
// the functions are called:
//
//   - the HIT TEST H is the function of vxfw that builds hitResult values (a composite literal of that type) — today
//     hitTest(s, hits, col, row), after a refactoring perhaps a method of a small collector type. Its roles are read
//     off the code: the surface is the parameter of type Surface; col/row are the parameters stored into the fields
//     col/row of the entry; the list is whatever the entry is appended to (a parameter handed through and returned,
//     or a field of a pointer receiver).
//   - the CONTAINMENT TEST is the condition guarding H's recursion into a child: a call of a boolean function C
//     (today (*SubSurface).containsPoint) or a condition written in place. C's body is judged as the half-open
//     rectangle test over whatever supplies origin and size (receiver fields or parameters); the call site is judged
//     on what it binds them to (the visited child's Origin / Surface.Size, and col/row in that order).

import (
	"fmt"
	"go/ast"
	"go/token"
	"go/types"
	"sort"
	"strings"
)

type c15HitModel struct {
	why string // non-empty: the hit test was not recognised

	H       *FuncInfo
	hName   string // key prefix ("vxfw.hitTest" on the confirmed tree)
	g       *FG
	defs    *c15Defs
	recvObj types.Object   // receiver of H, or nil
	recvPtr bool           // the receiver is a pointer
	params  []types.Object // parameters in order
	sP      types.Object   // the surface
	colP    types.Object
	rowP    types.Object
	listP   types.Object // accumulator-passing form: the list parameter
	listID  string       // termOf ID of the list the entry is appended to
	listF   *types.Var   // collector form: the receiver field holding the list
	own     *ast.AssignStmt
	recs    []Hit // recursive calls

	// containment
	C      *FuncInfo // nil: the condition is written in place
	cName  string
	rect   *c15Rect // C's body (or the in-place guard) as a rectangle test
	cParam []types.Object
	cRecv  types.Object

	guardDone bool
	guarded   bool // the recursion is guarded by the containment of (col, row) in the visited child
	rectPos   token.Pos
	shapeKey  string // set when the containment function has a shape the recogniser cannot read
	shapePos  token.Pos
	shapeWhy  string
}

// c15Rect is a conjunction of comparisons read as a half-open rectangle test.
type c15Rect struct {
	atoms        []c15Lin
	oc, or, w, h string // term IDs of Origin.Col, Origin.Row, Width, Height ("" = not found or ambiguous)
	x, y         string // term IDs of the point's column and row
}

func c15StripAddr(e ast.Expr) ast.Expr {
	for {
		e = unparen(e)
		switch t := e.(type) {
		case *ast.UnaryExpr:
			if t.Op == token.AND {
				e = t.X
				continue
			}
		case *ast.StarExpr:
			e = t.X
			continue
		}
		return e
	}
}

func (e *c15Env) isObjConv(x ast.Expr, o types.Object) bool {
	id, ok := c16StripConv(e.info, x).(*ast.Ident)
	return ok && o != nil && e.info.ObjectOf(id) == o
}

// c15RectOf reads atoms as a rectangle test. ints: term IDs that may be the point's coordinates, with a name hint.
func c15RectOf(atoms []c15Lin, ints map[string]string, order []string) *c15Rect {
	r := &c15Rect{atoms: atoms}
	bySuffix := func(sfx string) string {
		found := map[string]bool{}
		for _, a := range atoms {
			for t := range a.co {
				if strings.HasSuffix(t, sfx) && ints[t] == "" {
					found[t] = true
				}
			}
		}
		if len(found) != 1 {
			return ""
		}
		for t := range found {
			return t
		}
		return ""
	}
	r.oc, r.or, r.w, r.h = bySuffix(".Col"), bySuffix(".Row"), bySuffix(".Width"), bySuffix(".Height")
	// the coordinate compared against the width is the column, the one compared against the height the row
	with := func(other string) string {
		if other == "" {
			return ""
		}
		found := map[string]bool{}
		for _, a := range atoms {
			if _, ok := a.co[other]; !ok {
				continue
			}
			for t := range a.co {
				if ints[t] != "" {
					found[t] = true
				}
			}
		}
		if len(found) != 1 {
			return ""
		}
		for t := range found {
			return t
		}
		return ""
	}
	r.x, r.y = with(r.w), with(r.h)
	if r.x == "" || r.y == "" || r.x == r.y {
		// fall back on the names, then on the order
		r.x, r.y = "", ""
		for _, t := range order {
			switch ints[t] {
			case "col":
				r.x = t
			case "row":
				r.y = t
			}
		}
		if (r.x == "" || r.y == "") && len(order) == 2 {
			r.x, r.y = order[0], order[1]
		}
	}
	return r
}

func (e *c15Env) hitModel() *c15HitModel {
	if e.hm != nil {
		return e.hm
	}
	m := &c15HitModel{}
	e.hm = m
	c, info := e.c, e.info
	hitTN, _ := e.pk.Types.Scope().Lookup("hitResult").(*types.TypeName)
	surfTN, _ := e.pk.Types.Scope().Lookup("Surface").(*types.TypeName)
	if hitTN == nil || surfTN == nil {
		m.why = "type hitResult or Surface not found"
		return m
	}
	var cands []*FuncInfo
	for _, fi := range c.P.FuncsIn("vxfw") {
		if fi.Decl.Body == nil {
			continue
		}
		has := false
		ast.Inspect(fi.Decl.Body, func(n ast.Node) bool {
			if cl, ok := n.(*ast.CompositeLit); ok && len(cl.Elts) > 0 {
				if t := info.TypeOf(cl); t != nil && types.Identical(t, hitTN.Type()) {
					has = true
				}
			}
			return !has
		})
		if has {
			cands = append(cands, fi)
		}
	}
	if len(cands) != 1 {
		m.why = fmt.Sprintf("expected one function that builds hitResult entries, found %d", len(cands))
		return m
	}
	m.H = cands[0]
	m.hName = m.H.Name
	fd := m.H.Decl
	m.g = c.P.Graph(m.H)
	m.defs = c15DefsOf(info, fd.Body)
	if fd.Recv != nil && len(fd.Recv.List) == 1 && len(fd.Recv.List[0].Names) == 1 {
		m.recvObj = info.Defs[fd.Recv.List[0].Names[0]]
		if m.recvObj != nil {
			_, m.recvPtr = m.recvObj.Type().(*types.Pointer)
		}
	}
	for _, f := range fd.Type.Params.List {
		for _, n := range f.Names {
			o := info.Defs[n]
			m.params = append(m.params, o)
			if o != nil && types.Identical(o.Type(), surfTN.Type()) {
				if m.sP != nil {
					m.why = "the hit test takes more than one surface"
					return m
				}
				m.sP = o
			}
		}
	}
	if m.sP == nil {
		m.why = "the hit test has no parameter of type Surface"
		return m
	}
	isParam := func(x ast.Expr) types.Object {
		id, ok := c16StripConv(info, x).(*ast.Ident)
		if !ok {
			return nil
		}
		o := info.ObjectOf(id)
		for _, p := range m.params {
			if p == o && o != nil {
				return o
			}
		}
		return nil
	}
	// the own entry:  L = append(L, hitResult{w: s.Widget, col: <col>, row: <row>})
	ast.Inspect(fd.Body, func(n ast.Node) bool {
		as, ok := n.(*ast.AssignStmt)
		if !ok || len(as.Lhs) != 1 || len(as.Rhs) != 1 || as.Tok != token.ASSIGN {
			return true
		}
		cl, ok := unparen(as.Rhs[0]).(*ast.CallExpr)
		if !ok || len(cl.Args) != 2 || cl.Ellipsis.IsValid() {
			return true
		}
		if id, ok := cl.Fun.(*ast.Ident); !ok || id.Name != "append" {
			return true
		} else if _, isBuiltin := info.Uses[id].(*types.Builtin); !isBuiltin {
			return true
		}
		lid := termOf(info, as.Lhs[0]).ID
		if strings.HasPrefix(lid, "expr:") || lid != termOf(info, cl.Args[0]).ID {
			return true
		}
		lit, ok := unparen(m.defs.resolve(cl.Args[1])).(*ast.CompositeLit)
		if !ok || !types.Identical(info.TypeOf(lit), hitTN.Type()) {
			return true
		}
		okW := false
		var colO, rowO types.Object
		for _, el := range lit.Elts {
			kv, ok := el.(*ast.KeyValueExpr)
			if !ok {
				continue
			}
			kid, _ := kv.Key.(*ast.Ident)
			if kid == nil {
				continue
			}
			switch kid.Name {
			case "w":
				sel, ok := unparen(kv.Value).(*ast.SelectorExpr)
				okW = ok && sel.Sel.Name == "Widget" && rootObj(info, sel.X) == m.sP
			case "col":
				colO = isParam(kv.Value)
			case "row":
				rowO = isParam(kv.Value)
			}
		}
		if !okW || colO == nil || rowO == nil || colO == rowO {
			return true
		}
		// the list: a parameter, or a field of the receiver
		var listP types.Object
		var listF *types.Var
		if o := isParam(as.Lhs[0]); o != nil {
			listP = o
		} else if fv := c15Field(info, as.Lhs[0]); fv != nil && m.recvObj != nil && rootObj(info, as.Lhs[0]) == m.recvObj {
			listF = fv
		} else {
			return true
		}
		m.own, m.colP, m.rowP, m.listP, m.listF, m.listID = as, colO, rowO, listP, listF, lid
		return true
	})
	m.recs = m.g.Calls(func(fn *types.Func, call *ast.CallExpr) bool { return fn == m.H.Obj })
	return m
}

// argOf: the argument a call of H passes for parameter p.
func (m *c15HitModel) argOf(call *ast.CallExpr, p types.Object) ast.Expr {
	for i, q := range m.params {
		if q == p && p != nil && i < len(call.Args) {
			return call.Args[i]
		}
	}
	return nil
}

// c15CalleeFormula: the decision a call of a boolean function of the package computes, over the callee's own terms;
// formals lists receiver and parameters with the actual argument of this call.
type c15Formal struct {
	obj    types.Object
	actual ast.Expr
}

func (e *c15Env) boolCallee(call *ast.CallExpr) (fi *FuncInfo, f *c15F, formals []c15Formal) {
	info := e.info
	fn := calleeOf(info, call)
	if fn == nil || fn.Pkg() == nil || fn.Pkg().Path() != c15VxfwPath {
		return nil, nil, nil
	}
	fd := e.decls[fn]
	if fd == nil || fd.Body == nil {
		return nil, nil, nil
	}
	for _, cand := range e.c.P.FuncsIn("vxfw") {
		if cand.Obj == fn {
			fi = cand
		}
	}
	if fi == nil {
		return nil, nil, nil
	}
	f = c15BoolBody(info, fd.Body.List)
	if f == nil {
		return fi, nil, nil
	}
	if fd.Recv != nil && len(fd.Recv.List) == 1 && len(fd.Recv.List[0].Names) == 1 {
		if sel, ok := unparen(call.Fun).(*ast.SelectorExpr); ok {
			formals = append(formals, c15Formal{info.Defs[fd.Recv.List[0].Names[0]], sel.X})
		}
	}
	i := 0
	for _, fl := range fd.Type.Params.List {
		for _, n := range fl.Names {
			if i < len(call.Args) {
				formals = append(formals, c15Formal{info.Defs[n], call.Args[i]})
			}
			i++
		}
	}
	return fi, f, formals
}

// rectOfCallee reads the body of a containment function as a rectangle test over its own terms.
func (e *c15Env) rectOfCallee(f *c15F, formals []c15Formal) *c15Rect {
	atoms, isConj := c15Conj(f)
	if !isConj {
		return nil
	}
	ints := map[string]string{}
	var order []string
	for _, fm := range formals {
		if fm.obj == nil {
			continue
		}
		if b, ok := fm.obj.Type().Underlying().(*types.Basic); ok && b.Info()&types.IsInteger != 0 {
			id := fmt.Sprintf("%p", fm.obj)
			ints[id] = fm.obj.Name()
			if ints[id] != "col" && ints[id] != "row" {
				ints[id] = "int"
			}
			order = append(order, id)
		}
	}
	return c15RectOf(atoms, ints, order)
}

// bindID rewrites a term of the callee into the caller's terms.
func (e *c15Env) bindID(id string, formals []c15Formal, it *c15Iter, defs *c15Defs) string {
	for _, fm := range formals {
		if fm.obj == nil {
			continue
		}
		p := fmt.Sprintf("%p", fm.obj)
		if id == p || strings.HasPrefix(id, p+".") {
			return e.pathID(fm.actual, it, defs) + id[len(p):]
		}
	}
	return id
}

// pathID names the access path x denotes in the caller: selectors are peeled off, address-of / dereference /
// parentheses / integer conversions are transparent, single-definition locals stand for their definitions, and the
// element the loop visits (in any spelling) is "ELEM".
func (e *c15Env) pathID(x ast.Expr, it *c15Iter, defs *c15Defs) string {
	var names []string
	for depth := 0; depth < 16; depth++ {
		x = c15StripAddr(x)
		if it != nil && it.isElem(x) {
			return "ELEM" + joinDot(names)
		}
		switch t := x.(type) {
		case *ast.SelectorExpr:
			if _, ok := e.info.Selections[t]; ok {
				names = append([]string{t.Sel.Name}, names...)
				x = t.X
				continue
			}
		case *ast.Ident:
			if defs != nil {
				if r := defs.resolve(t); r != ast.Expr(t) {
					if _, isCall := unparen(r).(*ast.CallExpr); !isCall {
						x = r
						continue
					}
				}
			}
		case *ast.CallExpr:
			if len(names) == 0 {
				if s := c16StripConv(e.info, t); s != ast.Expr(t) && isIntegerExpr(e.info, s) && isIntegerExpr(e.info, t) {
					x = s
					continue
				}
			}
		}
		break
	}
	return termOf(e.info, x).ID + joinDot(names)
}

// elemCanon returns a function that renames the access paths rooted at the element a loop visits to "ELEM...".
func (e *c15Env) elemCanon(it *c15Iter, defs *c15Defs) func(string) string {
	var prefixes []string
	if it.val != nil {
		prefixes = append(prefixes, fmt.Sprintf("%p", it.val))
	}
	for o, d := range defs.def {
		if d != nil && defs.count[o] == 1 && it.isElem(d) {
			prefixes = append(prefixes, fmt.Sprintf("%p", o))
		}
	}
	if it.idx != nil {
		x := c16StripConv(e.info, it.x)
		prefixes = append(prefixes, "expr:"+types.ExprString(x)+"["+it.idx.Name()+"]")
		prefixes = append(prefixes, termOf(e.info, x).ID+"["+fmt.Sprintf("%p", it.idx)+"]")
		prefixes = append(prefixes, "expr:&"+types.ExprString(x)+"["+it.idx.Name()+"]")
	}
	return func(id string) string {
		for _, p := range prefixes {
			if id == p || strings.HasPrefix(id, p+".") {
				return "ELEM" + id[len(p):]
			}
		}
		return id
	}
}

func (e *c15Env) ruleG() {
	c, info := e.c, e.info
	m := e.hitModel()
	if m.why != "" {
		c.undecided("C15.g", "vxfw.hitTest", 0, "%s", m.why)
		return
	}
	name := m.hName
	fd := m.H.Decl
	g := m.g
	if m.own == nil {
		c.bad("C15.g", name+"/the widget itself is recorded", fd.Pos(), "hitTest does not append hitResult{w: s.Widget, col, row} to hits: the surface's own widget is missing from the chain")
	} else if len(m.recs) == 1 {
		c.check(g.MustPrecede(func(n ast.Node) bool { return n == ast.Node(m.own) }, m.recs[0].Loc), "C15.g", name+"/the widget itself is recorded before its descendants", m.own.Pos(),
			"own entry first: deeper widgets come later, the last entry is the deepest", "the recursion into children can run before the surface's own widget is appended: the last entry of the hit list is no longer the deepest widget")
	}
	if len(m.recs) != 1 {
		c.bad("C15.g", name+"/recursion into children", fd.Pos(), "expected one recursive hitTest call, found %d", len(m.recs))
		return
	}
	if m.own == nil {
		return
	}
	rc := m.recs[0].Node.(*ast.CallExpr)
	loops := c15EnclosingLoops(e.parents, rc)
	var it *c15Iter
	if len(loops) == 1 {
		it = c15IterOf(info, m.defs, loops[0])
	}
	if it == nil || !it.full {
		c.undecided("C15.g", name+"/recursion into children", rc.Pos(), "the recursion is not inside one loop that visits every child")
		return
	}
	xs, _ := unparen(it.x).(*ast.SelectorExpr)
	c.check(xs != nil && xs.Sel.Name == "Children" && rootObj(info, it.x) == m.sP, "C15.g", name+"/every child is examined", it.stmt.Pos(), "iterates over s.Children", "the loop does not iterate over the surface's children")

	// --- the containment test guarding the recursion (hitGuard)
	e.hitGuard()
	if m.shapeWhy != "" {
		c.undecided("C15.g", m.shapeKey, m.shapePos, "%s", m.shapeWhy)
		return
	}
	guarded, rect, rectPos := m.guarded, m.rect, m.rectPos
	if rect == nil {
		c.undecided("C15.g", "vxfw.(*SubSurface).containsPoint", 0, "function not found")
	} else {
		e.rectObligations(m.cName, rect, rectPos)
	}
	c.check(guarded, "C15.g", name+"/recursion only into children containing the point", rc.Pos(), "guarded by child.containsPoint(col, row)",
		"the recursion is not guarded by child.containsPoint(col, row) (in that order): widgets not under the pointer join the chain, or the one under it is skipped")

	// --- the recursion's arguments
	sArg := m.argOf(rc, m.sP)
	var s0 *ast.SelectorExpr
	if sArg != nil {
		s0, _ = unparen(m.defs.resolve(sArg)).(*ast.SelectorExpr)
	}
	sameList := false
	switch {
	case m.listP != nil:
		la := m.argOf(rc, m.listP)
		sameList = la != nil && e.isObjConv(la, m.listP)
	case m.listF != nil:
		// the collector the entries go to is the receiver itself
		if sel, ok := unparen(rc.Fun).(*ast.SelectorExpr); ok {
			id, isID := unparen(sel.X).(*ast.Ident)
			sameList = isID && info.ObjectOf(id) == m.recvObj
		}
	}
	c.check(s0 != nil && s0.Sel.Name == "Surface" && it.isElem(s0.X) && sameList, "C15.g", name+"/recursion on the child's surface with the same list", rc.Pos(),
		"hitTest(child.Surface, hits, ...)", "the recursion does not descend into the child's surface with the accumulated list")
	for _, d := range []struct {
		p     types.Object
		field string
	}{{m.colP, "Col"}, {m.rowP, "Row"}} {
		a := m.argOf(rc, d.p)
		if a == nil {
			c.undecided("C15.g", name+"/recursion arguments", rc.Pos(), "unexpected argument count")
			return
		}
		arg := m.defs.resolve(a)
		got := c15LinOf(info, arg)
		origin, found := it.elemField(arg, "Origin", d.field)
		pT := c15TermLin(fmt.Sprintf("%p", d.p), d.p.Name(), true)
		okArg := found && got.canon() == pT.add(origin, -1).canon()
		c.check(okArg, "C15.g", name+"/child-relative "+strings.ToLower(d.field), a.Pos(), d.p.Name()+" - child.Origin."+d.field,
			"the child is hit-tested at "+got.String()+" instead of "+d.p.Name()+" - child.Origin."+d.field+": grandchildren are tested against the wrong point")
	}
	// --- the entries found in children reach the caller
	switch {
	case m.listP != nil:
		okBack := false
		if as, ok := e.parents[rc].(*ast.AssignStmt); ok && len(as.Lhs) == 1 && e.isObjConv(as.Lhs[0], m.listP) {
			okBack = true
		}
		retOK := true
		ast.Inspect(fd.Body, func(n ast.Node) bool {
			if r, ok := n.(*ast.ReturnStmt); ok {
				if len(r.Results) != 1 || !e.isObjConv(r.Results[0], m.listP) {
					retOK = false
				}
			}
			return true
		})
		c.check(okBack && retOK, "C15.g", name+"/accumulated list is returned", fd.Pos(), "hits = hitTest(...); return hits", "the hits found in children are not accumulated into the returned list")
	default:
		// collector form: the list lives behind a pointer receiver, so what the recursion appends is what the caller sees
		c.check(m.recvPtr, "C15.g", name+"/accumulated list is returned", fd.Pos(), "the entries are appended to a field of the pointer receiver",
			"the hit test appends to a field of a value receiver: the entries are lost when the call returns")
	}
}

// rectObligations: the condition is exactly the half-open rectangle test.
func (e *c15Env) rectObligations(name string, r *c15Rect, pos token.Pos) {
	c := e.c
	term := func(id string) (c15Lin, bool) {
		if id == "" {
			return c15Const(0), false
		}
		return c15Lin{co: map[string]int64{id: 1}}, true
	}
	col, okX := term(r.x)
	row, okY := term(r.y)
	oc, okOC := term(r.oc)
	or, okOR := term(r.or)
	w, okW := term(r.w)
	hgt, okH := term(r.h)
	type wantT struct {
		canon, text string
		ok          bool
	}
	wants := []wantT{
		{oc.add(col, -1).canon(), "col >= Origin.Col", okX && okOC},
		{col.add(oc, -1).add(w, -1).plus(1).canon(), "col < Origin.Col + Width", okX && okOC && okW},
		{or.add(row, -1).canon(), "row >= Origin.Row", okY && okOR},
		{row.add(or, -1).add(hgt, -1).plus(1).canon(), "row < Origin.Row + Height", okY && okOR && okH},
	}
	sort.Slice(wants, func(i, j int) bool { return wants[i].text < wants[j].text })
	got := map[string]bool{}
	for _, a := range r.atoms {
		got[a.canon()] = true
	}
	for _, wnt := range wants {
		c.check(wnt.ok && got[wnt.canon], "C15.g", name+"/"+wnt.text, pos, "present", "containsPoint does not test "+wnt.text+" (half-open rectangle): a widget next to the pointer is hit, or the widget under it is missed")
		if wnt.ok {
			delete(got, wnt.canon)
		}
	}
	var extra []string
	for _, a := range r.atoms {
		if got[a.canon()] {
			extra = append(extra, a.String()+" <= 0")
			delete(got, a.canon())
		}
	}
	c.check(len(extra) == 0, "C15.g", name+"/no further restriction", pos, "exactly the four bounds", "containsPoint also requires "+strings.Join(extra, ", ")+": points inside the surface are rejected")
}

// rootGuard: is the call of the hit test in `update` guarded by the containment test of the pointer position
// (mouse.Col, mouse.Row in that order)? isCoord tells whether an expression is the pointer's Col / Row.
func (e *c15Env) rootGuard(g *FG, loc Loc, isCoord func(x ast.Expr, field string) bool) bool {
	info := e.info
	m := e.hitModel()
	e.hitGuard()
	for _, gd := range g.Guards(loc) {
		if gd.Cond.Tag != nil {
			continue
		}
		x := unparen(gd.Cond.Expr)
		pol := gd.Pol
		for {
			u, ok := x.(*ast.UnaryExpr)
			if !ok || u.Op != token.NOT {
				break
			}
			pol = !pol
			x = unparen(u.X)
		}
		if cl, ok := x.(*ast.CallExpr); ok && pol {
			fi, f, formals := e.boolCallee(cl)
			if fi == nil || f == nil {
				continue
			}
			if m.C != nil && fi.Obj != m.C.Obj {
				continue // not the test the hit test itself uses for the children
			}
			r := e.rectOfCallee(f, formals)
			if r == nil || r.x == "" || r.y == "" {
				continue
			}
			var xa, ya ast.Expr
			for _, fm := range formals {
				if fm.obj == nil {
					continue
				}
				switch fmt.Sprintf("%p", fm.obj) {
				case r.x:
					xa = fm.actual
				case r.y:
					ya = fm.actual
				}
			}
			if xa != nil && ya != nil && isCoord(xa, "Col") && isCoord(ya, "Row") {
				return true
			}
			continue
		}
		if m.C != nil {
			continue
		}
		// the containment test written in place
		f := c15Formula(info, gd.Cond.Expr)
		atoms, isConj := c15ConjPol(f, gd.Pol)
		if !isConj || len(atoms) != 4 {
			continue
		}
		ints := map[string]string{}
		var order []string
		ast.Inspect(gd.Cond.Expr, func(n ast.Node) bool {
			if x, ok := n.(ast.Expr); ok {
				for _, fld := range []string{"Col", "Row"} {
					if isCoord(x, fld) {
						id := termOf(info, x).ID
						if ints[id] == "" {
							ints[id] = strings.ToLower(fld)
							order = append(order, id)
						}
						return false
					}
				}
			}
			return true
		})
		r := c15RectOf(atoms, ints, order)
		if r.x != "" && r.y != "" && ints[r.x] == "col" && ints[r.y] == "row" && r.w != "" && r.h != "" {
			return true
		}
	}
	return false
}

// hitGuard analyses (once) the condition guarding the hit test's recursion into a child: the containment test.
func (e *c15Env) hitGuard() {
	m := e.hitModel()
	if m.guardDone || m.why != "" || m.own == nil || len(m.recs) != 1 {
		return
	}
	m.guardDone = true
	info := e.info
	g := m.g
	name := m.hName
	rc := m.recs[0].Node.(*ast.CallExpr)
	loops := c15EnclosingLoops(e.parents, rc)
	var it *c15Iter
	if len(loops) == 1 {
		it = c15IterOf(info, m.defs, loops[0])
	}
	if it == nil || !it.full {
		return
	}
	canon := e.elemCanon(it, m.defs)
	colID, rowID := fmt.Sprintf("%p", m.colP), fmt.Sprintf("%p", m.rowP)
	guarded := false
	var rect *c15Rect
	rectPos := rc.Pos()
	for _, gd := range g.Guards(m.recs[0].Loc) {
		if gd.Cond.Tag != nil {
			continue
		}
		x := unparen(gd.Cond.Expr)
		pol := gd.Pol
		for {
			u, ok := x.(*ast.UnaryExpr)
			if !ok || u.Op != token.NOT {
				break
			}
			pol = !pol
			x = unparen(u.X)
		}
		if cl, ok := x.(*ast.CallExpr); ok {
			fi, f, formals := e.boolCallee(cl)
			if fi == nil {
				continue
			}
			if f == nil {
				continue
			}
			r := e.rectOfCallee(f, formals)
			if r == nil {
				m.shapeKey, m.shapePos, m.shapeWhy = fi.Name+"/shape", fi.Decl.Body.Pos(), "the returned condition is not a conjunction of comparisons"
				return
			}
			if r.oc == "" && r.or == "" && r.w == "" && r.h == "" {
				continue // some other predicate
			}
			rect, rectPos = r, fi.Decl.Body.Pos()
			m.rect = r
			m.C, m.cName = fi, fi.Name
			for _, fm := range formals {
				m.cParam = append(m.cParam, fm.obj)
			}
			// what the call binds: the point in (col, row) order, origin and size of the visited child
			b := func(id string) string { return canon(e.bindID(id, formals, it, m.defs)) }
			if pol && r.x != "" && r.y != "" && b(r.x) == colID && b(r.y) == rowID &&
				(r.oc == "" || b(r.oc) == "ELEM.Origin.Col") && (r.or == "" || b(r.or) == "ELEM.Origin.Row") &&
				(r.w == "" || b(r.w) == "ELEM.Surface.Size.Width") && (r.h == "" || b(r.h) == "ELEM.Surface.Size.Height") {
				guarded = true
			}
			break
		}
		// a condition written in place
		f := c15Formula(info, gd.Cond.Expr)
		atoms, isConj := c15ConjPol(f, gd.Pol)
		if !isConj || len(atoms) < 2 {
			continue
		}
		for i := range atoms {
			na := c15Lin{co: map[string]int64{}, k: atoms[i].k}
			for t, v := range atoms[i].co {
				na.co[canon(t)] += v
			}
			atoms[i] = na
		}
		mentions := false
		for _, a := range atoms {
			for t := range a.co {
				if strings.HasPrefix(t, "ELEM.") {
					mentions = true
				}
			}
		}
		if !mentions {
			continue
		}
		r := c15RectOf(atoms, map[string]string{colID: "col", rowID: "row"}, []string{colID, rowID})
		rect, rectPos = r, gd.Cond.Expr.Pos()
		m.rect, m.cName = r, name+"/child containment test"
		if r.x == colID && r.y == rowID && (r.oc == "" || r.oc == "ELEM.Origin.Col") && (r.or == "" || r.or == "ELEM.Origin.Row") &&
			(r.w == "" || r.w == "ELEM.Surface.Size.Width") && (r.h == "" || r.h == "ELEM.Surface.Size.Height") {
			guarded = true
		}
		break
	}
	m.guarded, m.rect, m.rectPos = guarded, rect, rectPos
}
