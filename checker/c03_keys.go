package main

// c03_keys.go — key flow for rules C03.c / C03.d, interprocedural.
//
// A key is born at a call of decodeKey (or of a same-package wrapper that returns such a key), must pass
// `if pastePending { key.EventType = EventPaste }`, and must reach exactly one delivery: PostEventBlocking(key)
// or a same-package helper that delivers its Key parameter. The flow is followed through small helpers by
// summaries, so it does not matter whether decode / mark / post sit in handleSequence or in extracted
// functions (with or without the receiver, taking the sequence or the key):
//   source  function returns a key it decoded: marked ("M") or not ("U")
//   sink    function delivers its i-th parameter of type Key: marking it itself ("M") or not ("U")
//   deliver function decodes, marks and delivers a key completely inside (its own c/d obligations hold)
// Obligations are recorded once per birth site (and per sink), in whatever function it lives.
// What must exist semantically: in handleSequence every sequence type that carries keys (Print, C0, ESC, SS3:
// on every path; CSI: after the final-byte dispatch, rule g) reaches a delivery point.

import (
	"fmt"
	"go/ast"
	"go/constant"
	"go/token"
	"go/types"
	"sort"
	"strings"

	"golang.org/x/tools/go/cfg"
)

type c03KeySumm struct {
	deliver   bool
	source    string
	sink      map[int]string
	computing bool
}

type c03KeyEnv struct {
	pending *types.Var
	evType  *types.Var
	evPaste int64
	keyT    types.Type
	summ    map[*types.Func]*c03KeySumm
	inReach map[*types.Func]*FuncInfo
}

func (x *c03Env) keyEnv() *c03KeyEnv {
	if x.keys != nil {
		return x.keys
	}
	k := &c03KeyEnv{summ: map[*types.Func]*c03KeySumm{}, inReach: map[*types.Func]*FuncInfo{}}
	k.pending = x.fieldVar("Vaxis", "pastePending")
	k.evType = x.fieldVar("Key", "EventType")
	if cst, ok := x.pk.Types.Scope().Lookup("EventPaste").(*types.Const); ok {
		k.evPaste, _ = constToInt(types.TypeAndValue{Value: cst.Val()})
	} else {
		k.evType = nil
	}
	if tn, ok := x.pk.Types.Scope().Lookup("Key").(*types.TypeName); ok {
		k.keyT = tn.Type()
	}
	for _, f := range x.reach {
		if f.fi != nil && f.pk == x.pk {
			k.inReach[f.fi.Obj] = f.fi
		}
	}
	if len(x.reach) == 0 { // no goroutine found: fall back on what handleSequence reaches
		for n := range staticReach(x.c.P, x.handle) {
			if fi := x.c.P.Func(n); fi != nil && fi.Pkg == x.pk {
				k.inReach[fi.Obj] = fi
			}
		}
	}
	x.keys = k
	return k
}

// isPendingTest: (e tests pastePending, polarity of "pending" when e is true)
func (x *c03Env) isPendingTest(e ast.Expr) (bool, bool) {
	pending := x.keyEnv().pending
	pol := true
	for {
		e = unparen(e)
		if u, ok := e.(*ast.UnaryExpr); ok && u.Op == token.NOT {
			pol = !pol
			e = u.X
			continue
		}
		break
	}
	if b, ok := e.(*ast.BinaryExpr); ok && (b.Op == token.EQL || b.Op == token.NEQ) {
		for _, pr := range [][2]ast.Expr{{b.X, b.Y}, {b.Y, b.X}} {
			if tv, ok := x.info.Types[pr[1]]; ok && tv.Value != nil && tv.Value.Kind() == constant.Bool && x.selectsField(pr[0], pending) {
				return true, pol == (constant.BoolVal(tv.Value) == (b.Op == token.EQL))
			}
		}
	}
	return x.selectsField(e, pending), pol
}

type c03KeyWalk struct {
	problem   string
	undecided bool
	posts     int   // delivery terminals reached
	postSt    []int // state at each delivery
	returns   []int // state at each `return key`
	exitNoEnd bool  // a path reaches the end of the function without delivery or return of the key
	dup       bool  // a second delivery of the same key is reachable
	endPos    []token.Pos
}

// walkKey follows obj from `from` (exclusive of earlier nodes). init: 0 = unmarked & untested, 4 = already marked correctly.
func (x *c03Env) walkKey(fi *FuncInfo, g *FG, from Loc, obj types.Object, init int) *c03KeyWalk {
	k := x.keyEnv()
	r := &c03KeyWalk{}
	isMark := func(n ast.Node) bool {
		as, ok := n.(*ast.AssignStmt)
		if !ok || as.Tok != token.ASSIGN || len(as.Lhs) != 1 || len(as.Rhs) != 1 {
			return false
		}
		if !x.selectsField(as.Lhs[0], k.evType) || rootObj(x.info, as.Lhs[0]) != obj {
			return false
		}
		v, ok := constInt(x.info, as.Rhs[0])
		return ok && v == k.evPaste
	}
	writesEvType := func(n ast.Node) bool {
		as, ok := n.(*ast.AssignStmt)
		if !ok {
			return false
		}
		for _, l := range as.Lhs {
			if x.selectsField(l, k.evType) && rootObj(x.info, l) == obj {
				return true
			}
			if id, ok := unparen(l).(*ast.Ident); ok && x.info.ObjectOf(id) == obj && as.Tok != token.DEFINE {
				return true // the whole key is overwritten
			}
		}
		return false
	}
	writesPending := func(n ast.Node) bool {
		as, ok := n.(*ast.AssignStmt)
		if !ok {
			return false
		}
		for _, l := range as.Lhs {
			if x.selectsField(l, k.pending) {
				return true
			}
		}
		return false
	}
	// delivery(n): "" | "post" | "sinkM" | "sinkU"
	delivery := func(n ast.Node) string {
		out := ""
		inspectNoLit(n, func(m ast.Node) bool {
			call, ok := m.(*ast.CallExpr)
			if !ok || out != "" {
				return out == ""
			}
			if x.isPostOf(call, obj, "vaxis.Vaxis.PostEventBlocking") || x.isPostOf(call, obj, "vaxis.Vaxis.PostEvent") {
				out = "post"
				return false
			}
			if fn := calleeOf(x.info, call); fn != nil && k.inReach[fn] != nil {
				for i, a := range call.Args {
					if id, ok := unparen(a).(*ast.Ident); ok && x.info.ObjectOf(id) == obj {
						if sk := x.keySumm(k.inReach[fn]).sink[i]; sk != "" {
							out = "sink" + sk
						}
					}
				}
			}
			return true
		})
		return out
	}
	returnsKey := func(n ast.Node) bool {
		rs, ok := n.(*ast.ReturnStmt)
		if !ok {
			return false
		}
		for _, e := range rs.Results {
			if id, ok := unparen(e).(*ast.Ident); ok && x.info.ObjectOf(id) == obj {
				return true
			}
		}
		return false
	}
	type node struct {
		b      *cfg.Block
		st     int
		posted bool
	}
	seen := map[node]bool{}
	var walk func(b *cfg.Block, idx, st int, posted bool)
	walk = func(b *cfg.Block, idx, st int, posted bool) {
		if r.problem != "" {
			return
		}
		if idx == 0 {
			if seen[node{b, st, posted}] {
				return
			}
			seen[node{b, st, posted}] = true
		}
		for i := idx; i < len(b.Nodes); i++ {
			n := b.Nodes[i]
			if _, isRange := n.(*ast.RangeStmt); isRange {
				continue
			}
			if posted {
				if delivery(n) != "" {
					r.dup = true
					return
				}
				continue
			}
			if containsNode(n, writesPending) {
				r.problem = "pastePending is assigned between the decode and the post"
				return
			}
			if containsNode(n, isMark) {
				if st != 1 {
					r.problem = "key.EventType = EventPaste is executed on a path where pastePending was not tested true: keys outside a paste are marked as pasted"
					return
				}
				st = 2
			} else if containsNode(n, writesEvType) {
				r.problem = "key.EventType is overwritten between the decode and the post"
				return
			}
			switch d := delivery(n); d {
			case "post", "sinkU":
				r.posts++
				r.postSt = append(r.postSt, st)
				switch st {
				case 0:
					r.problem = "the key is posted on a path that never tests pastePending: a key inside a bracketed paste is not marked as pasted"
					return
				case 1:
					r.problem = "the key is posted on the pastePending path without key.EventType = EventPaste"
					return
				}
				posted = true
				continue
			case "sinkM":
				r.posts++
				r.postSt = append(r.postSt, 4)
				posted = true
				continue
			}
			if returnsKey(n) {
				r.returns = append(r.returns, st)
				return
			}
		}
		if len(b.Succs) == 0 {
			if g.isNormalExit(b) && b.Kind != cfg.KindSelectAfterCase && !posted {
				r.exitNoEnd = true
				if len(b.Nodes) > 0 {
					r.endPos = append(r.endPos, b.Nodes[len(b.Nodes)-1].Pos())
				}
			}
			return
		}
		cd := g.BranchCond(b)
		if cd != nil && len(b.Succs) == 2 && !posted {
			is, pol := false, true
			if cd.Tag == nil {
				is, pol = x.isPendingTest(cd.Expr)
			} else if x.selectsField(cd.Tag, k.pending) {
				if tv, ok := x.info.Types[cd.Expr]; ok && tv.Value != nil && tv.Value.Kind() == constant.Bool {
					is, pol = true, constant.BoolVal(tv.Value)
				}
			}
			if is {
				if st == 0 {
					t, f := 1, 3
					if !pol {
						t, f = 3, 1
					}
					walk(b.Succs[0], 0, t, posted)
					walk(b.Succs[1], 0, f, posted)
					return
				}
			} else if cd.Tag == nil && containsNode(cd.Expr, func(m ast.Node) bool { e, ok := m.(ast.Expr); return ok && x.selectsField(e, k.pending) }) {
				r.problem = "pastePending is tested inside a compound condition the rule does not understand"
				r.undecided = true
				return
			}
		}
		for _, s := range b.Succs {
			walk(s, 0, st, posted)
		}
	}
	walk(from.B, from.Idx, init, false)
	return r
}

// keySumm computes the summary of fi and records the c/d obligations of the key births and sinks inside it.
func (x *c03Env) keySumm(fi *FuncInfo) *c03KeySumm {
	k := x.keyEnv()
	if s, ok := k.summ[fi.Obj]; ok {
		return s // (while computing: the empty summary — recursion is not followed)
	}
	s := &c03KeySumm{sink: map[int]string{}, computing: true}
	k.summ[fi.Obj] = s
	c := x.c
	g := c.P.Graph(fi)
	ctx := x.ctxOf(x.pk)
	// sinks: parameters of type Key
	if name := repoName(fi.Obj); name != "vaxis.Vaxis.PostEventBlocking" && name != "vaxis.Vaxis.PostEvent" {
		idx := 0
		for _, f := range fi.Decl.Type.Params.List {
			for _, nm := range f.Names {
				po := x.info.Defs[nm]
				if po != nil && k.keyT != nil && types.Identical(po.Type(), k.keyT) {
					r := x.walkKey(fi, g, g.Entry(), po, 0)
					key := fmt.Sprintf("%s/key parameter %s delivered with pastePending => EventPaste", fi.Name, nm.Name)
					switch {
					case r.posts == 0:
						// not a sink
					case !x.anyTested(r.postSt) && (r.problem == "" || strings.Contains(r.problem, "never tests")):
						s.sink[idx] = "U" // delivers what it is given; marking is the caller's obligation
					case r.undecided:
						c.undecided("C03.d", key, fi.Decl.Pos(), "%s", r.problem)
						s.sink[idx] = "M"
					case r.problem != "":
						c.bad("C03.d", key, fi.Decl.Pos(), "%s", r.problem)
						s.sink[idx] = "M"
					case r.exitNoEnd || r.dup || len(r.returns) > 0:
						c.bad("C03.c", fmt.Sprintf("%s/key parameter %s is delivered exactly once on every path", fi.Name, nm.Name), fi.Decl.Pos(), "the helper delivers the key it is given on some paths only, or twice")
						s.sink[idx] = "M"
					default:
						c.ok("C03.d", key, fi.Decl.Pos(), "every path to the delivery tests pastePending and marks the key on the true edge only")
						s.sink[idx] = "M"
					}
				}
				idx++
			}
			if len(f.Names) == 0 {
				idx++
			}
		}
	}
	// births
	births := g.Calls(func(fn *types.Func, _ *ast.CallExpr) bool {
		if fn == nil {
			return false
		}
		if repoName(fn) == "vaxis.decodeKey" {
			return true
		}
		if cfi := k.inReach[fn]; cfi != nil && cfi != fi {
			return x.keySumm(cfi).source != ""
		}
		return false
	})
	nDeliver, nReturn := 0, 0
	for _, h := range births {
		call := h.Node.(*ast.CallExpr)
		init := 0
		what := "decodeKey"
		if fn := calleeOf(x.info, call); repoName(fn) != "vaxis.decodeKey" {
			what = fn.Name()
			if x.keySumm(k.inReach[fn]).source == "M" {
				init = 4
			}
		}
		where := ctx(call)
		base := fmt.Sprintf("%s/[%s] key := %s", fi.Name, where, what)
		dkey := fmt.Sprintf("%s/[%s] key posted with pastePending => EventPaste", fi.Name, where)
		// `return decodeKey(seq)`: an unmarked source
		if rs, ok := x.par[call].(*ast.ReturnStmt); ok && len(rs.Results) >= 1 && unparen(rs.Results[0]) == ast.Expr(call) {
			nReturn++
			if init == 4 {
				s.source = "M"
			} else if s.source == "" {
				s.source = "U"
			}
			c.ok("C03.c", base+" is returned to the caller", call.Pos(), "the caller's site carries the delivery obligations")
			continue
		}
		// decodeKey(...) used directly as the argument of a post
		if pc, ok := x.par[call].(*ast.CallExpr); ok && (isCallTo(x.info, pc, "vaxis.Vaxis.PostEventBlocking") || isCallTo(x.info, pc, "vaxis.Vaxis.PostEvent")) {
			nDeliver++
			if init == 4 {
				c.ok("C03.d", dkey, call.Pos(), "the key comes marked from its source")
			} else {
				c.bad("C03.d", dkey, call.Pos(), "the decoded key is posted directly, without the pastePending test: a key inside a bracketed paste is not marked as pasted")
			}
			continue
		}
		// decodeKey(...) used directly as the argument of a delivering helper
		if pc, ok := x.par[call].(*ast.CallExpr); ok {
			if fn := calleeOf(x.info, pc); fn != nil && k.inReach[fn] != nil {
				handled := false
				for i, a := range pc.Args {
					if unparen(a) != ast.Expr(call) {
						continue
					}
					switch x.keySumm(k.inReach[fn]).sink[i] {
					case "M":
						nDeliver++
						handled = true
						c.ok("C03.d", dkey, call.Pos(), "the key is handed to %s, which marks and delivers it", fn.Name())
					case "U":
						nDeliver++
						handled = true
						if init == 4 {
							c.ok("C03.d", dkey, call.Pos(), "the key comes marked from its source and %s delivers it", fn.Name())
						} else {
							c.bad("C03.d", dkey, call.Pos(), "the decoded key is handed to %s, which posts it without the pastePending test: a key inside a bracketed paste is not marked as pasted", fn.Name())
						}
					}
				}
				if handled {
					continue
				}
			}
		}
		obj := x.assignedVar(call)
		if obj == nil {
			c.undecided("C03.c", base+" result bound to a variable", call.Pos(), "the result of %s is neither bound to a single variable, returned, nor posted directly", what)
			continue
		}
		r := x.walkKey(fi, g, Loc{h.Loc.B, h.Loc.Idx + 1}, obj, init)
		if r.posts == 0 && len(r.returns) > 0 && !r.exitNoEnd && r.problem == "" {
			// source wrapper: the key is handed back to the caller
			nReturn++
			marked, unmarked := true, true
			for _, st := range r.returns {
				if st == 0 {
					marked = false
				} else if st == 2 || st == 3 || st == 4 {
					unmarked = false
				} else {
					marked, unmarked = false, false
				}
			}
			switch {
			case marked:
				s.source = "M"
				c.ok("C03.d", dkey, call.Pos(), "the key is returned marked: every path to the return tests pastePending and marks on the true edge only")
			case unmarked:
				if s.source == "" {
					s.source = "U"
				}
				c.ok("C03.c", base+" is returned to the caller", call.Pos(), "unmarked; the caller's site carries the marking and delivery obligations")
			default:
				c.bad("C03.d", dkey, call.Pos(), "the key is returned marked on some paths and unmarked on others")
			}
			continue
		}
		nDeliver++
		okFollow := !r.exitNoEnd && len(r.returns) == 0 && r.posts > 0
		pos := call.Pos()
		c.check(okFollow || (r.problem != "" && r.posts > 0 && !r.exitNoEnd && len(r.returns) == 0), "C03.c", base+" is posted (blocking) on every path", pos,
			"every path from the decode to the end of the function delivers the key",
			"there is a path from the decode to the end of the function that does not deliver the key: a key press is lost")
		c.check(!r.dup && r.posts > 0, "C03.c", base+" is posted at most once", pos, "no second delivery of the same key is reachable", "the same key can be delivered twice (or is never delivered)")
		// a dropping post is reported by the PostEvent scan of rule c; here: blocking post required
		if containsNode(fi.Decl.Body, func(m ast.Node) bool { return x.isPostOf(m, obj, "vaxis.Vaxis.PostEvent") }) {
			c.bad("C03.c", base+" is posted (blocking) on every path", pos, "the key is delivered with the dropping PostEvent: when the queue is full the key press is silently lost")
		}
		switch {
		case r.undecided:
			c.undecided("C03.d", dkey, pos, "%s", r.problem)
		case r.problem != "":
			c.bad("C03.d", dkey, pos, "%s", r.problem)
		case r.posts == 0:
			c.bad("C03.d", dkey, pos, "no delivery of the decoded key is reachable")
		default:
			c.ok("C03.d", dkey, pos, "every path to the delivery tests pastePending and marks the key on the true edge only")
		}
	}
	s.deliver = nDeliver > 0
	s.computing = false
	return s
}

func (x *c03Env) anyTested(sts []int) bool {
	for _, st := range sts {
		if st != 0 {
			return true
		}
	}
	return false
}

// deliveryPoints: nodes of g that decode-and-deliver a key: births inside this function, and calls of
// same-package helpers whose summary says they deliver.
func (x *c03Env) deliveryPoints(g *FG) []Hit {
	k := x.keyEnv()
	return g.Calls(func(fn *types.Func, _ *ast.CallExpr) bool {
		if fn == nil {
			return false
		}
		if repoName(fn) == "vaxis.decodeKey" {
			return true
		}
		if cfi := k.inReach[fn]; cfi != nil {
			s := x.keySumm(cfi)
			return s.deliver || s.source != ""
		}
		return false
	})
}

// ruleKeys: record the obligations of every key birth in the input context, then the semantic coverage:
// every key-carrying sequence type of handleSequence reaches a delivery point.
func (x *c03Env) ruleKeys() {
	c := x.c
	k := x.keyEnv()
	if k.pending == nil || k.evType == nil || k.keyT == nil {
		c.undecided("C03.d", "setup/Vaxis.pastePending, Key.EventType, EventPaste", 0, "paste state not found")
		return
	}
	var fis []*FuncInfo
	for _, fi := range k.inReach {
		fis = append(fis, fi)
	}
	sort.Slice(fis, func(i, j int) bool { return fis[i].Name < fis[j].Name })
	for _, fi := range fis {
		if fi.Decl.Body != nil {
			x.keySumm(fi)
		}
	}
	// coverage per sequence type
	g := c.P.Graph(x.handle)
	ts := x.handleTypeSwitch()
	if ts == nil {
		c.undecided("C03.c", x.handle.Name+"/dispatch by sequence type", x.handle.Decl.Pos(), "handleSequence has no top-level type switch over the sequence")
		return
	}
	points := x.deliveryPoints(g)
	isPoint := func(n ast.Node) bool {
		for _, p := range points {
			if containsNode(n, func(m ast.Node) bool { return m == p.Node }) {
				return true
			}
		}
		return false
	}
	for _, tname := range []string{"Print", "C0", "ESC", "SS3", "CSI"} {
		var cl *ast.CaseClause
		for _, s := range ts.Body.List {
			cc := s.(*ast.CaseClause)
			for _, e := range cc.List {
				if typeName(x.info.TypeOf(e)) == modPath+"/ansi."+tname {
					cl = cc
				}
			}
		}
		key := fmt.Sprintf("%s/%s sequences are decoded and delivered", x.handle.Name, tname)
		if cl == nil {
			c.bad("C03.c", key, ts.Pos(), "the type switch of handleSequence has no case for ansi.%s: key presses encoded that way yield no event", tname)
			continue
		}
		var start *cfg.Block
		for _, b := range g.Blocks {
			if b.Kind == cfg.KindSwitchCaseBody && b.Stmt == ast.Stmt(cl) {
				start = b
			}
		}
		if start == nil {
			c.undecided("C03.c", key, cl.Pos(), "case clause not found in the control-flow graph")
			continue
		}
		if tname == "CSI" {
			has := false
			for _, p := range points {
				if cl.Pos() <= p.Node.Pos() && p.Node.End() <= cl.End() {
					has = true
				}
			}
			c.check(has, "C03.c", key, cl.Pos(), "the clause contains a key delivery (its reachability for every final is rule g)", "the CSI clause contains no key decode / delivery")
			continue
		}
		okAll, _ := x.allPathsPass(g, Loc{start, 0}, nil, isPoint)
		c.check(okAll, "C03.c", key, cl.Pos(), "every path through the clause passes a key decode-and-delivery",
			"there is a path through the clause that neither decodes nor delivers a key: those key presses are lost")
	}
}

// handleTypeSwitch: the type switch of handleSequence over its sequence parameter.
func (x *c03Env) handleTypeSwitch() *ast.TypeSwitchStmt {
	var out *ast.TypeSwitchStmt
	ast.Inspect(x.handle.Decl.Body, func(n ast.Node) bool {
		ts, ok := n.(*ast.TypeSwitchStmt)
		if !ok || out != nil {
			return out == nil
		}
		for _, cl := range ts.Body.List {
			for _, e := range cl.(*ast.CaseClause).List {
				if typeName(x.info.TypeOf(e)) == modPath+"/ansi.CSI" {
					out = ts
				}
			}
		}
		return out == nil
	})
	return out
}
